(* Basic lemmas about rooted ordered trees (Tree/RTree.v). *)
From Coq Require Import List Arith Bool Lia Permutation.
From PTN Require Import Tree.RTree.
Import ListNotations.

(* ---- list helpers ----------------------------------------------------------------- *)
Lemma mem_In : forall x l, mem x l = true <-> In x l.
Proof.
  intros x l. unfold mem. rewrite existsb_exists. split.
  - intros [y [Hy He]]. apply Nat.eqb_eq in He. subst. exact Hy.
  - intros H. exists x. split; [exact H | apply Nat.eqb_refl].
Qed.

Lemma mem_false : forall x l, mem x l = false <-> ~ In x l.
Proof.
  intros x l. rewrite <- mem_In. destruct (mem x l); split; intros H; try congruence; try (intro; congruence).
Qed.

Lemma first_some_Some : forall {A B} (f : A -> option B) l b,
  first_some f l = Some b ->
  exists l1 a l2, l = l1 ++ a :: l2 /\ f a = Some b /\ forall a', In a' l1 -> f a' = None.
Proof.
  intros A B f l. induction l as [|a l IH]; intros b H; simpl in H; [discriminate|].
  destruct (f a) eqn:Ha.
  - inversion H; subst. exists [], a, l. repeat split; auto. intros a' [].
  - destruct (IH b H) as [l1 [a0 [l2 [E [Hf Hn]]]]]. exists (a :: l1), a0, l2. subst. repeat split; auto.
    intros a' [<-|Hi]; auto.
Qed.

Lemma first_some_In : forall {A B} (f : A -> option B) l b,
  first_some f l = Some b -> exists a, In a l /\ f a = Some b.
Proof.
  intros. destruct (first_some_Some f l b H) as [l1 [a [l2 [E [Hf _]]]]]. exists a. split; auto.
  subst. apply in_or_app. right. left. reflexivity.
Qed.

Lemma first_some_None : forall {A B} (f : A -> option B) l,
  first_some f l = None <-> forall a, In a l -> f a = None.
Proof.
  intros A B f l. induction l as [|a l IH]; simpl.
  - split; auto. intros _ a [].
  - destruct (f a) eqn:Ha; split; intros H.
    + discriminate.
    + rewrite (H a (or_introl eq_refl)) in Ha. discriminate.
    + intros a' [<-|Hi]; auto. apply IH; auto.
    + apply IH. intros; apply H; auto.
Qed.

Lemma first_some_app : forall {A B} (f : A -> option B) l1 l2,
  first_some f (l1 ++ l2) = match first_some f l1 with Some b => Some b | None => first_some f l2 end.
Proof.
  intros A B f l1 l2. induction l1 as [|a l1 IH]; simpl; auto. destruct (f a); auto.
Qed.

Lemma first_some_ext : forall {A B} (f g : A -> option B) l,
  (forall a, In a l -> f a = g a) -> first_some f l = first_some g l.
Proof.
  intros A B f g l. induction l as [|a l IH]; intros H; simpl; auto.
  rewrite (H a (or_introl eq_refl)). destruct (g a); auto. apply IH. intros; apply H; right; auto.
Qed.

Lemma flat_map_perm : forall {A B} (f g : A -> list B) l,
  Forall (fun a => Permutation (f a) (g a)) l -> Permutation (flat_map f l) (flat_map g l).
Proof.
  intros A B f g l H. induction H; simpl; auto. apply Permutation_app; auto.
Qed.

Lemma flat_map_ext_in : forall {A B} (f g : A -> list B) l,
  (forall a, In a l -> f a = g a) -> flat_map f l = flat_map g l.
Proof.
  intros A B f g l. induction l as [|a l IH]; intros H; simpl; auto.
  rewrite (H a (or_introl eq_refl)). f_equal. apply IH. intros; apply H; right; auto.
Qed.

Lemma flat_map_length_sum : forall {A B} (f : A -> list B) l,
  length (flat_map f l) = list_sum (map (fun a => length (f a)) l).
Proof. intros. induction l; simpl; auto. rewrite app_length, IHl. reflexivity. Qed.

Lemma NoDup_app_inv : forall {A} (l1 l2 : list A),
  NoDup (l1 ++ l2) -> NoDup l1 /\ NoDup l2 /\ (forall x, In x l1 -> In x l2 -> False).
Proof.
  intros A l1. induction l1 as [|a l1 IH]; intros l2 H; simpl in *.
  - repeat split; auto. constructor.
  - inversion H; subst. destruct (IH l2 H3) as [H1 [H2' Hd]]. repeat split; auto.
    + constructor; auto. intro Hi. apply H2. apply in_or_app. left. exact Hi.
    + intros x [<-|Hi] Hi2. * apply H2. apply in_or_app. right. exact Hi2. * eapply Hd; eauto.
Qed.

Lemma NoDup_app_intro : forall {A} (l1 l2 : list A),
  NoDup l1 -> NoDup l2 -> (forall x, In x l1 -> In x l2 -> False) -> NoDup (l1 ++ l2).
Proof.
  intros A l1. induction l1 as [|a l1 IH]; intros l2 H1 H2 Hd; simpl; auto.
  inversion H1; subst. constructor.
  - intro Hi. apply in_app_or in Hi. destruct Hi as [Hi|Hi]; auto. apply (Hd a); simpl; auto.
  - apply IH; auto. intros x Hx. apply Hd. right. exact Hx.
Qed.

(* distinct members of a list with NoDup (flat_map f l) have disjoint images *)
Lemma flat_map_NoDup_eq : forall {A B} (f : A -> list B) l a1 a2 x,
  NoDup (flat_map f l) -> In a1 l -> In a2 l -> In x (f a1) -> In x (f a2) -> a1 = a2.
Proof.
  intros A B f l. induction l as [|a l IH]; intros a1 a2 x Hnd H1 H2 Hx1 Hx2; simpl in *; [contradiction|].
  destruct (NoDup_app_inv _ _ Hnd) as [Ha [Hl Hd]].
  destruct H1 as [<-|H1], H2 as [<-|H2]; auto.
  - exfalso. apply (Hd x Hx1). apply in_flat_map. exists a2. split; auto.
  - exfalso. apply (Hd x Hx2). apply in_flat_map. exists a1. split; auto.
  - eapply IH; eauto.
Qed.

Lemma flat_map_NoDup_each : forall {A B} (f : A -> list B) l a,
  NoDup (flat_map f l) -> In a l -> NoDup (f a).
Proof.
  intros A B f l. induction l as [|a0 l IH]; intros a Hnd Hi; simpl in *; [contradiction|].
  destruct (NoDup_app_inv _ _ Hnd) as [Ha [Hl _]]. destruct Hi as [<-|Hi]; auto.
Qed.

(* position-wise version: the pieces before / at / after a split are pairwise disjoint *)
Lemma flat_map_NoDup_split : forall {A B} (f : A -> list B) l1 a l2,
  NoDup (flat_map f (l1 ++ a :: l2)) ->
  NoDup (f a) /\ NoDup (flat_map f (l1 ++ l2)) /\ (forall x, In x (f a) -> ~ In x (flat_map f (l1 ++ l2))).
Proof.
  intros A B f l1 a l2 H. rewrite flat_map_app in H. simpl in H.
  assert (P : Permutation (flat_map f l1 ++ f a ++ flat_map f l2) (f a ++ flat_map f (l1 ++ l2))).
  { rewrite flat_map_app. rewrite !app_assoc. apply Permutation_app_tail. apply Permutation_app_comm. }
  pose proof (Permutation_NoDup P H) as H'. destruct (NoDup_app_inv _ _ H') as [Ha [Hl Hd]].
  repeat split; auto.
Qed.

(* ---- chain ------------------------------------------------------------------------ *)
Lemma chain_cons : forall {A} (R : A -> A -> Prop) a b l, chain R (a :: b :: l) <-> R a b /\ chain R (b :: l).
Proof. intros. simpl. tauto. Qed.

Lemma chain_mono : forall {A} (R S : A -> A -> Prop) l,
  (forall a b, R a b -> S a b) -> chain R l -> chain S l.
Proof.
  intros A R S l H. induction l as [|a l IH]; simpl; auto. destruct l as [|b l]; auto.
  intros [Hab Hc]. split; auto.
Qed.

Lemma chain_app : forall {A} (R : A -> A -> Prop) l1 a l2,
  chain R (l1 ++ a :: l2) <-> chain R (l1 ++ [a]) /\ chain R (a :: l2).
Proof.
  intros A R l1. induction l1 as [|x l1 IH]; intros a l2.
  - simpl. tauto.
  - destruct l1 as [|y l1].
    + simpl. destruct l2; tauto.
    + change ((x :: y :: l1) ++ a :: l2) with (x :: y :: (l1 ++ a :: l2)).
      change ((x :: y :: l1) ++ [a]) with (x :: y :: (l1 ++ [a])).
      rewrite !chain_cons. specialize (IH a l2). simpl app in IH. rewrite IH. tauto.
Qed.

Lemma chain_snoc : forall {A} (R : A -> A -> Prop) l a b,
  chain R ((l ++ [a]) ++ [b]) <-> chain R (l ++ [a]) /\ R a b.
Proof.
  intros. rewrite <- app_assoc. simpl. rewrite chain_app. simpl. tauto.
Qed.

Lemma chain_rev : forall {A} (R : A -> A -> Prop) l, chain R (rev l) <-> chain (fun a b => R b a) l.
Proof.
  intros A R l. induction l as [|a l IH]; simpl; [tauto|].
  destruct l as [|b l]; [simpl; tauto|].
  simpl rev in *. rewrite chain_snoc. rewrite IH. tauto.
Qed.

Lemma chain_tail : forall {A} (R : A -> A -> Prop) a l, chain R (a :: l) -> chain R l.
Proof. intros A R a l H. destruct l; simpl in *; tauto. Qed.

(* ---- ids, size -------------------------------------------------------------------- *)
Lemma rid_in_ids : forall t, In (rid t) (ids t).
Proof. destruct t; simpl; auto. Qed.

Lemma ids_nonempty : forall t, ids t <> [].
Proof. destruct t; simpl; discriminate. Qed.

Lemma size_length_ids : forall t, size t = length (ids t).
Proof.
  induction t as [i cs IH] using rtree_ind2. simpl. f_equal.
  rewrite flat_map_length_sum. f_equal. apply map_ext_in. intros c Hc.
  rewrite Forall_forall in IH. auto.
Qed.

Lemma in_child_ids : forall i cs c x, In c cs -> In x (ids c) -> In x (ids (RNode i cs)).
Proof. intros. simpl. right. apply in_flat_map. exists c. auto. Qed.

Lemma wf_inv : forall i cs, NoDup (ids (RNode i cs)) ->
  ~ In i (flat_map ids cs) /\ NoDup (flat_map ids cs) /\ Forall (fun c => NoDup (ids c)) cs.
Proof.
  intros i cs H. simpl in H. inversion H; subst. repeat split; auto.
  apply Forall_forall. intros c Hc. eapply flat_map_NoDup_each; eauto.
Qed.

Lemma wf_child : forall i cs c, NoDup (ids (RNode i cs)) -> In c cs -> NoDup (ids c).
Proof. intros i cs c H Hc. destruct (wf_inv _ _ H) as [_ [_ F]]. rewrite Forall_forall in F. auto. Qed.

Lemma wf_root_notin_child : forall i cs c, NoDup (ids (RNode i cs)) -> In c cs -> ~ In i (ids c).
Proof.
  intros i cs c H Hc Hi. destruct (wf_inv _ _ H) as [Hn _]. apply Hn. apply in_flat_map. exists c; auto.
Qed.

(* two children sharing an identifier are the same child *)
Lemma wf_children_eq : forall i cs c1 c2 x, NoDup (ids (RNode i cs)) ->
  In c1 cs -> In c2 cs -> In x (ids c1) -> In x (ids c2) -> c1 = c2.
Proof.
  intros i cs c1 c2 x H. destruct (wf_inv _ _ H) as [_ [Hnd _]]. eapply flat_map_NoDup_eq; eauto.
Qed.

Lemma wf_children_rid : forall i cs c1 c2, NoDup (ids (RNode i cs)) ->
  In c1 cs -> In c2 cs -> rid c1 = rid c2 -> c1 = c2.
Proof.
  intros i cs c1 c2 H H1 H2 E. eapply (wf_children_eq i cs c1 c2 (rid c1)); eauto using rid_in_ids.
  rewrite E. apply rid_in_ids.
Qed.

(* ---- the subtree relation --------------------------------------------------------- *)
Inductive is_subtree (s : rtree) : rtree -> Prop :=
| sub_here : is_subtree s s
| sub_child : forall i cs c, In c cs -> is_subtree s c -> is_subtree s (RNode i cs).

Lemma is_subtree_trans : forall a b c, is_subtree a b -> is_subtree b c -> is_subtree a c.
Proof.
  intros a b c Hab Hbc. induction Hbc; auto. eapply sub_child; eauto.
Qed.

Lemma is_subtree_ids : forall s t, is_subtree s t -> forall x, In x (ids s) -> In x (ids t).
Proof.
  intros s t H. induction H; intros x Hx; auto. eapply in_child_ids; eauto.
Qed.

Lemma is_subtree_wf : forall s t, is_subtree s t -> NoDup (ids t) -> NoDup (ids s).
Proof.
  intros s t H. induction H; intros Hw; auto. apply IHis_subtree. eapply wf_child; eauto.
Qed.

Lemma is_subtree_child : forall s c, In c (rchildren s) -> is_subtree c s.
Proof. intros [i cs] c H. simpl in H. eapply sub_child; eauto. constructor. Qed.

Lemma subtree_sound : forall x t s, subtree x t = Some s -> rid s = x /\ is_subtree s t.
Proof.
  intros x t. induction t as [i cs IH] using rtree_ind2. intros s H. simpl in H.
  destruct (Nat.eqb i x) eqn:E.
  - inversion H; subst. apply Nat.eqb_eq in E. split; [exact E | constructor].
  - apply first_some_In in H. destruct H as [c [Hc Hs]]. rewrite Forall_forall in IH.
    destruct (IH c Hc s Hs) as [Hr Hsub]. split; auto. eapply sub_child; eauto.
Qed.

Lemma subtree_None : forall x t, subtree x t = None <-> ~ In x (ids t).
Proof.
  intros x t. induction t as [i cs IH] using rtree_ind2. simpl. rewrite Forall_forall in IH.
  destruct (Nat.eqb i x) eqn:E.
  - apply Nat.eqb_eq in E. split; [discriminate | intros H; exfalso; apply H; auto].
  - apply Nat.eqb_neq in E. rewrite first_some_None. split.
    + intros H [Hi|Hi]; [contradiction|]. apply in_flat_map in Hi. destruct Hi as [c [Hc Hx]].
      apply (proj1 (IH c Hc) (H c Hc)). exact Hx.
    + intros H c Hc. apply IH; auto. intro Hx. apply H. right. apply in_flat_map. exists c; auto.
Qed.

Lemma subtree_Some_iff : forall x t, In x (ids t) <-> exists s, subtree x t = Some s.
Proof.
  intros x t. destruct (subtree x t) eqn:E.
  - split; [eauto|]. intros _. destruct (in_dec Nat.eq_dec x (ids t)); auto.
    apply subtree_None in n. congruence.
  - apply subtree_None in E. split; [contradiction | intros [s Hs]; discriminate].
Qed.

(* under unique identifiers the lookup finds every subtree *)
Lemma subtree_complete : forall t s, NoDup (ids t) -> is_subtree s t -> subtree (rid s) t = Some s.
Proof.
  intros t s Hw H. induction H.
  - destruct s; simpl. rewrite Nat.eqb_refl. reflexivity.
  - simpl. destruct (Nat.eqb i (rid s)) eqn:E.
    + apply Nat.eqb_eq in E. exfalso. eapply (wf_root_notin_child i cs c); eauto.
      rewrite E. eapply is_subtree_ids; eauto. apply rid_in_ids.
    + apply in_split in H. destruct H as [l1 [l2 ->]]. rewrite first_some_app.
      assert (first_some (subtree (rid s)) l1 = None) as ->.
      { apply first_some_None. intros c' Hc'. apply subtree_None. intro Hx.
        assert (c' = c).
        { eapply (wf_children_eq i (l1 ++ c :: l2) c' c (rid s)); eauto.
          - apply in_or_app; auto.
          - apply in_or_app; right; left; auto.
          - eapply is_subtree_ids; eauto. apply rid_in_ids. }
        subst c'. destruct (wf_inv _ _ Hw) as [_ [Hnd _]].
        apply flat_map_NoDup_split in Hnd. destruct Hnd as [_ [_ Hd]].
        apply (Hd (rid c) (rid_in_ids c)). apply in_flat_map. exists c. split; [apply in_or_app; auto | apply rid_in_ids]. }
      simpl. rewrite IHis_subtree; auto. eapply wf_child; eauto. apply in_or_app; right; left; auto.
Qed.

(* ---- edges ------------------------------------------------------------------------ *)
Lemma edges_spec : forall t p c,
  In (p, c) (edges t) <-> exists s, is_subtree s t /\ rid s = p /\ In c (map rid (rchildren s)).
Proof.
  intros t. induction t as [i cs IH] using rtree_ind2. intros p c. rewrite Forall_forall in IH. simpl. rewrite in_app_iff. split.
  - intros [H|H].
    + apply in_map_iff in H. destruct H as [c0 [E Hc0]]. inversion E; subst.
      exists (RNode p cs). repeat split; [constructor | simpl; apply in_map; auto].
    + apply in_flat_map in H. destruct H as [c0 [Hc0 He]]. apply IH in He; auto.
      destruct He as [s [Hs [Hr Hc]]]. exists s. repeat split; auto. eapply sub_child; eauto.
  - intros [s [Hs [Hr Hc]]]. inversion Hs; subst.
    + left. simpl in *. apply in_map_iff in Hc. destruct Hc as [c0 [E Hc0]]. apply in_map_iff. exists c0. subst. auto.
    + right. apply in_flat_map. exists c0. split; auto. apply IH; auto. exists s. auto.
Qed.

Lemma edges_in_ids : forall t p c, In (p, c) (edges t) -> In p (ids t) /\ In c (ids t).
Proof.
  intros t p c H. apply edges_spec in H. destruct H as [s [Hs [Hr Hc]]]. split.
  - eapply is_subtree_ids; eauto. rewrite <- Hr. apply rid_in_ids.
  - apply in_map_iff in Hc. destruct Hc as [c0 [E Hc0]]. subst.
    eapply is_subtree_ids; eauto. destruct s as [j cs]. simpl in *. right. apply in_flat_map. exists c0. split; auto. apply rid_in_ids.
Qed.

Lemma edges_child : forall i cs c e, In c cs -> In e (edges c) -> In e (edges (RNode i cs)).
Proof. intros. simpl. apply in_or_app. right. apply in_flat_map. exists c; auto. Qed.

Lemma edges_root : forall i cs c, In c cs -> In (i, rid c) (edges (RNode i cs)).
Proof. intros. simpl. apply in_or_app. left. apply in_map_iff. exists c; auto. Qed.

Lemma edges_subtree : forall s t e, is_subtree s t -> In e (edges s) -> In e (edges t).
Proof. intros s t e H. induction H; auto. intros. eapply edges_child; eauto. Qed.

Lemma edges_length : forall t, S (length (edges t)) = size t.
Proof.
  induction t as [i cs IH] using rtree_ind2. simpl. rewrite app_length, map_length. f_equal.
  induction IH as [|c cs Hc _ IHcs]; simpl; auto. rewrite app_length. lia.
Qed.

Lemma edges_child_in_children : forall i cs p c, In (p, c) (edges (RNode i cs)) -> In c (flat_map ids cs).
Proof.
  intros i cs p c H. simpl in H. apply in_app_or in H. destruct H as [H|H].
  - apply in_map_iff in H. destruct H as [c0 [E Hc0]]. inversion E; subst. apply in_flat_map. exists c0. split; auto using rid_in_ids.
  - apply in_flat_map in H. destruct H as [c0 [Hc0 He]]. apply in_flat_map. exists c0. split; auto. apply (edges_in_ids _ _ _ He).
Qed.

Lemma edges_child_not_root : forall t p c, NoDup (ids t) -> In (p, c) (edges t) -> c <> rid t.
Proof.
  intros [i cs] p c Hw H E. simpl in E. subst c. apply edges_child_in_children in H.
  simpl in Hw. inversion Hw; auto.
Qed.

(* the child end of an edge determines it *)
Lemma edges_child_unique : forall t p1 p2 c, NoDup (ids t) ->
  In (p1, c) (edges t) -> In (p2, c) (edges t) -> p1 = p2.
Proof.
  induction t as [i cs IH] using rtree_ind2. intros p1 p2 c Hw H1 H2. rewrite Forall_forall in IH.
  simpl in H1, H2. rewrite in_app_iff in H1, H2.
  assert (Hroot : forall p c0, In c0 cs -> In (p, rid c0) (flat_map edges cs) -> False).
  { intros p c0 Hc0 He. apply in_flat_map in He. destruct He as [c1 [Hc1 He]].
    pose proof (edges_in_ids _ _ _ He) as [_ Hin].
    assert (c0 = c1) by (eapply (wf_children_eq i cs c0 c1 (rid c0)); eauto using rid_in_ids). subst c1.
    eapply (edges_child_not_root c0); eauto. eapply wf_child; eauto. }
  destruct H1 as [H1|H1], H2 as [H2|H2].
  - apply in_map_iff in H1, H2. destruct H1 as [? [E1 _]], H2 as [? [E2 _]]. congruence.
  - apply in_map_iff in H1. destruct H1 as [c0 [E1 Hc0]]. inversion E1; subst. exfalso. eapply Hroot; eauto.
  - apply in_map_iff in H2. destruct H2 as [c0 [E2 Hc0]]. inversion E2; subst. exfalso. eapply Hroot; eauto.
  - apply in_flat_map in H1, H2. destruct H1 as [c1 [Hc1 He1]], H2 as [c2 [Hc2 He2]].
    assert (c1 = c2).
    { eapply (wf_children_eq i cs c1 c2 c); eauto.
      - apply (edges_in_ids _ _ _ He1). - apply (edges_in_ids _ _ _ He2). }
    subst c2. eapply IH; eauto. eapply wf_child; eauto.
Qed.

(* ---- parent_of -------------------------------------------------------------------- *)
Lemma parent_of_sound : forall x t p, parent_of x t = Some p -> In (p, x) (edges t).
Proof.
  intros x t. induction t as [i cs IH] using rtree_ind2. intros p H. rewrite Forall_forall in IH. simpl in H.
  destruct (existsb (fun c => Nat.eqb (rid c) x) cs) eqn:E.
  - inversion H; subst. apply existsb_exists in E. destruct E as [c [Hc Ex]]. apply Nat.eqb_eq in Ex. subst. apply edges_root; auto.
  - apply first_some_In in H. destruct H as [c [Hc Hp]]. eapply edges_child; eauto.
Qed.

Lemma parent_of_complete : forall t p x, NoDup (ids t) -> In (p, x) (edges t) -> parent_of x t = Some p.
Proof.
  intros t p x Hw He. destruct (parent_of x t) as [q|] eqn:E.
  - apply parent_of_sound in E. f_equal. eapply edges_child_unique; eauto.
  - exfalso. clear Hw. revert p x He E. induction t as [i cs IH] using rtree_ind2. intros p x He E. rewrite Forall_forall in IH.
    simpl in E. destruct (existsb (fun c => Nat.eqb (rid c) x) cs) eqn:Ex; [discriminate|].
    simpl in He. apply in_app_or in He. destruct He as [He|He].
    + apply in_map_iff in He. destruct He as [c [Ec Hc]]. inversion Ec; subst.
      assert (existsb (fun c0 => Nat.eqb (rid c0) (rid c)) cs = true) by (apply existsb_exists; exists c; split; auto using Nat.eqb_refl).
      congruence.
    + apply in_flat_map in He. destruct He as [c [Hc He]]. rewrite first_some_None in E. eapply IH; eauto.
Qed.

Lemma parent_of_root : forall t, NoDup (ids t) -> parent_of (rid t) t = None.
Proof.
  intros t Hw. destruct (parent_of (rid t) t) eqn:E; auto. exfalso.
  apply parent_of_sound in E. eapply edges_child_not_root; eauto.
Qed.

Lemma parent_of_nonroot : forall t x, In x (ids t) -> x <> rid t -> exists p, In (p, x) (edges t).
Proof.
  induction t as [i cs IH] using rtree_ind2. intros x Hx Hne. rewrite Forall_forall in IH. simpl in *.
  destruct Hx as [Hx|Hx]; [congruence|]. apply in_flat_map in Hx. destruct Hx as [c [Hc Hx]].
  destruct (Nat.eq_dec x (rid c)) as [->|Hn].
  - exists i. apply in_or_app. left. apply in_map_iff. exists c; auto.
  - destruct (IH c Hc x Hx Hn) as [p Hp]. exists p. apply in_or_app. right. apply in_flat_map. exists c; auto.
Qed.

(* ---- children_ids, leaves --------------------------------------------------------- *)
Lemma children_ids_edges : forall t x c, NoDup (ids t) -> (In c (children_ids t x) <-> In (x, c) (edges t)).
Proof.
  intros t x c Hw. unfold children_ids. rewrite edges_spec. split.
  - destruct (subtree x t) as [s|] eqn:E; [|intros []]. intros H. apply subtree_sound in E. destruct E. exists s. auto.
  - intros [s [Hs [Hr Hc]]]. subst x. rewrite (subtree_complete t s Hw Hs). exact Hc.
Qed.

Lemma leaves_subset : forall t x, In x (leaves t) -> In x (ids t).
Proof.
  induction t as [i cs IH] using rtree_ind2. intros x Hx. rewrite Forall_forall in IH.
  destruct cs as [|c cs]; simpl in *; [tauto|]. right.
  change (In x (flat_map leaves (c :: cs))) in Hx. change (In x (flat_map ids (c :: cs))).
  apply in_flat_map in Hx. destruct Hx as [c0 [Hc0 Hx]]. apply in_flat_map. exists c0. split; auto.
Qed.

Lemma leaves_spec : forall t x, In x (leaves t) <-> exists s, is_subtree s t /\ rid s = x /\ rchildren s = [].
Proof.
  induction t as [i cs IH] using rtree_ind2. intros x. rewrite Forall_forall in IH.
  destruct cs as [|c cs].
  - simpl. split.
    + intros [<-|[]]. exists (RNode i []). repeat split. constructor.
    + intros [s [Hs [Hr Hc]]]. inversion Hs; subst; simpl; auto.
  - change (leaves (RNode i (c :: cs))) with (flat_map leaves (c :: cs)). rewrite in_flat_map. split.
    + intros [c0 [Hc0 Hx]]. apply IH in Hx; auto. destruct Hx as [s [Hs [Hr Hc]]]. exists s. repeat split; auto. eapply sub_child; eauto.
    + intros [s [Hs [Hr Hc]]]. inversion Hs; subst; [discriminate|]. exists c0. split; auto. apply IH; auto. exists s; auto.
Qed.

Lemma is_leaf_spec : forall t x, NoDup (ids t) -> In x (ids t) -> (is_leaf t x = true <-> In x (leaves t)).
Proof.
  intros t x Hw Hx. unfold is_leaf, children_ids. apply subtree_Some_iff in Hx. destruct Hx as [s Hs]. rewrite Hs.
  pose proof (subtree_sound _ _ _ Hs) as [Hr Hsub]. rewrite leaves_spec. split.
  - intros H. exists s. repeat split; auto. destruct (rchildren s); auto. simpl in H. discriminate.
  - intros [s' [Hs' [Hr' Hc']]]. pose proof (subtree_complete t s' Hw Hs') as E. rewrite Hr' in E. rewrite E in Hs. inversion Hs; subst.
    rewrite Hc'. reflexivity.
Qed.

(* ---- depths ----------------------------------------------------------------------- *)
Lemma depths_keys : forall t d, map fst (depths d t) = ids t.
Proof.
  induction t as [i cs IH] using rtree_ind2. intros d. simpl. f_equal.
  induction IH as [|c cs Hc _ IHcs]; simpl; auto. rewrite map_app, Hc, IHcs. reflexivity.
Qed.

Lemma depths_ge : forall t d k v, In (k, v) (depths d t) -> d <= v.
Proof.
  induction t as [i cs IH] using rtree_ind2. intros d k v H. rewrite Forall_forall in IH. simpl in H.
  destruct H as [H|H]; [inversion H; lia|]. apply in_flat_map in H. destruct H as [c [Hc H]].
  apply IH in H; auto. lia.
Qed.

Lemma assoc_app : forall k l1 l2, assoc k (l1 ++ l2) = match assoc k l1 with Some v => Some v | None => assoc k l2 end.
Proof.
  intros k l1 l2. induction l1 as [|[k' v] l1 IH]; simpl; auto. destruct (Nat.eqb k k'); auto.
Qed.

Lemma assoc_In : forall k v l, assoc k l = Some v -> In (k, v) l.
Proof.
  intros k v l. induction l as [|[k' v'] l IH]; simpl; [discriminate|]. destruct (Nat.eqb k k') eqn:E.
  - intros H. inversion H; subst. apply Nat.eqb_eq in E. subst. auto.
  - auto.
Qed.

Lemma assoc_None : forall k l, assoc k l = None <-> ~ In k (map fst l).
Proof.
  intros k l. induction l as [|[k' v'] l IH]; simpl; [tauto|]. destruct (Nat.eqb k k') eqn:E.
  - apply Nat.eqb_eq in E. subst. split; [discriminate | intros H; exfalso; apply H; auto].
  - apply Nat.eqb_neq in E. rewrite IH. split; intros H; [intros [H1|H1]; [congruence | auto] | intro; apply H; auto].
Qed.

Lemma assoc_NoDup_In : forall k v l, NoDup (map fst l) -> In (k, v) l -> assoc k l = Some v.
Proof.
  intros k v l. induction l as [|[k' v'] l IH]; simpl; [tauto|]. intros Hnd [H|H].
  - inversion H; subst. rewrite Nat.eqb_refl. reflexivity.
  - inversion Hnd; subst. destruct (Nat.eqb k k') eqn:E.
    + apply Nat.eqb_eq in E. subst. exfalso. apply H2. apply in_map_iff. exists (k', v). auto.
    + auto.
Qed.
