(* Proofs about the navigation queries (Tree/Nav.v). *)
From Coq Require Import List Arith Bool Lia ZArith Permutation.
From PTN Require Import Tree.RTree Tree.RTreeProofs Tree.Nav.
Import ListNotations.

(* ================================================================================== *)
(* linearise                                                                          *)
(* ================================================================================== *)
Lemma linearise_perm : forall t, Permutation (linearise t) (ids t).
Proof.
  induction t as [i cs IH] using rtree_ind2. simpl.
  eapply perm_trans; [apply Permutation_app_comm|]. simpl. constructor. apply flat_map_perm. exact IH.
Qed.

Lemma linearise_In : forall t x, In x (linearise t) <-> In x (ids t).
Proof.
  intros t x. split; apply Permutation_in; [|apply Permutation_sym]; apply linearise_perm.
Qed.

Lemma linearise_NoDup : forall t, NoDup (ids t) -> NoDup (linearise t).
Proof. intros t H. eapply Permutation_NoDup; [apply Permutation_sym, linearise_perm | exact H]. Qed.

Lemma linearise_root_last : forall t, exists l, linearise t = l ++ [rid t].
Proof. intros [i cs]. simpl. eauto. Qed.

Lemma linearise_child_before_parent : forall t p c, In (p, c) (edges t) ->
  exists l1 l2 l3, linearise t = l1 ++ c :: l2 ++ p :: l3.
Proof.
  induction t as [i cs IH] using rtree_ind2. intros p c H. rewrite Forall_forall in IH. simpl in H.
  apply in_app_or in H. destruct H as [H|H].
  - apply in_map_iff in H. destruct H as [c0 [E Hc0]]. inversion E; subst.
    apply in_split in Hc0. destruct Hc0 as [a [b ->]]. destruct (linearise_root_last c0) as [l Hl].
    simpl. rewrite flat_map_app. simpl. rewrite Hl.
    exists (flat_map linearise a ++ l), (flat_map linearise b), []. rewrite <- !app_assoc. reflexivity.
  - apply in_flat_map in H. destruct H as [c0 [Hc0 He]]. destruct (IH c0 Hc0 p c He) as [l1 [l2 [l3 Hl]]].
    apply in_split in Hc0. destruct Hc0 as [a [b ->]]. simpl. rewrite flat_map_app. simpl. rewrite Hl.
    exists (flat_map linearise a ++ l1), l2, (l3 ++ flat_map linearise b ++ [i]).
    rewrite <- !app_assoc. simpl. rewrite <- !app_assoc. reflexivity.
Qed.

(* ================================================================================== *)
(* root paths                                                                         *)
(* ================================================================================== *)
Lemma down_path_step : forall x i cs p, down_path x (RNode i cs) = Some p ->
  (i = x /\ p = [i]) \/
  (i <> x /\ exists c q, In c cs /\ down_path x c = Some q /\ p = i :: q).
Proof.
  intros x i cs p H. simpl in H. destruct (Nat.eqb i x) eqn:E.
  - apply Nat.eqb_eq in E. inversion H. auto.
  - apply Nat.eqb_neq in E. right. split; auto.
    destruct (first_some (down_path x) cs) as [q|] eqn:F; [|discriminate].
    apply first_some_In in F. destruct F as [c [Hc Hq]]. inversion H. eauto.
Qed.

Lemma down_path_hd : forall x t p, down_path x t = Some p -> exists r, p = rid t :: r.
Proof.
  intros x [i cs] p H. apply down_path_step in H. destruct H as [[_ ->]|[_ [c [q [_ [_ ->]]]]]]; simpl; eauto.
Qed.

Lemma down_path_last : forall x t p, down_path x t = Some p -> exists r, p = r ++ [x].
Proof.
  intros x t. induction t as [i cs IH] using rtree_ind2. intros p H. rewrite Forall_forall in IH.
  apply down_path_step in H. destruct H as [[<- ->]|[_ [c [q [Hc [Hq ->]]]]]].
  - exists []. reflexivity.
  - destruct (IH c Hc q Hq) as [r ->]. exists (i :: r). reflexivity.
Qed.

Lemma down_path_In : forall x t p, down_path x t = Some p -> forall y, In y p -> In y (ids t).
Proof.
  intros x t. induction t as [i cs IH] using rtree_ind2. intros p H y Hy. rewrite Forall_forall in IH.
  apply down_path_step in H. destruct H as [[<- ->]|[_ [c [q [Hc [Hq ->]]]]]].
  - simpl in *. tauto.
  - destruct Hy as [<-|Hy]; [simpl; auto|]. eapply in_child_ids; eauto.
Qed.

Lemma down_path_target_in : forall x t p, down_path x t = Some p -> In x (ids t).
Proof.
  intros x t p H. destruct (down_path_last _ _ _ H) as [r ->]. eapply down_path_In; eauto.
  apply in_or_app. right. left. reflexivity.
Qed.

Lemma down_path_None : forall x t, down_path x t = None <-> ~ In x (ids t).
Proof.
  intros x t. induction t as [i cs IH] using rtree_ind2. rewrite Forall_forall in IH. simpl.
  destruct (Nat.eqb i x) eqn:E.
  - apply Nat.eqb_eq in E. split; [discriminate | intros H; exfalso; apply H; auto].
  - apply Nat.eqb_neq in E. destruct (first_some (down_path x) cs) as [q|] eqn:F; simpl.
    + split; [discriminate|]. intros H. exfalso. apply H. right.
      apply first_some_In in F. destruct F as [c [Hc Hq]]. apply in_flat_map. exists c. split; auto.
      eapply down_path_target_in; eauto.
    + split; auto. intros _ [Hi|Hi]; [congruence|]. apply in_flat_map in Hi. destruct Hi as [c [Hc Hx]].
      rewrite first_some_None in F. apply (proj1 (IH c Hc) (F c Hc)). exact Hx.
Qed.

Lemma down_path_Some_iff : forall x t, In x (ids t) <-> exists p, down_path x t = Some p.
Proof.
  intros x t. destruct (down_path x t) eqn:E.
  - split; eauto. intros _. eapply down_path_target_in; eauto.
  - apply down_path_None in E. split; [contradiction | intros [p Hp]; discriminate].
Qed.

(* under unique identifiers the search enters the child that holds x *)
Lemma down_path_child : forall i cs c x, NoDup (ids (RNode i cs)) -> In c cs -> In x (ids c) ->
  down_path x (RNode i cs) = option_map (cons i) (down_path x c).
Proof.
  intros i cs c x Hw Hc Hx. simpl. destruct (Nat.eqb i x) eqn:E.
  - apply Nat.eqb_eq in E. subst. exfalso. eapply wf_root_notin_child; eauto.
  - f_equal. apply in_split in Hc. destruct Hc as [l1 [l2 ->]]. rewrite first_some_app.
    assert (first_some (down_path x) l1 = None) as ->.
    { apply first_some_None. intros c' Hc'. apply down_path_None. intro Hx'.
      assert (c' = c).
      { eapply (wf_children_eq i (l1 ++ c :: l2) c' c x); eauto; apply in_or_app; simpl; auto. }
      subst c'. destruct (wf_inv _ _ Hw) as [_ [Hnd _]]. apply flat_map_NoDup_split in Hnd.
      destruct Hnd as [_ [_ Hd]]. apply (Hd x Hx). apply in_flat_map. exists c. split; auto. apply in_or_app; auto. }
    simpl. apply down_path_Some_iff in Hx. destruct Hx as [q ->]. reflexivity.
Qed.

Lemma down_path_chain : forall x t p, down_path x t = Some p -> chain (fun a b => In (a, b) (edges t)) p.
Proof.
  intros x t. induction t as [i cs IH] using rtree_ind2. intros p H. rewrite Forall_forall in IH.
  apply down_path_step in H. destruct H as [[<- ->]|[_ [c [q [Hc [Hq ->]]]]]]; [simpl; auto|].
  destruct (down_path_hd _ _ _ Hq) as [r ->]. apply chain_cons. split.
  - apply edges_root; auto.
  - eapply chain_mono; [|apply (IH c Hc _ Hq)]. intros a b. apply edges_child; auto.
Qed.

Lemma down_path_NoDup : forall x t p, NoDup (ids t) -> down_path x t = Some p -> NoDup p.
Proof.
  intros x t. induction t as [i cs IH] using rtree_ind2. intros p Hw H. rewrite Forall_forall in IH.
  apply down_path_step in H. destruct H as [[<- ->]|[_ [c [q [Hc [Hq ->]]]]]].
  - constructor; [intros []|constructor].
  - constructor.
    + intro Hi. eapply wf_root_notin_child; eauto. eapply down_path_In; eauto.
    + eapply IH; eauto. eapply wf_child; eauto.
Qed.

(* find_path_to_root *)
Theorem root_path_spec : forall t x p, path_to_root t x = Some p ->
  (exists r, p = x :: r) /\ (exists r, p = r ++ [rid t]) /\
  chain (fun a b => In (b, a) (edges t)) p /\ (NoDup (ids t) -> NoDup p).
Proof.
  intros t x p H. unfold path_to_root in H. destruct (down_path x t) as [q|] eqn:E; [|discriminate].
  inversion H; subst. repeat split.
  - destruct (down_path_last _ _ _ E) as [r ->]. rewrite rev_app_distr. simpl. eauto.
  - destruct (down_path_hd _ _ _ E) as [r ->]. simpl. eauto.
  - apply chain_rev. eapply down_path_chain; eauto.
  - intros Hw. apply NoDup_rev. eapply down_path_NoDup; eauto.
Qed.

Theorem root_path_defined : forall t x, In x (ids t) <-> exists p, path_to_root t x = Some p.
Proof.
  intros t x. unfold path_to_root. rewrite down_path_Some_iff. split; intros [p Hp].
  - rewrite Hp. simpl. eauto.
  - destruct (down_path x t); [eauto | discriminate].
Qed.

(* ================================================================================== *)
(* two down paths share a prefix and are disjoint afterwards                          *)
(* ================================================================================== *)
Lemma down_paths_split : forall t a b da db, NoDup (ids t) ->
  down_path a t = Some da -> down_path b t = Some db ->
  exists l0 m da' db', da = l0 ++ m :: da' /\ db = l0 ++ m :: db' /\
                       (forall x, In x da' -> In x db' -> False).
Proof.
  induction t as [i cs IH] using rtree_ind2. intros a b da db Hw Ha Hb. rewrite Forall_forall in IH.
  pose proof (down_path_hd _ _ _ Ha) as [ra Era]. pose proof (down_path_hd _ _ _ Hb) as [rb Erb]. simpl in Era, Erb.
  apply down_path_step in Ha. apply down_path_step in Hb.
  destruct Ha as [[<- ->]|[Hia [ca [qa [Hca [Hqa ->]]]]]].
  - exists [], i, [], rb. subst db. repeat split; auto.
  - destruct Hb as [[<- ->]|[Hib [cb [qb [Hcb [Hqb ->]]]]]].
    + exists [], i, qa, []. repeat split; auto.
    + destruct (Nat.eq_dec (rid ca) (rid cb)) as [E|E].
      * assert (ca = cb) by (eapply wf_children_rid; eauto). subst cb.
        destruct (IH ca Hca a b qa qb (wf_child _ _ _ Hw Hca) Hqa Hqb) as [l0 [m [da' [db' [E1 [E2 Hd]]]]]].
        exists (i :: l0), m, da', db'. subst. repeat split; auto.
      * exists [], i, qa, qb. repeat split; auto. intros x Hxa Hxb. apply E. f_equal.
        eapply (wf_children_eq i cs ca cb x); eauto; eapply down_path_In; eauto.
Qed.

(* ================================================================================== *)
(* the literal merge of two root paths                                                *)
(* ================================================================================== *)
Lemma count_app : forall x a b, count x (a ++ b) = count x a + count x b.
Proof. intros. unfold count. rewrite filter_app, app_length. reflexivity. Qed.

Lemma count_notin : forall x l, ~ In x l -> count x l = 0.
Proof.
  intros x l. induction l as [|y l IH]; intros H; auto. unfold count in *. simpl.
  destruct (Nat.eqb x y) eqn:E.
  - apply Nat.eqb_eq in E. subst. exfalso. apply H. left. reflexivity.
  - apply IH. intro. apply H. right. assumption.
Qed.

Lemma count_NoDup_in : forall x l, NoDup l -> In x l -> count x l = 1.
Proof.
  intros x l Hnd. induction Hnd as [|y l Hn Hnd IH]; intros Hi; [contradiction|].
  change (count x (y :: l)) with (count x ([y] ++ l)). rewrite count_app. destruct Hi as [->|Hi].
  - rewrite (count_notin x l Hn). unfold count. simpl. rewrite Nat.eqb_refl. reflexivity.
  - rewrite IH; auto. unfold count. simpl. destruct (Nat.eqb x y) eqn:E; auto.
    apply Nat.eqb_eq in E. subst. contradiction.
Qed.

Lemma filter_all : forall {A} (P : A -> bool) l, (forall x, In x l -> P x = true) -> filter P l = l.
Proof.
  intros A P l. induction l as [|a l IH]; intros H; simpl; auto.
  rewrite (H a (or_introl eq_refl)). f_equal. apply IH. intros; apply H; right; auto.
Qed.

Lemma filter_none : forall {A} (P : A -> bool) l, (forall x, In x l -> P x = false) -> filter P l = [].
Proof.
  intros A P l. induction l as [|a l IH]; intros H; simpl; auto.
  rewrite (H a (or_introl eq_refl)). apply IH. intros; apply H; right; auto.
Qed.

Lemma num_duplicates_suffix : forall a' b' s,
  NoDup (a' ++ s) -> NoDup (b' ++ s) -> (forall x, In x a' -> In x b' -> False) ->
  num_duplicates ((a' ++ s) ++ (b' ++ s)) = length s.
Proof.
  intros a' b' s Ha Hb Hd. unfold num_duplicates.
  destruct (NoDup_app_inv _ _ Ha) as [Ha1 [Hs Has]]. destruct (NoDup_app_inv _ _ Hb) as [Hb1 [_ Hbs]].
  set (comb := (a' ++ s) ++ b' ++ s).
  assert (C : forall j, count j comb = count j a' + count j s + count j b' + count j s).
  { intros j. unfold comb. rewrite !count_app. lia. }
  set (P := fun j => negb (Nat.eqb (count j comb) 1)).
  assert (Pa : forall j, In j a' -> P j = false).
  { intros j Hj. unfold P. rewrite C. rewrite (count_NoDup_in j a'), (count_notin j s), (count_notin j b'); auto.
    - intro; eapply Hd; eauto. - intro; eapply Has; eauto. }
  assert (Pb : forall j, In j b' -> P j = false).
  { intros j Hj. unfold P. rewrite C. rewrite (count_NoDup_in j b'), (count_notin j s), (count_notin j a'); auto.
    - intro; eapply Hd; eauto. - intro; eapply Hbs; eauto. }
  assert (Ps : forall j, In j s -> P j = true).
  { intros j Hj. unfold P. rewrite C. rewrite (count_NoDup_in j s), (count_notin j a'), (count_notin j b'); auto.
    - intro; eapply Hbs; eauto. - intro; eapply Has; eauto. }
  unfold comb. rewrite !filter_app. fold P.
  rewrite (filter_none P a' Pa), (filter_none P b' Pb), (filter_all P s Ps).
  cbn [app]. rewrite app_length. replace (length s + length s) with (length s * 2) by lia. apply Nat.div_mul. discriminate.
Qed.

Lemma merge_root_paths_suffix : forall a' b' h s,
  NoDup (a' ++ h :: s) -> NoDup (b' ++ h :: s) -> (forall x, In x a' -> In x b' -> False) ->
  merge_root_paths (a' ++ h :: s) (b' ++ h :: s) = a' ++ h :: rev b'.
Proof.
  intros a' b' h s Ha Hb Hd. unfold merge_root_paths. rewrite (num_duplicates_suffix a' b' (h :: s) Ha Hb Hd).
  assert (F : (if (- Z.of_nat (length (h :: s)) + 1 =? 0)%Z then a' ++ h :: s
               else py_upto (- Z.of_nat (length (h :: s)) + 1) (a' ++ h :: s)) = a' ++ [h]).
  { destruct s as [|h' s].
    - simpl. reflexivity.
    - replace ((- Z.of_nat (length (h :: h' :: s)) + 1 =? 0)%Z) with false
        by (symmetry; apply Z.eqb_neq; simpl length; lia).
      unfold py_upto. replace ((- Z.of_nat (length (h :: h' :: s)) + 1 <? 0)%Z) with true
        by (symmetry; apply Z.ltb_lt; simpl length; lia).
      replace (Z.to_nat (Z.of_nat (length (a' ++ h :: h' :: s)) + (- Z.of_nat (length (h :: h' :: s)) + 1)))
        with (length a' + 1) by (rewrite app_length; simpl length; lia).
      rewrite firstn_app_2. reflexivity. }
  rewrite F.
  assert (S : py_upto (- Z.of_nat (length (h :: s))) (b' ++ h :: s) = b').
  { unfold py_upto. replace ((- Z.of_nat (length (h :: s)) <? 0)%Z) with true
      by (symmetry; apply Z.ltb_lt; simpl length; lia).
    replace (Z.to_nat (Z.of_nat (length (b' ++ h :: s)) + - Z.of_nat (length (h :: s))))
      with (length b' + 0) by (rewrite app_length; simpl length; lia).
    rewrite firstn_app_2. simpl. apply app_nil_r. }
  rewrite S. rewrite <- app_assoc. reflexivity.
Qed.

(* ================================================================================== *)
(* path_from_to                                                                       *)
(* ================================================================================== *)
Theorem path_self : forall t a, path_from_to t a a = Some [a].
Proof. intros. unfold path_from_to. rewrite Nat.eqb_refl. reflexivity. Qed.

(* the path in terms of the split of the two down paths *)
Lemma path_from_to_char : forall t a b da db l0 m da' db', NoDup (ids t) ->
  down_path a t = Some da -> down_path b t = Some db ->
  da = l0 ++ m :: da' -> db = l0 ++ m :: db' -> (forall x, In x da' -> In x db' -> False) ->
  path_from_to t a b = Some (rev da' ++ m :: db').
Proof.
  intros t a b da db l0 m da' db' Hw Ha Hb Ea Eb Hd.
  pose proof (down_path_NoDup _ _ _ Hw Ha) as Na. pose proof (down_path_NoDup _ _ _ Hw Hb) as Nb.
  unfold path_from_to. destruct (Nat.eqb a b) eqn:E.
  - apply Nat.eqb_eq in E. subst b. assert (Edd : da = db) by congruence.
    rewrite Ea, Eb in Edd. apply app_inv_head in Edd. inversion Edd; subst db'.
    (* both tails are equal and disjoint, hence empty; a is the last entry m *)
    destruct da' as [|y da']; [|exfalso; apply (Hd y); simpl; auto].
    destruct (down_path_last _ _ _ Ha) as [r Hr]. rewrite Ea in Hr.
    change (l0 ++ [m]) with (l0 ++ [m]) in Hr. apply app_inj_tail in Hr. destruct Hr as [_ ->]. reflexivity.
  - unfold path_to_root. rewrite Ha, Hb. simpl. f_equal. subst da db.
    rewrite !rev_app_distr. simpl. rewrite <- !app_assoc. simpl.
    rewrite merge_root_paths_suffix.
    + rewrite rev_involutive. reflexivity.
    + apply NoDup_rev in Na. rewrite rev_app_distr in Na. simpl in Na. rewrite <- app_assoc in Na. exact Na.
    + apply NoDup_rev in Nb. rewrite rev_app_distr in Nb. simpl in Nb. rewrite <- app_assoc in Nb. exact Nb.
    + intros x Hx1 Hx2. apply in_rev in Hx1. apply in_rev in Hx2. eauto.
Qed.

Lemma snoc_tail : forall {A} (l1 : list A) x l2 r a, l1 ++ x :: l2 = r ++ [a] -> exists r', x :: l2 = r' ++ [a].
Proof.
  intros A l1 x l2 r a H. destruct (@exists_last _ (x :: l2)) as [r' [z Hz]]; [discriminate|].
  rewrite Hz in H. rewrite app_assoc in H. apply app_inj_tail in H. destruct H as [_ ->]. eauto.
Qed.

Theorem path_from_to_spec : forall t a b, NoDup (ids t) -> In a (ids t) -> In b (ids t) ->
  exists p, path_from_to t a b = Some p /\
            (exists r, p = a :: r) /\ (exists r, p = r ++ [b]) /\
            chain (adjacent t) p /\ NoDup p.
Proof.
  intros t a b Hw Hina Hinb.
  apply down_path_Some_iff in Hina. apply down_path_Some_iff in Hinb.
  destruct Hina as [da Ha], Hinb as [db Hb].
  destruct (down_paths_split t a b da db Hw Ha Hb) as [l0 [m [da' [db' [Ea [Eb Hd]]]]]].
  exists (rev da' ++ m :: db'). split; [eapply path_from_to_char; eauto|].
  pose proof (down_path_NoDup _ _ _ Hw Ha) as Na. pose proof (down_path_NoDup _ _ _ Hw Hb) as Nb.
  pose proof (down_path_chain _ _ _ Ha) as Ca. pose proof (down_path_chain _ _ _ Hb) as Cb.
  destruct (down_path_last _ _ _ Ha) as [ra Hra]. destruct (down_path_last _ _ _ Hb) as [rb Hrb].
  subst da db.
  apply NoDup_app_inv in Na. destruct Na as [_ [Na _]]. apply NoDup_app_inv in Nb. destruct Nb as [_ [Nb _]].
  apply chain_app in Ca. destruct Ca as [_ Ca]. apply chain_app in Cb. destruct Cb as [_ Cb].
  repeat split.
  - (* starts at a: a is the last entry of m :: da' *)
    destruct (snoc_tail _ _ _ _ _ Hra) as [r Hr].
    assert (E : rev da' ++ [m] = a :: rev r).
    { change (rev da' ++ [m]) with (rev (m :: da')). rewrite Hr, rev_app_distr. reflexivity. }
    exists (rev r ++ db'). change (rev da' ++ m :: db') with (rev da' ++ [m] ++ db').
    rewrite app_assoc, E. reflexivity.
  - (* ends at b *)
    destruct (snoc_tail _ _ _ _ _ Hrb) as [r Hr]. exists (rev da' ++ r). rewrite Hr. rewrite app_assoc. reflexivity.
  - (* consecutive entries adjacent *)
    apply chain_app. split.
    + change (rev da' ++ [m]) with (rev (m :: da')).
      apply chain_rev. eapply chain_mono; [|exact Ca]. intros x y H. right. exact H.
    + eapply chain_mono; [|exact Cb]. intros x y H. left. exact H.
  - (* no repetition *)
    inversion Na; subst. inversion Nb; subst. apply NoDup_app_intro.
    + apply NoDup_rev. assumption.
    + assumption.
    + intros x Hx1 [<-|Hx2]; apply in_rev in Hx1; eauto.
Qed.

Theorem path_from_to_defined : forall t a b, a <> b ->
  ((In a (ids t) /\ In b (ids t)) <-> exists p, path_from_to t a b = Some p).
Proof.
  intros t a b Hne. unfold path_from_to. apply Nat.eqb_neq in Hne. rewrite Hne.
  rewrite (root_path_defined t a), (root_path_defined t b). split.
  - intros [[pa ->] [pb ->]]. eauto.
  - intros [p H]. destruct (path_to_root t a), (path_to_root t b); try discriminate; eauto.
Qed.

(* ================================================================================== *)
(* distances from the root                                                            *)
(* ================================================================================== *)
Lemma down_path_root : forall t, down_path (rid t) t = Some [rid t].
Proof. intros [i cs]. simpl. rewrite Nat.eqb_refl. reflexivity. Qed.

Lemma depths_assoc : forall t d x,
  assoc x (depths d t) = option_map (fun p => d + (length p - 1)) (down_path x t).
Proof.
  induction t as [i cs IH] using rtree_ind2. intros d x. simpl. rewrite (Nat.eqb_sym x i).
  destruct (Nat.eqb i x) eqn:E; [simpl; f_equal; lia|].
  assert (G : forall d', assoc x (flat_map (depths d') cs) =
                         option_map (fun q => d' + (length q - 1)) (first_some (down_path x) cs)).
  { intros d'. induction IH as [|c cs Hc _ IHcs]; simpl; auto.
    rewrite assoc_app, Hc. destruct (down_path x c); simpl; auto. }
  rewrite G. destruct (first_some (down_path x) cs) as [q|] eqn:F; simpl; auto.
  apply first_some_In in F. destruct F as [c [_ Hq]]. destruct (down_path_hd _ _ _ Hq) as [r ->].
  simpl. f_equal. lia.
Qed.

Lemma reroot_root : forall t, reroot t (rid t) = Some t.
Proof. intros [i cs]. unfold reroot. simpl. rewrite Nat.eqb_refl. reflexivity. Qed.

(* the path from the root is the down path *)
Lemma path_from_root : forall t b q, NoDup (ids t) -> down_path b t = Some q ->
  path_from_to t (rid t) b = Some q.
Proof.
  intros t b q Hw Hq. destruct (down_path_hd _ _ _ Hq) as [r Hr].
  rewrite (path_from_to_char t (rid t) b [rid t] q [] (rid t) [] r Hw (down_path_root t) Hq eq_refl Hr).
  - subst. reflexivity.
  - intros x [].
Qed.

Theorem root_distance_spec : forall t, NoDup (ids t) ->
  distance_to_node t (rid t) = Some (depths 0 t) /\
  map fst (depths 0 t) = ids t /\
  forall x, In x (ids t) ->
    exists p, path_from_to t (rid t) x = Some p /\ assoc x (depths 0 t) = Some (length p - 1).
Proof.
  intros t Hw. repeat split.
  - unfold distance_to_node. rewrite reroot_root. reflexivity.
  - apply depths_keys.
  - intros x Hx. apply down_path_Some_iff in Hx. destruct Hx as [q Hq]. exists q. split.
    + apply path_from_root; auto.
    + rewrite depths_assoc, Hq. reflexivity.
Qed.

(* ================================================================================== *)
(* subtree, leaves, subtree size                                                      *)
(* ================================================================================== *)
Lemma down_path_subtree : forall s t, is_subtree s t -> NoDup (ids t) -> forall y q, down_path y s = Some q ->
  exists r, down_path (rid s) t = Some (r ++ [rid s]) /\ down_path y t = Some (r ++ q).
Proof.
  intros s t H. induction H; intros Hw y q Hq.
  - exists []. split; auto. apply down_path_root.
  - destruct (IHis_subtree (wf_child _ _ _ Hw H) y q Hq) as [r [H1 H2]]. exists (i :: r). split.
    + rewrite (down_path_child i cs c (rid s) Hw H); [rewrite H1; reflexivity|]. eapply down_path_target_in; eauto.
    + rewrite (down_path_child i cs c y Hw H); [rewrite H2; reflexivity|]. eapply down_path_target_in; eauto.
Qed.

Lemma down_path_through : forall t x y p, NoDup (ids t) -> down_path y t = Some p -> In x p ->
  exists s, subtree x t = Some s /\ In y (ids s).
Proof.
  induction t as [i cs IH] using rtree_ind2. intros x y p Hw Hp Hx. rewrite Forall_forall in IH.
  pose proof (down_path_target_in _ _ _ Hp) as Hy.
  apply down_path_step in Hp. destruct Hp as [[<- ->]|[Hne [c [q [Hc [Hq ->]]]]]].
  - destruct Hx as [<-|[]]. exists (RNode i cs). simpl. rewrite Nat.eqb_refl. auto.
  - destruct Hx as [<-|Hx].
    + exists (RNode i cs). simpl. rewrite Nat.eqb_refl. auto.
    + destruct (IH c Hc x y q (wf_child _ _ _ Hw Hc) Hq Hx) as [s [Hs Hys]]. exists s. split; auto.
      apply subtree_sound in Hs. destruct Hs as [Hr Hsub]. rewrite <- Hr. apply subtree_complete; auto.
      eapply sub_child; eauto.
Qed.

(* find_subtree_of_node: x first, no repetition, exactly the nodes whose root path passes x *)
Theorem subtree_nodes_spec : forall t x, NoDup (ids t) -> In x (ids t) ->
  exists l, subtree_nodes t x = Some l /\ NoDup l /\ (exists r, l = x :: r) /\
    forall y, In y l <-> exists p, path_to_root t y = Some p /\ In x p.
Proof.
  intros t x Hw Hx. apply subtree_Some_iff in Hx. destruct Hx as [s Hs]. unfold subtree_nodes. rewrite Hs.
  pose proof (subtree_sound _ _ _ Hs) as [Hr Hsub]. exists (ids s). repeat split.
  - eapply is_subtree_wf; eauto.
  - destruct s; simpl in *. subst. eauto.
  - intros Hy. apply down_path_Some_iff in Hy. destruct Hy as [q Hq].
    destruct (down_path_subtree s t Hsub Hw y q Hq) as [r [_ H2]]. unfold path_to_root. rewrite H2. simpl.
    eexists. split; [reflexivity|]. apply -> in_rev. apply in_or_app. right.
    destruct (down_path_hd _ _ _ Hq) as [r' ->]. rewrite Hr. left. reflexivity.
  - intros [p [Hp Hin]]. unfold path_to_root in Hp. destruct (down_path y t) as [q|] eqn:Hq; [|discriminate].
    inversion Hp; subst p. apply in_rev in Hin.
    destruct (down_path_through t x y q Hw Hq Hin) as [s' [Hs' Hy]]. congruence.
Qed.

Theorem leaves_under_spec : forall t x, NoDup (ids t) -> In x (ids t) ->
  exists l ns, leaves_under t x = Some l /\ subtree_nodes t x = Some ns /\
    forall y, In y l <-> In y ns /\ is_leaf t y = true.
Proof.
  intros t x Hw Hx. apply subtree_Some_iff in Hx. destruct Hx as [s Hs]. unfold leaves_under, subtree_nodes. rewrite Hs.
  pose proof (subtree_sound _ _ _ Hs) as [Hr Hsub]. exists (leaves s), (ids s). repeat split.
  - apply leaves_subset; auto.
  - apply is_leaf_spec; auto.
    + eapply is_subtree_ids; eauto. apply leaves_subset; auto.
    + apply leaves_spec in H. destruct H as [s' [Hs' [Hr' Hc']]]. apply leaves_spec. exists s'. repeat split; auto.
      eapply is_subtree_trans; eauto.
  - intros [Hy Hl]. apply is_leaf_spec in Hl; auto; [|eapply is_subtree_ids; eauto].
    apply leaves_spec in Hl. destruct Hl as [s' [Hs' [Hr' Hc']]]. apply leaves_spec.
    apply subtree_Some_iff in Hy. destruct Hy as [s'' Hs'']. pose proof (subtree_sound _ _ _ Hs'') as [Hr'' Hsub''].
    assert (s'' = s').
    { pose proof (subtree_complete t s'' Hw (is_subtree_trans _ _ _ Hsub'' Hsub)) as E1.
      pose proof (subtree_complete t s' Hw Hs') as E2. rewrite Hr'' in E1. rewrite Hr' in E2. congruence. }
    subst s''. exists s'. auto.
Qed.

Lemma sub_size_size : forall t, sub_size t = size t.
Proof.
  induction t as [i cs IH] using rtree_ind2. destruct cs as [|c cs]; [reflexivity|].
  change (sub_size (RNode i (c :: cs))) with (0 + 1 + list_sum (map sub_size (c :: cs))).
  change (size (RNode i (c :: cs))) with (S (list_sum (map size (c :: cs)))).
  replace (map sub_size (c :: cs)) with (map size (c :: cs)); [lia|].
  apply map_ext_in. intros a Ha. rewrite Forall_forall in IH. symmetry. auto.
Qed.

Theorem subtree_size_spec : forall t x,
  subtree_size t x = option_map (@length nat) (subtree_nodes t x).
Proof.
  intros t x. unfold subtree_size, subtree_nodes. destruct (subtree x t); simpl; auto.
  rewrite sub_size_size, size_length_ids. reflexivity.
Qed.

Theorem get_leaves_spec : forall order t y, NoDup (ids t) -> (forall z, In z order <-> In z (ids t)) ->
  (In y (get_leaves order t) <-> In y (leaves t)).
Proof.
  intros order t y Hw Ho. unfold get_leaves. rewrite filter_In. split.
  - intros [Hy Hl]. apply is_leaf_spec in Hl; auto. apply Ho; auto.
  - intros Hl. pose proof (leaves_subset _ _ Hl) as Hy. split; [apply Ho; auto | apply is_leaf_spec; auto].
Qed.

Theorem nearest_neighbours_spec : forall order t p c, NoDup (ids t) ->
  (In (p, c) (nearest_neighbours order t) <-> In p order /\ In (p, c) (edges t)).
Proof.
  intros order t p c Hw. unfold nearest_neighbours. rewrite in_flat_map. split.
  - intros [n [Hn H]]. apply in_map_iff in H. destruct H as [c0 [E Hc0]]. inversion E; subst.
    split; auto. apply children_ids_edges; auto.
  - intros [Hp He]. exists p. split; auto. apply in_map_iff. exists c. split; auto. apply children_ids_edges; auto.
Qed.

(* ================================================================================== *)
(* uniqueness: every simple path of the tree is the one path_from_to returns          *)
(* ================================================================================== *)
Lemma adjacent_sym : forall t a b, adjacent t a b -> adjacent t b a.
Proof. unfold adjacent. tauto. Qed.

Lemma adjacent_in_ids : forall t a b, adjacent t a b -> In a (ids t) /\ In b (ids t).
Proof. intros t a b [H|H]; apply edges_in_ids in H; tauto. Qed.

Lemma adjacent_inv : forall i cs x y, adjacent (RNode i cs) x y ->
  (x = i /\ exists c, In c cs /\ y = rid c) \/
  (y = i /\ exists c, In c cs /\ x = rid c) \/
  (exists c, In c cs /\ adjacent c x y).
Proof.
  intros i cs x y H. unfold adjacent in H. simpl in H. rewrite !in_app_iff in H.
  destruct H as [[H|H]|[H|H]].
  - apply in_map_iff in H. destruct H as [c [E Hc]]. inversion E; subst. left. eauto.
  - apply in_flat_map in H. destruct H as [c [Hc He]]. right. right. exists c. split; auto. left; auto.
  - apply in_map_iff in H. destruct H as [c [E Hc]]. inversion E; subst. right. left. eauto.
  - apply in_flat_map in H. destruct H as [c [Hc He]]. right. right. exists c. split; auto. right; auto.
Qed.

Lemma chain_in_child : forall i cs c, NoDup (ids (RNode i cs)) -> In c cs ->
  forall l x, In x (ids c) -> ~ In i (x :: l) -> chain (adjacent (RNode i cs)) (x :: l) ->
  chain (adjacent c) (x :: l) /\ forall y, In y l -> In y (ids c).
Proof.
  intros i cs c Hw Hc l. induction l as [|a l IH]; intros x Hx Hni Hch.
  - split; simpl; auto. intros y [].
  - apply chain_cons in Hch. destruct Hch as [Hxy Hch]. apply adjacent_inv in Hxy.
    destruct Hxy as [[-> _]|[[-> _]|[c' [Hc' Hadj]]]].
    + exfalso. apply Hni. left. reflexivity.
    + exfalso. apply Hni. right. left. reflexivity.
    + pose proof (adjacent_in_ids _ _ _ Hadj) as [Hx' Ha'].
      assert (c' = c) by (eapply (wf_children_eq i cs c' c x); eauto). subst c'.
      destruct (IH a Ha') as [Hch' Hin]; auto.
      { intro Hi. apply Hni. right. exact Hi. }
      split.
      * apply chain_cons. split; auto.
      * intros y [<-|Hy]; auto.
Qed.

Lemma path_from_to_child : forall i cs c a b, NoDup (ids (RNode i cs)) -> In c cs ->
  In a (ids c) -> In b (ids c) -> path_from_to (RNode i cs) a b = path_from_to c a b.
Proof.
  intros i cs c a b Hw Hc Ha Hb. pose proof (wf_child _ _ _ Hw Hc) as Hwc.
  pose proof (down_path_child i cs c a Hw Hc Ha) as Da. pose proof (down_path_child i cs c b Hw Hc Hb) as Db.
  apply down_path_Some_iff in Ha. apply down_path_Some_iff in Hb. destruct Ha as [da Ha], Hb as [db Hb].
  rewrite Ha in Da. rewrite Hb in Db. simpl in Da, Db.
  destruct (down_paths_split c a b da db Hwc Ha Hb) as [l0 [m [da' [db' [Ea [Eb Hd]]]]]].
  rewrite (path_from_to_char c a b da db l0 m da' db' Hwc Ha Hb Ea Eb Hd).
  apply (path_from_to_char (RNode i cs) a b (i :: da) (i :: db) (i :: l0) m da' db' Hw Da Db); auto; subst; reflexivity.
Qed.

Definition unique_in (c : rtree) : Prop :=
  forall a b p, NoDup (ids c) -> chain (adjacent c) p -> NoDup p ->
    (exists r, p = a :: r) -> (exists r, p = r ++ [b]) -> path_from_to c a b = Some p.

Lemma down_path_of_chain : forall i cs, NoDup (ids (RNode i cs)) -> Forall unique_in cs ->
  forall q b, NoDup (i :: q) -> chain (adjacent (RNode i cs)) (i :: q) -> (exists r, i :: q = r ++ [b]) ->
  down_path b (RNode i cs) = Some (i :: q).
Proof.
  intros i cs Hw IH q b Hnd Hch [r Hr]. rewrite Forall_forall in IH. destruct q as [|y q].
  - destruct r as [|z r]; simpl in Hr; inversion Hr; subst.
    + simpl. rewrite Nat.eqb_refl. reflexivity.
    + destruct r; discriminate.
  - apply chain_cons in Hch. destruct Hch as [Hiy Hch]. inversion Hnd; subst.
    apply adjacent_inv in Hiy. destruct Hiy as [[_ [c [Hc ->]]]|[[-> _]|[c [Hc Hadj]]]].
    + pose proof (wf_child _ _ _ Hw Hc) as Hwc.
      destruct (chain_in_child i cs c Hw Hc q (rid c) (rid_in_ids c) H1 Hch) as [Hch' Hin].
      destruct (snoc_tail [i] (rid c) q r b Hr) as [r' Hr'].
      assert (Hb : In b (ids c)).
      { assert (Hb' : In b (rid c :: q)) by (rewrite Hr'; apply in_or_app; right; left; reflexivity).
        destruct Hb' as [<-|Hb']; auto using rid_in_ids. }
      pose proof (IH c Hc (rid c) b (rid c :: q) Hwc Hch' H2 (ex_intro _ q eq_refl) (ex_intro _ r' Hr')) as P.
      pose proof Hb as Hb2. apply down_path_Some_iff in Hb2. destruct Hb2 as [qq Hqq].
      rewrite (path_from_root c b qq Hwc Hqq) in P. inversion P; subst qq.
      rewrite (down_path_child i cs c b Hw Hc Hb), Hqq. reflexivity.
    + exfalso. apply H1. left. reflexivity.
    + exfalso. eapply wf_root_notin_child; eauto. apply (adjacent_in_ids _ _ _ Hadj).
Qed.

Theorem path_unique : forall t, unique_in t.
Proof.
  induction t as [i cs IH] using rtree_ind2. intros a b p Hw Hch Hnd [ra Ha] [rb Hb].
  destruct (in_dec Nat.eq_dec i p) as [Hi|Hi].
  - apply in_split in Hi. destruct Hi as [p1 [p2 ->]].
    destruct (NoDup_app_inv _ _ Hnd) as [N1 [N2 Nd]].
    apply chain_app in Hch. destruct Hch as [C1 C2].
    assert (Db : down_path b (RNode i cs) = Some (i :: p2)).
    { apply down_path_of_chain; auto. apply (snoc_tail p1 i p2 rb b Hb). }
    assert (Da : down_path a (RNode i cs) = Some (i :: rev p1)).
    { apply down_path_of_chain; auto.
      - change (i :: rev p1) with (rev [i] ++ rev p1). rewrite <- rev_app_distr. apply NoDup_rev.
        apply NoDup_app_intro; auto.
        + constructor; [intros []|constructor].
        + intros x Hx [E|[]]. subst x. apply (Nd i Hx). left. reflexivity.
      - change (i :: rev p1) with (rev [i] ++ rev p1). rewrite <- rev_app_distr. apply chain_rev.
        eapply chain_mono; [|exact C1]. intros x y. apply adjacent_sym.
      - destruct p1 as [|z p1].
        + simpl in Ha. inversion Ha; subst. exists []. reflexivity.
        + simpl in Ha. inversion Ha; subst. exists (i :: rev p1). simpl. rewrite app_comm_cons. reflexivity. }
    rewrite (path_from_to_char (RNode i cs) a b (i :: rev p1) (i :: p2) [] i (rev p1) p2 Hw Da Db eq_refl eq_refl).
    + rewrite rev_involutive. reflexivity.
    + intros x Hx1 Hx2. apply in_rev in Hx1. apply (Nd x Hx1). right. exact Hx2.
  - subst p. destruct ra as [|y ra].
    + destruct rb as [|z rb]; simpl in Hb; inversion Hb; subst.
      * apply path_self.
      * destruct rb; discriminate.
    + pose proof Hch as Hch0. apply chain_cons in Hch. destruct Hch as [Hay _].
      apply adjacent_inv in Hay. destruct Hay as [[-> _]|[[-> _]|[c [Hc Hadj]]]].
      * exfalso. apply Hi. left. reflexivity.
      * exfalso. apply Hi. right. left. reflexivity.
      * pose proof (adjacent_in_ids _ _ _ Hadj) as [Hac _].
        destruct (chain_in_child i cs c Hw Hc (y :: ra) a Hac Hi Hch0) as [Hch' Hin].
        assert (Hbc : In b (ids c)).
        { assert (Hb' : In b (a :: y :: ra)) by (rewrite Hb; apply in_or_app; right; left; reflexivity).
          destruct Hb' as [<-|Hb']; auto. }
        rewrite (path_from_to_child i cs c a b Hw Hc Hac Hbc).
        rewrite Forall_forall in IH. apply (IH c Hc); eauto. eapply wf_child; eauto.
Qed.

(* ================================================================================== *)
(* distances from an arbitrary centre: re-rooting keeps nodes and adjacency            *)
(* ================================================================================== *)
Lemma adjacent_node_iff : forall i cs a b, adjacent (RNode i cs) a b <->
  (a = i /\ exists c, In c cs /\ b = rid c) \/
  (b = i /\ exists c, In c cs /\ a = rid c) \/
  (exists c, In c cs /\ adjacent c a b).
Proof.
  intros i cs a b. split; [apply adjacent_inv|].
  intros [[-> [c [Hc ->]]]|[[-> [c [Hc ->]]]|[c [Hc [H|H]]]]].
  - left. apply edges_root; auto.
  - right. apply edges_root; auto.
  - left. eapply edges_child; eauto.
  - right. eapply edges_child; eauto.
Qed.

Lemma remove_child_perm : forall cs c, NoDup (map rid cs) -> In c cs ->
  Permutation (c :: remove_child (rid c) cs) cs.
Proof.
  induction cs as [|a cs IH]; intros c N Hc; [contradiction|]. simpl in N. inversion N; subst. simpl.
  destruct Hc as [->|Hc].
  - rewrite Nat.eqb_refl. reflexivity.
  - destruct (Nat.eqb (rid a) (rid c)) eqn:E.
    + apply Nat.eqb_eq in E. exfalso. apply H1. rewrite E. apply in_map. exact Hc.
    + eapply perm_trans; [apply perm_swap|]. constructor. apply IH; auto.
Qed.

Lemma map_rid_NoDup' : forall cs, NoDup (flat_map ids cs) -> NoDup (map rid cs).
Proof.
  induction cs as [|c cs IH]; intros H; simpl; [constructor|].
  simpl in H. destruct (NoDup_app_inv _ _ H) as [_ [H2 Hd]]. constructor; auto.
  intro Hi. apply in_map_iff in Hi. destruct Hi as [g [Eg Hg]].
  apply (Hd (rid c) (rid_in_ids c)). apply in_flat_map. exists g. split; auto. rewrite <- Eg. apply rid_in_ids.
Qed.

Lemma perm3 : forall {A} (a b c : list A), Permutation (a ++ b ++ c) (b ++ a ++ c).
Proof. intros. rewrite !app_assoc. apply Permutation_app_tail. apply Permutation_app_comm. Qed.

(* what is adjacent through the part `up` hanging above t *)
Definition adj_up (up : option rtree) (top a b : nat) : Prop :=
  exists u, up = Some u /\ (adjacent u a b \/ (a = top /\ b = rid u) \/ (a = rid u /\ b = top)).

Lemma reroot_at_spec : forall t x up r,
  NoDup (ids t ++ flat_map ids (opt_list up)) -> reroot_at x up t = Some r ->
  rid r = x /\ Permutation (ids r) (ids t ++ flat_map ids (opt_list up)) /\
  (forall a b, adjacent r a b <-> adjacent t a b \/ adj_up up (rid t) a b).
Proof.
  induction t as [i cs IH] using rtree_ind2. intros x up r Hnd H. rewrite Forall_forall in IH.
  simpl in H. destruct (Nat.eqb i x) eqn:E.
  - apply Nat.eqb_eq in E. subst x. inversion H; subst r. clear H. split; [reflexivity|]. split.
    + simpl. constructor. rewrite flat_map_app. apply Permutation_app_comm.
    + intros a b. simpl rid. rewrite !adjacent_node_iff. unfold adj_up. split.
      * intros [[-> [c [Hc ->]]]|[[-> [c [Hc ->]]]|[c [Hc Hadj]]]]; apply in_app_or in Hc; destruct Hc as [Hc|Hc].
        -- destruct up as [u|]; simpl in Hc; [|contradiction]. destruct Hc as [->|[]]. right. exists c. auto.
        -- left. left. eauto.
        -- destruct up as [u|]; simpl in Hc; [|contradiction]. destruct Hc as [->|[]]. right. exists c. auto.
        -- left. right. left. eauto.
        -- destruct up as [u|]; simpl in Hc; [|contradiction]. destruct Hc as [->|[]]. right. exists c. auto.
        -- left. right. right. eauto.
      * intros [[[-> [c [Hc ->]]]|[[-> [c [Hc ->]]]|[c [Hc Hadj]]]]|[u [-> [Hadj|[[-> ->]|[-> ->]]]]]].
        -- left. split; auto. exists c. split; auto. apply in_or_app; auto.
        -- right. left. split; auto. exists c. split; auto. apply in_or_app; auto.
        -- right. right. exists c. split; auto. apply in_or_app; auto.
        -- right. right. exists u. split; auto. apply in_or_app. left. left. reflexivity.
        -- left. split; auto. exists u. split; auto. apply in_or_app. left. left. reflexivity.
        -- right. left. split; auto. exists u. split; auto. apply in_or_app. left. left. reflexivity.
  - apply first_some_In in H. destruct H as [c [Hc H]].
    set (u' := RNode i (opt_list up ++ remove_child (rid c) cs)) in *.
    assert (Ncs : NoDup (map rid cs)).
    { apply map_rid_NoDup'. simpl in Hnd. inversion Hnd; subst. apply NoDup_app_inv in H3. tauto. }
    pose proof (remove_child_perm cs c Ncs Hc) as Pc.
    assert (Pids : Permutation (ids c ++ flat_map ids (opt_list (Some u')))
                               (ids (RNode i cs) ++ flat_map ids (opt_list up))).
    { simpl. rewrite app_nil_r. rewrite flat_map_app.
      apply Permutation_sym. apply Permutation_cons_app. apply Permutation_sym.
      eapply perm_trans; [apply perm3|].
      eapply perm_trans; [apply Permutation_app_comm|].
      apply Permutation_app_tail. exact (Permutation_flat_map ids Pc). }
    destruct (IH c Hc x (Some u') r) as [Hr [Hp Hadj]]; auto.
    { eapply Permutation_NoDup; [apply Permutation_sym; exact Pids | exact Hnd]. }
    split; auto. split; [eapply perm_trans; eauto|].
    intros a b. rewrite Hadj. unfold adj_up. simpl rid. rewrite adjacent_node_iff.
    assert (Hin : forall g, In g cs <-> g = c \/ In g (remove_child (rid c) cs)).
    { intros g. split.
      - intros Hg. apply (Permutation_in _ (Permutation_sym Pc)) in Hg. destruct Hg; auto.
      - intros Hg. apply (Permutation_in _ Pc). destruct Hg; [left|right]; auto. }
    split.
    + intros [Hc'|[u [Eu Hu]]].
      * left. right. right. exists c. auto.
      * inversion Eu; subst u. clear Eu. destruct Hu as [Hu|[[-> ->]|[-> ->]]].
        -- unfold u' in Hu. apply adjacent_node_iff in Hu.
           destruct Hu as [[-> [g [Hg ->]]]|[[-> [g [Hg ->]]]|[g [Hg Hga]]]]; apply in_app_or in Hg; destruct Hg as [Hg|Hg].
           ++ destruct up as [u|]; simpl in Hg; [|contradiction]. destruct Hg as [->|[]]. right. exists g. auto.
           ++ left. left. split; auto. exists g. split; auto. apply Hin; auto.
           ++ destruct up as [u|]; simpl in Hg; [|contradiction]. destruct Hg as [->|[]]. right. exists g. auto.
           ++ left. right. left. split; auto. exists g. split; auto. apply Hin; auto.
           ++ destruct up as [u|]; simpl in Hg; [|contradiction]. destruct Hg as [->|[]]. right. exists g. auto.
           ++ left. right. right. exists g. split; auto. apply Hin; auto.
        -- left. right. left. split; auto. exists c. auto.
        -- left. left. split; auto. exists c. auto.
    + intros [[[-> [g [Hg ->]]]|[[-> [g [Hg ->]]]|[g [Hg Hga]]]]|[u [-> Hu]]].
      * apply Hin in Hg. destruct Hg as [->|Hg].
        -- right. exists u'. split; auto.
        -- right. exists u'. split; auto. left. apply adjacent_node_iff. left. split; auto. exists g. split; auto. apply in_or_app; auto.
      * apply Hin in Hg. destruct Hg as [->|Hg].
        -- right. exists u'. split; auto.
        -- right. exists u'. split; auto. left. apply adjacent_node_iff. right. left. split; auto. exists g. split; auto. apply in_or_app; auto.
      * apply Hin in Hg. destruct Hg as [->|Hg]; auto.
        right. exists u'. split; auto. left. apply adjacent_node_iff. right. right. exists g. split; auto. apply in_or_app; auto.
      * right. exists u'. split; auto. left. apply adjacent_node_iff.
        destruct Hu as [Hu|[[-> ->]|[-> ->]]].
        -- right. right. exists u. split; auto. apply in_or_app. left. left. reflexivity.
        -- left. split; auto. exists u. split; auto. apply in_or_app. left. left. reflexivity.
        -- right. left. split; auto. exists u. split; auto. apply in_or_app. left. left. reflexivity.
Qed.

Lemma reroot_at_defined : forall t x up, In x (ids t) -> exists r, reroot_at x up t = Some r.
Proof.
  induction t as [i cs IH] using rtree_ind2. intros x up Hx. rewrite Forall_forall in IH. simpl.
  destruct (Nat.eqb i x) eqn:E; [eauto|]. apply Nat.eqb_neq in E. simpl in Hx. destruct Hx as [Hx|Hx]; [congruence|].
  apply in_flat_map in Hx. destruct Hx as [c [Hc Hx]].
  match goal with |- exists r, first_some ?f cs = Some r => destruct (first_some f cs) as [r|] eqn:F end; [eauto|].
  exfalso. rewrite first_some_None in F. specialize (F c Hc). simpl in F.
  destruct (IH c Hc x (Some (RNode i (opt_list up ++ remove_child (rid c) cs))) Hx) as [r Hr]. congruence.
Qed.

(* distance_to_node for every centre: the keys are the nodes, the values the path lengths *)
Theorem distance_spec : forall t c, NoDup (ids t) -> In c (ids t) ->
  exists d, distance_to_node t c = Some d /\ Permutation (map fst d) (ids t) /\
    forall x, In x (ids t) ->
      exists p, path_from_to t c x = Some p /\ assoc x d = Some (length p - 1).
Proof.
  intros t c Hw Hc. destruct (reroot_at_defined t c None Hc) as [r Hr].
  destruct (reroot_at_spec t c None r) as [Hrid [Hp Hadj]]; auto.
  { simpl. rewrite app_nil_r. exact Hw. }
  simpl in Hp. rewrite app_nil_r in Hp.
  assert (Hwr : NoDup (ids r)) by (eapply Permutation_NoDup; [apply Permutation_sym; exact Hp | exact Hw]).
  exists (depths 0 r). unfold distance_to_node, reroot. rewrite Hr. split; [reflexivity|]. split.
  - rewrite depths_keys. exact Hp.
  - intros x Hx. apply (Permutation_in _ (Permutation_sym Hp)) in Hx.
    destruct (root_distance_spec r Hwr) as [_ [_ Hd]]. destruct (Hd x Hx) as [p [Hpath Has]].
    exists p. split; auto. rewrite Hrid in Hpath.
    assert (Hcr : In c (ids r)) by (rewrite <- Hrid; apply rid_in_ids).
    destruct (path_from_to_spec r c x Hwr Hcr Hx) as [p' [Hp' [Hhd [Hlast [Hch Hnd]]]]].
    rewrite Hpath in Hp'. inversion Hp'; subst p'.
    apply path_unique; auto.
    eapply chain_mono; [|exact Hch]. intros a b Hab. apply Hadj in Hab. destruct Hab as [Hab|[u [Eu _]]]; [auto | discriminate].
Qed.
