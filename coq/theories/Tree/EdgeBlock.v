(* Refinement of Tree/Crossings.v used by the universal duration theorems of the TDVP
   schedule (Sched/TDVPUniversal.v).  For a tree edge (p, c) with S = the nodes of the
   subtree below c:
   - the first hop of the tree path a -> b lies on the edge iff a is one of its ends and
     a, b are on different sides (`hop_on_edge`);
   - S is one contiguous block of the update path, and either the block ends with c and p
     comes later (`upblock`, post-order part of the sweep), or the block is the rest of the
     path and starts right after p (`downblock`, the final descent) (`update_path_edge_block`);
   - hence exactly one consecutive pair (a, b) of the update path has its first hop on the
     edge (`hop_count_one`).  Proofs only. *)
From Coq Require Import List Arith Bool Lia Permutation ZArith.
From PTN Require Import Tree.RTree Tree.RTreeProofs Tree.Nav Tree.NavProofs
     Tree.UpdatePath Tree.UpdatePathProofs Tree.Enum Tree.Crossings.
Import ListNotations.

(* ================================================================================== *)
(* the first hop of a tree path                                                       *)
(* ================================================================================== *)
Lemma hop_on_edge : forall t sp s a b nx q, NoDup (ids t) -> is_subtree sp t -> In s (rchildren sp) ->
  In a (ids t) -> In b (ids t) -> path_from_to t a b = Some (a :: nx :: q) ->
  same_edge (rid sp, rid s) (a, nx) =
    (Nat.eqb a (rid sp) || Nat.eqb a (rid s)) && xorb (inb (ids s) a) (inb (ids s) b).
Proof.
  intros t sp s a b nx q Hw Hsp Hs Ha Hb Hp.
  pose proof (path_crossings t Hw sp s Hsp Hs a b _ Ha Hb Hp) as C.
  destruct (path_from_to_spec t a b Hw Ha Hb) as [p' [Hp' [_ [_ [_ Hnd]]]]]. rewrite Hp in Hp'. inversion Hp'; subst p'.
  change (steps (a :: nx :: q)) with ((a, nx) :: steps (nx :: q)) in C. rewrite crossings_cons in C.
  inversion Hnd as [|? ? Hna _]; subst.
  destruct (Nat.eqb a (rid sp) || Nat.eqb a (rid s)) eqn:E.
  - rewrite crossings_notin in C.
    + rewrite andb_true_l. destruct (same_edge (rid sp, rid s) (a, nx)), (xorb (inb (ids s) a) (inb (ids s) b)); simpl in C; auto; lia.
    + simpl. apply orb_true_iff in E. destruct E as [E|E]; apply Nat.eqb_eq in E; subst a; auto.
  - apply orb_false_iff in E. destruct E as [E1 E2]. unfold same_edge. simpl.
    rewrite (Nat.eqb_sym (rid sp) a), (Nat.eqb_sym (rid s) a), E1, E2. simpl. rewrite andb_false_r. reflexivity.
Qed.

(* ================================================================================== *)
(* the two shapes of the block below an edge                                          *)
(* ================================================================================== *)
Definition upblock (f : nat -> bool) (c p : nat) (l : list nat) : Prop :=
  exists l1 l2 l3, l = l1 ++ (l2 ++ [c]) ++ l3 /\
    allb f false l1 /\ allb f true (l2 ++ [c]) /\ allb f false l3 /\ In p l3.

Definition downblock (f : nat -> bool) (c p : nat) (l : list nat) : Prop :=
  exists l1 l2, l = (l1 ++ [p]) ++ l2 /\ allb f false (l1 ++ [p]) /\ allb f true l2 /\ In c l2.

Definition edgeblock (f : nat -> bool) (c p : nat) (l : list nat) : Prop := upblock f c p l \/ downblock f c p l.

Lemma upblock_pad : forall f c p A l B, upblock f c p l -> allb f false A -> allb f false B -> upblock f c p (A ++ l ++ B).
Proof.
  intros f c p A l B [l1 [l2 [l3 [-> [H1 [H2 [H3 Hp]]]]]]] HA HB.
  exists (A ++ l1), l2, (l3 ++ B). split; [rewrite <- !app_assoc; reflexivity|].
  split; [apply allb_app; auto|]. split; auto. split; [apply allb_app; auto|]. apply in_or_app; auto.
Qed.

Lemma upblock_pad_l : forall f c p A l, upblock f c p l -> allb f false A -> upblock f c p (A ++ l).
Proof. intros f c p A l H HA. rewrite <- (app_nil_r l). apply upblock_pad; auto using allb_nil. Qed.

Lemma upblock_pad_r : forall f c p l B, upblock f c p l -> allb f false B -> upblock f c p (l ++ B).
Proof. intros f c p l B H HB. apply (upblock_pad f c p [] l B); auto using allb_nil. Qed.

Lemma downblock_pad_l : forall f c p A l, downblock f c p l -> allb f false A -> downblock f c p (A ++ l).
Proof.
  intros f c p A l [l1 [l2 [-> [H1 [H2 Hc]]]]] HA. exists (A ++ l1), l2.
  split; [rewrite <- !app_assoc; reflexivity|]. split; [rewrite <- app_assoc; apply allb_app; auto|]. auto.
Qed.

Lemma edgeblock_pad_l : forall f c p A l, edgeblock f c p l -> allb f false A -> edgeblock f c p (A ++ l).
Proof. intros f c p A l [H|H] HA; [left; apply upblock_pad_l | right; apply downblock_pad_l]; auto. Qed.

(* the block made by a whole tree whose sweep ends with its root, followed by the parent *)
Lemma upblock_whole : forall f c p A l2 B, allb f false A -> allb f true (l2 ++ [c]) -> allb f false B -> In p B ->
  upblock f c p (A ++ (l2 ++ [c]) ++ B).
Proof. intros f c p A l2 B HA H2 HB Hp. exists A, l2, B. auto. Qed.

(* ---- a forest with pairwise disjoint identifiers --------------------------------- *)
Lemma flat_map_upblock : forall (h : rtree -> list nat) l s g p,
  NoDup (flat_map ids l) -> In g l -> (forall x, In x (ids s) -> In x (ids g)) ->
  (forall c x, In c l -> In x (h c) -> In x (ids c)) ->
  upblock (inb (ids s)) (rid s) p (h g) -> upblock (inb (ids s)) (rid s) p (flat_map h l).
Proof.
  intros h l s g p Hnd Hg Hsg Hh Hb. apply in_split in Hg. destruct Hg as [l1 [l2 ->]].
  apply flat_map_NoDup_split in Hnd. destruct Hnd as [_ [_ Hd]].
  rewrite flat_map_app. simpl. apply upblock_pad; auto; apply allb_false_disjoint; intros x Hx Hs;
    apply (Hd x (Hsg x Hs)); apply in_flat_map in Hx; destruct Hx as [c [Hc Hx]]; apply in_flat_map; exists c.
  - split; [apply in_or_app; auto|]. apply Hh; auto. apply in_or_app; auto.
  - split; [apply in_or_app; auto|]. apply Hh; auto. apply in_or_app; simpl; auto.
Qed.

(* the children of a node: one of them, s, swept by h so that its root comes last; the node
   itself (p) comes after all of them *)
Lemma children_upblock : forall (h : rtree -> list nat) i cs s l2 B,
  NoDup (ids (RNode i cs)) -> In s cs ->
  (forall c x, In c cs -> In x (h c) -> In x (ids c)) ->
  h s = l2 ++ [rid s] -> (forall x, In x (ids s) -> In x (h s)) ->
  allb (inb (ids s)) false B -> In i B ->
  upblock (inb (ids s)) (rid s) i (flat_map h cs ++ B).
Proof.
  intros h i cs s l2 B Hw Hs Hh Hlast Hall HB Hi.
  destruct (wf_inv _ _ Hw) as [_ [Hnd _]].
  pose proof Hs as Hsplit. apply in_split in Hsplit. destruct Hsplit as [a [b Ecs]]. subst cs.
  apply flat_map_NoDup_split in Hnd. destruct Hnd as [_ [_ Hd]].
  rewrite flat_map_app. simpl. rewrite Hlast. rewrite <- !app_assoc. rewrite (app_assoc l2 [rid s]).
  assert (Hout : forall l', (forall c, In c l' -> In c (a ++ b)) -> allb (inb (ids s)) false (flat_map h l')).
  { intros l' Hl'. apply allb_false_disjoint. intros x Hx Hxs. apply (Hd x Hxs).
    apply in_flat_map in Hx. destruct Hx as [c [Hc Hx]]. apply in_flat_map. exists c. split; auto.
    apply Hh; auto. specialize (Hl' c Hc). apply in_app_or in Hl'. apply in_or_app. simpl. tauto. }
  apply upblock_whole.
  - apply Hout. intros; apply in_or_app; auto.
  - intros x Hx. apply inb_true. rewrite <- Hlast in Hx. apply (Hh s x); auto.
  - apply allb_app; auto. apply Hout. intros; apply in_or_app; auto.
  - apply in_or_app; auto.
Qed.

Lemma linearise_upblock : forall t sp s, NoDup (ids t) -> is_subtree sp t -> In s (rchildren sp) ->
  upblock (inb (ids s)) (rid s) (rid sp) (linearise t).
Proof.
  induction t as [i cs IH] using rtree_ind2. intros sp s Hw Hsp Hs. rewrite Forall_forall in IH.
  apply is_subtree_inv in Hsp. destruct Hsp as [->|[c [Hc Hsp]]].
  - simpl in Hs |- *. destruct (linearise_root_last s) as [l2 E2].
    apply (children_upblock linearise i cs s l2 [i]); auto.
    + intros c x _ Hx. apply linearise_In. exact Hx.
    + intros x Hx. apply linearise_In. exact Hx.
    + apply allb_false_disjoint. intros x [<-|[]] Hx. eapply (wf_root_notin_child i cs s); eauto.
    + simpl; auto.
  - simpl. pose proof (is_subtree_trans _ _ _ (is_subtree_child _ _ Hs) Hsp) as Hsc.
    apply upblock_pad_r.
    + destruct (wf_inv _ _ Hw) as [_ [Hnd _]].
      apply (flat_map_upblock linearise cs s c (rid sp) Hnd Hc (is_subtree_ids _ _ Hsc)).
      * intros g x _ Hx. apply linearise_In. exact Hx.
      * apply IH; auto. eapply wf_child; eauto.
    + apply allb_false_disjoint. intros x [<-|[]] Hi. eapply (wf_root_notin_child i cs c); eauto.
      eapply is_subtree_ids; eauto.
Qed.

(* ---- sweeps along a down path ------------------------------------------------------ *)
Lemma sweep_up_last : forall c x q, down_path x c = Some q -> exists l, sweep_up c q = l ++ [rid c].
Proof.
  intros c x q Hq. destruct (down_path_hd _ _ _ Hq) as [r ->]. unfold sweep_up. simpl rev. rewrite flat_map_app. simpl.
  rewrite app_nil_r. pose proof (rid_in_ids c) as Hin. apply subtree_Some_iff in Hin. destruct Hin as [s Hs].
  unfold pfb at 2. rewrite Hs. eexists. rewrite app_assoc. reflexivity.
Qed.

Lemma wf_remove_child : forall i l1 g l2, NoDup (ids (RNode i (l1 ++ g :: l2))) -> NoDup (ids (RNode i (l1 ++ l2))).
Proof.
  intros i l1 g l2 Hw. destruct (wf_inv _ _ Hw) as [Hni [Hnd _]]. simpl. constructor.
  - intro Hi. apply Hni. apply in_flat_map in Hi. destruct Hi as [c [Hc Hi]]. apply in_flat_map. exists c. split; auto.
    apply in_app_or in Hc. apply in_or_app. simpl. tauto.
  - apply flat_map_NoDup_split in Hnd. tauto.
Qed.

Lemma sweeps_edgeblock : forall c x q sp s, NoDup (ids c) -> down_path x c = Some q ->
  is_subtree sp c -> In s (rchildren sp) ->
  edgeblock (inb (ids s)) (rid s) (rid sp) (sweep_down c q) /\
  upblock (inb (ids s)) (rid s) (rid sp) (sweep_up c q).
Proof.
  induction c as [i cs IH] using rtree_ind2. intros x q sp s Hw Hq Hsp Hs. rewrite Forall_forall in IH.
  assert (Hlin : upblock (inb (ids s)) (rid s) (rid sp) (linearise (RNode i cs))) by (apply linearise_upblock; auto).
  apply down_path_step in Hq. destruct Hq as [[<- ->]|[Hne [g [q' [Hg [Hq' ->]]]]]].
  { destruct (sweep_leaf i cs Hw) as [-> ->]. split; [left|]; exact Hlin. }
  destruct (sweep_step i cs g x q' Hw Hg Hq') as [l1 [l2 [Ecs [Ed Eu]]]]. rewrite Ed, Eu.
  pose proof (wf_child _ _ _ Hw Hg) as Hwg.
  pose proof (sweep_down_perm _ _ _ Hwg Hq') as Pd'. pose proof (sweep_up_perm _ _ _ Hwg Hq') as Pu'.
  destruct (wf_inv _ _ Hw) as [Hni [Hnd _]].
  assert (Hw12 : NoDup (ids (RNode i (l1 ++ l2)))) by (rewrite Ecs in Hw; eapply wf_remove_child; eauto).
  assert (Hnd12 : NoDup (flat_map ids (l1 ++ l2))) by (rewrite Ecs in Hnd; apply flat_map_NoDup_split in Hnd; tauto).
  assert (Hsub12 : forall c', In c' (l1 ++ l2) -> In c' cs).
  { intros c' H. rewrite Ecs. apply in_app_or in H. apply in_or_app. simpl. tauto. }
  assert (Hlin_in : forall c y, In c (l1 ++ l2) -> In y (linearise c) -> In y (ids c)).
  { intros c y _ Hy. apply linearise_In. exact Hy. }
  (* everything in the subtree below c' (a child other than g) is outside the sweeps of g *)
  assert (Hg_out : forall c' l, In c' cs -> c' <> g -> (forall y, In y (ids s) -> In y (ids c')) ->
             Permutation l (ids g) -> allb (inb (ids s)) false l).
  { intros c' l Hc' Hcg Hsc' Pl. apply allb_false_disjoint. intros y Hy Hys. apply Hcg.
    eapply (wf_children_eq i cs c' g y); eauto. eapply Permutation_in; eauto. }
  assert (Hdec : forall c', In c' cs -> c' = g \/ c' <> g).
  { intros c' Hc'. destruct (Nat.eq_dec (rid c') (rid g)) as [E|E]; [left; eapply (wf_children_rid i cs); eauto | right; congruence]. }
  apply is_subtree_inv in Hsp. destruct Hsp as [->|[c' [Hc' Hsp]]].
  - (* the edge hangs at the root of this tree: p = i, s one of the children *)
    simpl in Hs. simpl rid.
    assert (Hroot : allb (inb (ids s)) false [i]).
    { apply allb_false_disjoint. intros y [<-|[]] Hy. eapply (wf_root_notin_child i cs s); eauto. }
    destruct (Hdec s Hs) as [->|Hsg].
    + (* s is the path child *)
      assert (Hoth : allb (inb (ids g)) false (flat_map linearise (l1 ++ l2))).
      { apply allb_false_disjoint. intros y Hy Hyg. rewrite Ecs in Hnd. apply flat_map_NoDup_split in Hnd.
        destruct Hnd as [_ [_ Hd]]. apply (Hd y Hyg).
        apply in_flat_map in Hy. destruct Hy as [c [Hc Hy]]. apply in_flat_map. exists c. split; [exact Hc | apply linearise_In; exact Hy]. }
      split.
      * right. exists (flat_map linearise (l1 ++ l2)), (sweep_down g q'). split; auto. split; [apply allb_app; auto|]. split.
        -- intros y Hy. apply inb_true. exact (Permutation_in _ Pd' Hy).
        -- eapply Permutation_in; [apply Permutation_sym; exact Pd'|]. apply rid_in_ids.
      * destruct (sweep_up_last _ _ _ Hq') as [l El]. rewrite El.
        apply (upblock_whole (inb (ids g)) (rid g) i [] l (flat_map linearise (l1 ++ l2) ++ [i])).
        -- apply allb_nil.
        -- rewrite <- El. intros y Hy. apply inb_true. eapply Permutation_in; eauto.
        -- apply allb_app; auto.
        -- apply in_or_app. simpl. auto.
    + (* s is another child: its post-order block, the root later *)
      assert (Hs12 : In s (l1 ++ l2)).
      { rewrite Ecs in Hs. apply in_app_or in Hs. apply in_or_app. destruct Hs as [H|[H|H]]; auto. congruence. }
      destruct (linearise_root_last s) as [ls Els].
      assert (Hlall : forall y, In y (ids s) -> In y (linearise s)) by (intros y Hy; apply linearise_In; exact Hy).
      split.
      * left. rewrite <- app_assoc.
        apply (children_upblock linearise i (l1 ++ l2) s ls ([i] ++ sweep_down g q') Hw12 Hs12 Hlin_in Els Hlall).
        -- apply allb_app; auto. apply (Hg_out s); auto.
        -- simpl; auto.
      * apply upblock_pad_l; [|apply (Hg_out s); auto].
        apply (children_upblock linearise i (l1 ++ l2) s ls [i] Hw12 Hs12 Hlin_in Els Hlall); auto. simpl; auto.
  - (* the edge is inside the child c' *)
    pose proof (is_subtree_trans _ _ _ (is_subtree_child _ _ Hs) Hsp) as Hsc.
    assert (Hroot : allb (inb (ids s)) false [i]).
    { apply allb_false_disjoint. intros y [<-|[]] Hy. eapply (wf_root_notin_child i cs c'); eauto. eapply is_subtree_ids; eauto. }
    destruct (Hdec c' Hc') as [->|Hcg].
    + destruct (IH g Hg x q' sp s Hwg Hq' Hsp Hs) as [Bd Bu].
      assert (Hoth : allb (inb (ids s)) false (flat_map linearise (l1 ++ l2))).
      { apply allb_false_disjoint. intros y Hy Hys. rewrite Ecs in Hnd. apply flat_map_NoDup_split in Hnd.
        destruct Hnd as [_ [_ Hd]]. apply (Hd y (is_subtree_ids _ _ Hsc y Hys)).
        apply in_flat_map in Hy. destruct Hy as [c [Hc Hy]]. apply in_flat_map. exists c. split; [exact Hc | apply linearise_In; exact Hy]. }
      split.
      * apply edgeblock_pad_l; auto. apply allb_app; auto.
      * apply upblock_pad_r; auto. apply allb_app; auto.
    + assert (Hin12 : In c' (l1 ++ l2)).
      { rewrite Ecs in Hc'. apply in_app_or in Hc'. apply in_or_app. destruct Hc' as [H|[H|H]]; auto. congruence. }
      assert (Boths : upblock (inb (ids s)) (rid s) (rid sp) (flat_map linearise (l1 ++ l2))).
      { apply (flat_map_upblock linearise (l1 ++ l2) s c' (rid sp) Hnd12 Hin12 (is_subtree_ids _ _ Hsc) Hlin_in).
        apply linearise_upblock; auto. eapply wf_child; eauto. }
      split.
      * left. rewrite <- app_assoc. apply upblock_pad_r; auto. apply allb_app; auto.
        apply (Hg_out c'); auto. apply (is_subtree_ids _ _ Hsc).
      * apply upblock_pad; auto. apply (Hg_out c'); auto. apply (is_subtree_ids _ _ Hsc).
Qed.

(* ================================================================================== *)
(* the update path                                                                    *)
(* ================================================================================== *)
Theorem update_path_edge_block : forall t sp s, NoDup (ids t) -> is_subtree sp t -> In s (rchildren sp) ->
  exists up, update_path t = Some up /\ edgeblock (inb (ids s)) (rid s) (rid sp) up.
Proof.
  intros [i cs] sp s Hw Hsp Hs.
  assert (Hlin_in : forall (l : list rtree) c y, In c l -> In y (linearise c) -> In y (ids c)).
  { intros l c y _ Hy. apply linearise_In. exact Hy. }
  destruct (wf_inv _ _ Hw) as [Hni [Hnd _]].
  destruct (update_path_decomp i cs Hw) as [st [F [[-> [-> U]]|[cm [dtl [Hcm [Hdtl [[-> U]|[L2 [ce [e [etl [Hce [Hne [Hel [Hetl U]]]]]]]]]]]]]]]].
  - (* a single node has no edge *)
    exfalso. apply is_subtree_inv in Hsp. destruct Hsp as [->|[c [[] _]]]. destruct Hs.
  - (* one child *)
    eexists. split; [exact U|]. left.
    pose proof (wf_child _ _ _ Hw Hcm) as Hwm. pose proof (sweep_up_perm _ _ _ Hwm Hdtl) as Pu.
    apply is_subtree_inv in Hsp. destruct Hsp as [->|[c [[<-|[]] Hsp]]].
    + simpl in Hs. destruct Hs as [<-|[]]. simpl rid. destruct (sweep_up_last _ _ _ Hdtl) as [l El]. rewrite El.
      apply (upblock_whole (inb (ids cm)) (rid cm) i [] l [i]); auto using allb_nil.
      * rewrite <- El. intros y Hy. apply inb_true. exact (Permutation_in _ Pu Hy).
      * apply allb_false_disjoint. intros y [<-|[]] Hy. eapply (wf_root_notin_child i [cm] cm); simpl; eauto.
      * simpl; auto.
    + apply upblock_pad_r; [apply (proj2 (sweeps_edgeblock cm st dtl sp s Hwm Hdtl Hsp Hs))|].
      pose proof (is_subtree_trans _ _ _ (is_subtree_child _ _ Hs) Hsp) as Hsc.
      apply allb_false_disjoint. intros y [<-|[]] Hy. eapply (wf_root_notin_child i [cm] cm); simpl; eauto.
      eapply is_subtree_ids; eauto.
  - (* at least two children *)
    eexists. split; [exact U|].
    pose proof (wf_child _ _ _ Hw Hcm) as Hwm. pose proof (wf_child _ _ _ Hw Hce) as Hwe.
    pose proof (sweep_up_perm _ _ _ Hwm Hdtl) as Pu. pose proof (sweep_down_perm _ _ _ Hwe Hetl) as Pd.
    set (oc := other_children cs (rid cm) (rid ce)) in *.
    assert (Hoc : forall c, In c oc -> In c cs /\ rid c <> rid cm /\ rid c <> rid ce).
    { intros c Hc. unfold oc, other_children in Hc. apply filter_In in Hc. destruct Hc as [Hc Hb]. split; auto.
      apply negb_true_iff in Hb. apply orb_false_iff in Hb. destruct Hb as [H1 H2]. apply Nat.eqb_neq in H1, H2. auto. }
    assert (Hoc_in : forall g, In g cs -> rid g <> rid cm -> rid g <> rid ce -> In g oc).
    { intros g Hg H1 H2. unfold oc, other_children. apply filter_In. split; auto. apply negb_true_iff. apply orb_false_iff.
      split; apply Nat.eqb_neq; auto. }
    assert (Hndoc : NoDup (flat_map ids oc)) by (apply NoDup_flat_map_filter; exact Hnd).
    (* g: the child of the root that contains the subtree s *)
    assert (Hg : exists g, In g cs /\ is_subtree s g).
    { apply is_subtree_inv in Hsp. destruct Hsp as [->|[c [Hc Hsp]]].
      - exists s. split; [exact Hs | apply sub_here].
      - exists c. split; auto. eapply is_subtree_trans; [apply is_subtree_child; exact Hs | exact Hsp]. }
    destruct Hg as [g [Hg Hsg]].
    assert (Hroot : allb (inb (ids s)) false [i]).
    { apply allb_false_disjoint. intros y [<-|[]] Hy. eapply (wf_root_notin_child i cs g); eauto. eapply is_subtree_ids; eauto. }
    assert (Hout : forall g' l, In g' cs -> g' <> g -> (forall x, In x l -> In x (ids g')) -> allb (inb (ids s)) false l).
    { intros g' l Hg' Hneq Hl. apply allb_false_disjoint. intros y Hy Hys. apply Hneq.
      eapply (wf_children_eq i cs g' g y); eauto. eapply is_subtree_ids; eauto. }
    assert (Hout_oc : forall l, (forall c, In c l -> In c oc /\ c <> g) -> allb (inb (ids s)) false (flat_map linearise l)).
    { intros l Hl. apply allb_false_disjoint. intros y Hy Hys. apply in_flat_map in Hy. destruct Hy as [c [Hc Hy]].
      destruct (Hl c Hc) as [Hcoc Hcg]. apply Hcg. apply Hoc in Hcoc. destruct Hcoc as [Hccs _].
      apply (wf_children_eq i cs c g y Hw Hccs Hg); [apply linearise_In; exact Hy | eapply is_subtree_ids; eauto]. }
    assert (Hcm_out : g <> cm -> allb (inb (ids s)) false (sweep_up cm dtl)).
    { intros Hgm. apply (Hout cm); auto. intros y Hy. exact (Permutation_in _ Pu Hy). }
    assert (Hce_out : g <> ce -> allb (inb (ids s)) false (sweep_down ce etl)).
    { intros Hge. apply (Hout ce); auto. intros y Hy. exact (Permutation_in _ Pd Hy). }
    assert (Hcme : cm <> ce) by (intro E; apply Hne; rewrite E; reflexivity).
    assert (Hoc_out : g = cm \/ g = ce -> allb (inb (ids s)) false (flat_map linearise oc)).
    { intros Hgc. apply Hout_oc. intros c Hc. split; auto. intro E. subst c. apply Hoc in Hc. destruct Hc as [_ [H1 H2]].
      destruct Hgc as [->| ->]; congruence. }
    destruct (Nat.eq_dec (rid g) (rid cm)) as [Egm|Egm]; [|destruct (Nat.eq_dec (rid g) (rid ce)) as [Ege|Ege]].
    + (* inside the main branch *)
      assert (g = cm) by (eapply (wf_children_rid i cs); eauto). subst g. left.
      assert (Hrest : allb (inb (ids s)) false ((flat_map linearise oc ++ [i]) ++ sweep_down ce etl)).
      { apply allb_app; [apply allb_app; auto|]; auto. }
      apply is_subtree_inv in Hsp. destruct Hsp as [->|[c [Hc Hsp]]].
      * simpl in Hs. simpl rid. assert (s = cm) by (eapply (wf_children_eq i cs s cm (rid s)); eauto using rid_in_ids; eapply is_subtree_ids; eauto using rid_in_ids).
        subst s. destruct (sweep_up_last _ _ _ Hdtl) as [l El]. rewrite El.
        apply (upblock_whole (inb (ids cm)) (rid cm) i [] l); auto using allb_nil.
        -- rewrite <- El. intros y Hy. apply inb_true. exact (Permutation_in _ Pu Hy).
        -- apply in_or_app. left. apply in_or_app. simpl. auto.
      * assert (c = cm).
        { eapply (wf_children_eq i cs c cm (rid s)); eauto.
          - eapply is_subtree_ids; [exact Hsp|]. eapply is_subtree_ids; [apply is_subtree_child; exact Hs|]. apply rid_in_ids.
          - eapply is_subtree_ids; eauto using rid_in_ids. }
        subst c. apply upblock_pad_r; auto. apply (proj2 (sweeps_edgeblock cm st dtl sp s Hwm Hdtl Hsp Hs)).
    + (* inside the final descent *)
      assert (g = ce) by (eapply (wf_children_rid i cs); eauto). subst g.
      assert (Hpre : allb (inb (ids s)) false (sweep_up cm dtl ++ flat_map linearise oc ++ [i])).
      { apply allb_app; [auto|apply allb_app; auto]. }
      rewrite app_assoc.
      apply is_subtree_inv in Hsp. destruct Hsp as [->|[c [Hc Hsp]]].
      * simpl in Hs. simpl rid. assert (s = ce) by (eapply (wf_children_eq i cs s ce (rid s)); eauto using rid_in_ids; eapply is_subtree_ids; eauto using rid_in_ids).
        subst s. right. exists (sweep_up cm dtl ++ flat_map linearise oc), (sweep_down ce etl).
        split; [rewrite <- !app_assoc; reflexivity|]. split; [rewrite <- app_assoc; exact Hpre|]. split.
        -- intros y Hy. apply inb_true. exact (Permutation_in _ Pd Hy).
        -- eapply Permutation_in; [apply Permutation_sym; exact Pd|]. apply rid_in_ids.
      * assert (c = ce).
        { eapply (wf_children_eq i cs c ce (rid s)); eauto.
          - eapply is_subtree_ids; [exact Hsp|]. eapply is_subtree_ids; [apply is_subtree_child; exact Hs|]. apply rid_in_ids.
          - eapply is_subtree_ids; eauto using rid_in_ids. }
        subst c. apply edgeblock_pad_l; auto. apply (proj1 (sweeps_edgeblock ce e etl sp s Hwe Hetl Hsp Hs)).
    + (* inside one of the other children: post-order *)
      left. pose proof (Hoc_in g Hg Egm Ege) as Hgo.
      assert (Hgm : g <> cm) by congruence. assert (Hge : g <> ce) by congruence.
      apply is_subtree_inv in Hsp. destruct Hsp as [->|[c [Hc Hsp]]].
      * simpl in Hs. simpl rid. assert (s = g) by (eapply (wf_children_eq i cs s g (rid s)); eauto using rid_in_ids; eapply is_subtree_ids; eauto using rid_in_ids).
        subst s. apply upblock_pad_l; auto. rewrite <- app_assoc.
        destruct (linearise_root_last g) as [lg Elg].
        assert (Hwoc : NoDup (ids (RNode i oc))).
        { simpl. constructor; auto. intro Hi. apply Hni. apply in_flat_map in Hi. destruct Hi as [c [Hc Hi]].
          apply in_flat_map. exists c. split; auto. apply Hoc; auto. }
        apply (children_upblock linearise i oc g lg ([i] ++ sweep_down ce etl) Hwoc Hgo (Hlin_in oc) Elg).
        -- intros y Hy. apply linearise_In. exact Hy.
        -- apply allb_app; auto.
        -- simpl; auto.
      * assert (c = g).
        { eapply (wf_children_eq i cs c g (rid s)); eauto.
          - eapply is_subtree_ids; [exact Hsp|]. eapply is_subtree_ids; [apply is_subtree_child; exact Hs|]. apply rid_in_ids.
          - eapply is_subtree_ids; eauto using rid_in_ids. }
        subst c. apply upblock_pad; auto.
        -- apply upblock_pad_r; auto.
           apply (flat_map_upblock linearise oc s g (rid sp) Hndoc Hgo (is_subtree_ids _ _ Hsg) (Hlin_in oc)).
           apply linearise_upblock; auto. eapply wf_child; eauto.
Qed.

(* ================================================================================== *)
(* exactly one first hop on every edge                                                *)
(* ================================================================================== *)
Definition hopb (f : nat -> bool) (p c : nat) (ab : nat * nat) : bool :=
  (Nat.eqb (fst ab) p || Nat.eqb (fst ab) c) && xorb (f (fst ab)) (f (snd ab)).

Lemma steps_app : forall u x v, steps (u ++ x :: v) = steps (u ++ [x]) ++ steps (x :: v).
Proof.
  induction u as [|a u IH]; intros x v; [reflexivity|]. destruct u as [|b u].
  - simpl. reflexivity.
  - change (steps ((a :: b :: u) ++ x :: v)) with ((a, b) :: steps ((b :: u) ++ x :: v)).
    change (steps ((a :: b :: u) ++ [x])) with ((a, b) :: steps ((b :: u) ++ [x])).
    rewrite IH. reflexivity.
Qed.

Lemma steps_fst_in : forall u x s, In s (steps (u ++ [x])) -> In (fst s) u.
Proof.
  induction u as [|a u IH]; intros x s H; [destruct H|]. destruct u as [|b u].
  - simpl in H. destruct H as [<-|[]]. simpl. auto.
  - change (steps ((a :: b :: u) ++ [x])) with ((a, b) :: steps ((b :: u) ++ [x])) in H. destruct H as [<-|H].
    + simpl. auto.
    + right. eapply IH; eauto.
Qed.

Lemma hop_const_none : forall f p c v l, allb f v l -> filter (hopb f p c) (steps l) = [].
Proof.
  intros f p c v l H. apply filter_none. intros s Hs. apply steps_in in Hs. destruct Hs as [H1 H2].
  unfold hopb. rewrite (H _ H1), (H _ H2), xorb_nilpotent. apply andb_false_r.
Qed.

Lemma filter_cons' : forall {A} (g : A -> bool) x l, filter g (x :: l) = if g x then x :: filter g l else filter g l.
Proof. reflexivity. Qed.

Theorem hop_count_one : forall f p c l, NoDup l -> edgeblock f c p l ->
  length (filter (hopb f p c) (steps l)) = 1.
Proof.
  intros f p c l Hnd [[l1 [l2 [l3 [-> [H1 [H2 [H3 Hp]]]]]]]|[l1 [l2 [-> [H1 [H2 Hc]]]]]].
  - destruct l3 as [|h l3]; [destruct Hp|].
    replace (l1 ++ (l2 ++ [c]) ++ h :: l3) with ((l1 ++ l2) ++ c :: h :: l3) in * by (rewrite <- !app_assoc; reflexivity).
    rewrite steps_app. change (steps (c :: h :: l3)) with ((c, h) :: steps (h :: l3)).
    rewrite filter_app, filter_cons'.
    rewrite (hop_const_none f p c false (h :: l3) H3).
    assert (E : hopb f p c (c, h) = true).
    { unfold hopb. simpl. rewrite Nat.eqb_refl, orb_true_r. rewrite (H2 c), (H3 h); simpl; auto. apply in_or_app; simpl; auto. }
    rewrite E. rewrite filter_none; [reflexivity|].
    intros s Hs. apply steps_fst_in in Hs. unfold hopb.
    apply NoDup_app_inv in Hnd. destruct Hnd as [_ [_ Hd]].
    replace (Nat.eqb (fst s) p) with false; [replace (Nat.eqb (fst s) c) with false; [reflexivity|]|]; symmetry; apply Nat.eqb_neq; intro Eq.
    + apply (Hd (fst s) Hs). rewrite Eq. simpl; auto.
    + apply (Hd (fst s) Hs). rewrite Eq. right. exact Hp.
  - destruct l2 as [|h l2]; [destruct Hc|].
    replace ((l1 ++ [p]) ++ h :: l2) with (l1 ++ p :: h :: l2) in * by (rewrite <- app_assoc; reflexivity).
    rewrite steps_app. change (steps (p :: h :: l2)) with ((p, h) :: steps (h :: l2)).
    rewrite filter_app, filter_cons'.
    rewrite (hop_const_none f p c true (h :: l2) H2), (hop_const_none f p c false (l1 ++ [p]) H1).
    assert (E : hopb f p c (p, h) = true).
    { unfold hopb. simpl. rewrite Nat.eqb_refl. rewrite (H1 p), (H2 h); simpl; auto. apply in_or_app; simpl; auto. }
    rewrite E. reflexivity.
Qed.

(* the two statements combined, for an edge given as a member of `edges t` *)
Theorem update_path_hops : forall t p c, NoDup (ids t) -> In (p, c) (edges t) ->
  exists up s, update_path t = Some up /\ subtree c t = Some s /\
    length (filter (hopb (inb (ids s)) p c) (steps up)) = 1 /\
    (forall a b nx q, In a (ids t) -> In b (ids t) -> path_from_to t a b = Some (a :: nx :: q) ->
       same_edge (p, c) (a, nx) = hopb (inb (ids s)) p c (a, b)).
Proof.
  intros t p c Hw He. pose proof He as He'. apply edges_spec in He'. destruct He' as [sp [Hsp [Ha Hb]]].
  apply in_map_iff in Hb. destruct Hb as [s [Hb Hs]]. subst p c.
  destruct (update_path_edge_block t sp s Hw Hsp Hs) as [up [Up B]].
  destruct (update_path_perm t Hw) as [up' [Up' P]]. rewrite Up in Up'. inversion Up'; subst up'.
  exists up, s. split; auto. split; [apply subtree_complete; auto; eapply cut_s_sub; eauto|]. split.
  - apply hop_count_one; auto. eapply Permutation_NoDup; [apply Permutation_sym; exact P | exact Hw].
  - intros a b nx q Ha Hb Hp. unfold hopb. simpl fst. simpl snd. eapply hop_on_edge; eauto.
Qed.
