(* Proofs about the initial cache of a TDVP run (Tree/CachePath.v): the state-threading
   model of _find_caching_path equals a structural description (keys_down), from which the
   three clauses follow: one block per edge, every block directed toward the left-out
   node, every block created after the blocks it is contracted from. *)
From Coq Require Import List Arith Bool Lia Permutation.
From PTN Require Import Tree.RTree Tree.RTreeProofs Tree.Nav Tree.NavProofs
     Tree.UpdatePath Tree.UpdatePathProofs Tree.CachePath.
Import ListNotations.

(* ================================================================================== *)
(* structural description                                                             *)
(* ================================================================================== *)
(* blocks (n, parent n) of a whole subtree hanging below p, children first *)
Fixpoint par_pairs (p : nat) (t : rtree) : list (nat * nat) :=
  match t with RNode i cs => flat_map (par_pairs i) cs ++ [(i, p)] end.

(* the child with identifier y, and the others *)
Definition sel {A : Type} (y : nat) (f : rtree -> list A) (cs : list rtree) : list A :=
  flat_map (fun c => if Nat.eqb (rid c) y then f c else []) cs.
Definition offc (y : nat) (cs : list rtree) : list rtree :=
  filter (fun c => negb (Nat.eqb (rid c) y)) cs.

(* q = the down path to the left-out node below the root of t *)
Fixpoint keys_down (t : rtree) (q : list nat) : list (nat * nat) :=
  match t with
  | RNode i cs =>
      match q with
      | [] => flat_map (par_pairs i) cs
      | y :: q' => flat_map (par_pairs i) (offc y cs) ++ (i, y) :: sel y (fun c => keys_down c q') cs
      end
  end.

Fixpoint ups_down (t : rtree) (q : list nat) : list (nat * nat) :=
  match t with
  | RNode i cs =>
      match q with
      | [] => flat_map (par_pairs i) cs
      | y :: q' => flat_map (par_pairs i) (offc y cs) ++ sel y (fun c => ups_down c q') cs
      end
  end.

Fixpoint cp_down (t : rtree) (q : list nat) : list nat :=
  match t with
  | RNode i cs =>
      match q with
      | [] => flat_map linearise cs ++ [i]
      | y :: q' => flat_map linearise (offc y cs) ++ i :: sel y (fun c => cp_down c q') cs
      end
  end.

Lemma sel_eq : forall {A} (f : rtree -> list A) cs c, NoDup (map rid cs) -> In c cs -> sel (rid c) f cs = f c.
Proof.
  intros A f cs c. unfold sel. induction cs as [|a cs IH]; intros N Hc; [contradiction|].
  simpl in N. inversion N; subst. simpl. destruct Hc as [->|Hc].
  - rewrite Nat.eqb_refl. rewrite (flat_map_ext_in _ (fun _ => [])).
    + clear. induction cs; simpl; auto. apply app_nil_r.
    + intros g Hg. destruct (Nat.eqb (rid g) (rid c)) eqn:E; auto. apply Nat.eqb_eq in E.
      exfalso. apply H1. rewrite <- E. apply in_map. exact Hg.
  - destruct (Nat.eqb (rid a) (rid c)) eqn:E.
    + apply Nat.eqb_eq in E. exfalso. apply H1. rewrite E. apply in_map. exact Hc.
    + simpl. apply IH; auto.
Qed.

Lemma offc_perm : forall cs c, NoDup (map rid cs) -> In c cs -> Permutation (c :: offc (rid c) cs) cs.
Proof. intros. apply perm_remove_rid; auto. Qed.

Lemma map_fst_flat_map : forall {A} (f : A -> list (nat * nat)) (g : A -> list nat) l,
  (forall a, In a l -> map fst (f a) = g a) -> map fst (flat_map f l) = flat_map g l.
Proof.
  intros A f g l. induction l as [|a l IH]; intros H; simpl; auto. rewrite map_app, H, IH; auto.
  - intros; apply H; right; auto. - left; auto.
Qed.

Lemma par_pairs_keys : forall t p, map fst (par_pairs p t) = linearise t.
Proof.
  induction t as [i cs IH] using rtree_ind2. intros p. rewrite Forall_forall in IH. simpl.
  rewrite map_app. simpl. f_equal. apply map_fst_flat_map. intros c Hc. apply IH; auto.
Qed.

(* a block (n, m) of par_pairs: m is the parent of n *)
Lemma par_pairs_edges : forall t p n m, In (n, m) (par_pairs p t) ->
  (n = rid t /\ m = p) \/ In (m, n) (edges t).
Proof.
  induction t as [i cs IH] using rtree_ind2. intros p n m H. rewrite Forall_forall in IH. simpl in H.
  apply in_app_or in H. destruct H as [H|[H|[]]].
  - right. apply in_flat_map in H. destruct H as [c [Hc H]]. destruct (IH c Hc i n m H) as [[-> ->]|He].
    + apply edges_root; auto.
    + eapply edges_child; eauto.
  - inversion H; subst. left. auto.
Qed.

Lemma par_pairs_in_ids : forall t p n m, In (n, m) (par_pairs p t) -> In n (ids t).
Proof.
  intros t p n m H. apply linearise_In. rewrite <- (par_pairs_keys t p). apply in_map_iff. exists (n, m). auto.
Qed.

(* ================================================================================== *)
(* the state-threading recursion                                                      *)
(* ================================================================================== *)
Lemma has_key_In : forall k al, has_key k al = true <-> In k (map fst al).
Proof.
  intros k al. unfold has_key. rewrite existsb_exists. split.
  - intros [[a b] [Hi He]]. simpl in He. apply Nat.eqb_eq in He. subst. apply in_map_iff. exists (k, b). auto.
  - intros H. apply in_map_iff in H. destruct H as [[a b] [E Hi]]. simpl in E. subst. exists (k, b). split; auto. simpl. apply Nat.eqb_refl.
Qed.

Lemma has_key_false : forall k al, has_key k al = false <-> ~ In k (map fst al).
Proof.
  intros k al. rewrite <- has_key_In. destruct (has_key k al); split; intros H; try congruence; try (intro; congruence).
Qed.

(* a subtree with no node on the initial path: post-order, every node points to its parent *)
Lemma cache_rec_off : forall s init last p cp nx, NoDup (ids s) ->
  (forall x, In x (ids s) -> ~ In x init /\ x <> last /\ ~ In x (map fst nx)) ->
  cache_rec init last (Some p) s (Some (cp, nx)) = Some (cp ++ linearise s, nx ++ par_pairs p s).
Proof.
  induction s as [i cs IH] using rtree_ind2. intros init last p cp nx Hw Hc. rewrite Forall_forall in IH.
  destruct (wf_inv _ _ Hw) as [Hi [Hnd Hwc]]. rewrite Forall_forall in Hwc.
  simpl cache_rec.
  assert (F : forall l cp nx, (forall c, In c l -> In c cs) -> NoDup (flat_map ids l) ->
              (forall x, In x (flat_map ids l) -> ~ In x init /\ x <> last /\ ~ In x (map fst nx)) ->
              fold_left (fun s c => if mem (rid c) init then s else cache_rec init last (Some i) c s) l (Some (cp, nx))
              = Some (cp ++ flat_map linearise l, nx ++ flat_map (par_pairs i) l)).
  { induction l as [|a l IHl]; intros cp0 nx0 Hsub Hndl Hcl; simpl.
    - rewrite !app_nil_r. reflexivity.
    - simpl in Hndl. destruct (NoDup_app_inv _ _ Hndl) as [Na [Nl Hd]].
      assert (Ha : mem (rid a) init = false).
      { apply mem_false. apply (Hcl (rid a)). simpl. apply in_or_app. left. apply rid_in_ids. }
      rewrite Ha. rewrite (IH a (Hsub a (or_introl eq_refl))); auto.
      + rewrite IHl; auto.
        * rewrite <- !app_assoc. reflexivity.
        * intros; apply Hsub; right; auto.
        * intros x Hx. destruct (Hcl x) as [H1 [H2 H3]]; [simpl; apply in_or_app; right; exact Hx|].
          repeat split; auto. rewrite map_app. intro Hin. apply in_app_or in Hin. destruct Hin as [Hin|Hin]; auto.
          rewrite par_pairs_keys in Hin. apply linearise_In in Hin. eapply Hd; eauto.
      + intros x Hx. apply Hcl. simpl. apply in_or_app. left. exact Hx. }
  rewrite F; auto.
  - assert (Hk : has_key i (nx ++ flat_map (par_pairs i) cs) = false).
    { apply has_key_false. rewrite map_app. intro Hin. apply in_app_or in Hin. destruct Hin as [Hin|Hin].
      - apply (Hc i); simpl; auto.
      - apply Hi. rewrite (map_fst_flat_map _ linearise) in Hin; [|intros; apply par_pairs_keys].
        apply in_flat_map in Hin. destruct Hin as [c [Hcc Hin]]. apply in_flat_map. exists c. split; auto. apply linearise_In; auto. }
    rewrite Hk. assert (Hl : Nat.eqb i last = false) by (apply Nat.eqb_neq; apply (Hc i); simpl; auto).
    rewrite Hl. simpl. rewrite <- !app_assoc. reflexivity.
  - intros x Hx. apply Hc. simpl. right. exact Hx.
Qed.

(* a node of the initial path: only the children off the path are entered; no own entry *)
Lemma cache_rec_on : forall i cs init last par cp nx, NoDup (ids (RNode i cs)) ->
  (In i (map fst nx) \/ i = last) ->
  (forall c x, In c cs -> ~ In (rid c) init -> In x (ids c) -> ~ In x init /\ x <> last /\ ~ In x (map fst nx)) ->
  cache_rec init last par (RNode i cs) (Some (cp, nx)) =
    Some (cp ++ flat_map linearise (filter (not_on init) cs) ++ [i],
          nx ++ flat_map (par_pairs i) (filter (not_on init) cs)).
Proof.
  intros i cs init last par cp nx Hw Hi Hc. destruct (wf_inv _ _ Hw) as [Hni [Hnd Hwc]]. rewrite Forall_forall in Hwc.
  simpl cache_rec.
  assert (F : forall l cp nx, (forall c, In c l -> In c cs) -> NoDup (flat_map ids l) ->
              (forall c x, In c l -> ~ In (rid c) init -> In x (ids c) -> ~ In x init /\ x <> last /\ ~ In x (map fst nx)) ->
              fold_left (fun s c => if mem (rid c) init then s else cache_rec init last (Some i) c s) l (Some (cp, nx))
              = Some (cp ++ flat_map linearise (filter (not_on init) l), nx ++ flat_map (par_pairs i) (filter (not_on init) l))).
  { induction l as [|a l IHl]; intros cp0 nx0 Hsub Hndl Hcl.
    - simpl. rewrite !app_nil_r. reflexivity.
    - simpl in Hndl. destruct (NoDup_app_inv _ _ Hndl) as [Na [Nl Hd]]. cbn [filter fold_left].
      change (not_on init a) with (negb (mem (rid a) init)).
      destruct (mem (rid a) init) eqn:Ha; cbn [negb flat_map].
      + apply IHl; auto. * intros; apply Hsub; right; auto. * intros c x Hcl'. apply Hcl. right. exact Hcl'.
      + apply mem_false in Ha. rewrite cache_rec_off; auto.
        * rewrite IHl; auto.
          -- rewrite <- !app_assoc. reflexivity.
          -- intros; apply Hsub; right; auto.
          -- intros c x Hcl' Hr Hx. destruct (Hcl c x (or_intror Hcl') Hr Hx) as [H1 [H2 H3]]. repeat split; auto.
             rewrite map_app. intro Hin. apply in_app_or in Hin. destruct Hin as [Hin|Hin]; auto.
             rewrite par_pairs_keys in Hin. apply linearise_In in Hin. apply (Hd x Hin). apply in_flat_map. exists c. auto.
        * intros x Hx. apply (Hcl a x); auto. left; auto. }
  rewrite F; auto.
  assert (Hk : negb (has_key i (nx ++ flat_map (par_pairs i) (filter (not_on init) cs))) && negb (Nat.eqb i last) = false).
  { destruct Hi as [Hi| ->].
    - assert (has_key i (nx ++ flat_map (par_pairs i) (filter (not_on init) cs)) = true) as ->; auto.
      apply has_key_In. rewrite map_app. apply in_or_app. left. exact Hi.
    - rewrite Nat.eqb_refl. simpl. apply andb_false_r. }
  rewrite Hk. rewrite <- app_assoc. reflexivity.
Qed.

(* ================================================================================== *)
(* the loop over the initial path                                                     *)
(* ================================================================================== *)
Definition cstep (T : rtree) (init : list nat) (last : nat) (st : option cstate) (x : nat) : option cstate :=
  match subtree x T with None => None | Some s => cache_rec init last (parent_of x T) s st end.

Lemma not_on_offc : forall i cs c q init, NoDup (ids (RNode i cs)) -> In c cs ->
  (forall x, In x (ids (RNode i cs)) -> (In x init <-> In x (i :: q))) ->
  (forall x, In x q -> In x (ids c)) -> In (rid c) q ->
  filter (not_on init) cs = offc (rid c) cs.
Proof.
  intros i cs c q init Hw Hc Hinit Hq Hrc. unfold offc. apply filter_ext_in. intros g Hg. unfold not_on. f_equal.
  assert (Hgt : In (rid g) (ids (RNode i cs))) by (eapply in_child_ids; eauto using rid_in_ids).
  destruct (Nat.eqb (rid g) (rid c)) eqn:E.
  - apply Nat.eqb_eq in E. apply mem_In. apply Hinit; auto. right. rewrite E. exact Hrc.
  - apply Nat.eqb_neq in E. apply mem_false. intro Hi. apply Hinit in Hi; auto. destruct Hi as [Hi|Hi].
    + eapply (wf_root_notin_child i cs g); eauto. rewrite Hi. apply rid_in_ids.
    + apply E. f_equal. eapply (wf_children_eq i cs g c (rid g)); eauto using rid_in_ids.
Qed.

Lemma fold_cache : forall T, NoDup (ids T) -> forall t, is_subtree t T ->
  forall init last q cp nx,
  down_path last t = Some (rid t :: q) ->
  (forall x, In x (ids t) -> (In x init <-> In x (rid t :: q))) ->
  (forall x, In x (ids t) -> (In x (map fst nx) <-> (In x (rid t :: q) /\ x <> last))) ->
  fold_left (cstep T init last) (rid t :: q) (Some (cp, nx)) = Some (cp ++ cp_down t q, nx ++ ups_down t q).
Proof.
  intros T HwT. induction t as [i cs IH] using rtree_ind2. intros Hsub init last q cp nx Hd Hinit Hnx.
  rewrite Forall_forall in IH. pose proof (is_subtree_wf _ _ Hsub HwT) as Hw.
  pose proof (subtree_complete T (RNode i cs) HwT Hsub) as Hst. simpl rid in *.
  cbn [fold_left]. unfold cstep at 2. rewrite Hst.
  pose proof (down_path_In _ _ _ Hd) as Hqin.
  apply down_path_step in Hd. destruct Hd as [[Ei Eq]|[Hne [c [q0 [Hc [Hq0 Eq]]]]]].
  - inversion Eq; subst q. subst last.
    assert (Hx : forall g x, In g cs -> In x (ids g) -> x <> i).
    { intros g x Hg Hxg E. subst x. eapply wf_root_notin_child; eauto. }
    rewrite cache_rec_on; auto.
    + rewrite filter_all.
      * simpl. reflexivity.
      * intros g Hg. apply negb_true_iff. apply mem_false. intro Hi. apply Hinit in Hi.
        -- destruct Hi as [Hi|[]]. apply (Hx g (rid g) Hg (rid_in_ids g)). auto.
        -- eapply in_child_ids; eauto using rid_in_ids.
    + intros g x Hg _ Hxg. assert (Hxt : In x (ids (RNode i cs))) by (eapply in_child_ids; eauto).
      pose proof (Hx g x Hg Hxg) as Hxi. repeat split; auto.
      * intro Hi. apply Hinit in Hi; auto. destruct Hi as [Hi|[]]. congruence.
      * intro Hi. apply Hnx in Hi; auto. destruct Hi as [[Hi|[]] _]. congruence.
  - inversion Eq; subst q. clear Eq. destruct (down_path_hd _ _ _ Hq0) as [q1 Eq1].
    pose proof (wf_child _ _ _ Hw Hc) as Hwc.
    assert (Hq0c : forall x, In x q0 -> In x (ids c)) by (intros; eapply down_path_In; eauto).
    assert (Hlast : In last (ids c)) by (eapply down_path_target_in; eauto).
    assert (Hoff : forall g x, In g cs -> rid g <> rid c -> In x (ids g) -> ~ In x (i :: q0)).
    { intros g x Hg Hr Hxg [E|Hi].
      - subst x. eapply wf_root_notin_child; eauto.
      - apply Hr. f_equal. eapply (wf_children_eq i cs g c x); eauto. }
    assert (Hrc : In (rid c) q0) by (rewrite Eq1; left; reflexivity).
    rewrite cache_rec_on; auto.
    + rewrite (not_on_offc i cs c q0 init Hw Hc Hinit Hq0c Hrc).
      rewrite Eq1. rewrite (IH c Hc).
      * cbn [cp_down ups_down]. destruct (wf_inv _ _ Hw) as [_ [Hnd _]]. pose proof (map_rid_NoDup _ Hnd) as Nr.
        rewrite !(sel_eq _ cs c Nr Hc). rewrite <- !app_assoc. reflexivity.
      * eapply is_subtree_trans; [|exact Hsub]. eapply sub_child; eauto. constructor.
      * rewrite <- Eq1. exact Hq0.
      * rewrite <- Eq1. intros x Hx. assert (Hxt : In x (ids (RNode i cs))) by (eapply in_child_ids; eauto).
        rewrite (Hinit x Hxt). split; [intros [E|H]; auto | intros; right; auto].
        subst x. exfalso. eapply wf_root_notin_child; eauto.
      * rewrite <- Eq1. intros x Hx. assert (Hxt : In x (ids (RNode i cs))) by (eapply in_child_ids; eauto).
        rewrite map_app, in_app_iff. rewrite (Hnx x Hxt). split.
        -- intros [[[E|H] Hl]|H]; auto.
           ++ subst x. exfalso. eapply wf_root_notin_child; eauto.
           ++ exfalso. rewrite (map_fst_flat_map _ linearise) in H; [|intros; apply par_pairs_keys].
              apply in_flat_map in H. destruct H as [g [Hg H]]. apply filter_In in Hg. destruct Hg as [Hg Hr].
              apply negb_true_iff in Hr. apply Nat.eqb_neq in Hr. apply linearise_In in H.
              apply Hr. f_equal. eapply (wf_children_eq i cs g c x); eauto.
        -- intros [H Hl]. left. split; auto. right. auto.
    + left. apply Hnx; [simpl; auto|]. split; [left; auto|]. intro E. subst last.
      eapply wf_root_notin_child; eauto.
    + intros g x Hg Hr Hxg. assert (Hxt : In x (ids (RNode i cs))) by (eapply in_child_ids; eauto).
      assert (Hrg : rid g <> rid c).
      { intro E. apply Hr. apply Hinit; [eapply in_child_ids; eauto using rid_in_ids|]. right. rewrite E. exact Hrc. }
      pose proof (Hoff g x Hg Hrg Hxg) as Hno. repeat split.
      * intro Hi. apply Hno. apply Hinit; auto.
      * intro E. subst x. apply Hrg. f_equal. eapply (wf_children_eq i cs g c last); eauto.
      * intro Hi. apply Hnx in Hi; auto. destruct Hi as [Hi _]. auto.
Qed.

Lemma map_fst_combine_tl : forall (l : list nat), map fst (combine l (tl l)) = removelast l.
Proof.
  induction l as [|a l IH]; auto. destruct l as [|b l]; auto.
  change (combine (a :: b :: l) (tl (a :: b :: l))) with ((a, b) :: combine (b :: l) (tl (b :: l))).
  rewrite map_cons, IH. reflexivity.
Qed.

Lemma find_caching_path_eq : forall t first q, NoDup (ids t) -> down_path first t = Some (rid t :: q) ->
  find_caching_path t first = Some (cp_down t q, combine (rid t :: q) q ++ ups_down t q).
Proof.
  intros t first q Hw Hd. unfold find_caching_path, path_to_root. rewrite Hd. unfold option_map. rewrite rev_involutive.
  pose proof (down_path_NoDup _ _ _ Hw Hd) as N. destruct (down_path_last _ _ _ Hd) as [r Hr].
  pose proof (fold_cache t Hw t (sub_here t) (rid t :: q) first q [] (combine (rid t :: q) q) Hd) as F.
  unfold cstep in F. simpl app in F. simpl tl. apply F.
  - intros; tauto.
  - intros x Hx. change (combine (rid t :: q) q) with (combine (rid t :: q) (tl (rid t :: q))).
    rewrite map_fst_combine_tl. rewrite Hr in *. rewrite removelast_last.
    apply NoDup_app_inv in N. destruct N as [_ [_ Hdis]]. rewrite in_app_iff. split.
    + intros Hi. split; auto. intro E. subst x. apply (Hdis first Hi). left. reflexivity.
    + intros [[Hi|[E|[]]] Hne]; auto. congruence.
Qed.

(* the caching path lists the creators of the keys, then the left-out node *)
Lemma cp_down_keys : forall t first q, NoDup (ids t) -> down_path first t = Some (rid t :: q) ->
  cp_down t q = map fst (keys_down t q) ++ [first].
Proof.
  induction t as [i cs IH] using rtree_ind2. intros first q Hw Hd. rewrite Forall_forall in IH. simpl rid in *.
  destruct (wf_inv _ _ Hw) as [_ [Hnd _]]. pose proof (map_rid_NoDup _ Hnd) as Nr.
  apply down_path_step in Hd. destruct Hd as [[Ei Eq]|[Hne [c [q0 [Hc [Hq0 Eq]]]]]].
  - inversion Eq; subst q. subst first. simpl. f_equal. symmetry. apply map_fst_flat_map. intros; apply par_pairs_keys.
  - inversion Eq; subst q. destruct (down_path_hd _ _ _ Hq0) as [q1 Eq1]. subst q0.
    cbn [cp_down keys_down]. rewrite !(sel_eq _ cs c Nr Hc).
    rewrite (IH c Hc first q1 (wf_child _ _ _ Hw Hc) Hq0).
    rewrite map_app. simpl map. rewrite (map_fst_flat_map _ linearise); [|intros; apply par_pairs_keys].
    rewrite <- app_assoc. reflexivity.
Qed.

Lemma keys_down_in_nx : forall t first q, NoDup (ids t) -> down_path first t = Some (rid t :: q) ->
  forall n m, In (n, m) (keys_down t q) -> In (n, m) (combine (rid t :: q) q ++ ups_down t q).
Proof.
  induction t as [i cs IH] using rtree_ind2. intros first q Hw Hd n m H. rewrite Forall_forall in IH. simpl rid in *.
  destruct (wf_inv _ _ Hw) as [_ [Hnd _]]. pose proof (map_rid_NoDup _ Hnd) as Nr.
  apply down_path_step in Hd. destruct Hd as [[Ei Eq]|[Hne [c [q0 [Hc [Hq0 Eq]]]]]].
  - inversion Eq; subst q. simpl in *. exact H.
  - inversion Eq; subst q. destruct (down_path_hd _ _ _ Hq0) as [q1 Eq1]. subst q0.
    cbn [keys_down ups_down] in *. rewrite (sel_eq _ cs c Nr Hc) in H. rewrite (sel_eq _ cs c Nr Hc).
    change (combine (i :: rid c :: q1) (rid c :: q1)) with ((i, rid c) :: combine (rid c :: q1) q1).
    apply in_app_or in H. destruct H as [H|[H|H]].
    + right. apply in_or_app. right. apply in_or_app. left. exact H.
    + left. exact H.
    + right. specialize (IH c Hc first q1 (wf_child _ _ _ Hw Hc) Hq0 n m H).
      apply in_app_or in IH. apply in_or_app. destruct IH as [IH|IH]; auto. right. apply in_or_app. right. exact IH.
Qed.

Lemma ups_down_perm : forall t first q, NoDup (ids t) -> down_path first t = Some (rid t :: q) ->
  Permutation (map fst (ups_down t q) ++ rid t :: q) (ids t).
Proof.
  induction t as [i cs IH] using rtree_ind2. intros first q Hw Hd. rewrite Forall_forall in IH. simpl rid in *.
  destruct (wf_inv _ _ Hw) as [_ [Hnd _]]. pose proof (map_rid_NoDup _ Hnd) as Nr.
  apply down_path_step in Hd. destruct Hd as [[Ei Eq]|[Hne [c [q0 [Hc [Hq0 Eq]]]]]].
  - inversion Eq; subst q. simpl. rewrite (map_fst_flat_map _ linearise); [|intros; apply par_pairs_keys].
    apply (linearise_perm (RNode i cs)).
  - inversion Eq; subst q. destruct (down_path_hd _ _ _ Hq0) as [q1 Eq1]. subst q0.
    cbn [ups_down]. rewrite (sel_eq _ cs c Nr Hc). rewrite map_app.
    rewrite (map_fst_flat_map _ linearise); [|intros; apply par_pairs_keys].
    rewrite <- app_assoc. simpl ids. apply Permutation_sym. rewrite app_assoc. apply Permutation_cons_app.
    rewrite <- app_assoc. apply Permutation_sym.
    eapply perm_trans; [|apply (Permutation_flat_map ids (offc_perm cs c Nr Hc))]. simpl.
    eapply perm_trans; [apply Permutation_app_comm|].
    apply Permutation_app.
    + apply (IH c Hc first q1 (wf_child _ _ _ Hw Hc) Hq0).
    + apply flat_map_perm. apply Forall_forall. intros; apply linearise_perm.
Qed.

Lemma map_opt_lookup : forall (NX P : list (nat * nat)),
  (forall n m, In (n, m) P -> assoc n NX = Some m) ->
  map_opt (fun n => match assoc n NX with Some m => Some (n, m) | None => None end) (map fst P) = Some P.
Proof.
  intros NX P. induction P as [|[n m] P IH]; intros H; simpl; auto.
  rewrite (H n m (or_introl eq_refl)). rewrite IH; auto. intros; apply H; right; auto.
Qed.

Theorem cache_keys_eq : forall t first q, NoDup (ids t) -> down_path first t = Some (rid t :: q) ->
  cache_keys t first = Some (keys_down t q).
Proof.
  intros t first q Hw Hd. unfold cache_keys. rewrite (find_caching_path_eq t first q Hw Hd).
  rewrite (cp_down_keys t first q Hw Hd). rewrite removelast_last.
  apply map_opt_lookup. intros n m H. apply assoc_NoDup_In.
  - (* the keys of the dictionary are distinct *)
    pose proof (ups_down_perm t first q Hw Hd) as P. destruct (down_path_last _ _ _ Hd) as [r Hr].
    assert (N : NoDup ((map fst (combine (rid t :: q) q ++ ups_down t q)) ++ [first])).
    { eapply Permutation_NoDup; [|exact Hw]. apply Permutation_sym. eapply perm_trans; [|exact P].
      rewrite map_app. change (combine (rid t :: q) q) with (combine (rid t :: q) (tl (rid t :: q))).
      rewrite map_fst_combine_tl. rewrite Hr. rewrite removelast_last.
      rewrite <- app_assoc. eapply perm_trans; [apply Permutation_app_comm|]. rewrite <- app_assoc.
      apply Permutation_app_head. apply Permutation_app_comm. }
    apply NoDup_app_inv in N. tauto.
  - eapply keys_down_in_nx; eauto.
Qed.

(* ================================================================================== *)
(* clause 1: exactly one block per edge                                               *)
(* ================================================================================== *)
Definition sort_pair (e : nat * nat) : nat * nat := (Nat.min (fst e) (snd e), Nat.max (fst e) (snd e)).

Lemma sort_pair_swap : forall a b, sort_pair (a, b) = sort_pair (b, a).
Proof. intros. unfold sort_pair. simpl. rewrite Nat.min_comm, Nat.max_comm. reflexivity. Qed.

Lemma map_flat_map' : forall {A B C} (f : B -> C) (g : A -> list B) l,
  map f (flat_map g l) = flat_map (fun a => map f (g a)) l.
Proof. intros. induction l; simpl; auto. rewrite map_app, IHl. reflexivity. Qed.

Lemma flat_map_cons_perm : forall {A B} (h : A -> B) (g : A -> list B) l,
  Permutation (flat_map (fun a => h a :: g a) l) (map h l ++ flat_map g l).
Proof.
  intros. induction l as [|a l IH]; simpl; auto. constructor.
  eapply perm_trans; [apply Permutation_app_head; exact IH|]. apply perm3.
Qed.

Lemma edges_perm_children : forall i cs cs', Permutation cs cs' ->
  Permutation (edges (RNode i cs)) (edges (RNode i cs')).
Proof.
  intros i cs cs' P. simpl. apply Permutation_app.
  - apply Permutation_map. exact P.
  - exact (Permutation_flat_map edges P).
Qed.

Lemma par_pairs_children_sorted : forall i cs,
  Forall (fun c => forall p, Permutation (map sort_pair (par_pairs p c)) (map sort_pair ((p, rid c) :: edges c))) cs ->
  Permutation (map sort_pair (flat_map (par_pairs i) cs)) (map sort_pair (edges (RNode i cs))).
Proof.
  intros i cs IH. rewrite map_flat_map'. simpl edges. rewrite map_app, map_map, map_flat_map'.
  eapply perm_trans; [|apply (flat_map_cons_perm (fun c => sort_pair (i, rid c)) (fun c => map sort_pair (edges c)) cs)].
  apply flat_map_perm. eapply Forall_impl; [|exact IH]. intros c Hc. apply Hc.
Qed.

Lemma par_pairs_sorted : forall t p,
  Permutation (map sort_pair (par_pairs p t)) (map sort_pair ((p, rid t) :: edges t)).
Proof.
  induction t as [i cs IH] using rtree_ind2. intros p. simpl par_pairs. rewrite map_app. simpl map at 2.
  eapply perm_trans; [apply Permutation_app_comm|]. simpl app. rewrite (sort_pair_swap i p). simpl rid. constructor.
  apply par_pairs_children_sorted. exact IH.
Qed.

Theorem keys_down_edges : forall t first q, NoDup (ids t) -> down_path first t = Some (rid t :: q) ->
  Permutation (map sort_pair (keys_down t q)) (map sort_pair (edges t)).
Proof.
  induction t as [i cs IH] using rtree_ind2. intros first q Hw Hd. simpl rid in *.
  destruct (wf_inv _ _ Hw) as [_ [Hnd _]]. pose proof (map_rid_NoDup _ Hnd) as Nr.
  assert (PP : forall l, Permutation (map sort_pair (flat_map (par_pairs i) l)) (map sort_pair (edges (RNode i l)))).
  { intros l. apply par_pairs_children_sorted. apply Forall_forall. intros; apply par_pairs_sorted. }
  rewrite Forall_forall in IH.
  apply down_path_step in Hd. destruct Hd as [[Ei Eq]|[Hne [c [q0 [Hc [Hq0 Eq]]]]]].
  - inversion Eq; subst q. cbn [keys_down]. apply PP.
  - inversion Eq; subst q. destruct (down_path_hd _ _ _ Hq0) as [q1 Eq1]. subst q0.
    cbn [keys_down]. rewrite (sel_eq _ cs c Nr Hc). rewrite map_app. simpl map.
    eapply perm_trans; [|apply Permutation_map; apply (edges_perm_children i _ _ (offc_perm cs c Nr Hc))].
    simpl edges. rewrite map_cons.
    eapply perm_trans; [apply Permutation_sym; apply Permutation_middle|]. constructor.
    eapply perm_trans; [apply Permutation_app; [apply PP | apply (IH c Hc first q1 (wf_child _ _ _ Hw Hc) Hq0)]|].
    rewrite <- map_app. apply Permutation_map. simpl edges. rewrite <- app_assoc.
    apply Permutation_app_head. apply Permutation_app_comm.
Qed.

(* ================================================================================== *)
(* clause 2: every block points toward the left-out node                              *)
(* ================================================================================== *)
Lemma path_via_parent : forall t m n b db, NoDup (ids t) -> In (m, n) (edges t) ->
  down_path b t = Some db -> ~ In n db -> exists r, path_from_to t n b = Some (n :: m :: r).
Proof.
  intros t m n b db Hw He Hb Hn.
  pose proof (edges_in_ids _ _ _ He) as [Hm _]. apply down_path_Some_iff in Hm. destruct Hm as [dm Hdm].
  pose proof (down_path_edge t m n dm Hw He Hdm) as Hdn.
  destruct (down_paths_split t n b _ _ Hw Hdn Hb) as [l0 [x [da' [db' [Ea [Eb Hdis]]]]]].
  rewrite (path_from_to_char t n b _ _ l0 x da' db' Hw Hdn Hb Ea Eb Hdis).
  destruct (down_path_last _ _ _ Hdm) as [rm Hrm].
  destruct da' as [|z da'] using rev_ind.
  - exfalso. apply app_inj_tail in Ea. destruct Ea as [_ E]. subst x. apply Hn. rewrite Eb. apply in_or_app. right. left. reflexivity.
  - clear IHda'. change (l0 ++ x :: da' ++ [z]) with (l0 ++ (x :: da') ++ [z]) in Ea. rewrite app_assoc in Ea.
    apply app_inj_tail in Ea. destruct Ea as [Edm Ez]. subst z. rewrite rev_app_distr. simpl.
    destruct da' as [|w da'] using rev_ind.
    + simpl. rewrite Hrm in Edm. apply app_inj_tail in Edm. destruct Edm as [_ E]. subst x. eauto.
    + clear IHda'. rewrite rev_app_distr. simpl. rewrite Hrm in Edm.
      change (l0 ++ x :: da' ++ [w]) with (l0 ++ (x :: da') ++ [w]) in Edm. rewrite app_assoc in Edm.
      apply app_inj_tail in Edm. destruct Edm as [_ E]. subst w. eauto.
Qed.

Lemma keys_down_in_ids : forall t q n m, In (n, m) (keys_down t q) -> In n (ids t).
Proof.
  induction t as [i cs IH] using rtree_ind2. intros q n m H. rewrite Forall_forall in IH.
  assert (PI : forall l, (forall g, In g l -> In g cs) -> In (n, m) (flat_map (par_pairs i) l) -> In n (ids (RNode i cs))).
  { intros l Hl Hi. apply in_flat_map in Hi. destruct Hi as [g [Hg Hi]]. eapply in_child_ids; eauto. eapply par_pairs_in_ids; eauto. }
  destruct q as [|y q']; cbn [keys_down] in H.
  - apply (PI cs); auto.
  - apply in_app_or in H. destruct H as [H|[H|H]].
    + apply (PI (offc y cs)); auto. intros g Hg. apply filter_In in Hg. tauto.
    + inversion H; subst. simpl. auto.
    + unfold sel in H. apply in_flat_map in H. destruct H as [g [Hg H]]. destruct (Nat.eqb (rid g) y); [|contradiction].
      eapply in_child_ids; eauto.
Qed.

Lemma par_pairs_edge_in : forall i cs g n m, In g cs -> In (n, m) (par_pairs i g) -> In (m, n) (edges (RNode i cs)).
Proof.
  intros i cs g n m Hg H. apply par_pairs_edges in H. destruct H as [[-> ->]|H].
  - apply edges_root; auto. - eapply edges_child; eauto.
Qed.

Theorem keys_down_direction : forall t first q, NoDup (ids t) -> down_path first t = Some (rid t :: q) ->
  forall n m, In (n, m) (keys_down t q) -> exists r, path_from_to t n first = Some (n :: m :: r).
Proof.
  induction t as [i cs IH] using rtree_ind2. intros first q Hw Hd n m H. rewrite Forall_forall in IH. simpl rid in *.
  destruct (wf_inv _ _ Hw) as [_ [Hnd _]]. pose proof (map_rid_NoDup _ Hnd) as Nr.
  pose proof Hd as Hd0.
  apply down_path_step in Hd. destruct Hd as [[Ei Eq]|[Hne [c [q0 [Hc [Hq0 Eq]]]]]].
  - inversion Eq; subst q. subst first. cbn [keys_down] in H. apply in_flat_map in H. destruct H as [g [Hg H]].
    apply (path_via_parent (RNode i cs) m n i [i] Hw); auto.
    + eapply par_pairs_edge_in; eauto.
    + intros [E|[]]. subst n. eapply wf_root_notin_child; eauto. eapply par_pairs_in_ids; eauto.
  - inversion Eq; subst q. destruct (down_path_hd _ _ _ Hq0) as [q1 Eq1]. subst q0.
    cbn [keys_down] in H. rewrite (sel_eq _ cs c Nr Hc) in H. apply in_app_or in H. destruct H as [H|[H|H]].
    + apply in_flat_map in H. destruct H as [g [Hg H]]. apply filter_In in Hg. destruct Hg as [Hg Hr].
      apply negb_true_iff in Hr. apply Nat.eqb_neq in Hr. pose proof (par_pairs_in_ids _ _ _ _ H) as Hng.
      apply (path_via_parent (RNode i cs) m n first (i :: rid c :: q1) Hw); auto.
      * eapply par_pairs_edge_in; eauto.
      * intros [E|Hi].
        -- subst n. eapply wf_root_notin_child; eauto.
        -- apply Hr. f_equal. eapply (wf_children_eq i cs g c n); eauto. eapply down_path_In; eauto.
    + inversion H; subst n m. pose proof (path_from_root (RNode i cs) first _ Hw Hd0) as PR. simpl rid in PR. rewrite PR. eauto.
    + pose proof (keys_down_in_ids _ _ _ _ H) as Hnc. pose proof (down_path_target_in _ _ _ Hq0) as Hfc.
      rewrite (path_from_to_child i cs c n first Hw Hc Hnc Hfc).
      eapply (IH c Hc); eauto. eapply wf_child; eauto.
Qed.

(* ================================================================================== *)
(* clause 3: a block is created after the blocks it is contracted from                 *)
(* ================================================================================== *)
(* every key (n, m) finds, for every neighbour j of n other than m, the key (j, n) among
   the keys created before it (`done` = keys created before this list, latest first) *)
Fixpoint ordered (nb : nat -> list nat) (done K : list (nat * nat)) : Prop :=
  match K with
  | [] => True
  | (n, m) :: r => (forall j, In j (nb n) -> j = m \/ In (j, n) done) /\ ordered nb ((n, m) :: done) r
  end.

Lemma ordered_mono : forall nb K done done', (forall x, In x done -> In x done') ->
  ordered nb done K -> ordered nb done' K.
Proof.
  intros nb K. induction K as [|[n m] r IH]; simpl; auto. intros done done' Hs [H1 H2]. split.
  - intros j Hj. destruct (H1 j Hj); auto.
  - eapply IH; [|exact H2]. intros x [<-|Hx]; [left; auto | right; auto].
Qed.

Lemma ordered_app : forall nb A B done, ordered nb done A -> ordered nb (rev A ++ done) B -> ordered nb done (A ++ B).
Proof.
  intros nb A. induction A as [|[n m] A IH]; simpl; intros B done HA HB; auto.
  destruct HA as [H1 H2]. split; auto. apply IH; auto. rewrite <- app_assoc in HB. exact HB.
Qed.

Lemma ordered_sound : forall nb K done, ordered nb done K ->
  forall pre n m post, K = pre ++ (n, m) :: post ->
  forall j, In j (nb n) -> j <> m -> In (j, n) (pre ++ done).
Proof.
  intros nb K. induction K as [|[n0 m0] r IH]; intros done H pre n m post E j Hj Hne.
  - destruct pre; discriminate.
  - simpl in H. destruct H as [H1 H2]. destruct pre as [|k pre].
    + simpl in E. inversion E; subst. simpl. destruct (H1 j Hj); [contradiction | auto].
    + simpl in E. inversion E; subst. specialize (IH _ H2 pre n m post eq_refl j Hj Hne).
      apply in_app_or in IH. simpl. destruct IH as [IH|[IH|IH]]; auto; right; apply in_or_app; auto.
Qed.

Lemma par_pairs_own : forall t p, In (rid t, p) (par_pairs p t).
Proof. intros [i cs] p. simpl. apply in_or_app. right. left. reflexivity. Qed.

Lemma children_ids_in_child : forall i cs c n, NoDup (ids (RNode i cs)) -> In c cs -> In n (ids c) ->
  children_ids (RNode i cs) n = children_ids c n.
Proof. intros. unfold children_ids. rewrite (subtree_in_child i cs c n); auto. Qed.

Lemma children_ids_root : forall i cs, children_ids (RNode i cs) i = map rid cs.
Proof. intros. unfold children_ids. simpl. rewrite Nat.eqb_refl. reflexivity. Qed.

Lemma children_blocks_ordered : forall i cs nb,
  Forall (fun g => forall nb, NoDup (ids g) -> forall p done,
            (forall n m, In (n, m) (par_pairs p g) -> forall j, In j (nb n) -> j = m \/ In j (children_ids g n)) ->
            ordered nb done (par_pairs p g)) cs ->
  NoDup (ids (RNode i cs)) ->
  forall l done, (forall g, In g l -> In g cs) ->
  (forall n m, In (n, m) (flat_map (par_pairs i) l) -> forall j, In j (nb n) -> j = m \/ In j (children_ids (RNode i cs) n)) ->
  ordered nb done (flat_map (par_pairs i) l).
Proof.
  intros i cs nb IH Hw. rewrite Forall_forall in IH. induction l as [|a l IHl]; intros done Hsub Hnb; simpl; auto.
  apply ordered_app.
  - assert (Ha : In a cs) by (apply Hsub; left; reflexivity).
    apply (IH a Ha nb (wf_child _ _ _ Hw Ha)).
    intros n m Hnm j Hj. destruct (Hnb n m) with (j := j) as [E|Hc]; auto.
    + simpl. apply in_or_app. left. exact Hnm.
    + right. rewrite <- (children_ids_in_child i cs a n); auto. eapply par_pairs_in_ids; eauto.
  - apply IHl.
    + intros; apply Hsub; right; auto.
    + intros n m Hnm. apply Hnb. simpl. apply in_or_app. right. exact Hnm.
Qed.

Lemma pp_ordered : forall g nb, NoDup (ids g) -> forall p done,
  (forall n m, In (n, m) (par_pairs p g) -> forall j, In j (nb n) -> j = m \/ In j (children_ids g n)) ->
  ordered nb done (par_pairs p g).
Proof.
  induction g as [i cs IH] using rtree_ind2. intros nb Hw p done Hnb. simpl par_pairs. apply ordered_app.
  - apply (children_blocks_ordered i cs nb IH Hw cs done); auto.
    intros n m Hnm. apply Hnb. simpl. apply in_or_app. left. exact Hnm.
  - simpl. split; auto. intros j Hj. destruct (Hnb i p) with (j := j) as [E|Hc]; auto.
    + simpl. apply in_or_app. right. left. reflexivity.
    + right. rewrite children_ids_root in Hc. apply in_map_iff in Hc. destruct Hc as [c [E Hc]]. subst j.
      apply in_or_app. left. apply -> in_rev. apply in_flat_map. exists c. split; auto. apply par_pairs_own.
Qed.

Lemma parent_of_in_child : forall i cs c n j, NoDup (ids (RNode i cs)) -> In c cs -> In n (ids c) ->
  parent_of n (RNode i cs) = Some j -> (n = rid c /\ j = i) \/ (n <> rid c /\ parent_of n c = Some j).
Proof.
  intros i cs c n j Hw Hc Hn Hp. apply parent_of_sound in Hp. simpl in Hp. apply in_app_or in Hp. destruct Hp as [Hp|Hp].
  - apply in_map_iff in Hp. destruct Hp as [g [E Hg]]. inversion E. subst j n. left. split; auto. f_equal.
    eapply (wf_children_eq i cs g c (rid g)); eauto using rid_in_ids.
  - apply in_flat_map in Hp. destruct Hp as [g [Hg He]].
    assert (g = c) by (eapply (wf_children_eq i cs g c n); eauto; apply (edges_in_ids _ _ _ He)). subst g.
    pose proof (wf_child _ _ _ Hw Hc) as Hwc. right. split.
    + intro E. subst n. eapply (edges_child_not_root c); eauto.
    + apply parent_of_complete; auto.
Qed.

Lemma kd_ordered : forall t first q, NoDup (ids t) -> down_path first t = Some (rid t :: q) ->
  forall nb done,
  (forall n m, In (n, m) (keys_down t q) -> forall j, In j (nb n) ->
     j = m \/ In j (children_ids t n) \/ (n <> rid t /\ parent_of n t = Some j) \/ (n = rid t /\ In (j, n) done)) ->
  ordered nb done (keys_down t q).
Proof.
  induction t as [i cs IH] using rtree_ind2. intros first q Hw Hd nb done Hnb. simpl rid in *.
  destruct (wf_inv _ _ Hw) as [_ [Hnd _]]. pose proof (map_rid_NoDup _ Hnd) as Nr.
  assert (PPO : Forall (fun g => forall nb, NoDup (ids g) -> forall p done,
            (forall n m, In (n, m) (par_pairs p g) -> forall j, In j (nb n) -> j = m \/ In j (children_ids g n)) ->
            ordered nb done (par_pairs p g)) cs) by (apply Forall_forall; intros g _; apply pp_ordered).
  (* blocks of children off the path *)
  assert (OFF : forall l done, (forall g, In g l -> In g cs) ->
            (forall n m, In (n, m) (flat_map (par_pairs i) l) -> In (n, m) (keys_down (RNode i cs) q)) ->
            ordered nb done (flat_map (par_pairs i) l)).
  { intros l done0 Hsub Hin. apply (children_blocks_ordered i cs nb PPO Hw l done0 Hsub).
    intros n m Hnm j Hj. apply in_flat_map in Hnm. destruct Hnm as [g [Hg Hnm]].
    pose proof (par_pairs_in_ids _ _ _ _ Hnm) as Hng. pose proof (Hsub g Hg) as Hgc.
    assert (Hni : n <> i) by (intro; subst n; eapply wf_root_notin_child; eauto).
    destruct (Hnb n m) with (j := j) as [E|[Hc|[[_ Hp]|[E _]]]]; auto.
    - apply Hin. apply in_flat_map. exists g. auto.
    - left. apply parent_of_sound in Hp. pose proof (par_pairs_edge_in i cs g n m Hgc Hnm) as He.
      eapply edges_child_unique; eauto.
    - contradiction. }
  rewrite Forall_forall in IH.
  apply down_path_step in Hd. destruct Hd as [[Ei Eq]|[Hne [c [q0 [Hc [Hq0 Eq]]]]]].
  - inversion Eq; subst q. cbn [keys_down] in *. apply OFF; auto.
  - inversion Eq; subst q. destruct (down_path_hd _ _ _ Hq0) as [q1 Eq1]. subst q0.
    cbn [keys_down] in *. rewrite (sel_eq _ cs c Nr Hc) in *. apply ordered_app.
    + apply OFF.
      * intros g Hg. apply filter_In in Hg. tauto.
      * intros n m H. apply in_or_app. left. exact H.
    + set (A := flat_map (par_pairs i) (offc (rid c) cs)) in *. simpl. split.
      * intros j Hj. destruct (Hnb i (rid c)) with (j := j) as [E|[Hch|[[Hx _]|[_ Hdn]]]]; auto.
        -- apply in_or_app. right. left. reflexivity.
        -- rewrite children_ids_root in Hch. apply in_map_iff in Hch. destruct Hch as [g [E Hg]]. subst j.
           destruct (Nat.eq_dec (rid g) (rid c)) as [E|E]; auto. right. apply in_or_app. left. apply -> in_rev.
           apply in_flat_map. exists g. split; [|apply par_pairs_own]. apply filter_In. split; auto.
           apply negb_true_iff. apply Nat.eqb_neq. exact E.
        -- contradiction.
        -- right. apply in_or_app. right. exact Hdn.
      * apply (IH c Hc first q1 (wf_child _ _ _ Hw Hc) Hq0).
        intros n m Hnm j Hj. pose proof (keys_down_in_ids _ _ _ _ Hnm) as Hnc.
        assert (Hni : n <> i) by (intro; subst n; eapply wf_root_notin_child; eauto).
        destruct (Hnb n m) with (j := j) as [E|[Hch|[[_ Hp]|[E _]]]]; auto.
        -- apply in_or_app. right. right. exact Hnm.
        -- right. left. rewrite <- (children_ids_in_child i cs c n); auto.
        -- destruct (parent_of_in_child i cs c n j Hw Hc Hnc Hp) as [[E1 E2]|[E1 E2]].
           ++ subst n j. right. right. right. split; auto. left. reflexivity.
           ++ right. right. left. auto.
        -- contradiction.
Qed.

(* ================================================================================== *)
(* the cache key list of init_cache_but_one                                           *)
(* ================================================================================== *)
Theorem cache_keys_spec : forall t first, NoDup (ids t) -> In first (ids t) ->
  exists keys, cache_keys t first = Some keys /\
    (* one block per edge *)
    Permutation (map sort_pair keys) (map sort_pair (edges t)) /\
    (* directed toward the left-out node *)
    (forall n m, In (n, m) keys -> exists r, path_from_to t n first = Some (n :: m :: r)) /\
    (* inputs first *)
    (forall pre n m post, keys = pre ++ (n, m) :: post ->
       forall j, In j (neighbours t n) -> j <> m -> In (j, n) pre).
Proof.
  intros t first Hw Hf. apply down_path_Some_iff in Hf. destruct Hf as [d Hd].
  destruct (down_path_hd _ _ _ Hd) as [q Eq]. subst d.
  exists (keys_down t q). split; [apply cache_keys_eq; auto|]. split; [eapply keys_down_edges; eauto|].
  split; [eapply keys_down_direction; eauto|].
  intros pre n m post E j Hj Hne.
  assert (O : ordered (neighbours t) [] (keys_down t q)).
  { eapply kd_ordered; eauto. intros n0 m0 Hk j0 Hj0. unfold neighbours in Hj0. apply in_app_or in Hj0.
    destruct Hj0 as [Hj0|Hj0]; [|auto].
    destruct (parent_of n0 t) as [p|] eqn:Ep; simpl in Hj0; [|contradiction]. destruct Hj0 as [<-|[]].
    right. right. left. split; auto. intro E0. subst n0. rewrite (parent_of_root t Hw) in Ep. discriminate. }
  pose proof (ordered_sound _ _ _ O pre n m post E j Hj Hne) as Hi. rewrite app_nil_r in Hi. exact Hi.
Qed.

(* the cache a TDVP run starts from *)
Theorem tdvp_cache_keys_spec : forall t, NoDup (ids t) ->
  exists u l keys, update_path t = Some (u :: l) /\ tdvp_cache_keys t = Some keys /\
    Permutation (map sort_pair keys) (map sort_pair (edges t)) /\
    (forall n m, In (n, m) keys -> exists r, path_from_to t n u = Some (n :: m :: r)) /\
    (forall pre n m post, keys = pre ++ (n, m) :: post ->
       forall j, In j (neighbours t n) -> j <> m -> In (j, n) pre).
Proof.
  intros t Hw. destruct (update_path_start t Hw) as [u [l [F U]]].
  destruct (cache_keys_spec t u Hw (sf_in _ _ F)) as [keys [Hk H]].
  exists u, l, keys. split; auto. split; auto. unfold tdvp_cache_keys. rewrite U. exact Hk.
Qed.
