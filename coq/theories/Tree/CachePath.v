(* Model of pytreenet/contractions/sandwich_caching.py: _find_caching_path,
   _find_caching_path_rec and the key list of SandwichCache.init_cache_but_one:
   which (node -> next node) blocks are created, in which order.  Definitions only. *)
From Coq Require Import List Arith Bool.
From PTN Require Import Tree.RTree Tree.Nav Tree.UpdatePath.
Import ListNotations.

Definition has_key (k : nat) (al : list (nat * nat)) : bool :=
  existsb (fun kv => Nat.eqb (fst kv) k) al.

(* (caching_path, next_id_dict in insertion order) *)
Definition cstate : Type := (list nat * list (nat * nat))%type.

(* _find_caching_path_rec on the subtree t whose root has parent `par` *)
Fixpoint cache_rec (init : list nat) (last : nat) (par : option nat) (t : rtree)
         (st : option cstate) : option cstate :=
  match t with
  | RNode i cs =>
      let st1 := fold_left (fun s c => if mem (rid c) init then s
                                       else cache_rec init last (Some i) c s) cs st in
      match st1 with
      | None => None
      | Some (cp, nx) =>
          if negb (has_key i nx) && negb (Nat.eqb i last) then
            match par with
            | Some p => Some (cp ++ [i], nx ++ [(i, p)])
            | None => None                      (* assert node.parent is not None *)
            end
          else Some (cp ++ [i], nx)
      end
  end.

(* _find_caching_path(state, left_out_id) *)
Definition find_caching_path (t : rtree) (left_out : nat) : option cstate :=
  match path_to_root t left_out with
  | None => None
  | Some up =>
      let init := rev up in
      let nx0 := combine init (tl init) in
      fold_left (fun st x => match subtree x t with
                             | None => None
                             | Some s => cache_rec init left_out (parent_of x t) s st
                             end) init (Some ([], nx0))
  end.

Fixpoint map_opt {A B : Type} (f : A -> option B) (l : list A) : option (list B) :=
  match l with
  | [] => Some []
  | a :: r => match f a, map_opt f r with Some b, Some r' => Some (b :: r') | _, _ => None end
  end.

(* keys of the cache returned by init_cache_but_one, in creation order *)
Definition cache_keys (t : rtree) (left_out : nat) : option (list (nat * nat)) :=
  match find_caching_path t left_out with
  | None => None
  | Some (cp, nx) =>
      map_opt (fun n => match assoc n nx with Some m => Some (n, m) | None => None end)
              (removelast cp)
  end.

(* the cache a TDVP run starts from: everything but update_path[0] *)
Definition tdvp_cache_keys (t : rtree) : option (list (nat * nat)) :=
  match update_path t with
  | Some (u :: _) => cache_keys t u
  | _ => None
  end.
