(* C17, universal version of the crossings clause: walking the TDVP update path along tree
   paths crosses every tree edge at most twice.
   Route: an edge (p, c) cuts the tree into the subtree below c and the rest; a tree path
   crosses the edge once iff its end points lie on different sides, so the number of crossings
   of the whole walk is the number of side changes (`trans`) along the update path; the
   nodes of every subtree form one contiguous block (`blocky`) of the update path (post-order
   sweeps), hence at most two side changes.  Proofs only; all definitions used in the final
   statement are those of Tree/Enum.v. *)
From Coq Require Import List Arith Bool Lia Permutation.
From PTN Require Import Tree.RTree Tree.RTreeProofs Tree.Nav Tree.NavProofs
     Tree.UpdatePath Tree.UpdatePathProofs Tree.Enum.
Import ListNotations.

(* ================================================================================== *)
(* side changes along a list, contiguous blocks                                       *)
(* ================================================================================== *)
Definition inb (S : list nat) (x : nat) : bool := mem x S.

Fixpoint trans (f : nat -> bool) (l : list nat) : nat :=
  match l with
  | a :: ((b :: _) as r) => (if xorb (f a) (f b) then 1 else 0) + trans f r
  | _ => 0
  end.

Definition allb (f : nat -> bool) (v : bool) (l : list nat) : Prop := forall x, In x l -> f x = v.

Definition blocky (f : nat -> bool) (l : list nat) : Prop :=
  exists l1 l2 l3, l = l1 ++ l2 ++ l3 /\ allb f false l1 /\ allb f true l2 /\ allb f false l3.

Lemma allb_app : forall f v l1 l2, allb f v l1 -> allb f v l2 -> allb f v (l1 ++ l2).
Proof. intros f v l1 l2 H1 H2 x Hx. apply in_app_or in Hx. destruct Hx; auto. Qed.

Lemma allb_nil : forall f v, allb f v [].
Proof. intros f v x []. Qed.

Lemma trans_const : forall f v l, allb f v l -> trans f l = 0.
Proof.
  intros f v l. induction l as [|a l IH]; intros H; auto. destruct l as [|b r]; auto.
  change (trans f (a :: b :: r)) with ((if xorb (f a) (f b) then 1 else 0) + trans f (b :: r)).
  rewrite IH by (intros x Hx; apply H; right; auto).
  rewrite (H a), (H b) by (simpl; auto). rewrite xorb_nilpotent. reflexivity.
Qed.

Lemma trans_app_le : forall f l1 l2, trans f (l1 ++ l2) <= trans f l1 + trans f l2 + 1.
Proof.
  intros f l1 l2. induction l1 as [|a l1 IH]; [simpl; lia|].
  destruct l1 as [|b r].
  - simpl app. destruct l2 as [|b r]; [simpl; lia|].
    change (trans f (a :: b :: r)) with ((if xorb (f a) (f b) then 1 else 0) + trans f (b :: r)).
    destruct (xorb (f a) (f b)); simpl; lia.
  - change (trans f ((a :: b :: r) ++ l2)) with ((if xorb (f a) (f b) then 1 else 0) + trans f ((b :: r) ++ l2)).
    change (trans f (a :: b :: r)) with ((if xorb (f a) (f b) then 1 else 0) + trans f (b :: r)).
    lia.
Qed.

Lemma blocky_trans : forall f l, blocky f l -> trans f l <= 2.
Proof.
  intros f l [l1 [l2 [l3 [-> [H1 [H2 H3]]]]]].
  pose proof (trans_app_le f l1 (l2 ++ l3)). pose proof (trans_app_le f l2 l3).
  rewrite (trans_const f false l1 H1), (trans_const f true l2 H2), (trans_const f false l3 H3) in *. lia.
Qed.

Lemma blocky_pad : forall f A l B, blocky f l -> allb f false A -> allb f false B -> blocky f (A ++ l ++ B).
Proof.
  intros f A l B [l1 [l2 [l3 [-> [H1 [H2 H3]]]]]] HA HB.
  exists (A ++ l1), l2, (l3 ++ B). split; [rewrite <- !app_assoc; reflexivity|].
  split; [apply allb_app; auto|]. split; [auto|apply allb_app; auto].
Qed.

Lemma blocky_pad_l : forall f A l, blocky f l -> allb f false A -> blocky f (A ++ l).
Proof. intros f A l H HA. rewrite <- (app_nil_r l). apply blocky_pad; auto using allb_nil. Qed.

Lemma blocky_pad_r : forall f l B, blocky f l -> allb f false B -> blocky f (l ++ B).
Proof. intros f l B H HB. apply (blocky_pad f [] l B); auto using allb_nil. Qed.

Lemma blocky_true : forall f l, allb f true l -> blocky f l.
Proof. intros f l H. exists [], l, []. rewrite app_nil_r. repeat split; auto using allb_nil. Qed.

(* parity of the number of side changes *)
Lemma trans_parity : forall f q a b, (exists r, q = a :: r) -> (exists r, q = r ++ [b]) ->
  Nat.odd (trans f q) = xorb (f a) (f b).
Proof.
  intros f q. induction q as [|x q IH]; intros a b [r Hr] [r' Hr']; [discriminate|].
  inversion Hr; subst x r. destruct q as [|y q].
  - destruct r' as [|z r']; [|destruct r'; discriminate]. inversion Hr'; subst. simpl. rewrite xorb_nilpotent. reflexivity.
  - change (trans f (a :: y :: q)) with ((if xorb (f a) (f y) then 1 else 0) + trans f (y :: q)).
    rewrite Nat.odd_add. rewrite (IH y b).
    + destruct (f a), (f y), (f b); reflexivity.
    + eauto.
    + destruct r' as [|z r']; [discriminate|]. inversion Hr'. eauto.
Qed.

(* ================================================================================== *)
(* steps and crossings                                                                *)
(* ================================================================================== *)
Lemma crossings_app : forall e w1 w2, crossings e (w1 ++ w2) = crossings e w1 + crossings e w2.
Proof. intros. unfold crossings. rewrite filter_app, app_length. reflexivity. Qed.

Lemma crossings_cons : forall e s w, crossings e (s :: w) = (if same_edge e s then 1 else 0) + crossings e w.
Proof. intros. unfold crossings. simpl. destruct (same_edge e s); reflexivity. Qed.

Lemma steps_in : forall l s, In s (steps l) -> In (fst s) l /\ In (snd s) l.
Proof.
  induction l as [|a l IH]; intros s H; [destruct H|]. destruct l as [|b r]; [destruct H|].
  change (steps (a :: b :: r)) with ((a, b) :: steps (b :: r)) in H. destruct H as [<-|H].
  - simpl. auto.
  - apply IH in H. destruct H. split; right; auto.
Qed.

Lemma same_edge_ends : forall e s, same_edge e s = true ->
  (fst e = fst s \/ fst e = snd s) /\ (snd e = fst s \/ snd e = snd s).
Proof.
  intros e s H. unfold same_edge in H. apply orb_true_iff in H.
  destruct H as [H|H]; apply andb_true_iff in H; destruct H as [H1 H2]; apply Nat.eqb_eq in H1, H2; auto.
Qed.

Lemma crossings_notin : forall e l, ~ In (fst e) l \/ ~ In (snd e) l -> crossings e (steps l) = 0.
Proof.
  intros e l H. unfold crossings. rewrite filter_none; auto.
  intros s Hs. destruct (same_edge e s) eqn:E; auto. exfalso.
  apply steps_in in Hs. destruct Hs as [Hs1 Hs2]. apply same_edge_ends in E. destruct E as [[E1|E1] [E2|E2]];
    destruct H as [H|H]; apply H; congruence.
Qed.

Lemma crossings_NoDup_le1 : forall e q, NoDup q -> crossings e (steps q) <= 1.
Proof.
  intros e q. induction q as [|a q IH]; intros Hnd; [unfold crossings; simpl; lia|]. destruct q as [|b r]; [unfold crossings; simpl; lia|].
  change (steps (a :: b :: r)) with ((a, b) :: steps (b :: r)). rewrite crossings_cons.
  inversion Hnd; subst. destruct (same_edge e (a, b)) eqn:E.
  - rewrite crossings_notin; [simpl; lia|]. pose proof (same_edge_ends _ _ E) as [[E1|E1] [E2|E2]]; simpl in E1, E2.
    + left. rewrite E1. exact H1.
    + left. rewrite E1. exact H1.
    + right. rewrite E2. exact H1.
    + exfalso. unfold same_edge in E. simpl in E. rewrite E1, E2 in E. rewrite Nat.eqb_refl in E.
      rewrite andb_true_r in E. simpl in E. rewrite orb_diag in E. apply Nat.eqb_eq in E. apply H1. left. exact E.
  - specialize (IH H2). cbv iota. lia.
Qed.

(* ================================================================================== *)
(* the cut made by an edge                                                            *)
(* ================================================================================== *)
Section Cut.
  Variable t : rtree.
  Hypothesis Hw : NoDup (ids t).
  Variables sp s : rtree.
  Hypothesis Hsp : is_subtree sp t.
  Hypothesis Hs : In s (rchildren sp).

  Let p := rid sp.
  Let c := rid s.
  Let f := inb (ids s).

  Lemma cut_s_sub : is_subtree s t.
  Proof. eapply is_subtree_trans; [apply is_subtree_child; exact Hs | exact Hsp]. Qed.

  Lemma cut_edge_in : In (p, c) (edges t).
  Proof. apply edges_spec. exists sp. repeat split; auto. apply in_map. exact Hs. Qed.

  Lemma cut_f_p : f p = false.
  Proof.
    unfold f, inb, p. apply mem_false. pose proof (is_subtree_wf _ _ Hsp Hw) as Hwp.
    destruct sp as [j cs]. simpl in *. eapply wf_root_notin_child; eauto.
  Qed.

  Lemma cut_f_c : f c = true.
  Proof. unfold f, inb, c. apply mem_In. apply rid_in_ids. Qed.

  Lemma cut_edge : forall a b, In (a, b) (edges t) ->
    (b = c /\ a = p) \/ (b <> c /\ f a = f b).
  Proof.
    intros a b He. destruct (Nat.eq_dec b c) as [E|E].
    - left. split; auto. subst b. eapply edges_child_unique; eauto. apply cut_edge_in.
    - right. split; auto.
      assert (K : In a (ids s) <-> In b (ids s)).
      { split; intros Hi.
        - apply edges_spec in He. destruct He as [sa [Hsa [Hra Hb]]].
          apply subtree_Some_iff in Hi. destruct Hi as [sa' Hsa'].
          apply subtree_sound in Hsa'. destruct Hsa' as [Hra' Hsub'].
          assert (Hsa't : is_subtree sa' t) by (eapply is_subtree_trans; [exact Hsub' | apply cut_s_sub]).
          pose proof (subtree_complete t sa Hw Hsa) as C1. pose proof (subtree_complete t sa' Hw Hsa't) as C2.
          rewrite Hra in C1. rewrite Hra' in C2. rewrite C1 in C2. inversion C2; subst sa'.
          apply in_map_iff in Hb. destruct Hb as [g [Eg Hg]]. subst b.
          eapply is_subtree_ids; [exact Hsub'|]. eapply is_subtree_ids; [apply is_subtree_child; exact Hg|]. apply rid_in_ids.
        - destruct (parent_of_nonroot s b Hi E) as [a' Ha'].
          pose proof (edges_subtree _ _ _ cut_s_sub Ha') as Ha't.
          assert (a' = a) by (eapply edges_child_unique; eauto). subst a'.
          apply edges_in_ids in Ha'. tauto. }
      unfold f, inb. destruct (mem a (ids s)) eqn:E1, (mem b (ids s)) eqn:E2; auto.
      + apply mem_In in E1. apply K in E1. apply mem_In in E1. congruence.
      + apply mem_In in E2. apply K in E2. apply mem_In in E2. congruence.
  Qed.

  Lemma cut_adjacent : forall x y, adjacent t x y -> same_edge (p, c) (x, y) = xorb (f x) (f y).
  Proof.
    intros x y [H|H]; apply cut_edge in H; destruct H as [[-> ->]|[Hne Hf]]; unfold same_edge; simpl.
    - rewrite !Nat.eqb_refl, cut_f_p, cut_f_c. reflexivity.
    - rewrite Hf, xorb_nilpotent. replace (Nat.eqb c y) with false by (symmetry; apply Nat.eqb_neq; auto).
      rewrite andb_false_r. simpl. destruct (Nat.eqb p y) eqn:E1; auto. destruct (Nat.eqb c x) eqn:E2; auto.
      apply Nat.eqb_eq in E1, E2. subst x y. rewrite cut_f_c, cut_f_p in Hf. discriminate.
    - rewrite !Nat.eqb_refl, cut_f_p, cut_f_c. rewrite andb_true_r. simpl. rewrite orb_true_r. reflexivity.
    - rewrite Hf, xorb_nilpotent. replace (Nat.eqb c x) with false by (symmetry; apply Nat.eqb_neq; auto).
      rewrite andb_false_r. rewrite orb_false_r. destruct (Nat.eqb p x) eqn:E1; auto. destruct (Nat.eqb c y) eqn:E2; auto.
      apply Nat.eqb_eq in E1, E2. subst x y. rewrite cut_f_c, cut_f_p in Hf. discriminate.
  Qed.

  Lemma crossings_chain_trans : forall q, chain (adjacent t) q -> crossings (p, c) (steps q) = trans f q.
  Proof.
    induction q as [|a q IH]; intros Hc; [reflexivity|]. destruct q as [|b r]; [reflexivity|].
    change (steps (a :: b :: r)) with ((a, b) :: steps (b :: r)). rewrite crossings_cons.
    change (trans f (a :: b :: r)) with ((if xorb (f a) (f b) then 1 else 0) + trans f (b :: r)).
    apply chain_cons in Hc. destruct Hc as [Hab Hc]. rewrite (cut_adjacent _ _ Hab), (IH Hc). reflexivity.
  Qed.

  (* a tree path crosses the edge once iff its ends are on different sides *)
  Lemma path_crossings : forall a b q, In a (ids t) -> In b (ids t) -> path_from_to t a b = Some q ->
    crossings (p, c) (steps q) = if xorb (f a) (f b) then 1 else 0.
  Proof.
    intros a b q Ha Hb Hq. destruct (path_from_to_spec t a b Hw Ha Hb) as [q' [Hq' [Hhd [Hlast [Hch Hnd]]]]].
    rewrite Hq in Hq'. inversion Hq'; subst q'.
    pose proof (crossings_NoDup_le1 (p, c) q Hnd) as Hle.
    pose proof (trans_parity f q a b Hhd Hlast) as Hpar.
    rewrite (crossings_chain_trans q Hch) in *.
    destruct (trans f q) as [|[|n]]; [| |lia]; simpl in Hpar; rewrite <- Hpar; reflexivity.
  Qed.

  (* the whole walk: crossings = side changes along the visited list *)
  Lemma walk_crossings : forall l, (forall x, In x l -> In x (ids t)) ->
    exists w, walk_edges t l = Some w /\ crossings (p, c) w = trans f l.
  Proof.
    induction l as [|a l IH]; intros Hl; [exists []; split; reflexivity|].
    destruct l as [|b r]; [exists []; split; reflexivity|].
    destruct IH as [w [Ew Cw]]; [intros; apply Hl; right; auto|].
    assert (Ha : In a (ids t)) by (apply Hl; simpl; auto).
    assert (Hb : In b (ids t)) by (apply Hl; simpl; auto).
    destruct (path_from_to_spec t a b Hw Ha Hb) as [q [Hq _]].
    exists (steps q ++ w). split.
    - change (walk_edges t (a :: b :: r)) with
        (match path_from_to t a b, walk_edges t (b :: r) with Some q, Some w => Some (steps q ++ w) | _, _ => None end).
      rewrite Hq, Ew. reflexivity.
    - rewrite crossings_app, (path_crossings a b q Ha Hb Hq), Cw. reflexivity.
  Qed.
End Cut.

(* ================================================================================== *)
(* subtrees are contiguous blocks of post-order sweeps                                *)
(* ================================================================================== *)
Lemma inb_true : forall S x, inb S x = true <-> In x S.
Proof. intros. apply mem_In. Qed.

Lemma inb_false : forall S x, inb S x = false <-> ~ In x S.
Proof. intros. apply mem_false. Qed.

(* outside a list that contains all of S (and has no duplicates with the rest) *)
Lemma allb_false_disjoint : forall S l, (forall x, In x l -> ~ In x S) -> allb (inb S) false l.
Proof. intros S l H x Hx. apply inb_false. auto. Qed.

Lemma is_subtree_inv : forall s i cs, is_subtree s (RNode i cs) ->
  s = RNode i cs \/ exists c, In c cs /\ is_subtree s c.
Proof. intros s i cs H. inversion H; subst; eauto. Qed.

(* a forest with pairwise disjoint identifiers: the block of s inside the tree g *)
Lemma flat_map_blocky : forall (h : rtree -> list nat) l s g,
  NoDup (flat_map ids l) -> In g l -> (forall x, In x (ids s) -> In x (ids g)) ->
  (forall c x, In c l -> In x (h c) -> In x (ids c)) ->
  blocky (inb (ids s)) (h g) -> blocky (inb (ids s)) (flat_map h l).
Proof.
  intros h l s g Hnd Hg Hsg Hh Hb. apply in_split in Hg. destruct Hg as [l1 [l2 ->]].
  apply flat_map_NoDup_split in Hnd. destruct Hnd as [_ [_ Hd]].
  rewrite flat_map_app. simpl. apply blocky_pad; auto; apply allb_false_disjoint; intros x Hx Hs;
    apply (Hd x (Hsg x Hs)); apply in_flat_map in Hx; destruct Hx as [c [Hc Hx]]; apply in_flat_map; exists c.
  - split; [apply in_or_app; auto|]. apply Hh; auto. apply in_or_app; auto.
  - split; [apply in_or_app; auto|]. apply Hh; auto. apply in_or_app; simpl; auto.
Qed.

Lemma linearise_blocky : forall t s, NoDup (ids t) -> is_subtree s t -> blocky (inb (ids s)) (linearise t).
Proof.
  induction t as [i cs IH] using rtree_ind2. intros s Hw Hs. rewrite Forall_forall in IH.
  apply is_subtree_inv in Hs. destruct Hs as [->|[c [Hc Hs]]].
  - apply blocky_true. intros x Hx. apply inb_true. apply linearise_In. exact Hx.
  - simpl. apply blocky_pad_r.
    + destruct (wf_inv _ _ Hw) as [_ [Hnd _]].
      apply (flat_map_blocky linearise cs s c Hnd Hc (is_subtree_ids _ _ Hs)).
      * intros g x _ Hx. apply linearise_In. exact Hx.
      * apply IH; auto. eapply wf_child; eauto.
    + apply allb_false_disjoint. intros x [<-|[]] Hi. eapply (wf_root_notin_child i cs c); eauto.
      eapply is_subtree_ids; eauto.
Qed.

(* one step of a sweep along a down path *)
Lemma sweep_step : forall i cs g x q', NoDup (ids (RNode i cs)) -> In g cs -> down_path x g = Some q' ->
  exists l1 l2, cs = l1 ++ g :: l2 /\
    sweep_down (RNode i cs) (i :: q') = (flat_map linearise (l1 ++ l2) ++ [i]) ++ sweep_down g q' /\
    sweep_up (RNode i cs) (i :: q') = sweep_up g q' ++ flat_map linearise (l1 ++ l2) ++ [i].
Proof.
  intros i cs g x q' Hw Hg Hq'.
  assert (Hi : ~ In i q') by (intro Hi; eapply (wf_root_notin_child i cs g); eauto; eapply down_path_In; eauto).
  assert (E : forall l, (forall o, In o l -> In o q') -> flat_map (pfb (RNode i cs) (i :: q')) l = flat_map (pfb g q') l).
  { intros l Hl. apply flat_map_ext_in. intros o Ho. apply pfb_child; auto.
    - eapply down_path_In; eauto.
    - intros y Hy. split; [intros [<-|H]; auto; exfalso; eapply wf_root_notin_child; eauto | intros; right; auto]. }
  destruct (wf_inv _ _ Hw) as [_ [Hnd _]].
  assert (K : forall g', In g' cs -> not_on (i :: q') g' = negb (Nat.eqb (rid g') (rid g))).
  { intros g' Hg'. unfold not_on. f_equal. destruct (Nat.eqb (rid g') (rid g)) eqn:Eg.
    - apply Nat.eqb_eq in Eg. apply mem_In. right. rewrite Eg. destruct (down_path_hd _ _ _ Hq') as [r ->]. left. reflexivity.
    - apply Nat.eqb_neq in Eg. apply mem_false. intros [Hi'|Hi'].
      + eapply (wf_root_notin_child i cs g'); eauto. rewrite Hi'. apply rid_in_ids.
      + apply Eg. f_equal. eapply (wf_children_eq i cs g' g (rid g')); eauto using rid_in_ids. eapply down_path_In; eauto. }
  pose proof Hg as Hsplit. apply in_split in Hsplit. destruct Hsplit as [l1 [l2 Ecs]]. exists l1, l2. split; auto.
  assert (F : filter (not_on (i :: q')) cs = l1 ++ l2).
  { rewrite (filter_ext_in _ _ _ K). rewrite Ecs in Hnd |- *.
    assert (D : forall g', In g' (l1 ++ l2) -> rid g' <> rid g).
    { intros g' Hg' Eg. apply flat_map_NoDup_split in Hnd. destruct Hnd as [_ [_ Hd]].
      apply (Hd (rid g) (rid_in_ids g)). apply in_flat_map. exists g'. split; auto. rewrite <- Eg. apply rid_in_ids. }
    rewrite filter_app. simpl. rewrite Nat.eqb_refl. simpl.
    rewrite !filter_all; auto; intros g' Hg'; apply negb_true_iff; apply Nat.eqb_neq; apply D; apply in_or_app; auto. }
  assert (R : pfb (RNode i cs) (i :: q') i = flat_map linearise (l1 ++ l2) ++ [i]).
  { unfold pfb. simpl subtree. rewrite Nat.eqb_refl. simpl rchildren. rewrite F. reflexivity. }
  split.
  - unfold sweep_down. simpl flat_map. rewrite R. f_equal. apply E. auto.
  - unfold sweep_up. simpl rev. rewrite flat_map_app. simpl flat_map. rewrite app_nil_r, R. f_equal.
    apply E. intros o Ho. apply in_rev. exact Ho.
Qed.

Lemma sweep_leaf : forall i cs, NoDup (ids (RNode i cs)) ->
  sweep_down (RNode i cs) [i] = linearise (RNode i cs) /\ sweep_up (RNode i cs) [i] = linearise (RNode i cs).
Proof.
  intros i cs Hw.
  assert (R : pfb (RNode i cs) [i] i = linearise (RNode i cs)).
  { unfold pfb. simpl subtree. rewrite Nat.eqb_refl. simpl rchildren. rewrite filter_all; [reflexivity|].
    intros g Hg. unfold not_on. apply negb_true_iff. apply mem_false. intros [E|[]].
    eapply (wf_root_notin_child i cs g); eauto. rewrite E. apply rid_in_ids. }
  unfold sweep_down, sweep_up. simpl. rewrite app_nil_r. auto.
Qed.

Lemma sweeps_blocky : forall c x q s, NoDup (ids c) -> down_path x c = Some q -> is_subtree s c ->
  blocky (inb (ids s)) (sweep_down c q) /\ blocky (inb (ids s)) (sweep_up c q).
Proof.
  induction c as [i cs IH] using rtree_ind2. intros x q s Hw Hq Hs. rewrite Forall_forall in IH.
  pose proof (sweep_down_perm _ _ _ Hw Hq) as Pd. pose proof (sweep_up_perm _ _ _ Hw Hq) as Pu.
  apply is_subtree_inv in Hs. destruct Hs as [->|[c' [Hc' Hs]]].
  { split; apply blocky_true; intros y Hy; apply inb_true; [exact (Permutation_in _ Pd Hy) | exact (Permutation_in _ Pu Hy)]. }
  apply down_path_step in Hq. destruct Hq as [[<- ->]|[Hne [g [q' [Hg [Hq' ->]]]]]].
  - destruct (sweep_leaf i cs Hw) as [-> ->].
    split; apply linearise_blocky; auto; eapply sub_child; eauto.
  - destruct (sweep_step i cs g x q' Hw Hg Hq') as [l1 [l2 [Ecs [Ed Eu]]]]. rewrite Ed, Eu.
    pose proof (wf_child _ _ _ Hw Hg) as Hwg.
    pose proof (sweep_down_perm _ _ _ Hwg Hq') as Pd'. pose proof (sweep_up_perm _ _ _ Hwg Hq') as Pu'.
    destruct (wf_inv _ _ Hw) as [Hni [Hnd _]].
    assert (Hroot : allb (inb (ids s)) false [i]).
    { apply allb_false_disjoint. intros y [<-|[]] Hy. eapply (wf_root_notin_child i cs c'); eauto. eapply is_subtree_ids; eauto. }
    assert (Hdec : c' = g \/ c' <> g).
    { destruct (Nat.eq_dec (rid c') (rid g)) as [E|E]; [left; eapply wf_children_rid; eauto | right; congruence]. }
    destruct Hdec as [->|Hcg].
    + (* the block is inside the path child *)
      destruct (IH g Hg x q' s Hwg Hq' Hs) as [Bd Bu].
      assert (Hoth : allb (inb (ids s)) false (flat_map linearise (l1 ++ l2))).
      { apply allb_false_disjoint. intros y Hy Hys. rewrite Ecs in Hnd. apply flat_map_NoDup_split in Hnd.
        destruct Hnd as [_ [_ Hd]]. apply (Hd y (is_subtree_ids _ _ Hs y Hys)).
        apply in_flat_map in Hy. destruct Hy as [c [Hc Hy]]. apply in_flat_map. exists c. split; auto. apply linearise_In. exact Hy. }
      split.
      * apply blocky_pad_l; auto. apply allb_app; auto.
      * apply blocky_pad_r; auto. apply allb_app; auto.
    + (* the block is inside another child: the sweep of the path child is outside *)
      assert (Hin12 : In c' (l1 ++ l2)).
      { rewrite Ecs in Hc'. apply in_app_or in Hc'. apply in_or_app. destruct Hc' as [H|[H|H]]; auto. congruence. }
      assert (Hg_out : forall l, Permutation l (ids g) -> allb (inb (ids s)) false l).
      { intros l Pl. apply allb_false_disjoint. intros y Hy Hys. apply Hcg.
        eapply (wf_children_eq i cs c' g y); eauto. eapply is_subtree_ids; eauto. eapply Permutation_in; eauto. }
      assert (Hnd12 : NoDup (flat_map ids (l1 ++ l2))).
      { rewrite Ecs in Hnd. apply flat_map_NoDup_split in Hnd. tauto. }
      assert (Boths : blocky (inb (ids s)) (flat_map linearise (l1 ++ l2))).
      { apply (flat_map_blocky linearise (l1 ++ l2) s c' Hnd12 Hin12 (is_subtree_ids _ _ Hs)).
        - intros c y _ Hy. apply linearise_In. exact Hy.
        - apply linearise_blocky; auto. eapply wf_child; eauto. }
      split.
      * apply blocky_pad_r; [apply blocky_pad_r; auto|]. apply Hg_out; auto.
      * apply blocky_pad_l; [apply blocky_pad_r; auto|]. apply Hg_out; auto.
Qed.

(* ================================================================================== *)
(* every proper subtree is a contiguous block of the update path                      *)
(* ================================================================================== *)
Lemma NoDup_flat_map_filter : forall {A B} (h : A -> list B) (P : A -> bool) l,
  NoDup (flat_map h l) -> NoDup (flat_map h (filter P l)).
Proof.
  intros A B h P l. induction l as [|a l IH]; intros H; simpl; auto. simpl in H.
  destruct (NoDup_app_inv _ _ H) as [H1 [H2 Hd]]. destruct (P a); auto. simpl.
  apply NoDup_app_intro; auto. intros x Hx Hy. apply (Hd x Hx).
  apply in_flat_map in Hy. destruct Hy as [c [Hc Hy]]. apply filter_In in Hc. apply in_flat_map. exists c. tauto.
Qed.

Lemma update_path_blocky : forall i cs g s, NoDup (ids (RNode i cs)) -> In g cs -> is_subtree s g ->
  exists p, update_path (RNode i cs) = Some p /\ blocky (inb (ids s)) p.
Proof.
  intros i cs g s Hw Hg Hs.
  assert (Hroot : allb (inb (ids s)) false [i]).
  { apply allb_false_disjoint. intros y [<-|[]] Hy. eapply (wf_root_notin_child i cs g); eauto. eapply is_subtree_ids; eauto. }
  assert (Hout : forall g' l, In g' cs -> g' <> g -> (forall x, In x l -> In x (ids g')) -> allb (inb (ids s)) false l).
  { intros g' l Hg' Hne Hl. apply allb_false_disjoint. intros y Hy Hys. apply Hne.
    eapply (wf_children_eq i cs g' g y); eauto. eapply is_subtree_ids; eauto. }
  pose proof (wf_child _ _ _ Hw Hg) as Hwg.
  destruct (update_path_decomp i cs Hw) as [st [F [[-> [-> U]]|[cm [dtl [Hcm [Hdtl [[-> U]|[L2 [ce [e [etl [Hce [Hne [Hel [Hetl U]]]]]]]]]]]]]]]].
  - destruct Hg.
  - destruct Hg as [<-|[]]. eexists. split; [exact U|]. apply blocky_pad_r; auto.
    apply (proj2 (sweeps_blocky cm st dtl s Hwg Hdtl Hs)).
  - eexists. split; [exact U|].
    pose proof (wf_child _ _ _ Hw Hcm) as Hwm. pose proof (wf_child _ _ _ Hw Hce) as Hwe.
    pose proof (sweep_up_perm _ _ _ Hwm Hdtl) as Pu. pose proof (sweep_down_perm _ _ _ Hwe Hetl) as Pd.
    assert (Hoc : forall c, In c (other_children cs (rid cm) (rid ce)) -> In c cs /\ rid c <> rid cm /\ rid c <> rid ce).
    { intros c Hc. unfold other_children in Hc. apply filter_In in Hc. destruct Hc as [Hc Hb]. split; auto.
      apply negb_true_iff in Hb. apply orb_false_iff in Hb. destruct Hb as [H1 H2]. apply Nat.eqb_neq in H1, H2. auto. }
    destruct (Nat.eq_dec (rid g) (rid cm)) as [Egm|Egm]; [|destruct (Nat.eq_dec (rid g) (rid ce)) as [Ege|Ege]].
    + assert (g = cm) by (eapply wf_children_rid; eauto). subst g.
      apply blocky_pad_r; [apply (proj2 (sweeps_blocky cm st dtl s Hwg Hdtl Hs))|].
      apply allb_app; [apply allb_app; auto|].
      * apply allb_false_disjoint. intros y Hy Hys. apply in_flat_map in Hy. destruct Hy as [c [Hc Hy]].
        apply Hoc in Hc. destruct Hc as [Hc [Hc1 _]]. apply Hc1. f_equal.
        eapply (wf_children_eq i cs c cm y); eauto. apply linearise_In; auto. eapply is_subtree_ids; eauto.
      * apply (Hout ce); auto; [congruence|]. intros x Hx. eapply Permutation_in; eauto.
    + assert (g = ce) by (eapply wf_children_rid; eauto). subst g.
      apply blocky_pad_l; [apply blocky_pad_l; [apply (proj1 (sweeps_blocky ce e etl s Hwg Hetl Hs))|]|].
      * apply allb_app; auto.
        apply allb_false_disjoint. intros y Hy Hys. apply in_flat_map in Hy. destruct Hy as [c [Hc Hy]].
        apply Hoc in Hc. destruct Hc as [Hc [_ Hc2]]. apply Hc2. f_equal.
        eapply (wf_children_eq i cs c ce y); eauto. apply linearise_In; auto. eapply is_subtree_ids; eauto.
      * apply (Hout cm); auto; [congruence|]. intros x Hx. eapply Permutation_in; eauto.
    + assert (Hgo : In g (other_children cs (rid cm) (rid ce))).
      { unfold other_children. apply filter_In. split; auto. apply negb_true_iff. apply orb_false_iff. split; apply Nat.eqb_neq; auto. }
      destruct (wf_inv _ _ Hw) as [_ [Hnd _]].
      rewrite <- !app_assoc. apply blocky_pad.
      * apply (flat_map_blocky linearise _ s g (NoDup_flat_map_filter ids _ cs Hnd) Hgo (is_subtree_ids _ _ Hs)).
        -- intros c y _ Hy. apply linearise_In. exact Hy.
        -- apply linearise_blocky; auto.
      * apply (Hout cm); auto; [congruence|]. intros x Hx. eapply Permutation_in; eauto.
      * apply allb_app; auto. apply (Hout ce); auto; [congruence|]. intros x Hx. eapply Permutation_in; eauto.
Qed.

Lemma walk_defined : forall t l, NoDup (ids t) -> (forall x, In x l -> In x (ids t)) -> exists w, walk_edges t l = Some w.
Proof.
  intros t l Hw. induction l as [|a l IH]; intros Hl; [exists []; reflexivity|].
  destruct l as [|b r]; [exists []; reflexivity|].
  destruct IH as [w Ew]; [intros; apply Hl; right; auto|].
  destruct (path_from_to_spec t a b Hw) as [q [Hq _]]; [apply Hl; simpl; auto | apply Hl; simpl; auto|].
  exists (steps q ++ w).
  change (walk_edges t (a :: b :: r)) with
    (match path_from_to t a b, walk_edges t (b :: r) with Some q, Some w => Some (steps q ++ w) | _, _ => None end).
  rewrite Hq, Ew. reflexivity.
Qed.

(* ================================================================================== *)
(* the theorem                                                                        *)
(* ================================================================================== *)
Theorem update_path_crossings : forall t, NoDup (ids t) ->
  exists p w, update_path t = Some p /\ walk_edges t p = Some w /\
              forall e, In e (edges t) -> crossings e w <= 2.
Proof.
  intros t Hw. destruct (update_path_perm t Hw) as [p [Up Pp]].
  assert (Hin : forall x, In x p -> In x (ids t)) by (intros x Hx; eapply Permutation_in; eauto).
  destruct (walk_defined t p Hw Hin) as [w Ew]. exists p, w. split; auto. split; auto.
  intros [a b] He. pose proof He as He'. apply edges_spec in He'. destruct He' as [sp [Hsp [Ha Hb]]].
  apply in_map_iff in Hb. destruct Hb as [s [Hb Hs]]. subst a b.
  destruct (walk_crossings t Hw sp s Hsp Hs p Hin) as [w' [Ew' Cw]].
  rewrite Ew in Ew'. inversion Ew'; subst w'. rewrite Cw. apply blocky_trans.
  pose proof (cut_s_sub t sp s Hsp Hs) as Hst. destruct t as [i cs].
  apply is_subtree_inv in Hst. destruct Hst as [E|[g [Hg Hsg]]].
  - exfalso. apply (edges_child_not_root _ _ _ Hw He). rewrite E. reflexivity.
  - destruct (update_path_blocky i cs g s Hw Hg Hsg) as [p' [Up' B]]. rewrite Up in Up'. inversion Up'; subst p'. exact B.
Qed.

(* refinement: the number of crossings of an edge is the number of side changes, and the
   subtree below the edge is one contiguous block of the update path *)
Theorem update_path_subtree_block : forall t p c, NoDup (ids t) -> In (p, c) (edges t) ->
  exists path s, update_path t = Some path /\ subtree c t = Some s /\
    exists l1 l2 l3, path = l1 ++ l2 ++ l3 /\
      (forall x, In x l2 -> In x (ids s)) /\ (forall x, In x l1 \/ In x l3 -> ~ In x (ids s)).
Proof.
  intros t p c Hw He. pose proof He as He'. apply edges_spec in He'. destruct He' as [sp [Hsp [Ha Hb]]].
  apply in_map_iff in Hb. destruct Hb as [s [Hb Hs]]. subst p c.
  pose proof (cut_s_sub t sp s Hsp Hs) as Hst. pose proof (subtree_complete t s Hw Hst) as Hsub.
  destruct t as [i cs]. pose proof Hst as Hst'.
  apply is_subtree_inv in Hst'. destruct Hst' as [E|[g [Hg Hsg]]].
  - exfalso. apply (edges_child_not_root _ _ _ Hw He). rewrite E. reflexivity.
  - destruct (update_path_blocky i cs g s Hw Hg Hsg) as [path [Up [l1 [l2 [l3 [E [H1 [H2 H3]]]]]]]].
    exists path, s. split; auto. split; auto. exists l1, l2, l3. split; auto. split.
    + intros x Hx. apply inb_true. auto.
    + intros x [Hx|Hx]; apply inb_false; auto.
Qed.
