(* Every non-adjacent jump of the TDVP update path lands on a leaf: for consecutive entries
   a, b of update_path either a and b are adjacent or b has no children.  Consequence used
   by the two-site schedule (Sched/TDVPFreshU.v): the last three entries x, y, z of the
   update path of a tree with >= 3 nodes satisfy adjacent x y (and adjacent y z).
   Proofs only. *)
From Coq Require Import List Arith Bool Lia Permutation.
From PTN Require Import Tree.RTree Tree.RTreeProofs Tree.Nav Tree.NavProofs
     Tree.UpdatePath Tree.UpdatePathProofs Tree.Crossings Tree.EdgeBlock.
Import ListNotations.

Definition jump_ok (t : rtree) (a b : nat) : Prop := adjacent t a b \/ children_ids t b = [].

Definition last_is (l : list nat) (a : nat) : Prop := exists r, l = r ++ [a].
Definition hd_is (l : list nat) (b : nat) : Prop := exists r, l = b :: r.

Lemma chain_join : forall (R : nat -> nat -> Prop) l1 l2, chain R l1 -> chain R l2 ->
  (forall a b, last_is l1 a -> hd_is l2 b -> R a b) -> chain R (l1 ++ l2).
Proof.
  intros R l1 l2 H1 H2 HR. destruct l2 as [|b B]; [rewrite app_nil_r; exact H1|].
  destruct l1 as [|x l1]; [exact H2|]. destruct (@exists_last _ (x :: l1)) as [A [a E]]; [discriminate|]. rewrite E in *.
  rewrite <- app_assoc. simpl. apply chain_app. split; [exact H1|]. apply chain_cons. split; [|exact H2].
  apply HR; [exists A; reflexivity | exists B; reflexivity].
Qed.

Lemma last_is_inj : forall l a b, last_is l a -> last_is l b -> a = b.
Proof. intros l a b [r1 E1] [r2 E2]. rewrite E1 in E2. apply app_inj_tail in E2. tauto. Qed.

Lemma last_is_app : forall l1 l2 a, last_is l2 a -> last_is (l1 ++ l2) a.
Proof. intros l1 l2 a [r E]. exists (l1 ++ r). rewrite E, app_assoc. reflexivity. Qed.

Lemma hd_is_inj : forall l a b, hd_is l a -> hd_is l b -> a = b.
Proof. intros l a b [r1 E1] [r2 E2]. rewrite E1 in E2. inversion E2. reflexivity. Qed.

Lemma hd_is_app : forall l1 l2 a, hd_is l1 a -> hd_is (l1 ++ l2) a.
Proof. intros l1 l2 a [r E]. exists (r ++ l2). rewrite E. reflexivity. Qed.

Section Jumps.
  Variable t : rtree.
  Hypothesis Hw : NoDup (ids t).

  Definition leafy (x : nat) : Prop := children_ids t x = [].
  Definition starts_leaf (l : list nat) : Prop := exists x, hd_is l x /\ leafy x.

  Lemma leaf_of_sub : forall s, is_subtree s t -> rchildren s = [] -> leafy (rid s).
  Proof. intros s H Hr. unfold leafy, children_ids. rewrite (subtree_complete t s Hw H), Hr. reflexivity. Qed.

  Lemma child_adjacent : forall c g, is_subtree c t -> In g (rchildren c) -> adjacent t (rid g) (rid c).
  Proof. intros c g Hc Hg. right. apply edges_spec. exists c. repeat split; auto. apply in_map. exact Hg. Qed.

  Definition lin_good (g : rtree) : Prop := chain (jump_ok t) (linearise g) /\ starts_leaf (linearise g).

  Lemma lin_last : forall g, last_is (linearise g) (rid g).
  Proof. intros g. destruct (linearise_root_last g) as [l E]. exists l. exact E. Qed.

  Lemma forest_ok : forall l, (forall g, In g l -> lin_good g) -> l <> [] ->
    chain (jump_ok t) (flat_map linearise l) /\ starts_leaf (flat_map linearise l) /\
    exists g, In g l /\ last_is (flat_map linearise l) (rid g).
  Proof.
    induction l as [|g l IH]; intros H Hne; [congruence|]. destruct (H g (or_introl eq_refl)) as [Hc Hs].
    destruct l as [|g2 rest].
    - simpl. rewrite app_nil_r. split; auto. split; auto. exists g. split; [left; reflexivity|apply lin_last].
    - destruct IH as [Hc2 [Hs2 [g' [Hg' Hl']]]]; [intros; apply H; right; auto|discriminate|].
      change (flat_map linearise (g :: g2 :: rest)) with (linearise g ++ flat_map linearise (g2 :: rest)).
      split; [|split].
      + apply chain_join; auto. intros a b Ha Hb. right. destruct Hs2 as [x [Hx Lx]]. rewrite (hd_is_inj _ _ _ Hb Hx). exact Lx.
      + destruct Hs as [x [Hx Lx]]. exists x. split; auto. apply hd_is_app. exact Hx.
      + exists g'. split; [right; exact Hg'|]. apply last_is_app. exact Hl'.
  Qed.

  Lemma lin_ok : forall c, is_subtree c t -> lin_good c.
  Proof.
    induction c as [i cs IH] using rtree_ind2. intros Hc. rewrite Forall_forall in IH.
    destruct cs as [|c0 cs0] eqn:Ecs.
    - simpl. split; [exact I|]. exists i. split; [exists []; reflexivity|]. apply (leaf_of_sub (RNode i [])); auto.
    - rewrite <- Ecs in *.
      assert (Hch : forall g, In g cs -> lin_good g).
      { intros g Hg. apply IH; auto. eapply is_subtree_trans; [exact (is_subtree_child (RNode i cs) g Hg)|exact Hc]. }
      destruct (forest_ok cs Hch) as [Hc1 [Hs1 [g [Hg Hl]]]]; [rewrite Ecs; discriminate|].
      simpl linearise. split.
      + apply chain_join; auto; [exact I|]. intros a b Ha Hb. left. rewrite (last_is_inj _ _ _ Ha Hl).
        destruct Hb as [r Er]. inversion Er; subst b. apply (child_adjacent (RNode i cs) g Hc Hg).
      + destruct Hs1 as [x [Hx Lx]]. exists x. split; auto. apply hd_is_app. exact Hx.
  Qed.

  (* a sweep segment P of children of c followed by the root of c *)
  Lemma close_node : forall c P, is_subtree c t -> chain (jump_ok t) P ->
    (forall a, last_is P a -> exists g, In g (rchildren c) /\ a = rid g) ->
    chain (jump_ok t) (P ++ [rid c]).
  Proof.
    intros c P Hc HP Hl. apply chain_join; auto; [exact I|]. intros a b Ha Hb. left. destruct (Hl a Ha) as [g [Hg ->]].
    destruct Hb as [r Er]. inversion Er; subst b. apply child_adjacent; auto.
  Qed.

  Lemma forest_sub_ok : forall c l, is_subtree c t -> (forall g, In g l -> In g (rchildren c)) -> l <> [] ->
    chain (jump_ok t) (flat_map linearise l) /\ starts_leaf (flat_map linearise l) /\
    exists g, In g (rchildren c) /\ last_is (flat_map linearise l) (rid g).
  Proof.
    intros c l Hc Hl Hne. destruct (forest_ok l) as [H1 [H2 [g [Hg H3]]]]; auto.
    - intros g Hg. apply lin_ok. eapply is_subtree_trans; [apply is_subtree_child; apply Hl; exact Hg|exact Hc].
    - split; auto. split; auto. exists g. split; auto.
  Qed.

  Lemma sweeps_ok : forall c x q, is_subtree c t -> down_path x c = Some q ->
    chain (jump_ok t) (sweep_up c q) /\
    (chain (jump_ok t) (sweep_down c q) /\ exists y, hd_is (sweep_down c q) y /\ (leafy y \/ y = rid c)).
  Proof.
    induction c as [i cs IH] using rtree_ind2. intros x q Hc Hq. rewrite Forall_forall in IH.
    pose proof (is_subtree_wf _ _ Hc Hw) as Hwc.
    apply down_path_step in Hq. destruct Hq as [[<- ->]|[Hne [g [q' [Hg [Hq' ->]]]]]].
    - destruct (sweep_leaf i cs Hwc) as [-> ->]. destruct (lin_ok _ Hc) as [H1 [y [Hy Ly]]].
      split; auto. split; auto. exists y. auto.
    - destruct (sweep_step i cs g x q' Hwc Hg Hq') as [l1 [l2 [Ecs [Ed Eu]]]]. rewrite Ed, Eu.
      assert (Hgt : is_subtree g t) by (eapply is_subtree_trans; [exact (is_subtree_child (RNode i cs) g Hg)|exact Hc]).
      destruct (IH g Hg x q' Hgt Hq') as [IHu [IHd [y [Hy Ly]]]].
      assert (Hsub : forall g', In g' (l1 ++ l2) -> In g' (rchildren (RNode i cs))).
      { intros g' H. simpl. rewrite Ecs. apply in_app_or in H. apply in_or_app. simpl. tauto. }
      assert (Hul : last_is (sweep_up g q') (rid g)).
      { destruct (sweep_up_last _ _ _ Hq') as [l El]. exists l. exact El. }
      destruct (l1 ++ l2) as [|o os] eqn:Eo.
      + (* no other children *)
        change (flat_map linearise [] ++ [i]) with [i]. split.
        * apply (close_node (RNode i cs)); auto. intros a Ha. exists g. split; auto. apply (last_is_inj _ _ _ Ha Hul).
        * split.
          -- apply chain_join; auto; [exact I|]. intros a b Ha Hb. destruct Ha as [r Er]. destruct r as [|? [|? ?]]; inversion Er; subst a.
             rewrite (hd_is_inj _ _ _ Hb Hy). destruct Ly as [Ly| ->]; [right; exact Ly|].
             left. apply adjacent_sym. apply (child_adjacent (RNode i cs) g Hc Hg).
          -- exists i. split; [exists (sweep_down g q'); reflexivity|right; reflexivity].
      + rewrite <- Eo in *.
        destruct (forest_sub_ok (RNode i cs) (l1 ++ l2) Hc Hsub) as [F1 [[z [Hz Lz]] [g' [Hg' Fl]]]]; [rewrite Eo; discriminate|].
        assert (Fi : chain (jump_ok t) (flat_map linearise (l1 ++ l2) ++ [i])).
        { apply (close_node (RNode i cs)); auto. intros a Ha. exists g'. split; auto. apply (last_is_inj _ _ _ Ha Fl). }
        split.
        * apply chain_join; auto. intros a b Ha Hb. right. assert (Hzb : hd_is (flat_map linearise (l1 ++ l2) ++ [i]) z) by (apply hd_is_app; exact Hz).
          rewrite (hd_is_inj _ _ _ Hb Hzb). exact Lz.
        * split.
          -- apply chain_join; auto. intros a b Ha Hb.
             assert (Hai : last_is (flat_map linearise (l1 ++ l2) ++ [i]) i) by (exists (flat_map linearise (l1 ++ l2)); reflexivity).
             rewrite (last_is_inj _ _ _ Ha Hai). rewrite (hd_is_inj _ _ _ Hb Hy). destruct Ly as [Ly| ->]; [right; exact Ly|].
             left. apply adjacent_sym. apply (child_adjacent (RNode i cs) g Hc Hg).
          -- exists z. split; [|left; exact Lz]. apply hd_is_app. apply hd_is_app. exact Hz.
  Qed.
End Jumps.

Theorem update_path_jumps : forall t, NoDup (ids t) -> exists up, update_path t = Some up /\ chain (jump_ok t) up.
Proof.
  intros [i cs] Hw. set (t := RNode i cs) in *.
  assert (Ht : is_subtree t t) by apply sub_here.
  destruct (update_path_decomp i cs Hw) as [st [F [[-> [-> U]]|[cm [dtl [Hcm [Hdtl [[-> U]|[L2 [ce [e [etl [Hce [Hne [Hel [Hetl U]]]]]]]]]]]]]]]].
  - eexists. split; [exact U|]. exact I.
  - eexists. split; [exact U|].
    assert (Hcmt : is_subtree cm t) by (apply (is_subtree_child t cm); simpl; auto).
    destruct (sweeps_ok t Hw cm st dtl Hcmt Hdtl) as [Hu _].
    apply (close_node t t); auto. intros a Ha. exists cm. split; [simpl; auto|].
    destruct (sweep_up_last _ _ _ Hdtl) as [l El]. eapply last_is_inj; [exact Ha|exists l; exact El].
  - eexists. split; [exact U|].
    assert (Hcmt : is_subtree cm t) by (apply (is_subtree_child t cm); exact Hcm).
    assert (Hcet : is_subtree ce t) by (apply (is_subtree_child t ce); exact Hce).
    destruct (sweeps_ok t Hw cm st dtl Hcmt Hdtl) as [Hu _].
    destruct (sweeps_ok t Hw ce e etl Hcet Hetl) as [_ [Hd [y [Hy Ly]]]].
    assert (Hul : last_is (sweep_up cm dtl) (rid cm)).
    { destruct (sweep_up_last _ _ _ Hdtl) as [l El]. exists l. exact El. }
    set (oc := other_children cs (rid cm) (rid ce)).
    assert (Hoc : forall g, In g oc -> In g (rchildren t)).
    { intros g Hg. unfold oc, other_children in Hg. apply filter_In in Hg. simpl. tauto. }
    (* the middle segment: the other children, then the root *)
    assert (Hmid : chain (jump_ok t) (flat_map linearise oc ++ [i]) /\
                   (exists z, hd_is (flat_map linearise oc ++ [i]) z /\ (leafy t z \/ z = i))).
    { destruct oc as [|o os] eqn:Eo.
      - simpl. split; [exact I|]. exists i. split; [exists []; reflexivity|right; reflexivity].
      - rewrite <- Eo in *.
        destruct (forest_sub_ok t Hw t oc Ht Hoc) as [F1 [[z [Hz Lz]] [g' [Hg' Fl]]]]; [rewrite Eo; discriminate|]. split.
        + apply (close_node t t); auto. intros a Ha. exists g'. split; auto. apply (last_is_inj _ _ _ Ha Fl).
        + exists z. split; [apply hd_is_app; exact Hz|left; exact Lz]. }
    destruct Hmid as [Hm [z [Hz Lz]]].
    apply chain_join; auto.
    + apply chain_join; auto. intros a b Ha Hb.
      assert (Hai : last_is (flat_map linearise oc ++ [i]) i) by (exists (flat_map linearise oc); reflexivity).
      rewrite (last_is_inj _ _ _ Ha Hai), (hd_is_inj _ _ _ Hb Hy). destruct Ly as [Ly| ->]; [right; exact Ly|].
      left. apply adjacent_sym. apply (child_adjacent t t ce Ht Hce).
    + intros a b Ha Hb. rewrite (last_is_inj _ _ _ Ha Hul).
      assert (Hzb : hd_is ((flat_map linearise oc ++ [i]) ++ sweep_down ce etl) z) by (apply hd_is_app; exact Hz).
      rewrite (hd_is_inj _ _ _ Hb Hzb). destruct Lz as [Lz| ->]; [right; exact Lz|].
      left. apply (child_adjacent t t cm Ht Hcm).
Qed.
