(* Model of pytreenet/time_evolution/time_evo_util/update_path.py: TDVPUpdatePathFinder.
   find_start_node_id (first maximum of the distance dict in dict order), main_path,
   path_for_branch, find_furthest_non_visited_leaf (same tie-breaking),
   find_main_path_down_from_root, _branch_downwards_origin_is_root, _branch_path_downwards,
   path_down_from_root, find_path.  `None` = the implementation raises.
   _path_for_branch_rec(child) recurses over the subtree below `child`; on an rtree that is
   `linearise` of the child subtree (structural, no fuel needed).  Definitions only. *)
From Coq Require Import List Arith Bool.
From PTN Require Import Tree.RTree Tree.Nav.
Import ListNotations.

(* max(d, key=d.get) over a dict given as association list: the FIRST key with maximal value *)
Fixpoint first_max_aux (bk bv : nat) (al : list (nat * nat)) : nat :=
  match al with
  | [] => bk
  | (k, v) :: r => if Nat.ltb bv v then first_max_aux k v r else first_max_aux bk bv r
  end.

Definition first_max (al : list (nat * nat)) : option nat :=
  match al with
  | [] => None                               (* ValueError / failed assert *)
  | (k, v) :: r => Some (first_max_aux k v r)
  end.

(* find_start_node_id *)
Definition start_node (t : rtree) : option nat := first_max (depths 0 t).

(* self.main_path = find_path_to_root(start): [start; ...; root] *)
Definition main_path (t : rtree) : option (list nat) :=
  match start_node t with Some s => path_to_root t s | None => None end.

Definition not_on (l : list nat) (c : rtree) : bool := negb (mem (rid c) l).

(* path_for_branch / _branch_path_downwards: the children of `origin` that are not on `on`,
   each linearised (children before parents), then origin *)
Definition path_for_branch (t : rtree) (on : list nat) (origin : nat) : option (list nat) :=
  match subtree origin t with
  | Some s => Some (flat_map linearise (filter (not_on on) (rchildren s)) ++ [origin])
  | None => None
  end.

(* find_furthest_non_visited_leaf *)
Definition furthest_non_visited_leaf (t : rtree) (path : list nat) : option nat :=
  first_max (filter (fun kv => mem (fst kv) (leaves t) && negb (mem (fst kv) path)) (depths 0 t)).

(* _branch_downwards_origin_is_root: the tuple (main_path[-2], main_path_down[1]) is only
   evaluated when the root has a child to test against it *)
Definition branch_root (t : rtree) (main down : list nat) : option (list nat) :=
  match rchildren t with
  | [] => Some [rid t]
  | cs =>
      match nth_error (rev main) 1, nth_error down 1 with
      | Some m, Some d =>
          Some (flat_map linearise
                  (filter (fun c => negb (Nat.eqb (rid c) m || Nat.eqb (rid c) d)) cs) ++ [rid t])
      | _, _ => None                          (* IndexError *)
      end
  end.

Fixpoint concat_opt {A : Type} (l : list (option (list A))) : option (list A) :=
  match l with
  | [] => Some []
  | None :: _ => None
  | Some a :: r => match concat_opt r with Some b => Some (a ++ b) | None => None end
  end.

(* path_down_from_root(path) *)
Definition path_down_from_root (t : rtree) (main path : list nat) : option (list nat) :=
  if Nat.eqb (length (rchildren t)) 1 then Some [rid t]
  else
    match furthest_non_visited_leaf t path with
    | None => None
    | Some e =>
        match path_to_root t e with
        | None => None
        | Some up =>
            let down := rev up in
            concat_opt (map (fun o => if Nat.eqb o (rid t) then branch_root t main down
                                      else path_for_branch t down o) down)
        end
    end.

(* find_path *)
Definition update_step (t : rtree) (main : list nat) (acc : option (list nat)) (o : nat) : option (list nat) :=
  match acc with
  | None => None
  | Some path =>
      match (if negb (Nat.eqb o (rid t)) then path_for_branch t main o
             else path_down_from_root t main path) with
      | Some ext => Some (path ++ ext)
      | None => None
      end
  end.

Definition update_path (t : rtree) : option (list nat) :=
  match main_path t with
  | None => None
  | Some main => fold_left (update_step t main) main (Some [])
  end.
