(* Rooted ordered trees with natural-number identifiers: the shape of a PyTreeNet
   TreeStructure (pytreenet/core/tree_structure.py).  A node is its identifier and the
   ordered list of its children (GraphNode.children); the parent pointer is implicit.
   Definitions only (plus the nested induction principle, which is a term).
   Well-formedness is the single hypothesis `NoDup (ids t)` (identifiers are unique,
   TreeStructure.ensure_uniqueness).  Lemmas are in RTreeProofs.v. *)
From Coq Require Import List Arith Bool.
Import ListNotations.

Inductive rtree : Type := RNode (id : nat) (children : list rtree).

Definition rid (t : rtree) : nat := match t with RNode i _ => i end.
Definition rchildren (t : rtree) : list rtree := match t with RNode _ cs => cs end.

(* ---- nested induction principle --------------------------------------------------- *)
Section RtreeInd.
  Variable P : rtree -> Prop.
  Hypothesis Hnode : forall i cs, Forall P cs -> P (RNode i cs).
  Fixpoint rtree_ind2 (t : rtree) : P t :=
    match t with
    | RNode i cs =>
        Hnode i cs ((fix go (l : list rtree) : Forall P l :=
                       match l with
                       | [] => Forall_nil P
                       | c :: l' => Forall_cons c (rtree_ind2 c) (go l')
                       end) cs)
    end.
End RtreeInd.

(* ---- small list helpers ----------------------------------------------------------- *)
Definition mem (x : nat) (l : list nat) : bool := existsb (Nat.eqb x) l.

(* first `Some` produced by f along l *)
Definition first_some {A B : Type} (f : A -> option B) : list A -> option B :=
  fix go (l : list A) : option B :=
    match l with
    | [] => None
    | a :: l' => match f a with Some b => Some b | None => go l' end
    end.

Definition opt_list {A : Type} (o : option A) : list A :=
  match o with Some a => [a] | None => [] end.

(* ---- nodes, size ------------------------------------------------------------------ *)
(* identifiers in DFS pre-order (a node, then its children's subtrees left to right) *)
Fixpoint ids (t : rtree) : list nat :=
  match t with RNode i cs => i :: flat_map ids cs end.

Fixpoint size (t : rtree) : nat :=
  match t with RNode _ cs => S (list_sum (map size cs)) end.

Definition wf (t : rtree) : Prop := NoDup (ids t).

(* ---- lookup ----------------------------------------------------------------------- *)
(* the subtree hanging at identifier x (first in pre-order) *)
Fixpoint subtree (x : nat) (t : rtree) : option rtree :=
  match t with
  | RNode i cs => if Nat.eqb i x then Some t else first_some (subtree x) cs
  end.

(* GraphNode.children of node x ([] also for an unknown identifier) *)
Definition children_ids (t : rtree) (x : nat) : list nat :=
  match subtree x t with Some s => map rid (rchildren s) | None => [] end.

(* GraphNode.parent *)
Fixpoint parent_of (x : nat) (t : rtree) : option nat :=
  match t with
  | RNode i cs =>
      if existsb (fun c => Nat.eqb (rid c) x) cs then Some i
      else first_some (parent_of x) cs
  end.

(* GraphNode.is_leaf: no children *)
Definition is_leaf (t : rtree) (x : nat) : bool :=
  match children_ids t x with [] => true | _ => false end.

(* GraphNode.neighbouring_nodes: the parent first, then the children *)
Definition neighbours (t : rtree) (x : nat) : list nat :=
  opt_list (parent_of x t) ++ children_ids t x.

(* GraphNode.nneighbours *)
Definition degree (t : rtree) (x : nat) : nat := length (neighbours t x).

(* ---- edges ------------------------------------------------------------------------ *)
(* (parent, child) pairs, parents in pre-order, children in their stored order *)
Fixpoint edges (t : rtree) : list (nat * nat) :=
  match t with
  | RNode i cs => map (fun c => (i, rid c)) cs ++ flat_map edges cs
  end.

Definition adjacent (t : rtree) (a b : nat) : Prop :=
  In (a, b) (edges t) \/ In (b, a) (edges t).

(* consecutive entries of l are related by R *)
Fixpoint chain {A : Type} (R : A -> A -> Prop) (l : list A) : Prop :=
  match l with
  | a :: ((b :: _) as l') => R a b /\ chain R l'
  | _ => True
  end.

(* ---- leaves ----------------------------------------------------------------------- *)
(* leaves of the tree in pre-order (children's leaves left to right) *)
Fixpoint leaves (t : rtree) : list nat :=
  match t with
  | RNode i [] => [i]
  | RNode i cs => flat_map leaves cs
  end.

(* ---- depth ------------------------------------------------------------------------ *)
(* (identifier, depth) in pre-order, the root of t at depth d *)
Fixpoint depths (d : nat) (t : rtree) : list (nat * nat) :=
  match t with RNode i cs => (i, d) :: flat_map (depths (S d)) cs end.

(* association-list lookup (first binding) *)
Fixpoint assoc (k : nat) (al : list (nat * nat)) : option nat :=
  match al with
  | [] => None
  | (k', v) :: r => if Nat.eqb k k' then Some v else assoc k r
  end.
