(* Model of pytreenet/time_evolution/trotter.py and tebd.py (property C08).
   Part 1: TrotterSplitting.from_lists / exponentiate_splitting as list programs producing
           symbolic gate descriptors (TensorProduct.into_operator/exp, NumericOperator.to_tensor,
           SWAPlist.into_operators).
   Part 2: common_operators.swap_gate entry by entry (div/mod arithmetic).
   Part 3: TEBD gate application as programs over the Layer-W store (TTN/Store.v):
           legs_before_combination, absorb_into_open_legs, the one- and two-site gate, one step.
   Definitions only (executable); proofs are in TrotterProofs.v. *)
From Coq Require Import List Arith Bool ZArith.
From PTN Require Import TTN.Store.
Import ListNotations.

(* ================================================================================================ *)
(* Part 1: the splitting                                                                              *)
(* ================================================================================================ *)
Section Splitting.
  (* F: factors (floats in the code; symbols here).  M: single-site operator values (symbols). *)
  Context {F M : Type}.
  Variable one : F.                 (* the literal 1 used by from_lists *)
  Variable mdim : M -> nat.         (* an operator symbol is a mdim x mdim matrix *)

  (* TensorProduct: an insertion-ordered dict identifier -> operator *)
  Definition tprod := list (id * M).

  (* SWAPlist: pairs of identifiers.  TrotterStep: operator, factor, swaps before / after *)
  Record tstep := { ts_op : tprod; ts_factor : F; ts_before : list (id * id); ts_after : list (id * id) }.

  (* where the physical dimensions come from: the `dim` argument and / or the reference `ttn`
     (node identifier -> open_dimension()) *)
  Record dimsrc := { d_const : option nat; d_ttn : option (list (id * nat)) }.

  Inductive gkind := KExp | KSwap.

  (* a NumericOperator after to_tensor: the identifiers as returned, the shape of the tensor
     (outputs first), and what the tensor is: exp(-i * factor * dt * kron(g_kron)) or a SWAP of
     dimension g_dim *)
  Record gate := { g_kind : gkind; g_ids : list id; g_shape : list nat;
                   g_kron : list M; g_factor : option F; g_dim : nat }.

  (* axis roles of the tensor: (identifier, true = output / false = input) *)
  Definition gate_axes (g : gate) : list (id * bool) :=
    map (fun i => (i, true)) (g_ids g) ++ map (fun i => (i, false)) (g_ids g).

  (* TensorProduct.into_operator(order=...): the factors are multiplied (np.kron) in `order`
     (default: key order) but the identifiers returned are ALWAYS the keys in key order.
     An empty product yields the int 1, on which NumericOperator.__init__ raises. *)
  Definition into_operator (tp : tprod) (order : option (list id)) : option (list M * list id) :=
    let ord := match order with Some o => o | None => akeys tp end in
    match all_some (map (fun i => aget i tp) ord) with
    | Some ms => match ms with [] => None | _ => Some (ms, akeys tp) end
    | None => None
    end.

  (* NumericOperator.to_tensor(dim, ttn): the shape of one half of the legs *)
  Definition half_shape (ds : dimsrc) (ids : list id) : option (list nat) :=
    match d_const ds with
    | Some d => if Nat.eqb d 0 then None else Some (map (fun _ => d) ids)      (* positivity_check *)
    | None => match d_ttn ds with
              | Some t => all_some (map (fun i => aget i t) ids)                 (* KeyError -> None *)
              | None => None                                                     (* ValueError *)
              end
    end.

  (* TrotterStep.exponentiate_operator: TensorProduct.exp (into_operator without order, expm) then
     to_tensor: reshape of a (prod mdim)^2 matrix to shape*2 *)
  Definition exp_gate (ds : dimsrc) (st : tstep) : option gate :=
    match into_operator (ts_op st) None with
    | None => None
    | Some (ms, ids) =>
        match half_shape ds ids with
        | None => None
        | Some hs =>
            if Nat.eqb (prod_list (map mdim ms)) (prod_list hs)
            then Some {| g_kind := KExp; g_ids := ids; g_shape := hs ++ hs; g_kron := ms;
                         g_factor := Some (ts_factor st); g_dim := 0 |}
            else None
        end
    end.

  (* SWAPlist.into_operators: the dimension is that of the FIRST identifier of the pair when a ttn
     is given (it overrides `dim`), the tensor has shape (d, d, d, d); the second identifier is
     not looked at *)
  Definition swap_dim (ds : dimsrc) (pr : id * id) : option nat :=
    match d_ttn ds with
    | Some t => aget (fst pr) t
    | None => d_const ds
    end.
  Definition swap_op (ds : dimsrc) (pr : id * id) : option gate :=
    match swap_dim ds pr with
    | Some d => if Nat.eqb d 0 then None
                else Some {| g_kind := KSwap; g_ids := [fst pr; snd pr]; g_shape := [d; d; d; d];
                             g_kron := []; g_factor := None; g_dim := d |}
    | None => None
    end.
  Definition swap_ops (ds : dimsrc) (l : list (id * id)) : option (list gate) :=
    all_some (map (swap_op ds) l).

  Definition exponentiate_step (ds : dimsrc) (st : tstep) : option (list gate) :=
    match exp_gate ds st, swap_ops ds (ts_before st), swap_ops ds (ts_after st) with
    | Some e, Some b, Some a => Some (b ++ [e] ++ a)
    | _, _, _ => None
    end.

  Fixpoint exponentiate_splitting (ds : dimsrc) (l : list tstep) : option (list gate) :=
    match l with
    | [] => Some []
    | st :: t => match exponentiate_step ds st, exponentiate_splitting ds t with
                 | Some g, Some r => Some (g ++ r)
                 | _, _ => None
                 end
    end.

  (* TrotterSplitting.from_lists *)
  Inductive split_item := SIdx (i : nat) | SPair (i : nat) (f : F).
  Definition prepare_swap_list (i : nat) (sw : option (list (list (id * id)))) : option (list (id * id)) :=
    match sw with None => Some [] | Some l => nth_error l i end.
  Definition from_lists_item (tps : list tprod) (sb sa : option (list (list (id * id)))) (it : split_item) : option tstep :=
    let '(i, f) := match it with SIdx i => (i, one) | SPair i f => (i, f) end in
    match nth_error tps i, prepare_swap_list i sb, prepare_swap_list i sa with
    | Some tp, Some b, Some a => Some {| ts_op := tp; ts_factor := f; ts_before := b; ts_after := a |}
    | _, _, _ => None
    end.
  Definition from_lists (tps : list tprod) (splitting : option (list split_item))
             (sb sa : option (list (list (id * id)))) : option (list tstep) :=
    let sp := match splitting with Some s => s | None => map (fun i => SPair i one) (seq 0 (length tps)) end in
    all_some (map (from_lists_item tps sb sa) sp).
End Splitting.

Arguments tstep : clear implicits.
Arguments gate : clear implicits.
Arguments split_item : clear implicits.

(* ================================================================================================ *)
(* Part 2: swap_gate                                                                                  *)
(* ================================================================================================ *)
(* swap[i,j] = 1 iff int(i/d) == int(j%d) and int(j/d) == int(i%d), for i, j < d*d *)
Definition swap_entry (d i j : nat) : bool := Nat.eqb (i / d) (j mod d) && Nat.eqb (j / d) (i mod d).
Definition swap_matrix (d : nat) : list (list bool) :=
  map (fun i => map (swap_entry d i) (seq 0 (d * d))) (seq 0 (d * d)).
Definition swap_gate (d : nat) : option (list (list bool)) :=
  if Nat.eqb d 0 then None else Some (swap_matrix d).          (* positivity_check *)
(* the column carrying the 1 of row i *)
Definition swap_sigma (d i : nat) : nat := (i mod d) * d + i / d.
(* to_tensor: C-order reshape of the matrix to (d, d, d, d): entry ((a, b), (c, e)) *)
Definition swap_tensor_entry (d a b c e : nat) : bool := swap_entry d (a * d + b) (c * d + e).

Definition b2z (b : bool) : Z := if b then 1%Z else 0%Z.
Definition sumZ (l : list Z) : Z := fold_right Z.add 0%Z l.
(* (SWAP psi)[a, b] for an amplitude table psi[c, e], the sum running over the flat column index *)
Definition swap_apply (d : nat) (psi : nat -> nat -> Z) (a b : nat) : Z :=
  sumZ (map (fun j => (b2z (swap_entry d (a * d + b) j) * psi (j / d)%nat (j mod d)%nat)%Z) (seq 0 (d * d))).
(* (SWAP . SWAP)[i, j] *)
Definition swap_sq_entry (d i j : nat) : Z :=
  sumZ (map (fun k => (b2z (swap_entry d i k) * b2z (swap_entry d k j))%Z) (seq 0 (d * d))).

(* ================================================================================================ *)
(* Part 3: gate application on the store                                                              *)
(* ================================================================================================ *)
(* TreeTensorNetwork.legs_before_combination(node1_id, node2_id) on the two node records *)
Definition lbc_nodes (a : id) (na : node) (b : id) (nb : node) : option (legspec * legspec) :=
  let tot_nvirt := nvirt na + nvirt nb - 2 in
  let tot_nlegs := nlegs na + nlegs nb - 2 in
  let open1 := seq tot_nvirt (nopen na) in
  let open2 := seq (tot_nvirt + nopen na) (tot_nlegs - (tot_nvirt + nopen na)) in
  if memb a (children nb) then
    (* node2 is the parent of node1: temp is reversed, node2's spec gets the parent leg *)
    let r1 := is_root na in
    Some ({| ls_parent := None; ls_children := children na; ls_open := open1; ls_root := r1 |},
          {| ls_parent := parent nb; ls_children := remove_first a (children nb); ls_open := open2;
             ls_root := negb r1 && is_root nb |})
  else if memb b (children na) then
    let r1 := is_root na in
    Some ({| ls_parent := parent na; ls_children := remove_first b (children na); ls_open := open1; ls_root := r1 |},
          {| ls_parent := None; ls_children := children nb; ls_open := open2; ls_root := negb r1 && is_root nb |})
  else None.                                   (* list.remove raises ValueError *)

Definition legs_before_combination (s : store) (a b : id) : option (legspec * legspec) :=
  match aget a (nodes s), aget b (nodes s) with
  | Some na, Some nb => lbc_nodes a na b nb
  | _, _ => None
  end.

(* TreeTensorNetwork.absorb_into_open_legs(node_id, tensor): the node is accessed, the tensor's
   second half of legs (inputs) is contracted with the open legs, its first half (outputs) stays
   in their place; the raw tensor is stored without touching the node.  gshape = tensor.shape.
   In the diagram the gate is a fresh atom on (fresh output wires ++ old open wires). *)
Definition absorb_open (s : store) (n : id) (gshape : list nat) : option store :=
  match access s n with
  | None => None
  | Some (s1, nd, t) =>
      let k := nopen nd in
      if negb (Nat.eqb (length gshape) (2 * k)) then None else
      if negb (list_eqb (firstn k gshape) (skipn k gshape)) then None else
      let oldw := skipn (nvirt nd) (axes t) in
      if negb (list_eqb (map (wdim s) oldw) (skipn k gshape)) then None else
      let '(s2, neww) := fresh_wires s1 (firstn k gshape) in
      let '(s3, a) := fresh_atom s2 (neww ++ oldw) in
      Some (upd_tensors s3 (aset n {| axes := firstn (nvirt nd) (axes t) ++ neww;
                                      atoms := atoms t ++ [a]; bnd := oldw ++ bnd t |}))
  end.

(* one unitary of TEBD.exponents as TEBD sees it: the identifiers and the tensor's shape; for a
   two-site gate additionally how the SVD kernel is modelled (kind 1: untruncated, bond
   min(m, n); kind 2: the bond dimension the truncation chose) *)
Record tgate := { t_ids : list id; t_shape : list nat; t_kind : nat; t_bond : nat }.

(* TEBD._apply_one_trotter_step_two_site, every intermediate store *)
Definition two_site_stages (contr : id) (s : store) (a b : id) (g : tgate) : option (store * store * store) :=
  match legs_before_combination s a b with
  | None => None
  | Some (u, v) =>
      match contract_nodes s a b contr with
      | None => None
      | Some s1 =>
          match absorb_open s1 contr (t_shape g) with
          | None => None
          | Some s2 =>
              match split_nodes s2 contr u v a b (t_kind g) Reduced (t_bond g) with
              | Some s3 => Some (s1, s2, s3)
              | None => None
              end
          end
      end
  end.

(* TEBD._apply_one_trotter_step: the list of stores after every sub-operation (the last one is the
   state after the gate) *)
Definition apply_gate_stages (contr : id) (s : store) (g : tgate) : option (list store) :=
  match t_ids g with
  | [] => Some []
  | [a] => option_map (fun s' => [s']) (absorb_open s a (t_shape g))
  | [a; b] => option_map (fun r => [fst (fst r); snd (fst r); snd r]) (two_site_stages contr s a b g)
  | _ => None                                   (* NotImplementedError *)
  end.
Definition apply_gate (contr : id) (s : store) (g : tgate) : option store :=
  option_map (fun l => last l s) (apply_gate_stages contr s g).

(* TEBD.run_one_time_step: the gates in list order; an exception aborts the step *)
Fixpoint tebd_step (contr : id) (s : store) (gs : list tgate) : option store :=
  match gs with
  | [] => Some s
  | g :: t => match apply_gate contr s g with Some s' => tebd_step contr s' t | None => None end
  end.

(* observation for the correspondence: per gate, the observation after every sub-operation;
   stops at the first rejected gate (recorded as an empty list with ok = false) *)
Fixpoint tebd_obs (contr : id) (s : store) (gs : list tgate) :=
  match gs with
  | [] => []
  | g :: t => match apply_gate_stages contr s g with
              | Some l => (true, map observe l) :: tebd_obs contr (last l s) t
              | None => [(false, [])]
              end
  end.

(* structure-level restoration, as an executable check: same identifiers, same root, every node
   keeps its parent and its set of children *)
Definition same_members (l1 l2 : list id) : bool :=
  Nat.eqb (length l1) (length l2) && forallb (fun x => memb x l2) l1 && forallb (fun x => memb x l1) l2.
Definition opt_id_eqb (a b : option id) : bool :=
  match a, b with Some x, Some y => Nat.eqb x y | None, None => true | _, _ => false end.
Definition structure_kept (s s' : store) : bool :=
  same_members (akeys (nodes s)) (akeys (nodes s'))
  && opt_id_eqb (root s) (root s')
  && forallb (fun kn => match aget (fst kn) (nodes s') with
                        | Some n' => opt_id_eqb (parent (snd kn)) (parent n')
                                     && same_members (children (snd kn)) (children n')
                                     && Nat.eqb (nlegs (snd kn)) (nlegs n')
                        | None => false
                        end) (nodes s).

(* build a store from a list of Store operations and run one TEBD step on it *)
Definition build_and_step (contr : id) (ops : list op) (gs : list tgate) :=
  let s := fst (run empty_store ops) in
  (observe s, tebd_obs contr s gs,
   match tebd_step contr s gs with Some s' => Some (structure_kept s s') | None => None end).

(* ================================================================================================ *)
(* observation helpers for the correspondence (factor and operator symbols are table indices)       *)
(* ================================================================================================ *)
Definition kind_code (k : gkind) : nat := match k with KExp => 0 | KSwap => 1 end.
Definition gate_obs (g : gate nat nat) :=
  (kind_code (g_kind g), g_ids g, g_shape g, g_kron g,
   match g_factor g with Some f => [f] | None => [] end, g_dim g, gate_axes g).
Definition tstep_obs (st : tstep nat nat) := (ts_op st, ts_factor st, ts_before st, ts_after st).
Definition to_tgate (g : gate nat nat) (kb : nat * nat) : tgate :=
  {| t_ids := g_ids g; t_shape := g_shape g; t_kind := fst kb; t_bond := snd kb |}.
Definition mk_tgates (gs : list (gate nat nat)) (kbs : list (nat * nat)) : list tgate :=
  map (fun gk => to_tgate (fst gk) (snd gk)) (combine gs kbs).
Fixpoint repeat_list {A} (n : nat) (l : list A) : list A :=
  match n with O => [] | S n' => l ++ repeat_list n' l end.

(* ================================================================================================ *)
(* executable form of the hypotheses of the universal two-site theorems (TrotterProofs.pair_ok)     *)
(* ================================================================================================ *)
Definition pair_okb (a : id) (na : node) (b : id) (nb : node) : bool :=
  negb (Nat.eqb a b)
  && nodupb (children na) && nodupb (children nb)
  && forallb (fun x => negb (memb x (children nb))) (children na)
  && negb (memb a (children na)) && negb (opt_id_eqb (parent na) (Some a))
  && negb (memb b (children nb)) && negb (opt_id_eqb (parent nb) (Some b))
  && match parent na with Some p => negb (memb p (children na)) && (Nat.eqb p b || negb (memb p (children nb))) | None => true end
  && match parent nb with Some p => negb (memb p (children nb)) && (Nat.eqb p a || negb (memb p (children na))) | None => true end
  && ((memb b (children na) && opt_id_eqb (parent nb) (Some a) && negb (memb a (children nb)) && negb (opt_id_eqb (parent na) (Some b)))
      || (memb a (children nb) && opt_id_eqb (parent na) (Some b) && negb (memb b (children na)) && negb (opt_id_eqb (parent nb) (Some a))))
  && Nat.leb (nvirt na) (nlegs na) && Nat.leb (nvirt nb) (nlegs nb).

Definition gate_hyp_ok (contr : id) (s : store) (g : tgate) : bool :=
  match t_ids g with
  | [a; b] => match aget a (nodes s), aget b (nodes s) with
              | Some na, Some nb => pair_okb a na b nb && negb (Nat.eqb contr a) && negb (Nat.eqb contr b)
              | _, _ => false
              end
  | _ => true
  end.

(* along one step: do the hypotheses hold before every two-site gate? *)
Fixpoint tebd_hyps (contr : id) (s : store) (gs : list tgate) : list bool :=
  match gs with
  | [] => []
  | g :: t => gate_hyp_ok contr s g :: match apply_gate contr s g with Some s' => tebd_hyps contr s' t | None => [] end
  end.
Definition build_and_hyps (contr : id) (ops : list op) (gs : list tgate) : bool :=
  forallb (fun b => b) (tebd_hyps contr (fst (run empty_store ops)) gs).
