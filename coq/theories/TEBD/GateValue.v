(* Property C08, the VALUE level of the TEBD gate application (TEBD._apply_one_trotter_step_*, run_one_time_step)
   over the Layer-W store, on top of the semantic bridge of C02 (TTN/InvSem*.v: net_value = the value of the
   whole network over any commutative semiring, for an atom table tbl, at an assignment rho of the open wires)
   and of the tree / diagram level of the gate (TEBD/GateTree.v).  Contents:
     - absorb_preserves_wfs: absorb_into_open_legs keeps the extended invariant wfs (= wfsb);
     - gate_action: the action of a gate tensor on value functions,
           (gate_action dim G outw inw V) rho = SUM_{j over inw} G (rho(outw) ++ j) * V (rho[inw := j]);
     - absorb_value: the value law of absorb_into_open_legs (what is NEW relative to C02: this operation
       changes the value): net_value s' = gate_action (tbl ga) outw inw (net_value s), ga the fresh operator
       atom, inw the node's old open wires, outw the fresh wires that replace them;
     - single_site_gate_value / two_site_gate_value (+ _wires: the wire bookkeeping, no contract needed):
       contract_nodes and split_nodes preserve the value (C02; the split under the kernel contract def_holds:
       the two SVD factors contracted over the new bond give back the tensor the kernel received), hence the
       two-site gate acts as gate_action through the open wires of node1 ++ node2;
     - tebd_step_value(_explicit): the value after one step (or several: tebd_steps = the gate list repeated)
       is the fold_left of the gate actions in list order; track_acts computes the actions (atom, output
       wires, input wires) from the initial wire state and the identifier lists of the gates alone;
     - the one-physical-leg-per-node forms with explicit double sums, and swap_gate_value: a gate whose table
       is the swap tensor exchanges the indices of the two sites.
   New file; the model files (TTN/Store.v, TEBD/Trotter.v) and GateTree.v are untouched.  The kernel contract is
   a premise (def_holds / tebd_contracts), never an axiom. *)
From Coq Require Import List Arith Bool Lia Permutation ZArith.
From PTN Require Import TTN.Store TTN.StoreProofs TTN.Inv TTN.InvProofs TTN.InvNode TTN.InvBuild TTN.InvContract TTN.InvEdit
  TTN.InvSplit TTN.InvRun TTN.InvWires Wire.Sem Wire.SemProofs TTN.InvSem TTN.InvSemProofs TTN.InvSemWfs TTN.InvSemValue
  TTN.InvSemOps TTN.InvSemEye TTN.InvSemRun Wire.SemInst TTN.CanonTree TEBD.Trotter TEBD.TrotterProofs TEBD.GateTree.
Import ListNotations.

(* ---- lists / association lists ---------------------------------------------------------------------- *)
Lemma gv_flat_map_aset_extra {V W} (f : nat * V -> list W) (extra : list W) k v v0 l :
  aget k l = Some v0 -> Permutation (f (k, v)) (extra ++ f (k, v0)) ->
  Permutation (flat_map f (aset k v l)) (extra ++ flat_map f l).
Proof.
  intros E Hk. induction l as [|[k' v'] t IH]; cbn in *; [discriminate|].
  destruct (Nat.eqb_spec k k') as [->|Hne].
  - injection E as ->. cbn. rewrite Hk, app_assoc. reflexivity.
  - cbn. rewrite (IH E). rewrite !app_assoc. apply Permutation_app_tail. apply Permutation_app_comm.
Qed.

Lemma gv_in_fst_combine {A B} (l : list A) (l' : list B) x : In x (map fst (combine l l')) -> In x l.
Proof.
  revert l'. induction l as [|y t IH]; intros [|y' t'] H; cbn in *; try contradiction.
  destruct H as [<-|H]; [left; reflexivity|right; apply (IH t' H)].
Qed.

(* ---- facts about a wfs store -------------------------------------------------------------------------- *)
Lemma gv_net_bnd_lt s w : wfs s -> In w (net_bnd s) -> w < next_wire s.
Proof.
  intros WS Hw. pose proof (ws_wf s WS) as W. unfold net_bnd in Hw. apply in_app_or in Hw.
  destruct Hw as [Hw|Hw]; [apply (ws_bnd_lt s WS w Hw)|].
  assert (Hown : In w (own_wires s)) by (rewrite own_wires_split; apply in_or_app; left; exact Hw).
  unfold own_wires in Hown. apply in_flat_map in Hown. destruct Hown as ([k nk] & Hk & Hwk).
  apply (wf_own_bound s k nk w W (In_aget _ _ _ (wf_nd s W) Hk) Hwk).
Qed.

Lemma gv_open_not_bnd s w : wfs s -> In w (open_wires s) -> ~ In w (net_bnd s).
Proof.
  intros WS Hin Hb. pose proof (ws_wf s WS) as W.
  pose proof (open_wire_one_end s w WS Hin) as H1.
  rewrite (proj1 (Permutation_count_occ Nat.eq_dec _ _) (wf_total_ends s W) w), !count_occ_app in H1.
  apply (count_occ_In Nat.eq_dec) in Hin. apply (count_occ_In Nat.eq_dec) in Hb. nlia.
Qed.

Lemma gv_open_of_in_open_wires s k nk w :
  aget k (nodes s) = Some nk -> In w (open_of nk (tens s k)) -> In w (open_wires s).
Proof.
  intros E Hw. unfold open_wires. apply in_flat_map. exists (k, nk). split; [apply aget_In; exact E|exact Hw].
Qed.

(* ---- absorb_open: the structural facts the semantic theorems need --------------------------------------- *)
Lemma gv_absorb_facts s n gshape s' nd0 :
  wf s -> aget n (nodes s) = Some nd0 -> absorb_open s n gshape = Some s' ->
  let inw := open_of nd0 (tens s n) in
  let outw := seq (next_wire s) (nopen nd0) in
  let ga := next_atom s in
  wf s' /\
  nodes s' = aset n (reset_permutation nd0) (nodes s) /\
  dims s' = dims s ++ combine outw (firstn (nopen nd0) gshape) /\
  next_wire s' = next_wire s + nopen nd0 /\ next_atom s' = S ga /\ defs s' = defs s /\
  atab s' = atab s ++ [(ga, outw ++ inw)] /\
  aget n (tensors s') = Some {| axes := firstn (nvirt nd0) (lax s n nd0) ++ outw;
                                atoms := atoms (tens s n) ++ [ga]; bnd := inw ++ bnd (tens s n) |} /\
  (forall k, k <> n -> aget k (nodes s') = aget k (nodes s) /\ aget k (tensors s') = aget k (tensors s)) /\
  open_of (reset_permutation nd0) (tens s' n) = outw /\
  Permutation (total_atoms s') (ga :: total_atoms s) /\
  Permutation (total_bnd s') (inw ++ total_bnd s) /\
  Permutation (total_ends s') ((outw ++ inw) ++ total_ends s) /\
  Permutation (net_bnd s') (inw ++ net_bnd s).
Proof.
  intros W0 En0 H. cbv zeta.
  pose proof (absorb_preserves_wf _ _ _ _ W0 H) as W'.
  destruct (absorb_open_inv _ _ _ _ H) as (s1 & nd & t & Ha & Hlen & Hsq & Hdim & En' & Er' & Et' & Ed' & Ew' & Ena' & Edf' & Eat').
  destruct (split_access_facts _ _ _ _ _ W0 Ha) as (nd0' & t0 & En0' & Et0 & End & Etr & W & En & Et & Hid & Hk & Hlax0 & Ht0).
  rewrite En0 in En0'. injection En0' as <-.
  destruct (sp_access_next _ _ _ _ _ Ha) as (Na & Nw & Ndf & Ndm & Nt).
  destruct (access_result _ _ _ _ _ Ha) as (_ & _ & _ & Hoth & _).
  destruct (access_inv _ _ _ _ _ Ha) as (ndx & tx & X1 & X2 & X3 & X4 & X5). rewrite En0 in X1. injection X1 as <-.
  rewrite Et0 in X2. injection X2 as <-.
  assert (Hv : nvirt nd = nvirt nd0) by (rewrite End; apply nvirt_reset).
  assert (Hk' : nopen nd = nopen nd0) by (rewrite End; apply nopen_reset).
  assert (Hinw : skipn (nvirt nd0) (axes t) = open_of nd0 (tens s n)).
  { rewrite Hlax0. reflexivity. }
  set (v := nvirt nd0) in *. set (k := nopen nd0) in *. set (nw := next_wire s) in *. set (ga := next_atom s) in *.
  set (inw := open_of nd0 (tens s n)) in *. set (outw := seq nw k) in *.
  assert (HT' : ab_tensor s1 nd t = {| axes := firstn v (lax s n nd0) ++ outw; atoms := atoms (tens s n) ++ [ga]; bnd := inw ++ bnd (tens s n) |}).
  { unfold ab_tensor. rewrite Hv, Hk', Nw, Na, Hinw, Hlax0. rewrite Etr, Ht0. reflexivity. }
  rewrite HT' in Et'. set (T' := {| axes := firstn v (lax s n nd0) ++ outw; atoms := atoms (tens s n) ++ [ga]; bnd := inw ++ bnd (tens s n) |}) in *.
  pose proof (wf_node s1 W n nd En) as Hn.
  assert (Hlt : length (axes t) = nlegs nd).
  { rewrite <- (wf_axes_length s1 n nd W En). rewrite (tens_aget _ _ _ Et). reflexivity. }
  assert (Hvl : v <= nlegs nd) by (rewrite <- Hv; apply (ni_virt _ _ _ Hn)).
  assert (Hvk : v + k = nlegs nd) by (rewrite <- Hv, <- Hk'; unfold nopen; rewrite Hv; lia).
  assert (Hpid : perm nd = seq 0 (nlegs nd)) by (rewrite Hid, Hlt; reflexivity).
  assert (Hax : axes t = lax s n nd0) by exact Hlax0.
  assert (Hlv : length (firstn v (lax s n nd0)) = v) by (rewrite <- Hax, firstn_length; nlia).
  assert (Hlt' : length (axes T') = nlegs nd).
  { unfold T'. cbn [axes]. rewrite app_length, Hlv. unfold outw. rewrite seq_length. nlia. }
  assert (Hbt : bnd t = bnd (tens s n) /\ atoms t = atoms (tens s n)) by (rewrite Etr, Ht0; split; reflexivity).
  destruct Hbt as [Hbt Hatt].
  assert (T1 : forall x, tens s' x = if Nat.eqb x n then T' else tens s1 x).
  { intros x. unfold tens. rewrite Et', aget_aset. destruct (Nat.eqb x n); reflexivity. }
  assert (Ht1 : tens s1 n = t) by (apply tens_aget; exact Et).
  assert (Hlaxn : lax s1 n nd = axes t).
  { unfold lax, laxes. rewrite Ht1, Hpid, <- Hlt. apply permute_seq. }
  assert (Hlaxn' : lax s' n nd = axes T').
  { unfold lax, laxes. rewrite T1, Nat.eqb_refl, Hpid, <- Hlt'. apply permute_seq. }
  split; [exact W'|].
  split; [rewrite En', X5, X3; reflexivity|].
  split; [rewrite Ed', Ndm, Nw, Hk'; reflexivity|].
  split; [rewrite Ew', Nw, Hk'; reflexivity|].
  split; [rewrite Ena', Na; reflexivity|].
  split; [rewrite Edf', Ndf; reflexivity|].
  split; [rewrite Eat', Nt, Na, Nw, Hk', Hv, Hinw; reflexivity|].
  split; [rewrite Et'; apply aget_aset_same|].
  split.
  { intros x Hx. rewrite En', Et', aget_aset_other by exact Hx. apply (Hoth x Hx). }
  split.
  { rewrite <- End. unfold open_of. fold (lax s' n nd). rewrite Hlaxn', Hv. unfold T'. cbn [axes].
    rewrite skipn_app, Hlv, Nat.sub_diag. cbn [skipn].
    rewrite skipn_all2 by (rewrite Hlv; lia). reflexivity. }
  (* totals, first relative to s1 *)
  assert (PA1 : Permutation (total_atoms s') (ga :: total_atoms s1)).
  { unfold total_atoms. rewrite Et'. change (ga :: flat_map (fun kt : id * sarr => atoms (snd kt)) (tensors s1))
      with ([ga] ++ flat_map (fun kt : id * sarr => atoms (snd kt)) (tensors s1)).
    apply (gv_flat_map_aset_extra _ [ga] n T' t _ Et). cbn [snd T' atoms]. rewrite Hatt. apply Permutation_app_comm. }
  assert (PB1 : Permutation (total_bnd s') (inw ++ total_bnd s1)).
  { unfold total_bnd. rewrite Et'. apply (gv_flat_map_aset_extra _ inw n T' t _ Et). cbn [snd T' bnd]. rewrite Hbt. reflexivity. }
  assert (PE1 : Permutation (total_ends s') ((outw ++ inw) ++ total_ends s1)).
  { unfold total_ends. rewrite Et'. apply (gv_flat_map_aset_extra _ (outw ++ inw) n T' t _ Et). cbn [snd]. unfold sarr_ends, T'. cbn [axes bnd].
    rewrite Hbt. rewrite <- (firstn_skipn v (axes t)). rewrite Hinw, Hax.
    apply (Permutation_count_occ Nat.eq_dec). intros z. rewrite !count_occ_app. nlia. }
  assert (Hedge : edge_wires s' = edge_wires s1).
  { unfold edge_wires. rewrite En'. apply flat_map_ext_in. intros [x xn] Hin. unfold node_edge. cbn [fst snd].
    destruct (Nat.eq_dec x n) as [->|Hx].
    - pose proof (In_aget _ _ _ (wf_nd s1 W) Hin) as Ex. rewrite En in Ex. injection Ex as <-.
      rewrite Hlaxn', Hlaxn. unfold T'. cbn [axes]. rewrite <- Hax.
      assert (Hnp : nparents nd <= v) by (rewrite <- Hv; unfold nvirt; lia).
      rewrite firstn_app, firstn_firstn. rewrite firstn_length.
      replace (nparents nd - Nat.min v (length (axes t))) with 0 by nlia. cbn [firstn]. rewrite app_nil_r.
      f_equal. lia.
    - unfold lax. rewrite T1. destruct (Nat.eqb_spec x n); [contradiction|reflexivity]. }
  assert (PN1 : Permutation (net_bnd s') (inw ++ net_bnd s1)).
  { unfold net_bnd. rewrite Hedge, PB1, app_assoc. reflexivity. }
  (* back to s *)
  pose proof (access_total_atoms s n s1 nd t W0 Ha) as QA.
  pose proof (access_total_ends s n s1 nd t W0 Ha) as QE.
  destruct (ends_perm_bnd s s1 W0 W QE) as [_ QN].
  assert (QB : Permutation (total_bnd s1) (total_bnd s)).
  { unfold total_bnd. rewrite X5. cbn [tensors upd_tensors upd_nodes]. apply (flat_map_aset_perm _ _ n _ t0); auto; [apply (wf_tnd s W0)|].
    rewrite X4. reflexivity. }
  split; [rewrite PA1, QA; reflexivity|].
  split; [rewrite PB1, QB; reflexivity|].
  split; [rewrite PE1, QE; reflexivity|].
  rewrite PN1, QN. reflexivity.
Qed.

Lemma gv_count_le1 (l : list nat) z : NoDup l -> count_occ Nat.eq_dec l z <= 1.
Proof. intros H. apply (NoDup_count_occ Nat.eq_dec). exact H. Qed.

Lemma gv_count_0 (l : list nat) z : ~ In z l -> count_occ Nat.eq_dec l z = 0.
Proof. apply (count_occ_not_In Nat.eq_dec). Qed.

Lemma gv_open_of_NoDup s k nk : wf s -> aget k (nodes s) = Some nk -> NoDup (open_of nk (tens s k)).
Proof. intros W E. pose proof (wf_own1 s W k nk E) as H. unfold own_of in H. apply (NoDup_app_r _ _ H). Qed.

(* absorb_into_open_legs preserves the extended invariant *)
Theorem absorb_preserves_wfs s n gshape s' : wfs s -> absorb_open s n gshape = Some s' -> wfs s'.
Proof.
  intros WS H. pose proof (ws_wf s WS) as W.
  destruct (absorb_open_inv _ _ _ _ H) as (s1 & nd & t & Ha & _).
  destruct (access_inv _ _ _ _ _ Ha) as (nd0 & t0 & En0 & Et0 & _).
  destruct (gv_absorb_facts s n gshape s' nd0 W En0 H) as (W' & Fn & Fd & Fw & Fa & Fdf & Ftab & Ft & Foth & Fopen & PA & PB & PE & PN).
  set (inw := open_of nd0 (tens s n)) in *. set (outw := seq (next_wire s) (nopen nd0)) in *. set (ga := next_atom s) in *.
  pose proof (proj2 (proj1 (wfs_iff_sem_ok s) WS)) as [H1 H2 H3 H4 H5 H6 H7].
  assert (Hfresh : aget ga (atab s) = None) by (apply (atab_fresh s ga WS); unfold ga; lia).
  assert (Hold : forall a, a < ga -> atom_wires s' a = atom_wires s a).
  { intros a Ha'. unfold atom_wires. rewrite Ftab, aget_snoc_other by lia. reflexivity. }
  assert (Hnew : atom_wires s' ga = outw ++ inw).
  { unfold atom_wires. rewrite Ftab, InvProofs.aget_app, Hfresh. cbn [aget]. rewrite Nat.eqb_refl. reflexivity. }
  assert (Hinw_lt : forall z, In z inw -> z < next_wire s) by (intros z Hz; apply (open_lt s n nd0 z W En0 Hz)).
  assert (Hinw_open : forall z, In z inw -> In z (open_wires s)) by (intros z Hz; apply (gv_open_of_in_open_wires s n nd0 z En0 Hz)).
  assert (Hinw_nd : NoDup inw) by (apply (gv_open_of_NoDup s n nd0 W En0)).
  apply wfs_iff_sem_ok. split; [exact W'|]. constructor.
  - intros k tk E. destruct (Nat.eq_dec k n) as [->|Hk].
    + rewrite Ft in E. injection E as <-. intros a Hin x Hx. cbn [axes atoms bnd] in *.
      apply in_app_or in Hin. destruct Hin as [Hin|[<-|[]]].
      * assert (Hlt : a < ga) by (apply H5; apply (total_atoms_In s n (tens s n) a); [apply aget_In; rewrite Et0; unfold tens; rewrite Et0; reflexivity|exact Hin]).
        rewrite (Hold a Hlt) in Hx.
        assert (Etn : aget n (tensors s) = Some (tens s n)) by (unfold tens; rewrite Et0; reflexivity).
        destruct (H1 n (tens s n) Etn a Hin x Hx) as [Hax|Hbn].
        -- apply (Permutation_in _ (Permutation_sym (wf_lax_perm_axes s n nd0 W En0))) in Hax.
           rewrite <- (firstn_skipn (nvirt nd0) (lax s n nd0)) in Hax. apply in_app_or in Hax.
           destruct Hax as [Hax|Hax]; [left; apply in_or_app; left; exact Hax|right; apply in_or_app; left; exact Hax].
        -- right. apply in_or_app. right. exact Hbn.
      * rewrite Hnew in Hx. apply in_app_or in Hx. destruct Hx as [Hx|Hx]; [left|right]; apply in_or_app; [right|left]; exact Hx.
    + rewrite (proj2 (Foth k Hk)) in E. intros a Hin x Hx.
      assert (Hlt : a < ga) by (apply H5; apply (total_atoms_In s k tk a (aget_In _ _ _ E) Hin)).
      rewrite (Hold a Hlt) in Hx. apply (H1 k tk E a Hin x Hx).
  - intros z. rewrite (proj1 (Permutation_count_occ Nat.eq_dec _ _) PE z), !count_occ_app.
    pose proof (H2 z) as Hz. pose proof (gv_count_le1 inw z Hinw_nd) as Hi. pose proof (gv_count_le1 outw z (seq_NoDup _ _)) as Ho.
    destruct (in_dec Nat.eq_dec z outw) as [Io|Io].
    + apply in_seq in Io.
      rewrite (gv_count_0 inw z) by (intros Hc; apply Hinw_lt in Hc; lia).
      rewrite (gv_count_0 (total_ends s) z) by (intros Hc; apply H3 in Hc; lia). lia.
    + rewrite (gv_count_0 outw z Io). destruct (in_dec Nat.eq_dec z inw) as [Ii|Ii].
      * rewrite (open_wire_one_end s z WS (Hinw_open z Ii)). lia.
      * rewrite (gv_count_0 inw z Ii). lia.
  - intros z Hz. rewrite Fw. apply (Permutation_in _ PE) in Hz. rewrite !in_app_iff in Hz. destruct Hz as [[Hz|Hz]|Hz].
    + apply in_seq in Hz. lia.
    + apply Hinw_lt in Hz. lia.
    + apply H3 in Hz. lia.
  - apply (Permutation_NoDup (Permutation_sym PA)). constructor; [|exact H4]. intros Hin. apply H5 in Hin. unfold ga in Hin. lia.
  - intros a Hin. rewrite Fa. apply (Permutation_in _ PA) in Hin. destruct Hin as [<-|Hin]; [lia|]. apply H5 in Hin. unfold ga. lia.
  - intros a Hin. rewrite Ftab, amem_app. apply (Permutation_in _ PA) in Hin. destruct Hin as [<-|Hin].
    + unfold amem at 2. cbn. rewrite Nat.eqb_refl, orb_true_r. reflexivity.
    + rewrite (H6 _ Hin). reflexivity.
  - intros a Hin. rewrite Ftab, akeys_app in Hin. rewrite Fa. apply in_app_or in Hin. cbn [akeys map fst] in Hin.
    destruct Hin as [Hin|[<-|[]]]; [apply H7 in Hin; unfold ga; lia|lia].
Qed.

(* ==== the action of a gate on value functions ============================================================ *)
(* A "value function" gives the value of a network at every assignment of indices to wires.  A gate tensor G
   (axes: outputs then inputs) with its inputs on the wires [inw] and its outputs on the wires [outw] acts by
        (gate_action dim G outw inw V) rho  =  SUM_{j : indices of inw}  G (rho(outw) ++ j) * V (rho[inw := j])
   (the iterated bounded sum [sum_bnd] of Wire/Sem.v, first wire of inw outermost). *)
Section GateAction.
  Variable R : Type.
  Variables (zero one : R) (add mul : R -> R -> R).

  Definition gate_action (dim : wire -> nat) (G : list nat -> R) (outw inw : list wire)
             (V : (wire -> nat) -> R) : (wire -> nat) -> R :=
    fun rho => sum_bnd R zero add dim inw (fun r => mul (G (map r (outw ++ inw))) (V r)) rho.

  Lemma gate_action_ext dim dim' G outw inw V V' :
    (forall w, In w inw -> dim w = dim' w) -> (forall r, V r = V' r) ->
    forall rho, gate_action dim G outw inw V rho = gate_action dim' G outw inw V' rho.
  Proof.
    intros Hd HV rho. unfold gate_action. apply sum_bnd_world; [exact Hd|]. intros r. rewrite HV. reflexivity.
  Qed.
End GateAction.

Section AbsorbValue.
  Variable R : Type.
  Variables (zero one : R) (add mul : R -> R -> R).
  Hypothesis SR : comm_semiring zero one add mul.
  Variable tbl : nat -> list nat -> R.

  Local Notation net_value := (net_value zero one add mul).
  Local Notation gate_action := (gate_action R zero add mul).

  (* the value law of absorb_into_open_legs: the operator atom [next_atom s] (axes: fresh output wires, then
     the node's old open wires) acts on the value of the network through the node's open wires *)
  Theorem absorb_value s n gshape s' nd0 :
    wfs s -> aget n (nodes s) = Some nd0 -> absorb_open s n gshape = Some s' ->
    let inw := open_of nd0 (tens s n) in
    let outw := seq (next_wire s) (nopen nd0) in
    let ga := next_atom s in
    atom_wires s' ga = outw ++ inw /\
    forall rho, net_value s' tbl rho = gate_action (wdim s) (tbl ga) outw inw (net_value s tbl) rho.
  Proof.
    intros WS En0 H. cbv zeta. pose proof (ws_wf s WS) as W.
    destruct (gv_absorb_facts s n gshape s' nd0 W En0 H) as (W' & Fn & Fd & Fw & Fa & Fdf & Ftab & Ft & Foth & Fopen & PA & PB & PE & PN).
    set (inw := open_of nd0 (tens s n)) in *. set (outw := seq (next_wire s) (nopen nd0)) in *. set (ga := next_atom s) in *.
    assert (Hfresh : aget ga (atab s) = None) by (apply (atab_fresh s ga WS); unfold ga; lia).
    assert (Hold : forall a, a < ga -> atom_wires s' a = atom_wires s a).
    { intros a Ha'. unfold atom_wires. rewrite Ftab, aget_snoc_other by lia. reflexivity. }
    assert (Hnew : atom_wires s' ga = outw ++ inw).
    { unfold atom_wires. rewrite Ftab, InvProofs.aget_app, Hfresh. cbn [aget]. rewrite Nat.eqb_refl. reflexivity. }
    split; [exact Hnew|].
    assert (Hinw_lt : forall z, In z inw -> z < next_wire s) by (intros z Hz; apply (open_lt s n nd0 z W En0 Hz)).
    assert (Hinw_open : forall z, In z inw -> In z (open_wires s)) by (intros z Hz; apply (gv_open_of_in_open_wires s n nd0 z En0 Hz)).
    assert (Hdim : forall w, w < next_wire s -> wdim s' w = wdim s w).
    { intros w Hw. apply (wdim_old s s' _ w W Fd); [|exact Hw]. intros x Hx. unfold akeys in Hx.
      apply gv_in_fst_combine in Hx. apply in_seq in Hx. lia. }
    (* the gate atom does not look at the summed wires of the old network *)
    assert (Hav : indep R (fun r0 => atom_val R (atom_wires s') tbl r0 ga) (net_bnd s)).
    { intros r r' E. apply atom_val_agree. intros x Hx. apply E. rewrite Hnew in Hx. intros Hb.
      apply in_app_or in Hx. destruct Hx as [Hx|Hx].
      - apply in_seq in Hx. pose proof (gv_net_bnd_lt s x WS Hb). lia.
      - apply (gv_open_not_bnd s x WS (Hinw_open x Hx) Hb). }
    intros rho. unfold InvSem.net_value at 1. unfold value_s.
    rewrite (value_perm_gen R zero one add mul SR (atom_wires s') (wdim s') tbl (net_diagram s')
               {| axes := []; atoms := ga :: total_atoms s; bnd := inw ++ net_bnd s |} rho PA PN).
    unfold value. cbn [atoms bnd]. rewrite (sum_bnd_app R zero add). unfold gate_action.
    apply sum_bnd_world; [intros w Hw; apply Hdim, Hinw_lt, Hw|]. intros r.
    etransitivity;
      [exact (sum_bnd_mul_l R zero one add mul SR (wdim s') (net_bnd s) (fun r0 => atom_val R (atom_wires s') tbl r0 ga)
                (atoms_val R one mul (atom_wires s') tbl (total_atoms s)) Hav r)|].
    f_equal.
    - unfold atom_val. rewrite Hnew. reflexivity.
    - unfold InvSem.net_value, value_s, value. cbn [net_diagram atoms bnd].
      apply sum_bnd_world; [intros w Hw; apply Hdim, (gv_net_bnd_lt s w WS Hw)|].
      intros r'. apply atoms_val_world. intros a Hin. apply Hold. apply (ws_atoms_lt s WS a Hin).
  Qed.
End AbsorbValue.

(* ==== the gates of TEBD ====================================================================================== *)
(* the open wires of node k (empty when there is no such node) *)
Definition open_ws (s : store) (k : id) : list wire :=
  match aget k (nodes s) with Some nk => open_of nk (tens s k) | None => [] end.

Lemma open_ws_some s k nk : aget k (nodes s) = Some nk -> open_ws s k = open_of nk (tens s k).
Proof. unfold open_ws. intros ->. reflexivity. Qed.

Lemma open_ws_length s k nk : aget k (nodes s) = Some nk -> length (open_ws s k) = nopen nk.
Proof. intros E. rewrite (open_ws_some s k nk E). apply open_of_length. Qed.

Lemma open_ws_same s s' k : aget k (nodes s') = aget k (nodes s) -> aget k (tensors s') = aget k (tensors s) ->
  open_ws s' k = open_ws s k.
Proof. intros En Et. unfold open_ws, tens. rewrite En, Et. reflexivity. Qed.

(* ---- the single-site gate: wire bookkeeping ------------------------------------------------------------------ *)
Lemma single_site_gate_wires s a gshape s' :
  wfs s -> absorb_open s a gshape = Some s' ->
  let inw := open_ws s a in
  let outw := seq (next_wire s) (length inw) in
  let ga := next_atom s in
  wfs s' /\ akeys (nodes s') = akeys (nodes s) /\
  open_ws s' a = outw /\ (forall k, k <> a -> open_ws s' k = open_ws s k) /\
  atom_wires s' ga = outw ++ inw /\
  next_wire s' = next_wire s + length inw /\ next_atom s' = S ga /\
  (exists extra, dims s' = dims s ++ extra /\ forall x, In x (akeys extra) -> next_wire s <= x).
Proof.
  intros WS H. cbv zeta. pose proof (ws_wf s WS) as W.
  destruct (absorb_open_inv _ _ _ _ H) as (s1 & nd & t & Ha & _).
  destruct (access_inv _ _ _ _ _ Ha) as (na & t0 & Ea & Et0 & _).
  destruct (gv_absorb_facts s a gshape s' na W Ea H) as (W' & Fn & Fd & Fw & Fa & Fdf & Ftab & Ft & Foth & Fopen & _).
  rewrite (open_ws_some s a na Ea), open_of_length.
  split; [apply (absorb_preserves_wfs s a gshape s' WS H)|].
  split; [rewrite Fn, akeys_aset; unfold amem; rewrite Ea; reflexivity|].
  split.
  { unfold open_ws. rewrite Fn, aget_aset_same. exact Fopen. }
  split; [intros k Hk; apply open_ws_same; apply (Foth k Hk)|].
  split.
  { unfold atom_wires. rewrite Ftab, InvProofs.aget_app, (atab_fresh s (next_atom s) WS (le_n _)). cbn [aget].
    rewrite Nat.eqb_refl. reflexivity. }
  split; [exact Fw|]. split; [exact Fa|].
  eexists. split; [exact Fd|]. intros x Hx. apply gv_in_fst_combine in Hx. apply in_seq in Hx. lia.
Qed.

(* ---- the two-site gate: wire bookkeeping ------------------------------------------------------------------------------------ *)
(* wire bookkeeping of contract_nodes / absorb_into_open_legs / split_node_svd on two neighbouring nodes
   (no kernel contract needed): the extended invariant is kept, node1 / node2 get the gate's output wires
   (the next fresh wires, node1's first) as their open legs, every other node keeps its open wires *)
Lemma two_site_gate_wires contr s a b g s1 s2 s3 :
  wfs s -> aget contr (nodes s) = None ->
  two_site_stages contr s a b g = Some (s1, s2, s3) ->
  let inw := open_ws s a ++ open_ws s b in
  let outw := seq (next_wire s) (length inw) in
  let ga := next_atom s in
  wfs s3 /\ aget contr (nodes s3) = None /\ a <> b /\
  open_ws s3 a = seq (next_wire s) (length (open_ws s a)) /\
  open_ws s3 b = seq (next_wire s + length (open_ws s a)) (length (open_ws s b)) /\
  (forall k, k <> a -> k <> b -> open_ws s3 k = open_ws s k) /\
  atom_wires s3 ga = outw ++ inw /\
  next_wire s3 = S (next_wire s + length inw) /\ next_atom s3 = S (S (S ga)) /\
  (exists extra, dims s3 = dims s ++ extra /\ forall x, In x (akeys extra) -> next_wire s <= x).
Proof.
  intros WS Hc H. cbv zeta. pose proof (ws_wf s WS) as W.
  assert (Ea : exists na, aget a (nodes s) = Some na).
  { unfold two_site_stages, legs_before_combination in H. destruct (aget a (nodes s)) as [na|]; [eauto|discriminate]. }
  destruct Ea as [na Ea].
  destruct (two_site_chain _ _ _ _ _ _ _ _ _ W Ea Hc H) as (nb & u & v & G).
  destruct G as [Eb Hok Hca Hcb Hnew Hl Hcn Hab Hs W1 W2 Hspec Hnv Hids W3].
  assert (Hnew' : contr = a \/ contr = b \/ ~ In contr (akeys (nodes s))) by tauto.
  pose proof (contract_preserves_wfs s a b contr s1 WS Hcn Hnew') as WS1.
  pose proof (absorb_preserves_wfs s1 contr (t_shape g) s2 WS1 Hab) as WS2.
  pose proof (split_preserves_wfs s2 contr u v a b (t_kind g) Reduced (t_bond g) s3 WS2 Hs Hspec Hids) as WS3.
  destruct (two_site_gate_same_tree_wf _ _ _ _ _ _ _ _ _ W Ea Hc H) as (_ & _ & _ & _ & Hc3 & _ & Hoth).
  destruct (two_site_gate_diagram_wf _ _ _ _ _ _ _ _ _ W Ea Hc H)
    as (nb' & u' & v' & p & c & pn0 & cn0 & pt & ct & ax & nt & nn' & lu & lv & Eb' & _ & _ & _ & _ & _ & _ & _ & _ & _ & _ & _ & _ & _ & _ & D).
  rewrite Eb in Eb'. injection Eb' as <-.
  cbv zeta in D. destruct D as (_ & Dtab & _ & _ & _ & Dna & Dnw & (bd & Dm) & na' & nb' & Ea3 & Eb3 & Oa & Ob).
  rewrite (open_ws_some s a na Ea), (open_ws_some s b nb Eb), app_length, !open_of_length.
  split; [exact WS3|]. split; [exact Hc3|]. split; [apply (po_ne _ _ _ _ Hok)|].
  split; [rewrite (open_ws_some s3 a na' Ea3); exact Oa|].
  split; [rewrite (open_ws_some s3 b nb' Eb3); exact Ob|].
  split; [intros k Ha' Hb'; apply open_ws_same; apply (Hoth k Ha' Hb')|].
  split.
  { unfold atom_wires. rewrite Dtab. rewrite InvProofs.aget_app, (atab_fresh s (next_atom s) WS (le_n _)). cbn [aget].
    rewrite Nat.eqb_refl. reflexivity. }
  split; [exact Dnw|]. split; [exact Dna|].
  eexists. split; [rewrite Dm, <- app_assoc; reflexivity|]. intros x Hx. rewrite akeys_app in Hx. apply in_app_or in Hx.
  destruct Hx as [Hx|Hx]; [apply gv_in_fst_combine in Hx; apply in_seq in Hx; lia|].
  cbn in Hx. destruct Hx as [<-|[]]. lia.
Qed.


Section GateLaws.
  Variable R : Type.
  Variables (zero one : R) (add mul : R -> R -> R).
  Hypothesis SR : comm_semiring zero one add mul.
  Variable tbl : nat -> list nat -> R.

  Local Notation net_value := (net_value zero one add mul).
  Local Notation gate_action := (gate_action R zero add mul).
  Local Notation def_holds := (def_holds zero one add mul).

  (* ---- the single-site gate: the value law ----------------------------------------------------------------- *)
  Theorem single_site_gate_value s a gshape s' :
    wfs s -> absorb_open s a gshape = Some s' ->
    let inw := open_ws s a in
    let outw := seq (next_wire s) (length inw) in
    let ga := next_atom s in
    forall rho, net_value s' tbl rho = gate_action (wdim s) (tbl ga) outw inw (net_value s tbl) rho.
  Proof.
    intros WS H. cbv zeta.
    destruct (absorb_open_inv _ _ _ _ H) as (s1 & nd & t & Ha & _).
    destruct (access_inv _ _ _ _ _ Ha) as (na & t0 & Ea & Et0 & _).
    destruct (absorb_value R zero one add mul SR tbl s a gshape s' na WS Ea H) as [_ HV].
    rewrite (open_ws_some s a na Ea), open_of_length. exact HV.
  Qed.

  (* ---- the two-site gate: the value law ------------------------------------------------------------------- *)
  (* the value law: under the kernel contract of the final split (the two factors contracted over the new
     bond give back the tensor the kernel received, i.e. the gate applied to the contracted pair; nothing
     truncated), the value of the network is the gate atom [next_atom s] applied through the open wires of
     node1 then node2 *)
  Theorem two_site_gate_value contr s a b g s1 s2 s3 :
    wfs s -> aget contr (nodes s) = None ->
    two_site_stages contr s a b g = Some (s1, s2, s3) ->
    def_holds s3 tbl (last (defs s3) dflt_def) ->
    let inw := open_ws s a ++ open_ws s b in
    let outw := seq (next_wire s) (length inw) in
    let ga := next_atom s in
    forall rho, net_value s3 tbl rho = gate_action (wdim s) (tbl ga) outw inw (net_value s tbl) rho.
  Proof.
    intros WS Hc H Hdef. cbv zeta. pose proof (ws_wf s WS) as W.
    assert (Ea : exists na, aget a (nodes s) = Some na).
    { unfold two_site_stages, legs_before_combination in H. destruct (aget a (nodes s)) as [na|]; [eauto|discriminate]. }
    destruct Ea as [na Ea].
    destruct (two_site_chain _ _ _ _ _ _ _ _ _ W Ea Hc H) as (nb & u & v & G).
    destruct G as [Eb Hok Hca Hcb Hnew Hl Hcn Hab Hs W1 W2 Hspec Hnv Hids W3].
    assert (Hnew' : contr = a \/ contr = b \/ ~ In contr (akeys (nodes s))) by tauto.
    (* the three sub-operations *)
    pose proof (contract_preserves_wfs s a b contr s1 WS Hcn Hnew') as WS1.
    destruct (contract_net_value R zero one add mul SR tbl s a b contr s1 W Hcn Hnew') as [_ V1].
    destruct (contract_world _ _ _ _ _ Hcn) as (Ca & Cd & Cw & Cna & _).
    destruct (contract_open_rule _ _ _ _ _ na nb W Hcn Hnew' Ea Eb) as (nn & Enn & Hopen & _).
    pose proof (absorb_preserves_wfs s1 contr (t_shape g) s2 WS1 Hab) as WS2.
    destruct (absorb_value R zero one add mul SR tbl s1 contr (t_shape g) s2 nn WS1 Enn Hab) as [_ V2].
    destruct (split_net_value R zero one add mul SR tbl s2 contr u v a b (t_kind g) Reduced (t_bond g) s3 WS2 Hs Hspec Hids Hdef) as [_ V3].
    rewrite (open_ws_some s a na Ea), (open_ws_some s b nb Eb), app_length, !open_of_length.
    assert (Hnn : nopen nn = nopen na + nopen nb).
    { rewrite <- (open_of_length nn (tens s1 contr)), Hopen, app_length, !open_of_length. reflexivity. }
    intros rho. rewrite V3, V2, Hopen, Cw, Cna, Hnn.
    apply gate_action_ext; [|exact V1].
    intros w _. unfold wdim. rewrite Cd. reflexivity.
  Qed.
End GateLaws.

(* ==== a whole TEBD step ========================================================================================= *)
(* the wires a gate acts on in store s: the open wires of its node(s), in identifier order; its output wires
   are the next fresh wires *)
Definition gate_inw (s : store) (g : tgate) : list wire := flat_map (open_ws s) (t_ids g).
Definition gate_outw (s : store) (g : tgate) : list wire := seq (next_wire s) (length (gate_inw s g)).

(* one gate action: the atom carrying the gate tensor, its output wires, its input wires *)
Record gact := { ga_atom : nat; ga_out : list wire; ga_in : list wire }.

(* a gate without identifiers does nothing; any other accepted gate is the atom allocated first *)
Definition gate_acts (s : store) (g : tgate) : list gact :=
  match t_ids g with
  | [] => []
  | _ => [{| ga_atom := next_atom s; ga_out := gate_outw s g; ga_in := gate_inw s g |}]
  end.

(* the actions of a step, in the order the gates are applied (TEBD.run_one_time_step) *)
Fixpoint tebd_acts (contr : id) (s : store) (gs : list tgate) : list gact :=
  match gs with
  | [] => []
  | g :: t => match apply_gate contr s g with
              | Some s' => gate_acts s g ++ tebd_acts contr s' t
              | None => []
              end
  end.

(* dimension tables only grow, by entries for fresh wires *)
Definition dims_ext (s s' : store) : Prop :=
  next_wire s <= next_wire s' /\
  exists extra, dims s' = dims s ++ extra /\ forall x, In x (akeys extra) -> next_wire s <= x.

Lemma dims_ext_refl s : dims_ext s s.
Proof. split; [lia|]. exists []. split; [symmetry; apply app_nil_r|intros x []]. Qed.

Lemma dims_ext_trans s1 s2 s3 : dims_ext s1 s2 -> dims_ext s2 s3 -> dims_ext s1 s3.
Proof.
  intros [L1 (e1 & D1 & K1)] [L2 (e2 & D2 & K2)]. split; [lia|]. exists (e1 ++ e2). split; [rewrite D2, D1, app_assoc; reflexivity|].
  intros x Hx. rewrite akeys_app in Hx. apply in_app_or in Hx. destruct Hx as [Hx|Hx]; [apply K1, Hx|apply K2 in Hx; lia].
Qed.

Lemma dims_ext_wdim s s' w : wf s -> dims_ext s s' -> w < next_wire s -> wdim s' w = wdim s w.
Proof. intros W [_ (e & D & K)] Hw. apply (wdim_old s s' e w W D K Hw). Qed.

Lemma open_ws_lt s k w : wf s -> In w (open_ws s k) -> w < next_wire s.
Proof.
  intros W Hw. unfold open_ws in Hw. destruct (aget k (nodes s)) as [nk|] eqn:E; [|destruct Hw].
  apply (open_lt s k nk w W E Hw).
Qed.

Lemma gate_inw_lt s g w : wf s -> In w (gate_inw s g) -> w < next_wire s.
Proof.
  intros W Hw. unfold gate_inw in Hw. apply in_flat_map in Hw. destruct Hw as (k & _ & Hw). apply (open_ws_lt s k w W Hw).
Qed.

(* ---- the actions of a step, computed from the initial wire state alone ------------------------------------------ *)
(* [nw], [na]: next fresh wire / atom; [ow]: the open wires of every node.  A single-site gate allocates its
   output wires and one atom; a two-site gate allocates its output wires, the bond wire of the SVD and three
   atoms (gate, U, S.Vh); the gate's output wires become the open wires of its node(s), node1's first *)
Definition ow_set (ow : id -> list wire) (k : id) (l : list wire) : id -> list wire :=
  fun x => if Nat.eqb x k then l else ow x.

Fixpoint track_acts (nw na : nat) (ow : id -> list wire) (idss : list (list id)) : list gact :=
  match idss with
  | [] => []
  | ids :: t =>
      match ids with
      | [] => track_acts nw na ow t
      | [a] =>
          let inw := ow a in
          let outw := seq nw (length inw) in
          {| ga_atom := na; ga_out := outw; ga_in := inw |}
            :: track_acts (nw + length inw) (S na) (ow_set ow a outw) t
      | [a; b] =>
          let inw := ow a ++ ow b in
          let outw := seq nw (length inw) in
          {| ga_atom := na; ga_out := outw; ga_in := inw |}
            :: track_acts (S (nw + length inw)) (S (S (S na)))
                 (ow_set (ow_set ow a (seq nw (length (ow a)))) b (seq (nw + length (ow a)) (length (ow b)))) t
      | _ => []
      end
  end.

Lemma track_acts_ext idss : forall nw na ow ow', (forall k, ow k = ow' k) ->
  track_acts nw na ow idss = track_acts nw na ow' idss.
Proof.
  induction idss as [|ids t IH]; intros nw na ow ow' E; cbn [track_acts]; [reflexivity|].
  destruct ids as [|a [|b [|x r]]]; [apply IH, E| | |reflexivity].
  - rewrite !(E a). f_equal. apply IH. intros k. unfold ow_set. destruct (Nat.eqb k a); [reflexivity|apply E].
  - rewrite !(E a), !(E b). f_equal. apply IH. intros k. unfold ow_set.
    destruct (Nat.eqb k b); [reflexivity|]. destruct (Nat.eqb k a); [reflexivity|apply E].
Qed.

(* one accepted gate moves the wire state as track_acts says *)
Lemma apply_gate_track contr s g s' :
  wfs s -> aget contr (nodes s) = None -> apply_gate contr s g = Some s' ->
  wfs s' /\ aget contr (nodes s') = None /\
  forall t, gate_acts s g ++ track_acts (next_wire s') (next_atom s') (open_ws s') t
            = track_acts (next_wire s) (next_atom s) (open_ws s) (t_ids g :: t).
Proof.
  intros WS Hc H. unfold apply_gate, apply_gate_stages in H. unfold gate_acts, gate_outw, gate_inw.
  destruct (t_ids g) as [|a [|b [|x r]]]; cbn in H.
  - injection H as <-. split; [exact WS|]. split; [exact Hc|]. reflexivity.
  - destruct (absorb_open s a (t_shape g)) as [s1|] eqn:Hab; [|discriminate]. cbn in H. injection H as <-.
    destruct (single_site_gate_wires s a (t_shape g) s1 WS Hab) as (WS' & Hkeys & Oa & Oo & _ & Hw & Hna & _).
    split; [exact WS'|]. split; [apply aget_None; rewrite Hkeys; apply aget_None; exact Hc|].
    intros t. cbn [flat_map track_acts app]. rewrite app_nil_r. f_equal. rewrite Hw, Hna. apply track_acts_ext.
    intros k. unfold ow_set. destruct (Nat.eqb_spec k a) as [->|Hk]; [exact Oa|apply Oo, Hk].
  - destruct (two_site_stages contr s a b g) as [[[s1 s2] s3]|] eqn:Hts; [|discriminate]. cbn in H. injection H as <-.
    destruct (two_site_gate_wires contr s a b g s1 s2 s3 WS Hc Hts) as (WS' & Hc' & Hab & Oa & Ob & Oo & _ & Hw & Hna & _).
    split; [exact WS'|]. split; [exact Hc'|].
    intros t. cbn [flat_map track_acts app]. rewrite app_nil_r. f_equal. rewrite Hw, Hna. apply track_acts_ext.
    intros k. unfold ow_set. destruct (Nat.eqb_spec k b) as [->|Hkb]; [exact Ob|].
    destruct (Nat.eqb_spec k a) as [->|Hka]; [exact Oa|apply Oo; assumption].
  - discriminate.
Qed.

Theorem tebd_acts_explicit contr : forall gs s s',
  wfs s -> aget contr (nodes s) = None -> tebd_step contr s gs = Some s' ->
  tebd_acts contr s gs = track_acts (next_wire s) (next_atom s) (open_ws s) (map t_ids gs).
Proof.
  induction gs as [|g t IH]; intros s s' WS Hc H; cbn [tebd_step tebd_acts map] in *; [reflexivity|].
  destruct (apply_gate contr s g) as [s1|] eqn:Hg; [|discriminate].
  destruct (apply_gate_track contr s g s1 WS Hc Hg) as (WS1 & Hc1 & E).
  rewrite (IH s1 s' WS1 Hc1 H). apply E.
Qed.

Section StepValue.
  Variable R : Type.
  Variables (zero one : R) (add mul : R -> R -> R).
  Hypothesis SR : comm_semiring zero one add mul.
  Variable tbl : nat -> list nat -> R.

  Local Notation net_value := (net_value zero one add mul).
  Local Notation gate_action := (gate_action R zero add mul).
  Local Notation def_holds := (def_holds zero one add mul).

  (* the action of one gate on value functions *)
  Definition act_on (dim : wire -> nat) (V : (wire -> nat) -> R) (x : gact) : (wire -> nat) -> R :=
    gate_action dim (tbl (ga_atom x)) (ga_out x) (ga_in x) V.

  Lemma fold_act_ext dim dim' l : forall V V',
    (forall x w, In x l -> In w (ga_in x) -> dim w = dim' w) -> (forall r, V r = V' r) ->
    forall rho, fold_left (act_on dim) l V rho = fold_left (act_on dim') l V' rho.
  Proof.
    induction l as [|x t IH]; intros V V' Hd HV rho; cbn [fold_left]; [apply HV|].
    apply IH; [intros y w Hy; apply (Hd y w (or_intror Hy))|].
    intros r. unfold act_on. apply gate_action_ext; [intros w Hw; apply (Hd x w (or_introl eq_refl) Hw)|exact HV].
  Qed.

  (* the kernel contract of one gate application: only the two-site gate calls a kernel (the SVD of
     split_node_svd); the newest recorded factorisation holds in the store it produced *)
  Definition gate_contract (g : tgate) (s' : store) : Prop :=
    match t_ids g with
    | [_; _] => def_holds s' tbl (last (defs s') dflt_def)
    | _ => True
    end.

  Fixpoint tebd_contracts (contr : id) (s : store) (gs : list tgate) : Prop :=
    match gs with
    | [] => True
    | g :: t => match apply_gate contr s g with
                | Some s' => gate_contract g s' /\ tebd_contracts contr s' t
                | None => True
                end
    end.

  Theorem apply_gate_value contr s g s' :
    wfs s -> aget contr (nodes s) = None -> apply_gate contr s g = Some s' -> gate_contract g s' ->
    wfs s' /\ aget contr (nodes s') = None /\ dims_ext s s' /\
    forall rho, net_value s' tbl rho = fold_left (act_on (wdim s)) (gate_acts s g) (net_value s tbl) rho.
  Proof.
    intros WS Hc H Hk. unfold apply_gate, apply_gate_stages in H. unfold gate_contract in Hk.
    unfold gate_acts, gate_outw, gate_inw.
    destruct (t_ids g) as [|a [|b [|x r]]]; cbn in H.
    - injection H as <-. split; [exact WS|]. split; [exact Hc|]. split; [apply dims_ext_refl|]. reflexivity.
    - destruct (absorb_open s a (t_shape g)) as [s1|] eqn:Hab; [|discriminate]. cbn in H. injection H as <-.
      destruct (single_site_gate_wires s a (t_shape g) s1 WS Hab) as (WS' & Hkeys & _ & _ & _ & Hw & _ & Hd).
      pose proof (single_site_gate_value R zero one add mul SR tbl s a (t_shape g) s1 WS Hab) as HV.
      split; [exact WS'|]. split; [apply aget_None; rewrite Hkeys; apply aget_None; exact Hc|].
      split; [split; [lia|exact Hd]|].
      intros rho. cbn [flat_map fold_left]. rewrite app_nil_r. apply HV.
    - destruct (two_site_stages contr s a b g) as [[[s1 s2] s3]|] eqn:Hts; [|discriminate]. cbn in H. injection H as <-.
      destruct (two_site_gate_wires contr s a b g s1 s2 s3 WS Hc Hts) as (WS' & Hc' & _ & _ & _ & _ & _ & Hw & _ & Hd).
      pose proof (two_site_gate_value R zero one add mul SR tbl contr s a b g s1 s2 s3 WS Hc Hts Hk) as HV.
      split; [exact WS'|]. split; [exact Hc'|]. split; [split; [lia|exact Hd]|].
      intros rho. cbn [flat_map fold_left]. rewrite app_nil_r. apply HV.
    - discriminate.
  Qed.

  (* one TEBD step: the value of the network after the step is the composition of the gate actions in
     list order, applied to the value before *)
  Theorem tebd_step_value contr : forall gs s s',
    wfs s -> aget contr (nodes s) = None -> tebd_step contr s gs = Some s' -> tebd_contracts contr s gs ->
    wfs s' /\ aget contr (nodes s') = None /\ dims_ext s s' /\
    forall rho, net_value s' tbl rho = fold_left (act_on (wdim s')) (tebd_acts contr s gs) (net_value s tbl) rho.
  Proof.
    induction gs as [|g t IH]; intros s s' WS Hc H Hk; cbn [tebd_step tebd_acts tebd_contracts] in *.
    - injection H as <-. split; [exact WS|]. split; [exact Hc|]. split; [apply dims_ext_refl|]. reflexivity.
    - destruct (apply_gate contr s g) as [s1|] eqn:Hg; [|discriminate]. destruct Hk as [Hk1 Hk2].
      destruct (apply_gate_value contr s g s1 WS Hc Hg Hk1) as (WS1 & Hc1 & D1 & V1).
      destruct (IH s1 s' WS1 Hc1 H Hk2) as (WS' & Hc' & D2 & V2).
      pose proof (dims_ext_trans _ _ _ D1 D2) as D.
      split; [exact WS'|]. split; [exact Hc'|]. split; [exact D|].
      intros rho. rewrite V2, fold_left_app. apply fold_act_ext; [intros; reflexivity|].
      intros r. rewrite V1. apply fold_act_ext; [|intros; reflexivity].
      intros x w Hx Hw. symmetry. apply (dims_ext_wdim s s' w (ws_wf s WS) D).
      unfold gate_acts in Hx. destruct (t_ids g) as [|i0 l0] eqn:Eids; [destruct Hx|].
      destruct Hx as [<-|[]]. cbn [ga_in] in Hw. apply (gate_inw_lt s g w (ws_wf s WS) Hw).
  Qed.

  (* the same with the actions computed from the initial wire state (next fresh wire / atom, open wires of
     every node) and the identifier lists of the gates alone *)
  Corollary tebd_step_value_explicit contr gs s s' :
    wfs s -> aget contr (nodes s) = None -> tebd_step contr s gs = Some s' -> tebd_contracts contr s gs ->
    forall rho, net_value s' tbl rho
                = fold_left (act_on (wdim s')) (track_acts (next_wire s) (next_atom s) (open_ws s) (map t_ids gs))
                    (net_value s tbl) rho.
  Proof.
    intros WS Hc H Hk rho. rewrite <- (tebd_acts_explicit contr gs s s' WS Hc H).
    apply (tebd_step_value contr gs s s' WS Hc H Hk).
  Qed.

  (* ---- the common case: one open (physical) leg per node ---------------------------------------------------- *)
  Local Notation sum_upto := (sum_upto R zero add).

  Corollary single_site_gate_value_1 s a gshape s' w :
    wfs s -> absorb_open s a gshape = Some s' -> open_ws s a = [w] ->
    open_ws s' a = [next_wire s] /\
    forall rho, net_value s' tbl rho
                = sum_upto (wdim s w) (fun j => mul (tbl (next_atom s) [rho (next_wire s); j]) (net_value s tbl (upd rho w j))).
  Proof.
    intros WS H Ho. destruct (single_site_gate_wires s a gshape s' WS H) as (_ & _ & Oa & _).
    pose proof (single_site_gate_value R zero one add mul SR tbl s a gshape s' WS H) as HV. cbv zeta in *. rewrite Ho in *. cbn [length seq] in *.
    split; [exact Oa|]. intros rho. rewrite HV. unfold GateValue.gate_action. cbn [sum_bnd map app].
    apply (sum_upto_ext R zero add). intros j _. rewrite upd_same, upd_other; [reflexivity|].
    assert (w < next_wire s); [|lia]. apply (open_ws_lt s a w (ws_wf s WS)). rewrite Ho. left. reflexivity.
  Qed.

  Corollary two_site_gate_value_1 contr s a b g s1 s2 s3 wa wb :
    wfs s -> aget contr (nodes s) = None -> two_site_stages contr s a b g = Some (s1, s2, s3) ->
    def_holds s3 tbl (last (defs s3) dflt_def) ->
    open_ws s a = [wa] -> open_ws s b = [wb] ->
    open_ws s3 a = [next_wire s] /\ open_ws s3 b = [S (next_wire s)] /\
    forall rho, net_value s3 tbl rho
                = sum_upto (wdim s wa) (fun ja => sum_upto (wdim s wb) (fun jb =>
                    mul (tbl (next_atom s) [rho (next_wire s); rho (S (next_wire s)); ja; jb])
                        (net_value s tbl (upd (upd rho wa ja) wb jb)))).
  Proof.
    intros WS Hc H Hdef Ha Hb. pose proof (ws_wf s WS) as W.
    destruct (two_site_gate_wires contr s a b g s1 s2 s3 WS Hc H) as (_ & _ & Hne & Oa & Ob & _).
    pose proof (two_site_gate_value R zero one add mul SR tbl contr s a b g s1 s2 s3 WS Hc H Hdef) as HV. cbv zeta in *.
    rewrite Ha, Hb in *. cbn [length seq app] in *. rewrite Nat.add_1_r in Ob.
    split; [exact Oa|]. split; [exact Ob|].
    assert (La : wa < next_wire s) by (apply (open_ws_lt s a wa W); rewrite Ha; left; reflexivity).
    assert (Lb : wb < next_wire s) by (apply (open_ws_lt s b wb W); rewrite Hb; left; reflexivity).
    assert (Hab : wa <> wb).
    { intros ->. apply Hne. unfold open_ws in Ha, Hb.
      destruct (aget a (nodes s)) as [na|] eqn:Ea; [|discriminate]. destruct (aget b (nodes s)) as [nb|] eqn:Eb; [|discriminate].
      apply (wf_own2 s W a na b nb wb Ea Eb); unfold own_of; apply in_or_app; right.
      - change (In wb (open_of na (tens s a))). rewrite Ha. left. reflexivity.
      - change (In wb (open_of nb (tens s b))). rewrite Hb. left. reflexivity. }
    intros rho. rewrite HV. unfold GateValue.gate_action. cbn [sum_bnd map app].
    apply (sum_upto_ext R zero add). intros ja _. apply (sum_upto_ext R zero add). intros jb _.
    rewrite upd_same. rewrite (upd_other _ wb jb wa Hab), upd_same.
    rewrite !(upd_other _ wb jb) by lia. rewrite !(upd_other _ wa ja) by lia. reflexivity.
  Qed.

  (* ---- a SWAP is the two-site gate whose tensor is swap_gate(d) reshaped to (d, d, d, d) ------------------------- *)
  Lemma gv_delta_and (p q : bool) x :
    mul (if p && q then one else zero) x = mul (if q then x else zero) (if p then one else zero).
  Proof.
    assert (Z0 : forall u, mul zero u = zero) by (intros u; rewrite (csr_mul_comm _ _ _ _ SR); apply (csr_mul_0_r _ _ _ _ SR)).
    destruct p, q; cbn [andb].
    - apply (csr_mul_comm _ _ _ _ SR).
    - rewrite !Z0. reflexivity.
    - rewrite Z0. symmetry. apply (csr_mul_0_r _ _ _ _ SR).
    - rewrite !Z0. reflexivity.
  Qed.

  Lemma gv_swap_bool d a b c e : a < d -> b < d -> c < d -> e < d ->
    swap_tensor_entry d a b c e = Nat.eqb a e && Nat.eqb b c.
  Proof.
    intros Ha Hb Hc He. pose proof (swap_tensor_entry_spec d a b c e Ha Hb Hc He) as Hs.
    destruct (swap_tensor_entry d a b c e).
    - destruct (proj1 Hs eq_refl) as [-> ->]. rewrite !Nat.eqb_refl. reflexivity.
    - destruct (Nat.eqb_spec a e) as [E1|E1]; [|reflexivity]. destruct (Nat.eqb_spec b c) as [E2|E2]; [|reflexivity].
      destruct Hs as [_ Hs]. discriminate (Hs (conj E1 E2)).
  Qed.

  (* the network after a SWAP gate on (a, b), read at output indices (x, y) within the dimension, is the
     network before read with a's index y and b's index x *)
  Corollary swap_gate_value contr s a b g s1 s2 s3 wa wb d :
    wfs s -> aget contr (nodes s) = None -> two_site_stages contr s a b g = Some (s1, s2, s3) ->
    def_holds s3 tbl (last (defs s3) dflt_def) ->
    open_ws s a = [wa] -> open_ws s b = [wb] -> wdim s wa = d -> wdim s wb = d ->
    (forall o1 o2 j1 j2, tbl (next_atom s) [o1; o2; j1; j2] = if swap_tensor_entry d o1 o2 j1 j2 then one else zero) ->
    forall rho, rho (next_wire s) < d -> rho (S (next_wire s)) < d ->
      net_value s3 tbl rho = net_value s tbl (upd (upd rho wa (rho (S (next_wire s)))) wb (rho (next_wire s))).
  Proof.
    intros WS Hc H Hdef Ha Hb Da Db Hsw rho Hx Hy.
    destruct (two_site_gate_value_1 contr s a b g s1 s2 s3 wa wb WS Hc H Hdef Ha Hb) as (_ & _ & HV).
    rewrite HV, Da, Db. set (x := rho (next_wire s)) in *. set (y := rho (S (next_wire s))) in *.
    set (V := fun ja jb => net_value s tbl (upd (upd rho wa ja) wb jb)).
    transitivity (sum_upto d (fun ja => mul (V ja x) (if Nat.eqb y ja then one else zero))).
    - apply (sum_upto_ext R zero add). intros ja Hja.
      transitivity (sum_upto d (fun jb => mul (if Nat.eqb y ja then V ja jb else zero) (if Nat.eqb x jb then one else zero))).
      + apply (sum_upto_ext R zero add). intros jb Hjb. rewrite Hsw, (gv_swap_bool d x y ja jb Hx Hy Hja Hjb). apply gv_delta_and.
      + rewrite (sum_upto_delta R zero one add mul SR d x). destruct (Nat.ltb_spec x d) as [_|Hge]; [|lia].
        destruct (Nat.eqb y ja).
        * rewrite (csr_mul_comm _ _ _ _ SR). symmetry. apply (csr_mul_1_l _ _ _ _ SR).
        * symmetry. apply (csr_mul_0_r _ _ _ _ SR).
    - rewrite (sum_upto_delta R zero one add mul SR d y). destruct (Nat.ltb_spec y d) as [_|Hge]; [reflexivity|lia].
  Qed.
End StepValue.

(* ==== the statements with the executable invariant wfsb (Props/C08.v) ============================================= *)
Section Statements.
  Variable R : Type.
  Variables (zero one : R) (add mul : R -> R -> R).
  Hypothesis SR : comm_semiring zero one add mul.
  Variable tbl : nat -> list nat -> R.

  Local Notation net_value := (net_value zero one add mul).
  Local Notation gate_action := (gate_action R zero add mul).
  Local Notation def_holds := (def_holds zero one add mul).

  Theorem absorb_value_stmt s n gshape s' nd0 :
    wfsb s = true -> aget n (nodes s) = Some nd0 -> absorb_open s n gshape = Some s' ->
    let inw := open_of nd0 (tens s n) in
    let outw := seq (next_wire s) (nopen nd0) in
    let ga := next_atom s in
    wfsb s' = true /\ atom_wires s' ga = outw ++ inw /\
    aget n (nodes s') = Some (reset_permutation nd0) /\ open_of (reset_permutation nd0) (tens s' n) = outw /\
    (forall k, k <> n -> aget k (nodes s') = aget k (nodes s) /\ aget k (tensors s') = aget k (tensors s)) /\
    forall rho, net_value s' tbl rho
                = sum_bnd R zero add (wdim s) inw (fun r => mul (tbl ga (map r (outw ++ inw))) (net_value s tbl r)) rho.
  Proof.
    intros Hb En H. cbv zeta. pose proof (wfsb_wfs s Hb) as WS. pose proof (ws_wf s WS) as W.
    destruct (gv_absorb_facts s n gshape s' nd0 W En H) as (_ & Fn & _ & _ & _ & _ & _ & _ & Foth & Fopen & _).
    destruct (absorb_value R zero one add mul SR tbl s n gshape s' nd0 WS En H) as [Hw HV].
    split; [apply wfs_wfsb; apply (absorb_preserves_wfs s n gshape s' WS H)|]. split; [exact Hw|].
    split; [rewrite Fn; apply aget_aset_same|]. split; [exact Fopen|]. split; [exact Foth|exact HV].
  Qed.

  Theorem single_site_gate_value_stmt s a gshape s' :
    wfsb s = true -> absorb_open s a gshape = Some s' ->
    let inw := open_ws s a in
    let outw := seq (next_wire s) (length inw) in
    let ga := next_atom s in
    wfsb s' = true /\ akeys (nodes s') = akeys (nodes s) /\
    open_ws s' a = outw /\ (forall k, k <> a -> open_ws s' k = open_ws s k) /\
    atom_wires s' ga = outw ++ inw /\
    forall rho, net_value s' tbl rho = gate_action (wdim s) (tbl ga) outw inw (net_value s tbl) rho.
  Proof.
    intros Hb H. cbv zeta. pose proof (wfsb_wfs s Hb) as WS.
    destruct (single_site_gate_wires s a gshape s' WS H) as (WS' & Hk & Oa & Oo & Hw & _).
    split; [apply wfs_wfsb; exact WS'|]. split; [exact Hk|]. split; [exact Oa|]. split; [exact Oo|]. split; [exact Hw|].
    apply (single_site_gate_value R zero one add mul SR tbl s a gshape s' WS H).
  Qed.

  Theorem two_site_gate_value_stmt contr s a b g s1 s2 s3 :
    wfsb s = true -> aget contr (nodes s) = None ->
    two_site_stages contr s a b g = Some (s1, s2, s3) ->
    def_holds s3 tbl (last (defs s3) dflt_def) ->
    let inw := open_ws s a ++ open_ws s b in
    let outw := seq (next_wire s) (length inw) in
    let ga := next_atom s in
    wfsb s3 = true /\ aget contr (nodes s3) = None /\
    open_ws s3 a = seq (next_wire s) (length (open_ws s a)) /\
    open_ws s3 b = seq (next_wire s + length (open_ws s a)) (length (open_ws s b)) /\
    (forall k, k <> a -> k <> b -> open_ws s3 k = open_ws s k) /\
    atom_wires s3 ga = outw ++ inw /\
    forall rho, net_value s3 tbl rho = gate_action (wdim s) (tbl ga) outw inw (net_value s tbl) rho.
  Proof.
    intros Hb Hc H Hdef. cbv zeta. pose proof (wfsb_wfs s Hb) as WS.
    destruct (two_site_gate_wires contr s a b g s1 s2 s3 WS Hc H) as (WS' & Hc' & _ & Oa & Ob & Oo & Hw & _).
    split; [apply wfs_wfsb; exact WS'|]. split; [exact Hc'|]. split; [exact Oa|]. split; [exact Ob|]. split; [exact Oo|].
    split; [exact Hw|]. apply (two_site_gate_value R zero one add mul SR tbl contr s a b g s1 s2 s3 WS Hc H Hdef).
  Qed.

  Theorem tebd_step_value_stmt contr gs s s' :
    wfsb s = true -> aget contr (nodes s) = None -> tebd_step contr s gs = Some s' ->
    tebd_contracts R zero one add mul tbl contr s gs ->
    wfsb s' = true /\ aget contr (nodes s') = None /\
    tebd_acts contr s gs = track_acts (next_wire s) (next_atom s) (open_ws s) (map t_ids gs) /\
    forall rho, net_value s' tbl rho
                = fold_left (act_on R zero add mul tbl (wdim s'))
                    (track_acts (next_wire s) (next_atom s) (open_ws s) (map t_ids gs)) (net_value s tbl) rho.
  Proof.
    intros Hb Hc H Hk. pose proof (wfsb_wfs s Hb) as WS.
    destruct (tebd_step_value R zero one add mul SR tbl contr gs s s' WS Hc H Hk) as (WS' & Hc' & _ & _).
    split; [apply wfs_wfsb; exact WS'|]. split; [exact Hc'|]. split; [apply (tebd_acts_explicit contr gs s s' WS Hc H)|].
    apply (tebd_step_value_explicit R zero one add mul SR tbl contr gs s s' WS Hc H Hk).
  Qed.

  Theorem two_site_gate_value_1_stmt contr s a b g s1 s2 s3 wa wb :
    wfsb s = true -> aget contr (nodes s) = None -> two_site_stages contr s a b g = Some (s1, s2, s3) ->
    def_holds s3 tbl (last (defs s3) dflt_def) ->
    open_ws s a = [wa] -> open_ws s b = [wb] ->
    open_ws s3 a = [next_wire s] /\ open_ws s3 b = [S (next_wire s)] /\
    forall rho, net_value s3 tbl rho
                = sum_upto R zero add (wdim s wa) (fun ja => sum_upto R zero add (wdim s wb) (fun jb =>
                    mul (tbl (next_atom s) [rho (next_wire s); rho (S (next_wire s)); ja; jb])
                        (net_value s tbl (upd (upd rho wa ja) wb jb)))).
  Proof. intros Hb. apply (two_site_gate_value_1 R zero one add mul SR tbl). apply wfsb_wfs. exact Hb. Qed.

  Theorem single_site_gate_value_1_stmt s a gshape s' w :
    wfsb s = true -> absorb_open s a gshape = Some s' -> open_ws s a = [w] ->
    open_ws s' a = [next_wire s] /\
    forall rho, net_value s' tbl rho
                = sum_upto R zero add (wdim s w)
                    (fun j => mul (tbl (next_atom s) [rho (next_wire s); j]) (net_value s tbl (upd rho w j))).
  Proof. intros Hb. apply (single_site_gate_value_1 R zero one add mul SR tbl). apply wfsb_wfs. exact Hb. Qed.

  Theorem swap_gate_value_stmt contr s a b g s1 s2 s3 wa wb d :
    wfsb s = true -> aget contr (nodes s) = None -> two_site_stages contr s a b g = Some (s1, s2, s3) ->
    def_holds s3 tbl (last (defs s3) dflt_def) ->
    open_ws s a = [wa] -> open_ws s b = [wb] -> wdim s wa = d -> wdim s wb = d ->
    (forall o1 o2 j1 j2, tbl (next_atom s) [o1; o2; j1; j2] = if swap_tensor_entry d o1 o2 j1 j2 then one else zero) ->
    forall rho, rho (next_wire s) < d -> rho (S (next_wire s)) < d ->
      net_value s3 tbl rho = net_value s tbl (upd (upd rho wa (rho (S (next_wire s)))) wb (rho (next_wire s))).
  Proof. intros Hb. apply (swap_gate_value R zero one add mul SR tbl). apply wfsb_wfs. exact Hb. Qed.
End Statements.

Theorem absorb_preserves_wfsb s n gshape s' : wfsb s = true -> absorb_open s n gshape = Some s' -> wfsb s' = true.
Proof. intros H Ha. apply wfs_wfsb. apply (absorb_preserves_wfs s n gshape s'); [apply wfsb_wfs; exact H|exact Ha]. Qed.

(* ==== non-vacuity: a concrete step over Z with a valid kernel contract ============================================= *)
(* two nodes 0 - 1 with one physical leg each; a two-site gate G on (0, 1), then a single-site gate H on 1.
   Atoms 0, 1: the node tensors; 2: G; 3, 4: the "SVD factors" of the gate-applied pair M = G.psi, chosen as
   U := M and S.Vh := identity (a valid factorisation over a bond of dimension 2: the contract is PROVED, for
   every assignment, not assumed); 5: H.  All tables vanish outside the index ranges. *)
Definition exg_s0 : store := fst (run empty_store [AddRoot 0 [2; 2]; AddChild 1 [2; 2] 0 0 0]).
Definition exg_g1 : tgate := {| t_ids := [0; 1]; t_shape := [2; 2; 2; 2]; t_kind := 1; t_bond := 0 |}.
Definition exg_g2 : tgate := {| t_ids := [1]; t_shape := [2; 2]; t_kind := 1; t_bond := 0 |}.
Definition exg_s1 : store := Eval vm_compute in (match apply_gate 99 exg_s0 exg_g1 with Some s => s | None => empty_store end).
Definition exg_s2 : store := Eval vm_compute in (match apply_gate 99 exg_s1 exg_g2 with Some s => s | None => empty_store end).

Local Open Scope Z_scope.
Definition exg_in2 (i : nat) : bool := Nat.ltb i 2.
Definition exg_A0 (c j : nat) : Z := if exg_in2 c && exg_in2 j then Z.of_nat (1 + c + 2 * j) else 0.
Definition exg_A1 (c j : nat) : Z := if exg_in2 c && exg_in2 j then Z.of_nat (2 + 3 * c + j) - 4 else 0.
Definition exg_G (o1 o2 j1 j2 : nat) : Z :=
  if exg_in2 o1 && exg_in2 o2 && exg_in2 j1 && exg_in2 j2 then Z.of_nat (1 + o1 + 2 * o2 + 3 * j1 + 5 * j2) - 6 else 0.
Definition exg_H (o j : nat) : Z := if exg_in2 o && exg_in2 j then Z.of_nat (2 + o + 3 * j) - 3 else 0.
Definition exg_sum2 (f : nat -> Z) : Z := f 0%nat + f 1%nat.
(* the two-site state, the gate applied to it *)
Definition exg_psi (j1 j2 : nat) : Z := exg_sum2 (fun c => exg_A0 c j1 * exg_A1 c j2).
Definition exg_M (o1 o2 : nat) : Z := exg_sum2 (fun j1 => exg_sum2 (fun j2 => exg_G o1 o2 j1 j2 * exg_psi j1 j2)).
Definition exg_tbl (a : nat) (idx : list nat) : Z :=
  match a, idx with
  | 0%nat, [c; j] => exg_A0 c j
  | 1%nat, [c; j] => exg_A1 c j
  | 2%nat, [o1; o2; j1; j2] => exg_G o1 o2 j1 j2
  | 3%nat, [o1; k] => exg_M o1 k                               (* "U" := the gate-applied pair *)
  | 4%nat, [k; o2] => if Nat.eqb k o2 && exg_in2 o2 then 1 else 0  (* "S.Vh" := identity *)
  | 5%nat, [o; j] => exg_H o j
  | _, _ => 0
  end.

Lemma exg_step1 : apply_gate 99%nat exg_s0 exg_g1 = Some exg_s1. Proof. vm_compute. reflexivity. Qed.
Lemma exg_step2 : apply_gate 99%nat exg_s1 exg_g2 = Some exg_s2. Proof. vm_compute. reflexivity. Qed.

Lemma exg_contract : def_holds 0 1 Z.add Z.mul exg_s1 exg_tbl (last (defs exg_s1) dflt_def).
Proof.
  intros rho. cbn -[exg_tbl Z.add Z.mul]. unfold atom_val, atom_wires. cbn -[exg_tbl Z.add Z.mul]. unfold upd. cbn -[exg_tbl Z.add Z.mul].
  destruct (rho 4%nat) as [|[|i]]; destruct (rho 5%nat) as [|[|j]]; vm_compute; reflexivity.
Qed.

Example exg_hyps :
  wfsb exg_s0 = true /\ aget 99%nat (nodes exg_s0) = None /\
  tebd_step 99%nat exg_s0 [exg_g1; exg_g2] = Some exg_s2 /\
  tebd_contracts Z 0 1 Z.add Z.mul exg_tbl 99%nat exg_s0 [exg_g1; exg_g2].
Proof.
  split; [vm_compute; reflexivity|]. split; [vm_compute; reflexivity|]. split; [vm_compute; reflexivity|].
  cbn [tebd_contracts]. rewrite exg_step1. split; [exact exg_contract|]. rewrite exg_step2. split; exact I.
Qed.

(* the conclusion of tebd_step_value_explicit on the example: first the two-site gate (atom 2, inputs on the
   old physical wires 1 and 3 of nodes 0 and 1, outputs on the fresh wires 4 and 5), then the single-site gate
   (atom 5, input on wire 5, output on wire 7) *)
Example exg_conclusion : forall rho,
  net_value 0 1 Z.add Z.mul exg_s2 exg_tbl rho
  = fold_left (act_on Z 0 Z.add Z.mul exg_tbl (wdim exg_s2))
      [ {| ga_atom := 2; ga_out := [4; 5]; ga_in := [1; 3] |}; {| ga_atom := 5; ga_out := [7]; ga_in := [5] |} ]%nat
      (net_value 0 1 Z.add Z.mul exg_s0 exg_tbl) rho.
Proof.
  destruct exg_hyps as (H1 & H2 & H3 & H4).
  exact (tebd_step_value_explicit Z 0 1 Z.add Z.mul Z_csr exg_tbl 99%nat [exg_g1; exg_g2] exg_s0 exg_s2 (wfsb_wfs _ H1) H2 H3 H4).
Qed.

(* cross-check by direct evaluation: the tensor the final network denotes (open legs: node 0, node 1) is the
   dense formula  H . G . psi  entry by entry *)
Example exg_dense :
  forallb (fun x => forallb (fun y =>
     Z.eqb (net_entry 0 1 Z.add Z.mul exg_s2 exg_tbl (fun _ => 0%nat) [x; y])
           (exg_sum2 (fun y' => exg_H y y' * exg_M x y'))) [0; 1]%nat) [0; 1]%nat = true.
Proof. vm_compute. reflexivity. Qed.

