(* Proofs about the TEBD / Trotter model (TEBD/Trotter.v), property C08. *)
From Coq Require Import List Arith Bool ZArith Lia Permutation.
From PTN Require Import TTN.Store TTN.StoreProofs TEBD.Trotter.
Import ListNotations.

(* ================================================================================================ *)
(* generic list facts                                                                                 *)
(* ================================================================================================ *)
Lemma all_some_Forall2 {A B} (f : A -> option B) (l : list A) (r : list B) :
  all_some (map f l) = Some r -> Forall2 (fun x y => f x = Some y) l r.
Proof.
  revert r. induction l as [|x t IH]; intros r H; cbn in H.
  - injection H as <-. constructor.
  - destruct (f x) as [y|] eqn:E; [|discriminate].
    destruct (all_some (map f t)) as [r'|] eqn:E2; [|discriminate]. cbn in H. injection H as <-.
    constructor; auto.
Qed.

Lemma all_some_map_Some {A} (l : list A) : all_some (map Some l) = Some l.
Proof. induction l as [|x t IH]; cbn; [reflexivity|]. rewrite IH. reflexivity. Qed.

Lemma all_some_length {A} (l : list (option A)) r : all_some l = Some r -> length r = length l.
Proof.
  revert r. induction l as [|[x|] t IH]; intros r H; cbn in H; try discriminate.
  - injection H as <-. reflexivity.
  - destruct (all_some t) as [r'|]; [|discriminate]. cbn in H. injection H as <-. cbn. f_equal. auto.
Qed.

Lemma Forall2_map_l {A B C} (P : A -> B -> Prop) (g : B -> C) (h : A -> C) l r :
  Forall2 P l r -> (forall x y, P x y -> g y = h x) -> map g r = map h l.
Proof. intros H Hp. induction H; cbn; [reflexivity|]. f_equal; auto. Qed.

(* ================================================================================================ *)
(* Part 1: the splitting                                                                              *)
(* ================================================================================================ *)
Section SplittingProofs.
  Context {F M : Type}.
  Variable one : F.
  Variable mdim : M -> nat.

  Definition pair_ids (p : id * id) : list id := [fst p; snd p].

  (* what identifies a gate: kind, identifiers in the order returned, factor (exp gates) *)
  Definition gsig (g : gate F M) : gkind * list id * option F := (g_kind g, g_ids g, g_factor g).
  Definition step_sigs (st : tstep F M) : list (gkind * list id * option F) :=
    map (fun p => (KSwap, pair_ids p, None)) (ts_before st)
    ++ [(KExp, akeys (ts_op st), Some (ts_factor st))]
    ++ map (fun p => (KSwap, pair_ids p, None)) (ts_after st).

  Lemma swap_op_sig ds p g : swap_op ds p = Some g -> gsig g = (KSwap, pair_ids p, None) /\ g_shape g = [g_dim g; g_dim g; g_dim g; g_dim g] /\ g_dim g <> 0.
  Proof.
    unfold swap_op. destruct (swap_dim ds p) as [d|]; [|discriminate].
    destruct (Nat.eqb_spec d 0); [discriminate|]. intros [= <-]. cbn. auto.
  Qed.

  Lemma swap_ops_sigs ds l gs : swap_ops ds l = Some gs -> map gsig gs = map (fun p => (KSwap, pair_ids p, None)) l.
  Proof.
    intros H. apply all_some_Forall2 in H.
    apply (Forall2_map_l _ gsig (fun p => (KSwap, pair_ids p, None)) _ _ H).
    intros x y Hxy. apply swap_op_sig in Hxy. tauto.
  Qed.

  Lemma into_operator_ids (tp : @tprod M) order ms ids : into_operator tp order = Some (ms, ids) -> ids = akeys tp /\ ms <> [].
  Proof.
    unfold into_operator. destruct (all_some _) as [l|]; [|discriminate]. destruct l; [discriminate|].
    intros [= <- <-]. split; [reflexivity|discriminate].
  Qed.

  (* with an explicit order the factors follow `order`, the identifiers do not *)
  Lemma into_operator_order (tp : @tprod M) order ms ids :
    into_operator tp (Some order) = Some (ms, ids) ->
    ids = akeys tp /\ Forall2 (fun i m => aget i tp = Some m) order ms.
  Proof.
    intros H. split; [apply (into_operator_ids _ _ _ _ H)|].
    unfold into_operator in H. destruct (all_some _) as [l|] eqn:E; [|discriminate]. destruct l; [discriminate|].
    injection H as <- <-. apply all_some_Forall2 in E. exact E.
  Qed.

  Lemma aget_keys_values {V} (l : list (id * V)) : NoDup (akeys l) -> map (fun i => aget i l) (akeys l) = map Some (map snd l).
  Proof.
    induction l as [|[k v] t IH]; intros Hnd; [reflexivity|]. cbn in *. inversion Hnd as [|? ? Hnin Hnd']; subst.
    rewrite Nat.eqb_refl. f_equal. rewrite <- IH by exact Hnd'. apply map_ext_in. intros x Hx.
    destruct (Nat.eqb_spec x k) as [->|]; [contradiction|reflexivity].
  Qed.

  (* without an order: the factors are the dict values in key order *)
  Lemma into_operator_keyorder (tp : @tprod M) : NoDup (akeys tp) -> tp <> [] ->
    into_operator tp None = Some (map snd tp, akeys tp).
  Proof.
    intros Hnd Hne. unfold into_operator. rewrite aget_keys_values by exact Hnd. rewrite all_some_map_Some.
    destruct tp; [congruence|]. reflexivity.
  Qed.

  Lemma half_shape_length ds ids hs : half_shape ds ids = Some hs -> length hs = length ids.
  Proof.
    unfold half_shape. destruct (d_const ds) as [d|].
    - destruct (Nat.eqb d 0); [discriminate|]. intros [= <-]. apply map_length.
    - destruct (d_ttn ds) as [t|]; [|discriminate]. intros H. apply all_some_length in H. rewrite map_length in H. exact H.
  Qed.

  Lemma exp_gate_sig ds (st : tstep F M) g : exp_gate mdim ds st = Some g ->
    gsig g = (KExp, akeys (ts_op st), Some (ts_factor st)) /\
    (exists hs, g_shape g = hs ++ hs /\ length hs = length (g_ids g) /\ half_shape ds (g_ids g) = Some hs) /\
    into_operator (ts_op st) None = Some (g_kron g, g_ids g).
  Proof.
    unfold exp_gate. destruct (into_operator (ts_op st) None) as [[ms ids]|] eqn:E; [|discriminate].
    destruct (half_shape ds ids) as [hs|] eqn:Eh; [|discriminate].
    destruct (Nat.eqb _ _); [|discriminate]. intros [= <-]. cbn.
    destruct (into_operator_ids _ _ _ _ E) as [-> _]. repeat split.
    exists hs. repeat split; auto. apply (half_shape_length _ _ _ Eh).
  Qed.

  Lemma exponentiate_step_sigs ds (st : tstep F M) gs : exponentiate_step mdim ds st = Some gs -> map gsig gs = step_sigs st.
  Proof.
    unfold exponentiate_step. destruct (exp_gate mdim ds st) as [e|] eqn:Ee; [|discriminate].
    destruct (swap_ops ds (ts_before st)) as [b|] eqn:Eb; [|discriminate].
    destruct (swap_ops ds (ts_after st)) as [a|] eqn:Ea; [|discriminate]. intros [= <-].
    unfold step_sigs. rewrite !map_app. cbn. rewrite (swap_ops_sigs _ _ _ Eb), (swap_ops_sigs _ _ _ Ea).
    destruct (exp_gate_sig _ _ _ Ee) as [-> _]. reflexivity.
  Qed.

  (* the output of exponentiate_splitting, for every splitting: the concatenation over the steps
     of swaps_before ++ [exp] ++ swaps_after, each gate with its identifiers in the order the code
     returns them (pair order for SWAPs, TensorProduct key order for the factor) and its factor *)
  Theorem exponents_order ds (l : list (tstep F M)) gs :
    exponentiate_splitting mdim ds l = Some gs -> map gsig gs = flat_map step_sigs l.
  Proof.
    revert gs. induction l as [|st t IH]; intros gs H; cbn in H.
    - injection H as <-. reflexivity.
    - destruct (exponentiate_step mdim ds st) as [g|] eqn:Eg; [|discriminate].
      destruct (exponentiate_splitting mdim ds t) as [r|] eqn:Er; [|discriminate]. injection H as <-.
      cbn. rewrite map_app. rewrite (exponentiate_step_sigs _ _ _ Eg), (IH _ eq_refl). reflexivity.
  Qed.

  Lemma exponentiate_step_In ds (st : tstep F M) gs g : exponentiate_step mdim ds st = Some gs -> In g gs ->
    (exists p, swap_op ds p = Some g) \/ exp_gate mdim ds st = Some g.
  Proof.
    unfold exponentiate_step. destruct (exp_gate mdim ds st) as [e|] eqn:Ee; [|discriminate].
    destruct (swap_ops ds (ts_before st)) as [b|] eqn:Eb; [|discriminate].
    destruct (swap_ops ds (ts_after st)) as [a|] eqn:Ea; [|discriminate]. intros [= <-] Hin.
    assert (Hsw : forall l r, swap_ops ds l = Some r -> In g r -> exists p, swap_op ds p = Some g).
    { intros l r Hr Hg. apply all_some_Forall2 in Hr. induction Hr; [destruct Hg|].
      destruct Hg as [<-|Hg]; eauto. }
    apply in_app_or in Hin. destruct Hin as [Hin|Hin]; [left; eauto|].
    cbn in Hin. destruct Hin as [<-|Hin]; [right; reflexivity|left; eauto].
  Qed.

  (* every gate tensor has its output axes first and its input axes second, both halves in the
     order of the identifiers: shape = hs ++ hs with one entry per identifier *)
  Theorem gate_axes_layout ds (l : list (tstep F M)) gs g :
    exponentiate_splitting mdim ds l = Some gs -> In g gs ->
    (exists hs, g_shape g = hs ++ hs /\ length hs = length (g_ids g)) /\
    gate_axes g = map (fun i => (i, true)) (g_ids g) ++ map (fun i => (i, false)) (g_ids g).
  Proof.
    intros H Hin. split; [|reflexivity]. revert gs H Hin. induction l as [|st t IH]; intros gs H Hin; cbn in H.
    - injection H as <-. destruct Hin.
    - destruct (exponentiate_step mdim ds st) as [g0|] eqn:Eg; [|discriminate].
      destruct (exponentiate_splitting mdim ds t) as [r|] eqn:Er; [|discriminate]. injection H as <-.
      apply in_app_or in Hin. destruct Hin as [Hin|Hin]; [|eapply IH; eauto].
      destruct (exponentiate_step_In _ _ _ _ Eg Hin) as [[p Hp]|He].
      + pose proof (swap_op_sig _ _ _ Hp) as (Hs & Hsh & _). exists [g_dim g; g_dim g]. rewrite Hsh. split; [reflexivity|].
        unfold gsig in Hs. injection Hs as _ -> _. reflexivity.
      + destruct (exp_gate_sig _ _ _ He) as (_ & (hs & H1 & H2 & _) & _). eauto.
  Qed.

  (* ---- from_lists ------------------------------------------------------------------------------ *)
  Lemma map_nth_error_seq {A} (l : list A) : map (nth_error l) (seq 0 (length l)) = map Some l.
  Proof.
    induction l as [|x t IH]; [reflexivity|]. cbn. f_equal. rewrite <- seq_shift, map_map. exact IH.
  Qed.

  (* no splitting, no swaps: the tensor products in list order, every factor 1, no SWAPs *)
  Theorem from_lists_default (tps : list (@tprod M)) :
    from_lists one tps None None None
    = Some (map (fun tp => {| ts_op := tp; ts_factor := one; ts_before := []; ts_after := [] |}) tps).
  Proof.
    unfold from_lists. rewrite map_map.
    assert (E : forall (l : list nat) (r : list (@tprod M)), map (nth_error tps) l = map Some r ->
                all_some (map (fun i => from_lists_item one tps None None (SPair i one)) l)
                = Some (map (fun tp => {| ts_op := tp; ts_factor := one; ts_before := []; ts_after := [] |}) r)).
    { induction l as [|i l IH]; intros [|tp r] Hr; cbn in Hr; try discriminate; [reflexivity|].
      injection Hr as Hi Hr. cbn [map all_some]. rewrite (IH _ Hr). unfold from_lists_item. cbn [prepare_swap_list]. rewrite Hi. reflexivity. }
    apply E. apply map_nth_error_seq.
  Qed.

  Definition item_index (it : split_item F) : nat := match it with SIdx i => i | SPair i _ => i end.
  Definition item_factor (it : split_item F) : F := match it with SIdx _ => one | SPair _ f => f end.

  (* a splitting: step k is built from item k: the tensor product and the swap lists at the item's
     index, the item's factor (1 for a bare index) *)
  Theorem from_lists_spec (tps : list (@tprod M)) sp sb sa steps :
    from_lists one tps (Some sp) sb sa = Some steps ->
    Forall2 (fun it st => nth_error tps (item_index it) = Some (ts_op st) /\ ts_factor st = item_factor it /\
                          prepare_swap_list (item_index it) sb = Some (ts_before st) /\
                          prepare_swap_list (item_index it) sa = Some (ts_after st)) sp steps.
  Proof.
    unfold from_lists. intros H. apply all_some_Forall2 in H. induction H; constructor; auto.
    clear IHForall2 H0. unfold from_lists_item in H.
    destruct x as [i|i f]; cbn;
      (destruct (nth_error tps i) as [tp|]; [|discriminate]);
      (destruct (prepare_swap_list i sb) as [b|]; [|discriminate]);
      (destruct (prepare_swap_list i sa) as [a|]; [|discriminate]); injection H as <-; cbn; auto.
  Qed.
End SplittingProofs.

(* ================================================================================================ *)
(* Part 2: swap_gate                                                                                  *)
(* ================================================================================================ *)
Lemma divmod_flat d a b : b < d -> (a * d + b) / d = a /\ (a * d + b) mod d = b.
Proof.
  intros Hb. assert (d <> 0) by lia. split.
  - rewrite Nat.div_add_l by assumption. rewrite Nat.div_small by assumption. lia.
  - rewrite Nat.add_comm, Nat.mod_add by assumption. apply Nat.mod_small. assumption.
Qed.

(* entry ((a, b), (c, e)) of the (d, d, d, d) tensor is 1 exactly when a = e and b = c *)
Theorem swap_tensor_entry_spec d a b c e : a < d -> b < d -> c < d -> e < d ->
  swap_tensor_entry d a b c e = true <-> (a = e /\ b = c).
Proof.
  intros Ha Hb Hc He. unfold swap_tensor_entry, swap_entry.
  destruct (divmod_flat d a b Hb) as [-> ->]. destruct (divmod_flat d c e He) as [-> ->].
  rewrite andb_true_iff, !Nat.eqb_eq. lia.
Qed.

Lemma flat_index_bounds d i : i < d * d -> i / d < d /\ i mod d < d /\ i = (i / d) * d + i mod d.
Proof.
  intros Hi. assert (Hd : d <> 0) by lia. repeat split.
  - apply Nat.div_lt_upper_bound; assumption.
  - apply Nat.mod_upper_bound. assumption.
  - rewrite Nat.mul_comm. apply Nat.div_mod. assumption.
Qed.

Lemma swap_sigma_lt d i : i < d * d -> swap_sigma d i < d * d.
Proof. intros Hi. destruct (flat_index_bounds d i Hi) as (Ha & Hb & _). unfold swap_sigma. nia. Qed.

(* the matrix the loops build has, in row i, its single 1 in column sigma(i) *)
Theorem swap_entry_sigma d i j : i < d * d -> j < d * d -> swap_entry d i j = true <-> j = swap_sigma d i.
Proof.
  intros Hi Hj. destruct (flat_index_bounds d i Hi) as (Ha & Hb & Ei). destruct (flat_index_bounds d j Hj) as (Hc & He & Ej).
  unfold swap_entry, swap_sigma. rewrite andb_true_iff, !Nat.eqb_eq. split.
  - intros [H1 H2]. rewrite Ej. rewrite H2, <- H1. reflexivity.
  - intros ->. destruct (divmod_flat d (i mod d) (i / d) Ha) as [-> ->]. auto.
Qed.

Theorem swap_sigma_involutive d i : i < d * d -> swap_sigma d (swap_sigma d i) = i.
Proof.
  intros Hi. destruct (flat_index_bounds d i Hi) as (Ha & Hb & Ei). unfold swap_sigma at 1.
  unfold swap_sigma. destruct (divmod_flat d (i mod d) (i / d) Ha) as [-> ->]. lia.
Qed.

Lemma swap_matrix_entry d i j : i < d * d -> j < d * d -> nth j (nth i (swap_matrix d) []) false = swap_entry d i j.
Proof.
  intros Hi Hj. unfold swap_matrix.
  rewrite (nth_indep _ [] (map (swap_entry d 0) (seq 0 (d * d)))) by (rewrite map_length, seq_length; exact Hi).
  rewrite (map_nth (fun i => map (swap_entry d i) (seq 0 (d * d))) (seq 0 (d * d)) 0 i). rewrite seq_nth by exact Hi. cbn.
  rewrite (nth_indep _ false (swap_entry d i 0)) by (rewrite map_length, seq_length; exact Hj).
  rewrite (map_nth (swap_entry d i) (seq 0 (d * d)) 0 j). rewrite seq_nth by exact Hj. reflexivity.
Qed.

Local Open Scope Z_scope.
Lemma sum_zero (f : nat -> Z) s n : (forall j, (s <= j < s + n)%nat -> f j = 0) -> sumZ (map f (seq s n)) = 0.
Proof.
  revert s. induction n as [|n IH]; intros s H; cbn; [reflexivity|].
  rewrite H by lia. rewrite IH; [reflexivity|]. intros j Hj. apply H. lia.
Qed.

Lemma sum_single (f : nat -> Z) s n j0 : (s <= j0 < s + n)%nat ->
  (forall j, (s <= j < s + n)%nat -> j <> j0 -> f j = 0) -> sumZ (map f (seq s n)) = f j0.
Proof.
  revert s. induction n as [|n IH]; intros s Hj H; [lia|]. cbn.
  destruct (Nat.eq_dec s j0) as [->|Hne].
  - rewrite sum_zero; [lia|]. intros j Hj'. apply H; lia.
  - rewrite (H s) by lia. rewrite IH; [lia|lia|]. intros j Hj' Hn. apply H; lia.
Qed.

Lemma b2z_false b : b = false -> b2z b = 0.
Proof. intros ->. reflexivity. Qed.

(* applied to an amplitude table the gate exchanges the two sites *)
Theorem swap_apply_exchanges d (psi : nat -> nat -> Z) a b : (a < d)%nat -> (b < d)%nat ->
  swap_apply d psi a b = psi b a.
Proof.
  intros Ha Hb. unfold swap_apply.
  assert (Hi : (a * d + b < d * d)%nat) by nia.
  assert (Hs : swap_sigma d (a * d + b) = (b * d + a)%nat).
  { unfold swap_sigma. destruct (divmod_flat d a b Hb) as [-> ->]. reflexivity. }
  rewrite (sum_single _ 0 (d * d) (b * d + a)%nat).
  - assert (E : swap_entry d (a * d + b) (b * d + a) = true).
    { apply swap_entry_sigma; [exact Hi|nia|]. symmetry. exact Hs. }
    rewrite E. destruct (divmod_flat d b a Ha) as [-> ->]. cbn. destruct (psi b a); reflexivity.
  - nia.
  - intros j Hj Hne. rewrite b2z_false; [reflexivity|].
    destruct (swap_entry d (a * d + b) j) eqn:E; [|reflexivity].
    apply swap_entry_sigma in E; [|exact Hi|lia]. congruence.
Qed.

(* SWAP . SWAP = identity *)
Theorem swap_squared_identity d i j : (i < d * d)%nat -> (j < d * d)%nat ->
  swap_sq_entry d i j = if Nat.eqb i j then 1 else 0.
Proof.
  intros Hi Hj. unfold swap_sq_entry. pose proof (swap_sigma_lt d i Hi) as Hs.
  rewrite (sum_single _ 0 (d * d) (swap_sigma d i)).
  - assert (E : swap_entry d i (swap_sigma d i) = true) by (apply swap_entry_sigma; auto).
    rewrite E. cbn [b2z]. rewrite Z.mul_1_l.
    destruct (Nat.eqb_spec i j) as [->|Hne].
    + assert (E2 : swap_entry d (swap_sigma d j) j = true).
      { apply swap_entry_sigma; auto. symmetry. apply swap_sigma_involutive. exact Hj. }
      rewrite E2. reflexivity.
    + apply b2z_false. destruct (swap_entry d (swap_sigma d i) j) eqn:E2; [|reflexivity].
      apply swap_entry_sigma in E2; auto. rewrite swap_sigma_involutive in E2 by exact Hi. congruence.
  - lia.
  - intros k Hk Hne. rewrite (b2z_false (swap_entry d i k)); [reflexivity|].
    destruct (swap_entry d i k) eqn:E; [|reflexivity]. apply swap_entry_sigma in E; [congruence|exact Hi|lia].
Qed.
Local Close Scope Z_scope.

(* ================================================================================================ *)
(* Part 3: the two-site gate on the store                                                             *)
(* ================================================================================================ *)
Lemma NoDup_app_intro {A} (a b : list A) : NoDup a -> NoDup b -> (forall x, In x a -> In x b -> False) -> NoDup (a ++ b).
Proof.
  induction a as [|x t IH]; intros Ha Hb Hd; [exact Hb|]. cbn. inversion Ha; subst. constructor.
  - intros Hin. apply in_app_or in Hin. destruct Hin as [Hin|Hin]; [contradiction|]. apply (Hd x); [left; reflexivity|exact Hin].
  - apply IH; auto. intros y Hy. apply Hd. right. exact Hy.
Qed.

Lemma perm5 {X} (A B C D E : list X) : Permutation (A ++ B ++ C ++ D ++ E) (C ++ A ++ D ++ B ++ E).
Proof.
  rewrite (Permutation_app_swap_app B C). rewrite (Permutation_app_swap_app A C).
  do 2 apply Permutation_app_head. apply Permutation_app_swap_app.
Qed.

(* ---- positions in a list without duplicates -------------------------------------------------------- *)
Lemma index_of_mid x pre rest : ~ In x pre -> index_of x (pre ++ x :: rest) = Some (length pre).
Proof.
  induction pre as [|y t IH]; intros Hn; cbn.
  - rewrite Nat.eqb_refl. reflexivity.
  - destruct (Nat.eqb_spec x y) as [->|Hne]; [exfalso; apply Hn; left; reflexivity|].
    rewrite IH; [reflexivity|]. intros Hin. apply Hn. right. exact Hin.
Qed.

Lemma neighbour_index_child n x i : (forall p, parent n = Some p -> x <> p) -> index_of x (children n) = Some i ->
  neighbour_index n x = Some (nparents n + i).
Proof.
  intros Hp Hi. unfold neighbour_index, nparents. destruct (parent n) as [p|].
  - destruct (Nat.eqb_spec x p) as [->|_]; [exfalso; eapply Hp; reflexivity|]. rewrite Hi. cbn. f_equal. lia.
  - rewrite Hi. reflexivity.
Qed.

(* a contiguous block of the children sits on a contiguous block of legs *)
Lemma neighbour_index_block n : forall l pre post,
  children n = pre ++ l ++ post -> NoDup (children n) -> (forall p, parent n = Some p -> ~ In p (children n)) ->
  all_some (map (neighbour_index n) l) = Some (seq (nparents n + length pre) (length l)).
Proof.
  induction l as [|x l IH]; intros pre post Hc Hnd Hp; [reflexivity|].
  cbn [map all_some length seq].
  assert (Hx : ~ In x pre).
  { rewrite Hc in Hnd. apply NoDup_remove_2 in Hnd. intros Hin. apply Hnd. apply in_or_app. left. exact Hin. }
  rewrite (neighbour_index_child n x (length pre)).
  - rewrite (IH (pre ++ [x]) post).
    + rewrite app_length. cbn. replace (nparents n + (length pre + 1)) with (S (nparents n + length pre)) by lia. reflexivity.
    + rewrite Hc, <- app_assoc. reflexivity.
    + exact Hnd.
    + exact Hp.
  - intros p Hpar ->. apply (Hp p Hpar). rewrite Hc. apply in_or_app. right. left. reflexivity.
  - rewrite Hc. cbn. apply index_of_mid. exact Hx.
Qed.

(* ---- structure (parent, children) produced by the Node leg operations ------------------------------- *)
Lemma open_leg_to_parent_structure n p leg n' : open_leg_to_parent n p leg = Some n' ->
  parent n' = Some p /\ children n' = children n.
Proof.
  unfold open_leg_to_parent. destruct (negb (is_root n)); [discriminate|].
  destruct (negb (open_leg_ok n leg)); [discriminate|]. destruct (move leg 0 (perm n)); [|discriminate].
  intros [= <-]. auto.
Qed.

Lemma olc_loop_structure orig : forall l n n', olc_loop orig n l = Some n' ->
  parent n' = parent n /\ children n' = children n ++ map (fun t => fst (fst t)) l.
Proof.
  induction l as [|[[c leg] val] l IH]; intros n n' H; cbn [olc_loop] in H.
  - injection H as <-. rewrite app_nil_r. auto.
  - destruct (Nat.ltb leg orig); [discriminate H|]. apply IH in H. cbn in H. destruct H as [-> ->]. cbn [map fst].
    rewrite <- app_assoc. auto.
Qed.

Lemma open_legs_to_children_structure n d n' : open_legs_to_children n d = Some n' ->
  parent n' = parent n /\ children n' = children n ++ map fst d.
Proof.
  unfold open_legs_to_children. destruct (forallb _ d); [|discriminate]. intros H.
  apply olc_loop_structure in H. rewrite map_map in H. exact H.
Qed.

Lemma exchange_structure n s1 l1 s2 l2 n' : exchange_open_leg_ranges n s1 l1 s2 l2 = Some n' ->
  parent n' = parent n /\ children n' = children n.
Proof.
  unfold exchange_open_leg_ranges. destruct (if Nat.ltb s2 s1 then _ else _) as [[[a b] c] d].
  destruct (Nat.ltb c (a + b)); [discriminate|]. destruct (pop_n d c (perm n)) as [[v2 p1]|]; [|discriminate].
  destruct (pop_n b a p1) as [[v1 p2]|]; [|discriminate]. intros [= <-]. auto.
Qed.

Lemma map_fst_enum_from {A} k (l : list A) : map fst (enum_from k l) = l.
Proof.
  unfold enum_from. revert k. induction l as [|x t IH]; intros k; [reflexivity|]. cbn. f_equal. apply IH.
Qed.

(* _create_contracted_node: the new node hangs below the parent's parent; its children are the
   other children of the parent and the children of the child, node_id1's side first *)
Lemma create_contracted_node_structure shp pn cn c fp nn : create_contracted_node shp pn cn c fp = Some nn ->
  parent nn = parent pn /\
  children nn = if fp then remove_first c (children pn) ++ children cn else children cn ++ remove_first c (children pn).
Proof.
  unfold create_contracted_node.
  destruct (match parent pn with Some pp => open_leg_to_parent (new_node shp) pp 0 | None => Some (new_node shp) end) as [n1|] eqn:E1; [|discriminate].
  assert (H1 : parent n1 = parent pn /\ children n1 = []).
  { destruct (parent pn) as [pp|].
    - apply open_leg_to_parent_structure in E1. cbn in E1. tauto.
    - injection E1 as <-. auto. }
  destruct H1 as [Hp1 Hc1].
  destruct (open_legs_to_children n1 _) as [n2|] eqn:E2; [|discriminate].
  apply open_legs_to_children_structure in E2. destruct E2 as [Hp2 Hc2]. rewrite Hc1, Hp1 in *. cbn in Hc2.
  destruct fp.
  - intros [= <-]. rewrite map_app, !map_fst_enum_from in Hc2. auto.
  - intros H. apply exchange_structure in H. destruct H as [-> ->]. rewrite map_app, !map_fst_enum_from in Hc2. auto.
Qed.

(* ---- the pair ---------------------------------------------------------------------------------------- *)
(* what a well-formed tree guarantees about two neighbouring nodes a, b with records na, nb *)
Record pair_ok (a : id) (na : node) (b : id) (nb : node) : Prop := {
  po_ne : a <> b;
  po_nda : NoDup (children na);
  po_ndb : NoDup (children nb);
  po_disj : forall x, In x (children na) -> In x (children nb) -> False;
  po_selfa : ~ In a (children na) /\ parent na <> Some a;
  po_selfb : ~ In b (children nb) /\ parent nb <> Some b;
  po_para : forall p, parent na = Some p -> ~ In p (children na) /\ (p <> b -> ~ In p (children nb));
  po_parb : forall p, parent nb = Some p -> ~ In p (children nb) /\ (p <> a -> ~ In p (children na));
  po_adj : (In b (children na) /\ parent nb = Some a /\ ~ In a (children nb) /\ parent na <> Some b)
           \/ (In a (children nb) /\ parent na = Some b /\ ~ In b (children na) /\ parent nb <> Some a);
  po_va : nvirt na <= nlegs na;
  po_vb : nvirt nb <= nlegs nb
}.

Lemma memb_true_In x l : memb x l = true <-> In x l.
Proof.
  unfold memb. rewrite existsb_exists. split.
  - intros (y & Hy & E). apply Nat.eqb_eq in E. subst. exact Hy.
  - intros H. exists x. split; [exact H|apply Nat.eqb_refl].
Qed.
Lemma memb_false_nIn x l : memb x l = false <-> ~ In x l.
Proof. rewrite <- memb_true_In. destruct (memb x l); split; intros; try congruence; try tauto. Qed.

Lemma remove_first_length x l : In x l -> length l = S (length (remove_first x l)).
Proof. intros H. apply remove_first_perm in H. apply Permutation_length in H. exact H. Qed.

Lemma remove_first_NoDup x l : NoDup l -> NoDup (remove_first x l) /\ ~ In x (remove_first x l) /\ incl (remove_first x l) l.
Proof.
  intros Hnd. destruct (in_dec Nat.eq_dec x l) as [Hin|Hnin].
  - pose proof (remove_first_perm x l Hin) as Hp. assert (Hnd' : NoDup (x :: remove_first x l)) by (rewrite <- Hp; exact Hnd).
    inversion Hnd'; subst. repeat split; auto. intros y Hy. rewrite Hp. right. exact Hy.
  - assert (E : remove_first x l = l).
    { clear Hnd. induction l as [|y t IH]; [reflexivity|]. cbn. destruct (Nat.eqb_spec x y) as [->|_]; [exfalso; apply Hnin; left; reflexivity|].
      f_equal. apply IH. intros H. apply Hnin. right. exact H. }
    rewrite E. repeat split; auto. apply incl_refl.
Qed.

(* which neighbours and open legs the two specifications name: the pair's other neighbours, the
   tree parent on the upper node's specification, the root flag on the root's; the open legs are
   those of the contracted node, node1's block first *)
Theorem lbc_names a na b nb u v : pair_ok a na b nb -> lbc_nodes a na b nb = Some (u, v) ->
  ls_open u = seq (nvirt na + nvirt nb - 2) (nopen na) /\
  ls_open v = seq (nvirt na + nvirt nb - 2 + nopen na) (nopen nb) /\
  ((In b (children na) /\
    ls_parent u = parent na /\ ls_children u = remove_first b (children na) /\ ls_root u = is_root na /\
    ls_parent v = None /\ ls_children v = children nb /\ ls_root v = false)
   \/
   (In a (children nb) /\
    ls_parent u = None /\ ls_children u = children na /\ ls_root u = false /\
    ls_parent v = parent nb /\ ls_children v = remove_first a (children nb) /\ ls_root v = is_root nb)).
Proof.
  intros Hok H. unfold lbc_nodes in H. pose proof (po_va _ _ _ _ Hok) as Hva. pose proof (po_vb _ _ _ _ Hok) as Hvb.
  assert (Hv1 : 1 <= nvirt na /\ 1 <= nvirt nb).
  { clear H. destruct (po_adj _ _ _ _ Hok) as [(Hin & Hp & _)|(Hin & Hp & _)]; apply remove_first_length in Hin;
      unfold nvirt, nparents; rewrite Hp; split; destruct (parent na), (parent nb); unfold id in *; lia. }
  assert (Hopen : nlegs na + nlegs nb - 2 - (nvirt na + nvirt nb - 2 + nopen na) = nopen nb).
  { unfold nopen. lia. }
  destruct (po_adj _ _ _ _ Hok) as [(Hin & Hp & Hnin & _)|(Hin & Hp & Hnin & _)].
  - apply memb_false_nIn in Hnin. rewrite Hnin in H. apply memb_true_In in Hin. rewrite Hin in H. injection H as <- <-. cbn.
    rewrite Hopen. split; [reflexivity|]. split; [reflexivity|]. left. apply memb_true_In in Hin.
    repeat split; auto. unfold is_root at 2. rewrite Hp. apply andb_false_r.
  - apply memb_true_In in Hin. rewrite Hin in H. injection H as <- <-. cbn.
    rewrite Hopen. split; [reflexivity|]. split; [reflexivity|]. right. apply memb_true_In in Hin.
    unfold is_root at 1 2. rewrite Hp. cbn. repeat split; auto.
Qed.

(* the two specifications partition the legs of the contracted node *)
Theorem lbc_partition a na b nb u v shp pn cn nn :
  pair_ok a na b nb -> lbc_nodes a na b nb = Some (u, v) ->
  let a_top := memb b (children na) in
  parent pn = parent (if a_top then na else nb) -> children pn = children (if a_top then na else nb) ->
  children cn = children (if a_top then nb else na) ->
  create_contracted_node shp pn cn (if a_top then b else a) a_top = Some nn ->
  exists lu lv, find_leg_values nn u = Some lu /\ find_leg_values nn v = Some lv /\
                Permutation (lu ++ lv) (seq 0 (nlegs na + nlegs nb - 2)).
Proof.
  intros Hok Hl a_top Hpp Hpc Hcc Hn.
  destruct (lbc_names _ _ _ _ _ _ Hok Hl) as (Hou & Hov & Hcase).
  apply create_contracted_node_structure in Hn. destruct Hn as [Hnp Hnc].
  pose proof (po_va _ _ _ _ Hok) as Hva. pose proof (po_vb _ _ _ _ Hok) as Hvb.
  destruct Hcase as [(Hin & Hup & Huc & _ & Hvp & Hvc & _)|(Hin & Hup & Huc & _ & Hvp & Hvc & _)].
  - (* a is the parent *)
    assert (Ha : a_top = true) by (apply memb_true_In; exact Hin). rewrite Ha in *.
    rewrite Hpp in Hnp. rewrite Hpc, Hcc in Hnc.
    destruct (remove_first_NoDup b (children na) (po_nda _ _ _ _ Hok)) as (Hnd1 & Hnb & Hincl).
    assert (Hnd : NoDup (children nn)).
    { rewrite Hnc. apply NoDup_app_intro; auto; [apply (po_ndb _ _ _ _ Hok)|].
      intros x H1 H2. apply (po_disj _ _ _ _ Hok x); auto. }
    assert (Hpar : forall p, parent nn = Some p -> ~ In p (children nn)).
    { intros p Hp. rewrite Hnp in Hp. destruct (po_para _ _ _ _ Hok p Hp) as [H1 H2]. rewrite Hnc. intros Hi.
      apply in_app_or in Hi. destruct Hi as [Hi|Hi]; [apply H1; apply Hincl; exact Hi|].
      apply H2; [|exact Hi]. destruct (po_adj _ _ _ _ Hok) as [(_ & _ & _ & Hx)|(_ & _ & Hx & _)]; congruence. }
    pose proof (neighbour_index_block nn (remove_first b (children na)) [] (children nb) Hnc Hnd Hpar) as B1.
    pose proof (neighbour_index_block nn (children nb) (remove_first b (children na)) [] ltac:(rewrite app_nil_r; exact Hnc) Hnd Hpar) as B2.
    cbn [length] in B1. rewrite Nat.add_0_r in B1.
    unfold find_leg_values. rewrite Huc, Hvc, B1, B2, Hup, Hvp, Hou, Hov.
    eexists. eexists. split; [reflexivity|]. split; [reflexivity|].
    assert (Hnpar : nparents nn = nparents na) by (unfold nparents; rewrite Hnp; reflexivity).
    pose proof (remove_first_length _ _ Hin) as Hlen.
    assert (Hpb : parent nb = Some a) by (destruct (po_adj _ _ _ _ Hok) as [(_ & ? & _)|(_ & _ & ? & _)]; [assumption|contradiction]).
    change (@length id) with (@length nat) in *. set (k1 := @length nat (remove_first b (children na))) in *. set (k2 := @length nat (children nb)) in *.
    assert (Hva' : nvirt na = nparents na + S k1) by (unfold nvirt; change (@length id) with (@length nat); lia).
    assert (Hvb' : nvirt nb = 1 + k2) by (unfold nvirt, nparents; rewrite Hpb; reflexivity).
    assert (Hpl : (match parent na with Some _ => [0] | None => [] end) = seq 0 (nparents na)).
    { unfold nparents. destruct (parent na); reflexivity. }
    rewrite Hpl, Hnpar. cbn [app].
    replace (nvirt na + nvirt nb - 2) with (nparents na + k1 + k2) by lia.
    replace (nlegs na + nlegs nb - 2) with (nparents na + k1 + k2 + nopen na + nopen nb) by (unfold nopen; lia).
    rewrite <- !app_assoc.
    (* seq 0 np ++ seq np k1 ++ seq tv oa ++ seq (np+k1) k2 ++ seq (tv+oa) ob *)
    rewrite (Permutation_app_swap_app (seq (nparents na + k1 + k2) (nopen na)) (seq (nparents na + k1) k2)).
    rewrite !app_assoc. rewrite !seq_app. cbn [Nat.add]. apply Permutation_refl.
  - (* b is the parent *)
    assert (Hnb : ~ In b (children na)) by (destruct (po_adj _ _ _ _ Hok) as [(? & _ & _ & _)|(_ & _ & ? & _)]; [|assumption];
      destruct (po_adj _ _ _ _ Hok) as [(_ & _ & Hx & _)|(_ & _ & Hx & _)]; [contradiction|assumption]).
    assert (Ha : a_top = false) by (apply memb_false_nIn; exact Hnb). rewrite Ha in *.
    rewrite Hpp in Hnp. rewrite Hpc, Hcc in Hnc.
    destruct (remove_first_NoDup a (children nb) (po_ndb _ _ _ _ Hok)) as (Hnd1 & Hna & Hincl).
    assert (Hnd : NoDup (children nn)).
    { rewrite Hnc. apply NoDup_app_intro; auto; [apply (po_nda _ _ _ _ Hok)|].
      intros x H1 H2. apply (po_disj _ _ _ _ Hok x); auto. }
    assert (Hpar : forall p, parent nn = Some p -> ~ In p (children nn)).
    { intros p Hp. rewrite Hnp in Hp. destruct (po_parb _ _ _ _ Hok p Hp) as [H1 H2]. rewrite Hnc. intros Hi.
      apply in_app_or in Hi. destruct Hi as [Hi|Hi]; [|apply H1; apply Hincl; exact Hi].
      apply H2; [|exact Hi]. destruct (po_adj _ _ _ _ Hok) as [(Hx & _)|(_ & _ & _ & Hx)]; [contradiction|congruence]. }
    pose proof (neighbour_index_block nn (children na) [] (remove_first a (children nb)) Hnc Hnd Hpar) as B1.
    pose proof (neighbour_index_block nn (remove_first a (children nb)) (children na) [] ltac:(rewrite app_nil_r; exact Hnc) Hnd Hpar) as B2.
    cbn [length] in B1. rewrite Nat.add_0_r in B1.
    unfold find_leg_values. rewrite Huc, Hvc, B1, B2, Hup, Hvp, Hou, Hov.
    eexists. eexists. split; [reflexivity|]. split; [reflexivity|].
    assert (Hnpar : nparents nn = nparents nb) by (unfold nparents; rewrite Hnp; reflexivity).
    pose proof (remove_first_length _ _ Hin) as Hlen.
    assert (Hpa : parent na = Some b) by (destruct (po_adj _ _ _ _ Hok) as [(? & _)|(_ & ? & _)]; [contradiction|assumption]).
    change (@length id) with (@length nat) in *. set (k2 := @length nat (remove_first a (children nb))) in *. set (k1 := @length nat (children na)) in *.
    assert (Hvb' : nvirt nb = nparents nb + S k2) by (unfold nvirt; change (@length id) with (@length nat); lia).
    assert (Hva' : nvirt na = 1 + k1) by (unfold nvirt, nparents; rewrite Hpa; reflexivity).
    assert (Hpl : (match parent nb with Some _ => [0] | None => [] end) = seq 0 (nparents nb)).
    { unfold nparents. destruct (parent nb); reflexivity. }
    rewrite Hpl, Hnpar. cbn [app].
    replace (nvirt na + nvirt nb - 2) with (nparents nb + k1 + k2) by lia.
    replace (nlegs na + nlegs nb - 2) with (nparents nb + k1 + k2 + nopen na + nopen nb) by (unfold nopen; lia).
    rewrite <- !app_assoc.
    (* seq np k1 ++ seq tv oa ++ seq 0 np ++ seq (np+k1) k2 ++ seq (tv+oa) ob *)
    rewrite perm5.
    rewrite !app_assoc. rewrite !seq_app. cbn [Nat.add]. apply Permutation_refl.
Qed.

(* ---- split_nodes: the parent / children it gives the two new nodes ----------------------------------- *)
Lemma fresh_wires_nodes : forall ds s, nodes (fst (fresh_wires s ds)) = nodes s /\ root (fst (fresh_wires s ds)) = root s.
Proof.
  induction ds as [|d t IH]; intros s; cbn; [auto|].
  destruct (fresh_wires _ t) as [s2 ws] eqn:E. cbn.
  specialize (IH {| nodes := nodes s; tensors := tensors s; root := root s; dims := dims s ++ [(next_wire s, d)];
                    next_wire := S (next_wire s); next_atom := next_atom s; defs := defs s; atab := atab s |}).
  rewrite E in IH. cbn in IH. exact IH.
Qed.

Lemma access_nodes s n s1 nd t : access s n = Some (s1, nd, t) ->
  nodes s1 = aset n nd (nodes s) /\ root s1 = root s /\
  exists nd0, aget n (nodes s) = Some nd0 /\ parent nd = parent nd0 /\ children nd = children nd0.
Proof.
  unfold access. destruct (aget n (nodes s)) as [nd0|] eqn:E; [|discriminate].
  destruct (aget n (tensors s)); [|discriminate]. intros [= <- <- <-]. cbn. repeat split. exists nd0. auto.
Qed.

Lemma aget_adel_other {V} k k2 (l : list (nat * V)) : k2 <> k -> aget k2 (adel k l) = aget k2 l.
Proof.
  intros Hne. induction l as [|[k' v] t IH]; [reflexivity|]. cbn.
  destruct (Nat.eqb_spec k k') as [->|Hk].
  - destruct (Nat.eqb_spec k2 k'); [contradiction|reflexivity].
  - cbn. rewrite IH. reflexivity.
Qed.

Definition risn_step (new old : id) (acc : option (list (id * node))) (x : id) : option (list (id * node)) :=
  match acc with
  | None => None
  | Some l' => match aget x l' with
               | Some xn => match replace_neighbour xn old new with
                            | Some xn' => Some (aset x xn' l')
                            | None => None
                            end
               | None => None
               end
  end.

Lemma risn_unfold l new old ns : replace_in_some_neighbours l new old ns = fold_left (risn_step new old) ns (Some l).
Proof. reflexivity. Qed.

Lemma risn_none new old ns : fold_left (risn_step new old) ns None = None.
Proof. induction ns; [reflexivity|exact IHns]. Qed.

(* nodes that are not among the listed neighbours are not touched *)
Lemma risn_other new old : forall ns l l' k, replace_in_some_neighbours l new old ns = Some l' -> ~ In k ns -> aget k l' = aget k l.
Proof.
  intros ns l l' k H. rewrite risn_unfold in H. revert l H. induction ns as [|x t IH]; intros l H Hk; cbn in H.
  - injection H as <-. reflexivity.
  - destruct (aget x l) as [xn|]; [|rewrite risn_none in H; discriminate].
    destruct (replace_neighbour xn old new) as [xn'|]; [|rewrite risn_none in H; discriminate].
    rewrite (IH _ H) by (intros Hin; apply Hk; right; exact Hin).
    apply aget_aset_other. intros ->. apply Hk. left. reflexivity.
Qed.

Theorem split_nodes_structure s n o i oid iid kind m rb s' :
  split_nodes s n o i oid iid kind m rb = Some s' ->
  n <> oid -> n <> iid ->
  ~ In oid (find_all_neighbour_ids o ++ find_all_neighbour_ids i) ->
  ~ In iid (find_all_neighbour_ids o ++ find_all_neighbour_ids i) ->
  let in_above := ls_root i || (match ls_parent i with Some _ => true | None => false end) in
  exists on inn,
    aget oid (nodes s') = Some on /\ aget iid (nodes s') = Some inn /\ oid <> iid /\
    parent inn = (match ls_parent i with Some p => Some p | None => if ls_root i then None else Some oid end) /\
    children inn = (if in_above then [oid] else []) ++ ls_children i /\
    parent on = (match ls_parent o with Some p => Some p | None => if ls_root o then None else Some iid end) /\
    children on = (if in_above then [] else [iid]) ++ ls_children o /\
    root s' = (if ls_root i then Some iid else if ls_root o then Some oid else root s).
Proof.
  intros H Hno Hni Hoid Hiid in_above.
  unfold split_nodes in H.
  destruct (access s n) as [[[s1 nd] t]|] eqn:Hacc; [|discriminate].
  destruct (find_leg_values nd o) as [ol|]; [|discriminate].
  destruct (find_leg_values nd i) as [il|]; [|discriminate].
  match type of H with (if ?c then None else _) = _ => destruct c; [discriminate|] end.
  destruct (Nat.eqb_spec oid iid) as [|Hoi]; [discriminate|].
  match type of H with (if ?c then None else _) = _ => destruct c; [discriminate|] end.
  match type of H with (let '(_, _) := ?e in _) = _ => destruct e as [s2 bw] eqn:Hfw end.
  unfold fresh_atom in H. cbv beta iota zeta in H.
  repeat match type of H with (if ?c then None else _) = _ => destruct c; [discriminate|] end.
  match type of H with match ?e with Some _ => _ | None => None end = _ => destruct e as [in1|] eqn:Hin1; [|discriminate] end.
  match type of H with match ?e with Some _ => _ | None => None end = _ => destruct e as [in2|] eqn:Hin2; [|discriminate] end.
  match type of H with match ?e with Some _ => _ | None => None end = _ => destruct e as [on1|] eqn:Hon1; [|discriminate] end.
  match type of H with match ?e with Some _ => _ | None => None end = _ => destruct e as [on2|] eqn:Hon2; [|discriminate] end.
  match type of H with match ?e with Some _ => _ | None => None end = _ => destruct e as [l1|] eqn:Hl1; [|discriminate] end.
  match type of H with match ?e with Some _ => _ | None => None end = _ => destruct e as [l2|] eqn:Hl2; [|discriminate] end.
  destruct (Nat.eqb_spec n oid) as [|_]; [contradiction|]. destruct (Nat.eqb_spec n iid) as [|_]; [contradiction|].
  cbn [orb] in H. injection H as <-.
  cbn [nodes root upd_tensors upd_nodes set_root add_def] in *.
  apply open_legs_to_children_structure in Hin2, Hon2. destruct Hin2 as [Hin2p Hin2c]. destruct Hon2 as [Hon2p Hon2c].
  exists on2, in2.
  assert (Ho : aget oid (adel n l2) = Some on2).
  { rewrite aget_adel_other by congruence.
    rewrite (risn_other _ _ _ _ _ _ Hl2) by (intros Hx; apply Hoid; apply in_or_app; right; exact Hx).
    rewrite (risn_other _ _ _ _ _ _ Hl1) by (intros Hx; apply Hoid; apply in_or_app; left; exact Hx).
    rewrite aget_aset_other by congruence. apply aget_aset_same. }
  assert (Hi : aget iid (adel n l2) = Some in2).
  { rewrite aget_adel_other by congruence.
    rewrite (risn_other _ _ _ _ _ _ Hl2) by (intros Hx; apply Hiid; apply in_or_app; right; exact Hx).
    rewrite (risn_other _ _ _ _ _ _ Hl1) by (intros Hx; apply Hiid; apply in_or_app; left; exact Hx).
    apply aget_aset_same. }
  split; [exact Ho|]. split; [exact Hi|]. split; [exact Hoi|].
  rewrite Hin2p, Hin2c, Hon2p, Hon2c. rewrite !map_app, !map_fst_enum_from.
  destruct (access_nodes _ _ _ _ _ Hacc) as (_ & Hr1 & _). match type of Hfw with fresh_wires ?a ?b = _ => pose proof (fresh_wires_nodes b a) as Hfw' end. rewrite Hfw in Hfw'. cbn [fst] in Hfw'.
  destruct Hfw' as [_ Hr2].
  subst in_above.
  destruct (ls_parent i) as [ip|], (ls_root i), (ls_parent o) as [op|], (ls_root o); cbn [orb andb negb] in *;
    try discriminate;
    repeat match goal with
           | Hx : open_leg_to_parent _ _ _ = Some _ |- _ => apply open_leg_to_parent_structure in Hx; cbn in Hx; destruct Hx as [? ?]
           | Hx : Some _ = Some _ |- _ => injection Hx as <-
           end;
    repeat match goal with Hx : children _ = [] |- _ => rewrite Hx end;
    cbn [map fst app parent children new_node];
    repeat split; try congruence.
Qed.

Lemma in_nbr_ids x ls : In x (find_all_neighbour_ids ls) <-> ls_parent ls = Some x \/ In x (ls_children ls).
Proof.
  unfold find_all_neighbour_ids. rewrite in_app_iff. destruct (ls_parent ls) as [p|]; cbn; split.
  - intros [[->|[]]|H]; auto.
  - intros [[= ->]|H]; auto.
  - intros [[]|H]; auto.
  - intros [H|H]; [discriminate|auto].
Qed.

(* the split with the recorded specifications gives both nodes back: same identifiers, the same
   parent, the same children up to order (the partner comes first), the root where it was *)
Theorem two_site_split_restores s2 contr a na b nb u v kind m rb s3 :
  pair_ok a na b nb -> lbc_nodes a na b nb = Some (u, v) ->
  contr <> a -> contr <> b ->
  split_nodes s2 contr u v a b kind m rb = Some s3 ->
  exists na' nb', aget a (nodes s3) = Some na' /\ aget b (nodes s3) = Some nb' /\
    parent na' = parent na /\ Permutation (children na') (children na) /\
    parent nb' = parent nb /\ Permutation (children nb') (children nb) /\
    root s3 = (if is_root na then Some a else if is_root nb then Some b else root s2).
Proof.
  intros Hok Hl Hca Hcb Hs.
  destruct (lbc_names _ _ _ _ _ _ Hok Hl) as (_ & _ & Hcase).
  destruct (remove_first_NoDup b (children na) (po_nda _ _ _ _ Hok)) as (_ & Hrb & Hib).
  destruct (remove_first_NoDup a (children nb) (po_ndb _ _ _ _ Hok)) as (_ & Hra & Hia).
  destruct (po_selfa _ _ _ _ Hok) as [Hsa1 Hsa2]. destruct (po_selfb _ _ _ _ Hok) as [Hsb1 Hsb2].
  assert (Hna : ~ In a (find_all_neighbour_ids u ++ find_all_neighbour_ids v)).
  { rewrite in_app_iff, !in_nbr_ids.
    destruct Hcase as [(Hin & -> & -> & _ & -> & -> & _)|(Hin & -> & -> & _ & -> & -> & _)].
    - destruct (po_adj _ _ _ _ Hok) as [(_ & _ & Hx & _)|(_ & _ & Hx & _)]; [|contradiction].
      intros [[H|H]|[H|H]]; try discriminate; auto.
    - destruct (po_adj _ _ _ _ Hok) as [(Hx & _)|(_ & _ & _ & Hx)].
      + destruct (po_adj _ _ _ _ Hok) as [(_ & _ & Hy & _)|(_ & _ & Hy & _)]; contradiction.
      + intros [[H|H]|[H|H]]; try discriminate; auto. }
  assert (Hnb : ~ In b (find_all_neighbour_ids u ++ find_all_neighbour_ids v)).
  { rewrite in_app_iff, !in_nbr_ids.
    destruct Hcase as [(Hin & -> & -> & _ & -> & -> & _)|(Hin & -> & -> & _ & -> & -> & _)].
    - destruct (po_adj _ _ _ _ Hok) as [(_ & _ & _ & Hx)|(_ & _ & Hx & _)]; [|contradiction].
      intros [[H|H]|[H|H]]; try discriminate; auto.
    - destruct (po_adj _ _ _ _ Hok) as [(_ & _ & Hy & _)|(_ & _ & Hx & _)]; [contradiction|].
      intros [[H|H]|[H|H]]; try discriminate; auto. }
  destruct (split_nodes_structure _ _ _ _ _ _ _ _ _ _ Hs Hca Hcb Hna Hnb) as (on & inn & Ho & Hi & _ & Hip & Hic & Hop & Hoc & Hr).
  exists on, inn. split; [exact Ho|]. split; [exact Hi|].
  destruct Hcase as [(Hin & Hup & Huc & Hur & Hvp & Hvc & Hvr)|(Hin & Hup & Huc & Hur & Hvp & Hvc & Hvr)];
    rewrite Hup, Huc, Hur, Hvp, Hvc, Hvr in *; cbn [orb] in *.
  - (* a above b *)
    assert (Hpb : parent nb = Some a) by (destruct (po_adj _ _ _ _ Hok) as [(_ & ? & _)|(_ & _ & ? & _)]; [assumption|contradiction]).
    rewrite Hip, Hic, Hop, Hoc, Hr. cbn [app]. repeat split.
    + unfold is_root. destruct (parent na); reflexivity.
    + symmetry. apply remove_first_perm. exact Hin.
    + symmetry. exact Hpb.
    + apply Permutation_refl.
    + unfold is_root. rewrite Hpb. destruct (parent na); reflexivity.
  - (* b above a *)
    assert (Hpa : parent na = Some b) by (destruct (po_adj _ _ _ _ Hok) as [(? & _)|(_ & ? & _)]; [|assumption];
      destruct (po_adj _ _ _ _ Hok) as [(_ & _ & Hy & _)|(_ & _ & Hy & _)]; contradiction).
    assert (Hab : is_root nb || match parent nb with Some _ => true | None => false end = true)
      by (unfold is_root; destruct (parent nb); reflexivity).
    rewrite Hab in *. rewrite Hip, Hic, Hop, Hoc, Hr. cbn [app]. repeat split.
    + symmetry. exact Hpa.
    + apply Permutation_refl.
    + unfold is_root. destruct (parent nb); reflexivity.
    + symmetry. apply remove_first_perm. exact Hin.
    + unfold is_root. rewrite Hpa. destruct (parent nb); reflexivity.
Qed.

(* ---- the same statements on the store programs ------------------------------------------------------ *)
Lemma access_node_record s n s1 nd t nd0 : access s n = Some (s1, nd, t) -> aget n (nodes s) = Some nd0 ->
  parent nd = parent nd0 /\ children nd = children nd0.
Proof.
  intros H H0. destruct (access_nodes _ _ _ _ _ H) as (_ & _ & nd1 & E & Hp & Hc). rewrite H0 in E. injection E as <-. auto.
Qed.

(* after contract_nodes the node stored under the new identifier is the one _create_contracted_node
   built, and the specifications recorded BEFORE the contraction partition its legs *)
Theorem contract_specs_partition s a b c s1 na nb u v :
  aget a (nodes s) = Some na -> aget b (nodes s) = Some nb -> pair_ok a na b nb ->
  legs_before_combination s a b = Some (u, v) -> contract_nodes s a b c = Some s1 ->
  exists nn lu lv, aget c (nodes s1) = Some nn /\ find_leg_values nn u = Some lu /\ find_leg_values nn v = Some lv /\
                   Permutation (lu ++ lv) (seq 0 (nlegs na + nlegs nb - 2)).
Proof.
  intros Ha Hb Hok Hl Hc. unfold legs_before_combination in Hl. rewrite Ha, Hb in Hl.
  unfold contract_nodes in Hc. unfold determine_parentage in Hc. rewrite Ha, Hb in Hc.
  assert (Hne : a <> b) by apply (po_ne _ _ _ _ Hok).
  destruct (po_adj _ _ _ _ Hok) as [(Hin & Hpb & Hnin & Hpa)|(Hin & Hpa & Hnin & Hpb)].
  - (* a is the parent *)
    rewrite Hpb, Nat.eqb_refl in Hc.
    destruct (access s a) as [[[s' pn] pt]|] eqn:A1; [|discriminate].
    destruct (access s' b) as [[[s'' cn] ct]|] eqn:A2; [|discriminate].
    destruct (neighbour_index pn b); [|discriminate]. destruct (s_tensordot pt ct _ 0) as [nt|]; [|discriminate].
    rewrite Nat.eqb_refl in Hc.
    destruct (create_contracted_node _ pn cn b true) as [nn|] eqn:Hn; [|discriminate].
    destruct (replace_node_in_neighbours _ c a true); [|discriminate]. destruct (replace_node_in_neighbours _ c b true); [|discriminate].
    injection Hc as <-. cbn [nodes upd_nodes].
    destruct (access_node_record _ _ _ _ _ _ A1 Ha) as [Hpp Hpc].
    assert (Hb' : aget b (nodes s') = Some nb).
    { destruct (access_nodes _ _ _ _ _ A1) as (-> & _). rewrite aget_aset_other by congruence. exact Hb. }
    destruct (access_node_record _ _ _ _ _ _ A2 Hb') as [_ Hcc].
    assert (Htop : memb b (children na) = true) by (apply memb_true_In; exact Hin).
    pose proof (fun shp => lbc_partition a na b nb u v shp pn cn nn Hok Hl) as P. cbv zeta in P. rewrite Htop in P.
    destruct (P _ Hpp Hpc Hcc Hn) as (lu & lv & H1 & H2 & H3).
    exists nn, lu, lv. split; [apply aget_aset_same|]. auto.
  - (* b is the parent *)
    assert (E1 : (match parent nb with Some p => Nat.eqb p a | None => false end) = false).
    { destruct (parent nb) as [p|]; [|reflexivity]. apply Nat.eqb_neq. congruence. }
    rewrite E1, Hpa, Nat.eqb_refl in Hc.
    destruct (access s b) as [[[s' pn] pt]|] eqn:A1; [|discriminate].
    destruct (access s' a) as [[[s'' cn] ct]|] eqn:A2; [|discriminate].
    destruct (neighbour_index pn a); [|discriminate]. destruct (s_tensordot pt ct _ 0) as [nt|]; [|discriminate].
    assert (E2 : Nat.eqb b a = false) by (apply Nat.eqb_neq; congruence). rewrite E2 in Hc.
    destruct (create_contracted_node _ pn cn a false) as [nn|] eqn:Hn; [|discriminate].
    destruct (replace_node_in_neighbours _ c b true); [|discriminate]. destruct (replace_node_in_neighbours _ c a true); [|discriminate].
    injection Hc as <-. cbn [nodes upd_nodes].
    destruct (access_node_record _ _ _ _ _ _ A1 Hb) as [Hpp Hpc].
    assert (Ha' : aget a (nodes s') = Some na).
    { destruct (access_nodes _ _ _ _ _ A1) as (-> & _). rewrite aget_aset_other by congruence. exact Ha. }
    destruct (access_node_record _ _ _ _ _ _ A2 Ha') as [_ Hcc].
    assert (Htop : memb b (children na) = false) by (apply memb_false_nIn; exact Hnin).
    pose proof (fun shp => lbc_partition a na b nb u v shp pn cn nn Hok Hl) as P. cbv zeta in P. rewrite Htop in P.
    destruct (P _ Hpp Hpc Hcc Hn) as (lu & lv & H1 & H2 & H3).
    exists nn, lu, lv. split; [apply aget_aset_same|]. auto.
Qed.

(* TEBD._apply_one_trotter_step_two_site restores both nodes *)
Theorem two_site_gate_restores contr s a b g s1 s2 s3 na nb :
  aget a (nodes s) = Some na -> aget b (nodes s) = Some nb -> pair_ok a na b nb ->
  contr <> a -> contr <> b ->
  two_site_stages contr s a b g = Some (s1, s2, s3) ->
  exists na' nb', aget a (nodes s3) = Some na' /\ aget b (nodes s3) = Some nb' /\
    parent na' = parent na /\ Permutation (children na') (children na) /\
    parent nb' = parent nb /\ Permutation (children nb') (children nb) /\
    root s3 = (if is_root na then Some a else if is_root nb then Some b else root s2).
Proof.
  intros Ha Hb Hok Hca Hcb H. unfold two_site_stages in H.
  destruct (legs_before_combination s a b) as [[u v]|] eqn:Hl; [|discriminate].
  destruct (contract_nodes s a b contr) as [t1|]; [|discriminate].
  destruct (absorb_open t1 contr (t_shape g)) as [t2|]; [|discriminate].
  destruct (split_nodes t2 contr u v a b (t_kind g) Reduced (t_bond g)) as [t3|] eqn:Hs; [|discriminate].
  injection H as <- <- <-. unfold legs_before_combination in Hl. rewrite Ha, Hb in Hl.
  eapply two_site_split_restores; eauto.
Qed.

(* ---- the executable form of pair_ok is sound ------------------------------------------------------------ *)
Lemma nodupb_sound l : nodupb l = true -> NoDup l.
Proof.
  induction l as [|x t IH]; intros H; [constructor|]. cbn in H. apply andb_true_iff in H. destruct H as [H1 H2].
  constructor; [|auto]. apply negb_true_iff in H1. apply memb_false_nIn. exact H1.
Qed.

Lemma opt_id_eqb_spec a b : opt_id_eqb a b = true <-> a = b.
Proof.
  destruct a as [x|], b as [y|]; cbn; split; intros H; try discriminate; try reflexivity.
  - apply Nat.eqb_eq in H. congruence.
  - injection H as ->. apply Nat.eqb_refl.
Qed.
Lemma opt_id_neqb_spec a b : negb (opt_id_eqb a b) = true <-> a <> b.
Proof. rewrite negb_true_iff. rewrite <- opt_id_eqb_spec. destruct (opt_id_eqb a b); split; congruence. Qed.
Lemma nmemb_spec x l : negb (memb x l) = true <-> ~ In x l.
Proof. rewrite negb_true_iff. apply memb_false_nIn. Qed.

Theorem pair_okb_sound a na b nb : pair_okb a na b nb = true -> pair_ok a na b nb.
Proof.
  unfold pair_okb. rewrite !andb_true_iff.
  intros [[[[[[[[[[[[H1 H2] H3] H4] H5] H6] H7] H8] H9] H10] H11] H12] H13].
  constructor.
  - apply negb_true_iff, Nat.eqb_neq in H1. exact H1.
  - apply nodupb_sound. exact H2.
  - apply nodupb_sound. exact H3.
  - intros x Hx Hy. rewrite forallb_forall in H4. specialize (H4 x Hx). apply nmemb_spec in H4. contradiction.
  - split; [apply nmemb_spec; exact H5|apply opt_id_neqb_spec; exact H6].
  - split; [apply nmemb_spec; exact H7|apply opt_id_neqb_spec; exact H8].
  - intros p Hp. rewrite Hp in H9. apply andb_true_iff in H9. destruct H9 as [Ha Hb]. split; [apply nmemb_spec; exact Ha|].
    intros Hne. apply orb_true_iff in Hb. destruct Hb as [Hb|Hb]; [apply Nat.eqb_eq in Hb; contradiction|apply nmemb_spec; exact Hb].
  - intros p Hp. rewrite Hp in H10. apply andb_true_iff in H10. destruct H10 as [Ha Hb]. split; [apply nmemb_spec; exact Ha|].
    intros Hne. apply orb_true_iff in Hb. destruct Hb as [Hb|Hb]; [apply Nat.eqb_eq in Hb; contradiction|apply nmemb_spec; exact Hb].
  - apply orb_true_iff in H11. rewrite !andb_true_iff in H11.
    destruct H11 as [[[[Ha Hb] Hc] Hd]|[[[Ha Hb] Hc] Hd]]; [left|right];
      (split; [apply memb_true_In; exact Ha|]); (split; [apply opt_id_eqb_spec; exact Hb|]);
      (split; [apply nmemb_spec; exact Hc|apply opt_id_neqb_spec; exact Hd]).
  - apply Nat.leb_le. exact H12.
  - apply Nat.leb_le. exact H13.
Qed.

(* ---- one step is the ordered composition of its gates --------------------------------------------------- *)
Theorem tebd_step_app contr : forall gs1 gs2 s,
  tebd_step contr s (gs1 ++ gs2) = match tebd_step contr s gs1 with Some s' => tebd_step contr s' gs2 | None => None end.
Proof.
  induction gs1 as [|g t IH]; intros gs2 s; cbn; [reflexivity|].
  destruct (apply_gate contr s g) as [s'|]; [apply IH|reflexivity].
Qed.

Fixpoint tebd_steps (contr : id) (n : nat) (s : store) (gs : list tgate) : option store :=
  match n with
  | O => Some s
  | S n' => match tebd_step contr s gs with Some s' => tebd_steps contr n' s' gs | None => None end
  end.

(* several time steps = the gate list repeated *)
Theorem tebd_steps_repeat contr gs : forall n s, tebd_step contr s (repeat_list n gs) = tebd_steps contr n s gs.
Proof.
  induction n as [|n IH]; intros s; cbn; [reflexivity|]. rewrite tebd_step_app.
  destruct (tebd_step contr s gs) as [s'|]; [apply IH|reflexivity].
Qed.

(* ---- absorb_into_open_legs on the diagram ----------------------------------------------------------------- *)
Lemma fresh_wires_spec : forall ds s, 
  let r := fresh_wires s ds in
  snd r = seq (next_wire s) (length ds) /\ tensors (fst r) = tensors s /\ next_atom (fst r) = next_atom s /\ atab (fst r) = atab s.
Proof.
  induction ds as [|d t IH]; intros s; cbn; [auto|].
  specialize (IH {| nodes := nodes s; tensors := tensors s; root := root s; dims := dims s ++ [(next_wire s, d)];
                    next_wire := S (next_wire s); next_atom := next_atom s; defs := defs s; atab := atab s |}).
  destruct (fresh_wires _ t) as [s2 ws]. cbn in *. destruct IH as (-> & -> & -> & ->). auto.
Qed.

(* the gate becomes one fresh atom whose input axes sit on the node's old open wires, in order, and
   whose output axes are fresh wires that take the places of the open legs; virtual legs, the
   node record of every node other than the accessed one, and all other tensors are untouched *)
Theorem absorb_open_spec s n gshape s' : absorb_open s n gshape = Some s' ->
  exists s1 nd t,
    access s n = Some (s1, nd, t) /\
    length gshape = 2 * nopen nd /\ firstn (nopen nd) gshape = skipn (nopen nd) gshape /\
    map (wdim s) (skipn (nvirt nd) (axes t)) = skipn (nopen nd) gshape /\
    let oldw := skipn (nvirt nd) (axes t) in
    let neww := seq (next_wire s1) (nopen nd) in
    nodes s' = nodes s1 /\ root s' = root s1 /\
    aget n (tensors s') = Some {| axes := firstn (nvirt nd) (axes t) ++ neww; atoms := atoms t ++ [next_atom s1]; bnd := oldw ++ bnd t |} /\
    (forall k, k <> n -> aget k (tensors s') = aget k (tensors s1)) /\
    atab s' = atab s1 ++ [(next_atom s1, neww ++ oldw)].
Proof.
  unfold absorb_open. destruct (access s n) as [[[s1 nd] t]|] eqn:Hacc; [|discriminate].
  destruct (Nat.eqb_spec (length gshape) (2 * nopen nd)) as [Hlen|]; [|discriminate]. cbn [negb].
  destruct (list_eqb (firstn (nopen nd) gshape) (skipn (nopen nd) gshape)) eqn:Hsq; [|discriminate]. cbn [negb].
  destruct (list_eqb (map (wdim s) (skipn (nvirt nd) (axes t))) (skipn (nopen nd) gshape)) eqn:Hdim; [|discriminate]. cbn [negb].
  pose proof (fresh_wires_spec (firstn (nopen nd) gshape) s1) as Hfw. pose proof (fresh_wires_nodes (firstn (nopen nd) gshape) s1) as Hfn.
  destruct (fresh_wires s1 (firstn (nopen nd) gshape)) as [s2 neww]. cbn in Hfw, Hfn. destruct Hfw as (-> & Ht & Ha & Hab). destruct Hfn as [Hn Hr].
  unfold fresh_atom. intros [= <-]. exists s1, nd, t. split; [reflexivity|].
  assert (Hl : length (firstn (nopen nd) gshape) = nopen nd) by (rewrite firstn_length; lia).
  assert (list_eqb_eq : forall x y, list_eqb x y = true -> x = y).
  { unfold list_eqb. induction x as [|p x IH]; intros [|q y] H; cbn in H; try discriminate; [reflexivity|].
    apply andb_true_iff in H. destruct H as [H1 H2]. apply andb_true_iff in H2. destruct H2 as [H2 H3].
    cbn in H2. apply Nat.eqb_eq in H2. subst. f_equal. apply IH. apply andb_true_iff. split; [|exact H3].
    cbn in H1. exact H1. }
  apply list_eqb_eq in Hsq, Hdim. rewrite Hl. cbn.
  repeat split; auto.
  - rewrite Ht, Ha. apply aget_aset_same.
  - intros k Hk. rewrite Ht. apply aget_aset_other. exact Hk.
  - rewrite Hab, Ha. reflexivity.
Qed.

(* ---- the truncation bound (from the C10 model of truncate_singular_values) -------------------------------- *)
From PTN Require Trunc.Select Trunc.SelectProofs.
Theorem bond_bounded (p : Select.params) (s : list QArith_base.Q) (m : nat) :
  s <> [] -> SelectProofs.descending s -> SelectProofs.bond_ok (Select.max_bond p) -> Select.max_bond p = Select.BFin m ->
  1 <= length (fst (Select.select p s)) <= m /\ length (fst (Select.select p s)) <= length s.
Proof.
  intros Hs Hd Hb Hm. destruct (SelectProofs.select_spec p s Hs Hd Hb) as ((H1 & H2) & _ & _ & H3).
  specialize (H3 m Hm). lia.
Qed.

Lemma NoDup_app_l {A} (a b : list A) : NoDup (a ++ b) -> NoDup a.
Proof. induction a as [|x t IH]; intros H; [constructor|]. cbn in H. inversion H; subst. constructor; [|auto]. intros Hi. apply H2. apply in_or_app. left. exact Hi. Qed.
Lemma NoDup_app_r {A} (a b : list A) : NoDup (a ++ b) -> NoDup b.
Proof. induction a as [|x t IH]; intros H; [exact H|]. cbn in H. inversion H; subst. auto. Qed.

(* ---- split_nodes: who else changes -------------------------------------------------------------------------- *)
Lemma risn_hit new old : forall ns l l' x xn, NoDup ns -> In x ns ->
  replace_in_some_neighbours l new old ns = Some l' -> aget x l = Some xn ->
  exists xn', replace_neighbour xn old new = Some xn' /\ aget x l' = Some xn'.
Proof.
  induction ns as [|h t IH]; intros l l' x xn Hnd Hin H Hx; [destruct Hin|].
  inversion Hnd as [|? ? Hnh Hnd']; subst. rewrite risn_unfold in H. cbn in H.
  destruct (aget h l) as [hn|] eqn:Eh; [|rewrite risn_none in H; discriminate].
  destruct (replace_neighbour hn old new) as [hn'|] eqn:Er; [|rewrite risn_none in H; discriminate].
  rewrite <- risn_unfold in H. destruct Hin as [->|Hin].
  - rewrite Hx in Eh. injection Eh as <-. exists hn'. split; [exact Er|].
    rewrite (risn_other _ _ _ _ _ _ H Hnh). apply aget_aset_same.
  - apply (IH _ _ x xn Hnd' Hin H). rewrite aget_aset_other; [exact Hx|]. intros ->. contradiction.
Qed.

(* the split rewires exactly the neighbours the two specifications name — each one's pointer to
   the old node becomes a pointer to the new node on its side — and changes no other node *)
Theorem split_nodes_neighbours s n o i oid iid kind m rb s' :
  split_nodes s n o i oid iid kind m rb = Some s' ->
  n <> oid -> n <> iid ->
  NoDup (find_all_neighbour_ids o ++ find_all_neighbour_ids i) ->
  ~ In n (find_all_neighbour_ids o ++ find_all_neighbour_ids i) ->
  ~ In oid (find_all_neighbour_ids o ++ find_all_neighbour_ids i) ->
  ~ In iid (find_all_neighbour_ids o ++ find_all_neighbour_ids i) ->
  (forall x xn, In x (find_all_neighbour_ids o) -> aget x (nodes s) = Some xn ->
     exists xn', replace_neighbour xn n oid = Some xn' /\ aget x (nodes s') = Some xn') /\
  (forall x xn, In x (find_all_neighbour_ids i) -> aget x (nodes s) = Some xn ->
     exists xn', replace_neighbour xn n iid = Some xn' /\ aget x (nodes s') = Some xn') /\
  (forall k, k <> n -> k <> oid -> k <> iid -> ~ In k (find_all_neighbour_ids o ++ find_all_neighbour_ids i) ->
     aget k (nodes s') = aget k (nodes s)).
Proof.
  intros H Hno Hni Hnd Hn Hoid Hiid.
  unfold split_nodes in H.
  destruct (access s n) as [[[s1 nd] t]|] eqn:Hacc; [|discriminate].
  destruct (find_leg_values nd o) as [ol|]; [|discriminate].
  destruct (find_leg_values nd i) as [il|]; [|discriminate].
  match type of H with (if ?c then None else _) = _ => destruct c; [discriminate|] end.
  destruct (Nat.eqb_spec oid iid) as [|Hoi]; [discriminate|].
  match type of H with (if ?c then None else _) = _ => destruct c; [discriminate|] end.
  match type of H with (let '(_, _) := ?e in _) = _ => destruct e as [s2 bw] eqn:Hfw end.
  unfold fresh_atom in H. cbv beta iota zeta in H.
  repeat match type of H with (if ?c then None else _) = _ => destruct c; [discriminate|] end.
  match type of H with match ?e with Some _ => _ | None => None end = _ => destruct e as [in1|] eqn:Hin1; [|discriminate] end.
  match type of H with match ?e with Some _ => _ | None => None end = _ => destruct e as [in2|] eqn:Hin2; [|discriminate] end.
  match type of H with match ?e with Some _ => _ | None => None end = _ => destruct e as [on1|] eqn:Hon1; [|discriminate] end.
  match type of H with match ?e with Some _ => _ | None => None end = _ => destruct e as [on2|] eqn:Hon2; [|discriminate] end.
  match type of H with match ?e with Some _ => _ | None => None end = _ => destruct e as [l1|] eqn:Hl1; [|discriminate] end.
  match type of H with match ?e with Some _ => _ | None => None end = _ => destruct e as [l2|] eqn:Hl2; [|discriminate] end.
  destruct (Nat.eqb_spec n oid) as [|_]; [contradiction|]. destruct (Nat.eqb_spec n iid) as [|_]; [contradiction|].
  cbn [orb] in H. injection H as <-.
  cbn [nodes root upd_tensors upd_nodes set_root add_def] in *.
  clear Hin1 Hin2 Hon1 Hon2.
  match type of Hfw with fresh_wires ?a ?b = _ => pose proof (fresh_wires_nodes b a) as Hfw' end. rewrite Hfw in Hfw'. cbn [fst] in Hfw'.
  destruct Hfw' as [Hn2 _]. rewrite Hn2 in Hl1.
  destruct (access_nodes _ _ _ _ _ Hacc) as (Hn1 & _ & _). rewrite Hn1 in Hl1.
  assert (Hbase : forall k, k <> n -> k <> oid -> k <> iid ->
            aget k (aset iid in2 (aset oid on2 (aset n nd (nodes s)))) = aget k (nodes s)).
  { intros k H1 H2 H3. rewrite !aget_aset_other by assumption. reflexivity. }
  pose proof (NoDup_app_r _ _ Hnd) as Hndi. pose proof (NoDup_app_l _ _ Hnd) as Hndo.
  repeat split.
  - intros x xn Hx Hxn.
    assert (x <> n /\ x <> oid /\ x <> iid) as (X1 & X2 & X3).
    { repeat split; intros ->; [apply Hn|apply Hoid|apply Hiid]; apply in_or_app; left; exact Hx. }
    destruct (risn_hit _ _ _ _ _ x xn Hndo Hx Hl1) as (xn' & Hr & Hg); [rewrite Hbase; assumption|].
    exists xn'. split; [exact Hr|]. rewrite aget_adel_other by exact X1.
    rewrite (risn_other _ _ _ _ _ _ Hl2); [exact Hg|].
    intros Hxi. revert Hnd Hx Hxi. clear. intros Hnd Hx Hxi.
    induction (find_all_neighbour_ids o) as [|h t IH]; [destruct Hx|]. cbn in Hnd. inversion Hnd; subst.
    destruct Hx as [->|Hx]; [apply H1; apply in_or_app; right; exact Hxi|auto].
  - intros x xn Hx Hxn.
    assert (x <> n /\ x <> oid /\ x <> iid) as (X1 & X2 & X3).
    { repeat split; intros ->; [apply Hn|apply Hoid|apply Hiid]; apply in_or_app; right; exact Hx. }
    assert (Hxo : ~ In x (find_all_neighbour_ids o)).
    { intros Hxo. revert Hnd Hx Hxo. clear. intros Hnd Hx Hxo.
      induction (find_all_neighbour_ids o) as [|h t IH]; [destruct Hxo|]. cbn in Hnd. inversion Hnd; subst.
      destruct Hxo as [->|Hxo]; [apply H1; apply in_or_app; right; exact Hx|auto]. }
    destruct (risn_hit _ _ _ _ _ x xn Hndi Hx Hl2) as (xn' & Hr & Hg).
    { rewrite (risn_other _ _ _ _ _ _ Hl1 Hxo). rewrite Hbase; assumption. }
    exists xn'. split; [exact Hr|]. rewrite aget_adel_other by exact X1. exact Hg.
  - intros k K1 K2 K3 K4. rewrite aget_adel_other by exact K1.
    rewrite (risn_other _ _ _ _ _ _ Hl2) by (intros Hx; apply K4; apply in_or_app; right; exact Hx).
    rewrite (risn_other _ _ _ _ _ _ Hl1) by (intros Hx; apply K4; apply in_or_app; left; exact Hx).
    apply Hbase; assumption.
Qed.
