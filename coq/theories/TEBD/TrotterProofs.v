(* Proofs about the TEBD / Trotter model (TEBD/Trotter.v), property C08. *)
From Coq Require Import List Arith Bool ZArith Lia Permutation.
From PTN Require Import TTN.Store TTN.StoreProofs TEBD.Trotter.
Import ListNotations.

(* ================================================================================================ *)
(* generic list facts                                                                                 *)
(* ================================================================================================ *)
Lemma all_some_Forall2 {A B} (f : A -> option B) (l : list A) (r : list B) :
  all_some (map f l) = Some r -> Forall2 (fun x y => f x = Some y) l r.
Proof.
  revert r. induction l as [|x t IH]; intros r H; cbn in H.
  - injection H as <-. constructor.
  - destruct (f x) as [y|] eqn:E; [|discriminate].
    destruct (all_some (map f t)) as [r'|] eqn:E2; [|discriminate]. cbn in H. injection H as <-.
    constructor; auto.
Qed.

Lemma all_some_map_Some {A} (l : list A) : all_some (map Some l) = Some l.
Proof. induction l as [|x t IH]; cbn; [reflexivity|]. rewrite IH. reflexivity. Qed.

Lemma all_some_length {A} (l : list (option A)) r : all_some l = Some r -> length r = length l.
Proof.
  revert r. induction l as [|[x|] t IH]; intros r H; cbn in H; try discriminate.
  - injection H as <-. reflexivity.
  - destruct (all_some t) as [r'|]; [|discriminate]. cbn in H. injection H as <-. cbn. f_equal. auto.
Qed.

Lemma Forall2_map_l {A B C} (P : A -> B -> Prop) (g : B -> C) (h : A -> C) l r :
  Forall2 P l r -> (forall x y, P x y -> g y = h x) -> map g r = map h l.
Proof. intros H Hp. induction H; cbn; [reflexivity|]. f_equal; auto. Qed.

(* ================================================================================================ *)
(* Part 1: the splitting                                                                              *)
(* ================================================================================================ *)
Section SplittingProofs.
  Context {F M : Type}.
  Variable one : F.
  Variable mdim : M -> nat.

  Definition pair_ids (p : id * id) : list id := [fst p; snd p].

  (* what identifies a gate: kind, identifiers in the order returned, factor (exp gates) *)
  Definition gsig (g : gate F M) : gkind * list id * option F := (g_kind g, g_ids g, g_factor g).
  Definition step_sigs (st : tstep F M) : list (gkind * list id * option F) :=
    map (fun p => (KSwap, pair_ids p, None)) (ts_before st)
    ++ [(KExp, akeys (ts_op st), Some (ts_factor st))]
    ++ map (fun p => (KSwap, pair_ids p, None)) (ts_after st).

  Lemma swap_op_sig ds p g : swap_op ds p = Some g -> gsig g = (KSwap, pair_ids p, None) /\ g_shape g = [g_dim g; g_dim g; g_dim g; g_dim g] /\ g_dim g <> 0.
  Proof.
    unfold swap_op. destruct (swap_dim ds p) as [d|]; [|discriminate].
    destruct (Nat.eqb_spec d 0); [discriminate|]. intros [= <-]. cbn. auto.
  Qed.

  Lemma swap_ops_sigs ds l gs : swap_ops ds l = Some gs -> map gsig gs = map (fun p => (KSwap, pair_ids p, None)) l.
  Proof.
    intros H. apply all_some_Forall2 in H.
    apply (Forall2_map_l _ gsig (fun p => (KSwap, pair_ids p, None)) _ _ H).
    intros x y Hxy. apply swap_op_sig in Hxy. tauto.
  Qed.

  Lemma into_operator_ids (tp : @tprod M) order ms ids : into_operator tp order = Some (ms, ids) -> ids = akeys tp /\ ms <> [].
  Proof.
    unfold into_operator. destruct (all_some _) as [l|]; [|discriminate]. destruct l; [discriminate|].
    intros [= <- <-]. split; [reflexivity|discriminate].
  Qed.

  (* with an explicit order the factors follow `order`, the identifiers do not *)
  Lemma into_operator_order (tp : @tprod M) order ms ids :
    into_operator tp (Some order) = Some (ms, ids) ->
    ids = akeys tp /\ Forall2 (fun i m => aget i tp = Some m) order ms.
  Proof.
    intros H. split; [apply (into_operator_ids _ _ _ _ H)|].
    unfold into_operator in H. destruct (all_some _) as [l|] eqn:E; [|discriminate]. destruct l; [discriminate|].
    injection H as <- <-. apply all_some_Forall2 in E. exact E.
  Qed.

  Lemma aget_keys_values {V} (l : list (id * V)) : NoDup (akeys l) -> map (fun i => aget i l) (akeys l) = map Some (map snd l).
  Proof.
    induction l as [|[k v] t IH]; intros Hnd; [reflexivity|]. cbn in *. inversion Hnd as [|? ? Hnin Hnd']; subst.
    rewrite Nat.eqb_refl. f_equal. rewrite <- IH by exact Hnd'. apply map_ext_in. intros x Hx.
    destruct (Nat.eqb_spec x k) as [->|]; [contradiction|reflexivity].
  Qed.

  (* without an order: the factors are the dict values in key order *)
  Lemma into_operator_keyorder (tp : @tprod M) : NoDup (akeys tp) -> tp <> [] ->
    into_operator tp None = Some (map snd tp, akeys tp).
  Proof.
    intros Hnd Hne. unfold into_operator. rewrite aget_keys_values by exact Hnd. rewrite all_some_map_Some.
    destruct tp; [congruence|]. reflexivity.
  Qed.

  Lemma half_shape_length ds ids hs : half_shape ds ids = Some hs -> length hs = length ids.
  Proof.
    unfold half_shape. destruct (d_const ds) as [d|].
    - destruct (Nat.eqb d 0); [discriminate|]. intros [= <-]. apply map_length.
    - destruct (d_ttn ds) as [t|]; [|discriminate]. intros H. apply all_some_length in H. rewrite map_length in H. exact H.
  Qed.

  Lemma exp_gate_sig ds (st : tstep F M) g : exp_gate mdim ds st = Some g ->
    gsig g = (KExp, akeys (ts_op st), Some (ts_factor st)) /\
    (exists hs, g_shape g = hs ++ hs /\ length hs = length (g_ids g) /\ half_shape ds (g_ids g) = Some hs) /\
    into_operator (ts_op st) None = Some (g_kron g, g_ids g).
  Proof.
    unfold exp_gate. destruct (into_operator (ts_op st) None) as [[ms ids]|] eqn:E; [|discriminate].
    destruct (half_shape ds ids) as [hs|] eqn:Eh; [|discriminate].
    destruct (Nat.eqb _ _); [|discriminate]. intros [= <-]. cbn.
    destruct (into_operator_ids _ _ _ _ E) as [-> _]. repeat split.
    exists hs. repeat split; auto. apply (half_shape_length _ _ _ Eh).
  Qed.

  Lemma exponentiate_step_sigs ds (st : tstep F M) gs : exponentiate_step mdim ds st = Some gs -> map gsig gs = step_sigs st.
  Proof.
    unfold exponentiate_step. destruct (exp_gate mdim ds st) as [e|] eqn:Ee; [|discriminate].
    destruct (swap_ops ds (ts_before st)) as [b|] eqn:Eb; [|discriminate].
    destruct (swap_ops ds (ts_after st)) as [a|] eqn:Ea; [|discriminate]. intros [= <-].
    unfold step_sigs. rewrite !map_app. cbn. rewrite (swap_ops_sigs _ _ _ Eb), (swap_ops_sigs _ _ _ Ea).
    destruct (exp_gate_sig _ _ _ Ee) as [-> _]. reflexivity.
  Qed.

  (* the output of exponentiate_splitting, for every splitting: the concatenation over the steps
     of swaps_before ++ [exp] ++ swaps_after, each gate with its identifiers in the order the code
     returns them (pair order for SWAPs, TensorProduct key order for the factor) and its factor *)
  Theorem exponents_order ds (l : list (tstep F M)) gs :
    exponentiate_splitting mdim ds l = Some gs -> map gsig gs = flat_map step_sigs l.
  Proof.
    revert gs. induction l as [|st t IH]; intros gs H; cbn in H.
    - injection H as <-. reflexivity.
    - destruct (exponentiate_step mdim ds st) as [g|] eqn:Eg; [|discriminate].
      destruct (exponentiate_splitting mdim ds t) as [r|] eqn:Er; [|discriminate]. injection H as <-.
      cbn. rewrite map_app. rewrite (exponentiate_step_sigs _ _ _ Eg), (IH _ eq_refl). reflexivity.
  Qed.

  Lemma exponentiate_step_In ds (st : tstep F M) gs g : exponentiate_step mdim ds st = Some gs -> In g gs ->
    (exists p, swap_op ds p = Some g) \/ exp_gate mdim ds st = Some g.
  Proof.
    unfold exponentiate_step. destruct (exp_gate mdim ds st) as [e|] eqn:Ee; [|discriminate].
    destruct (swap_ops ds (ts_before st)) as [b|] eqn:Eb; [|discriminate].
    destruct (swap_ops ds (ts_after st)) as [a|] eqn:Ea; [|discriminate]. intros [= <-] Hin.
    assert (Hsw : forall l r, swap_ops ds l = Some r -> In g r -> exists p, swap_op ds p = Some g).
    { intros l r Hr Hg. apply all_some_Forall2 in Hr. induction Hr; [destruct Hg|].
      destruct Hg as [<-|Hg]; eauto. }
    apply in_app_or in Hin. destruct Hin as [Hin|Hin]; [left; eauto|].
    cbn in Hin. destruct Hin as [<-|Hin]; [right; reflexivity|left; eauto].
  Qed.

  (* every gate tensor has its output axes first and its input axes second, both halves in the
     order of the identifiers: shape = hs ++ hs with one entry per identifier *)
  Theorem gate_axes_layout ds (l : list (tstep F M)) gs g :
    exponentiate_splitting mdim ds l = Some gs -> In g gs ->
    (exists hs, g_shape g = hs ++ hs /\ length hs = length (g_ids g)) /\
    gate_axes g = map (fun i => (i, true)) (g_ids g) ++ map (fun i => (i, false)) (g_ids g).
  Proof.
    intros H Hin. split; [|reflexivity]. revert gs H Hin. induction l as [|st t IH]; intros gs H Hin; cbn in H.
    - injection H as <-. destruct Hin.
    - destruct (exponentiate_step mdim ds st) as [g0|] eqn:Eg; [|discriminate].
      destruct (exponentiate_splitting mdim ds t) as [r|] eqn:Er; [|discriminate]. injection H as <-.
      apply in_app_or in Hin. destruct Hin as [Hin|Hin]; [|eapply IH; eauto].
      destruct (exponentiate_step_In _ _ _ _ Eg Hin) as [[p Hp]|He].
      + pose proof (swap_op_sig _ _ _ Hp) as (Hs & Hsh & _). exists [g_dim g; g_dim g]. rewrite Hsh. split; [reflexivity|].
        unfold gsig in Hs. injection Hs as _ -> _. reflexivity.
      + destruct (exp_gate_sig _ _ _ He) as (_ & (hs & H1 & H2 & _) & _). eauto.
  Qed.

  (* ---- from_lists ------------------------------------------------------------------------------ *)
  Lemma map_nth_error_seq {A} (l : list A) : map (nth_error l) (seq 0 (length l)) = map Some l.
  Proof.
    induction l as [|x t IH]; [reflexivity|]. cbn. f_equal. rewrite <- seq_shift, map_map. exact IH.
  Qed.

  (* no splitting, no swaps: the tensor products in list order, every factor 1, no SWAPs *)
  Theorem from_lists_default (tps : list (@tprod M)) :
    from_lists one tps None None None
    = Some (map (fun tp => {| ts_op := tp; ts_factor := one; ts_before := []; ts_after := [] |}) tps).
  Proof.
    unfold from_lists. rewrite map_map.
    assert (E : forall (l : list nat) (r : list (@tprod M)), map (nth_error tps) l = map Some r ->
                all_some (map (fun i => from_lists_item one tps None None (SPair i one)) l)
                = Some (map (fun tp => {| ts_op := tp; ts_factor := one; ts_before := []; ts_after := [] |}) r)).
    { induction l as [|i l IH]; intros [|tp r] Hr; cbn in Hr; try discriminate; [reflexivity|].
      injection Hr as Hi Hr. cbn [map all_some]. rewrite (IH _ Hr). unfold from_lists_item. cbn [prepare_swap_list]. rewrite Hi. reflexivity. }
    apply E. apply map_nth_error_seq.
  Qed.

  Definition item_index (it : split_item F) : nat := match it with SIdx i => i | SPair i _ => i end.
  Definition item_factor (it : split_item F) : F := match it with SIdx _ => one | SPair _ f => f end.

  (* a splitting: step k is built from item k: the tensor product and the swap lists at the item's
     index, the item's factor (1 for a bare index) *)
  Theorem from_lists_spec (tps : list (@tprod M)) sp sb sa steps :
    from_lists one tps (Some sp) sb sa = Some steps ->
    Forall2 (fun it st => nth_error tps (item_index it) = Some (ts_op st) /\ ts_factor st = item_factor it /\
                          prepare_swap_list (item_index it) sb = Some (ts_before st) /\
                          prepare_swap_list (item_index it) sa = Some (ts_after st)) sp steps.
  Proof.
    unfold from_lists. intros H. apply all_some_Forall2 in H. induction H; constructor; auto.
    clear IHForall2 H0. unfold from_lists_item in H.
    destruct x as [i|i f]; cbn;
      (destruct (nth_error tps i) as [tp|]; [|discriminate]);
      (destruct (prepare_swap_list i sb) as [b|]; [|discriminate]);
      (destruct (prepare_swap_list i sa) as [a|]; [|discriminate]); injection H as <-; cbn; auto.
  Qed.
End SplittingProofs.

(* ================================================================================================ *)
(* Part 2: swap_gate                                                                                  *)
(* ================================================================================================ *)
Lemma divmod_flat d a b : b < d -> (a * d + b) / d = a /\ (a * d + b) mod d = b.
Proof.
  intros Hb. assert (d <> 0) by lia. split.
  - rewrite Nat.div_add_l by assumption. rewrite Nat.div_small by assumption. lia.
  - rewrite Nat.add_comm, Nat.mod_add by assumption. apply Nat.mod_small. assumption.
Qed.

(* entry ((a, b), (c, e)) of the (d, d, d, d) tensor is 1 exactly when a = e and b = c *)
Theorem swap_tensor_entry_spec d a b c e : a < d -> b < d -> c < d -> e < d ->
  swap_tensor_entry d a b c e = true <-> (a = e /\ b = c).
Proof.
  intros Ha Hb Hc He. unfold swap_tensor_entry, swap_entry.
  destruct (divmod_flat d a b Hb) as [-> ->]. destruct (divmod_flat d c e He) as [-> ->].
  rewrite andb_true_iff, !Nat.eqb_eq. lia.
Qed.

Lemma flat_index_bounds d i : i < d * d -> i / d < d /\ i mod d < d /\ i = (i / d) * d + i mod d.
Proof.
  intros Hi. assert (Hd : d <> 0) by lia. repeat split.
  - apply Nat.div_lt_upper_bound; assumption.
  - apply Nat.mod_upper_bound. assumption.
  - rewrite Nat.mul_comm. apply Nat.div_mod. assumption.
Qed.

Lemma swap_sigma_lt d i : i < d * d -> swap_sigma d i < d * d.
Proof. intros Hi. destruct (flat_index_bounds d i Hi) as (Ha & Hb & _). unfold swap_sigma. nia. Qed.

(* the matrix the loops build has, in row i, its single 1 in column sigma(i) *)
Theorem swap_entry_sigma d i j : i < d * d -> j < d * d -> swap_entry d i j = true <-> j = swap_sigma d i.
Proof.
  intros Hi Hj. destruct (flat_index_bounds d i Hi) as (Ha & Hb & Ei). destruct (flat_index_bounds d j Hj) as (Hc & He & Ej).
  unfold swap_entry, swap_sigma. rewrite andb_true_iff, !Nat.eqb_eq. split.
  - intros [H1 H2]. rewrite Ej. rewrite H2, <- H1. reflexivity.
  - intros ->. destruct (divmod_flat d (i mod d) (i / d) Ha) as [-> ->]. auto.
Qed.

Theorem swap_sigma_involutive d i : i < d * d -> swap_sigma d (swap_sigma d i) = i.
Proof.
  intros Hi. destruct (flat_index_bounds d i Hi) as (Ha & Hb & Ei). unfold swap_sigma at 1.
  unfold swap_sigma. destruct (divmod_flat d (i mod d) (i / d) Ha) as [-> ->]. lia.
Qed.

Lemma swap_matrix_entry d i j : i < d * d -> j < d * d -> nth j (nth i (swap_matrix d) []) false = swap_entry d i j.
Proof.
  intros Hi Hj. unfold swap_matrix.
  rewrite (nth_indep _ [] (map (swap_entry d 0) (seq 0 (d * d)))) by (rewrite map_length, seq_length; exact Hi).
  rewrite (map_nth (fun i => map (swap_entry d i) (seq 0 (d * d))) (seq 0 (d * d)) 0 i). rewrite seq_nth by exact Hi. cbn.
  rewrite (nth_indep _ false (swap_entry d i 0)) by (rewrite map_length, seq_length; exact Hj).
  rewrite (map_nth (swap_entry d i) (seq 0 (d * d)) 0 j). rewrite seq_nth by exact Hj. reflexivity.
Qed.

Local Open Scope Z_scope.
Lemma sum_zero (f : nat -> Z) s n : (forall j, (s <= j < s + n)%nat -> f j = 0) -> sumZ (map f (seq s n)) = 0.
Proof.
  revert s. induction n as [|n IH]; intros s H; cbn; [reflexivity|].
  rewrite H by lia. rewrite IH; [reflexivity|]. intros j Hj. apply H. lia.
Qed.

Lemma sum_single (f : nat -> Z) s n j0 : (s <= j0 < s + n)%nat ->
  (forall j, (s <= j < s + n)%nat -> j <> j0 -> f j = 0) -> sumZ (map f (seq s n)) = f j0.
Proof.
  revert s. induction n as [|n IH]; intros s Hj H; [lia|]. cbn.
  destruct (Nat.eq_dec s j0) as [->|Hne].
  - rewrite sum_zero; [lia|]. intros j Hj'. apply H; lia.
  - rewrite (H s) by lia. rewrite IH; [lia|lia|]. intros j Hj' Hn. apply H; lia.
Qed.

Lemma b2z_false b : b = false -> b2z b = 0.
Proof. intros ->. reflexivity. Qed.

(* applied to an amplitude table the gate exchanges the two sites *)
Theorem swap_apply_exchanges d (psi : nat -> nat -> Z) a b : (a < d)%nat -> (b < d)%nat ->
  swap_apply d psi a b = psi b a.
Proof.
  intros Ha Hb. unfold swap_apply.
  assert (Hi : (a * d + b < d * d)%nat) by nia.
  assert (Hs : swap_sigma d (a * d + b) = (b * d + a)%nat).
  { unfold swap_sigma. destruct (divmod_flat d a b Hb) as [-> ->]. reflexivity. }
  rewrite (sum_single _ 0 (d * d) (b * d + a)%nat).
  - assert (E : swap_entry d (a * d + b) (b * d + a) = true).
    { apply swap_entry_sigma; [exact Hi|nia|]. symmetry. exact Hs. }
    rewrite E. destruct (divmod_flat d b a Ha) as [-> ->]. cbn. destruct (psi b a); reflexivity.
  - nia.
  - intros j Hj Hne. rewrite b2z_false; [reflexivity|].
    destruct (swap_entry d (a * d + b) j) eqn:E; [|reflexivity].
    apply swap_entry_sigma in E; [|exact Hi|lia]. congruence.
Qed.

(* SWAP . SWAP = identity *)
Theorem swap_squared_identity d i j : (i < d * d)%nat -> (j < d * d)%nat ->
  swap_sq_entry d i j = if Nat.eqb i j then 1 else 0.
Proof.
  intros Hi Hj. unfold swap_sq_entry. pose proof (swap_sigma_lt d i Hi) as Hs.
  rewrite (sum_single _ 0 (d * d) (swap_sigma d i)).
  - assert (E : swap_entry d i (swap_sigma d i) = true) by (apply swap_entry_sigma; auto).
    rewrite E. cbn [b2z]. rewrite Z.mul_1_l.
    destruct (Nat.eqb_spec i j) as [->|Hne].
    + assert (E2 : swap_entry d (swap_sigma d j) j = true).
      { apply swap_entry_sigma; auto. symmetry. apply swap_sigma_involutive. exact Hj. }
      rewrite E2. reflexivity.
    + apply b2z_false. destruct (swap_entry d (swap_sigma d i) j) eqn:E2; [|reflexivity].
      apply swap_entry_sigma in E2; auto. rewrite swap_sigma_involutive in E2 by exact Hi. congruence.
  - lia.
  - intros k Hk Hne. rewrite (b2z_false (swap_entry d i k)); [reflexivity|].
    destruct (swap_entry d i k) eqn:E; [|reflexivity]. apply swap_entry_sigma in E; [congruence|exact Hi|lia].
Qed.
Local Close Scope Z_scope.
