(* Property C08, the tree and diagram level of the two-site gate (TEBD._apply_one_trotter_step_two_site:
   legs_before_combination, contract_nodes, absorb_into_open_legs, split_nodes) over the Layer-W
   store, on top of the proved store invariant (TTN/Inv*.v).  Contents:
     - absorb_into_open_legs preserves the invariant (absorb_preserves_wf);
     - gate_half / two_site_chain: the contraction, absorption, split chain preserves the invariant,
       the recorded leg specifications describe the contracted node truthfully, the identifiers are
       admissible;
     - A1  two_site_gate_same_tree: the gate gives back the same tree, root unchanged, temporary
           identifier gone, every node other than the pair unchanged (record and tensor);
           acceptance: contract_succeeds, absorb_succeeds, split_succeeds, two_site_gate_succeeds,
           two_site_gate_total (no sub-operation raises on two neighbouring nodes);
     - A2  two_site_gate_diagram: the appended kernel definition, the gate atom's wires, the two new
           single-atom tensors, the open wires of the restored pair;
     - A3  apply_gate / tebd_step / tebd_steps preserve wfb and the tree (list induction);
           tebd_step_accepts: every list of gates that fit the tree (gate_fits: one node or two
           neighbouring nodes, tensor shape = their open dimensions twice) is accepted, and the open
           dimensions of every node (odims) are kept.
   New file; the model files (TTN/Store.v, TEBD/Trotter.v) are untouched. *)
From Coq Require Import List Arith Bool Lia Permutation.
From PTN Require Import TTN.Store TTN.StoreProofs TTN.Inv TTN.InvProofs TTN.InvNode TTN.InvBuild TTN.InvContract TTN.InvSplit
  TTN.CanonTree TEBD.Trotter TEBD.TrotterProofs.
Import ListNotations.

Ltac nlia := unfold id, wire in *; lia.

(* ---- absorb_open, unfolded ------------------------------------------------------------------ *)
Definition ab_tensor (s1 : store) (nd : node) (t : sarr) : sarr :=
  {| axes := firstn (nvirt nd) (axes t) ++ seq (next_wire s1) (nopen nd);
     atoms := atoms t ++ [next_atom s1];
     bnd := skipn (nvirt nd) (axes t) ++ bnd t |}.

Lemma absorb_open_inv s n gshape s' : absorb_open s n gshape = Some s' ->
  exists s1 nd t,
    access s n = Some (s1, nd, t) /\
    length gshape = 2 * nopen nd /\ firstn (nopen nd) gshape = skipn (nopen nd) gshape /\
    map (wdim s) (skipn (nvirt nd) (axes t)) = skipn (nopen nd) gshape /\
    nodes s' = nodes s1 /\ root s' = root s1 /\
    tensors s' = aset n (ab_tensor s1 nd t) (tensors s1) /\
    dims s' = dims s1 ++ combine (seq (next_wire s1) (nopen nd)) (firstn (nopen nd) gshape) /\
    next_wire s' = next_wire s1 + nopen nd /\
    next_atom s' = S (next_atom s1) /\ defs s' = defs s1 /\
    atab s' = atab s1 ++ [(next_atom s1, seq (next_wire s1) (nopen nd) ++ skipn (nvirt nd) (axes t))].
Proof.
  unfold absorb_open. destruct (access s n) as [[[s1 nd] t]|] eqn:Hacc; [|discriminate].
  destruct (Nat.eqb_spec (length gshape) (2 * nopen nd)) as [Hlen|]; [|discriminate]. cbn [negb].
  destruct (list_eqb (firstn (nopen nd) gshape) (skipn (nopen nd) gshape)) eqn:Hsq; [|discriminate]. cbn [negb].
  destruct (list_eqb (map (wdim s) (skipn (nvirt nd) (axes t))) (skipn (nopen nd) gshape)) eqn:Hdim; [|discriminate]. cbn [negb].
  destruct (fresh_wires s1 (firstn (nopen nd) gshape)) as [s2 neww] eqn:Hfw.
  destruct (InvBuild.fresh_wires_spec _ _ _ _ Hfw) as (-> & E2 & E3 & E4 & E5 & E6 & E7 & E8 & E9).
  assert (Hl : length (firstn (nopen nd) gshape) = nopen nd) by (rewrite firstn_length; lia).
  rewrite Hl in *.
  unfold fresh_atom. intros [= <-]. exists s1, nd, t. split; [reflexivity|].
  apply list_eqb_eq in Hsq, Hdim. cbn. unfold ab_tensor.
  rewrite E4, E5, E6, E7, E8, E9, E2, E3. repeat split; auto.
Qed.

Lemma in_firstn_in {A} k (l : list A) x : In x (firstn k l) -> In x l.
Proof. intros H. rewrite <- (firstn_skipn k l). apply in_or_app. left. exact H. Qed.

Lemma firstn_firstn_le {A} a b (l : list A) : a <= b -> firstn a (firstn b l) = firstn a l.
Proof. intros H. rewrite firstn_firstn. f_equal. lia. Qed.

(* absorb_into_open_legs preserves the store invariant *)
Theorem absorb_preserves_wf s n gshape s' : wf s -> absorb_open s n gshape = Some s' -> wf s'.
Proof.
  intros W0 H. destruct (absorb_open_inv _ _ _ _ H) as (s1 & nd & t & Ha & Hlen & Hsq & Hdim & En' & Er' & Et' & Ed' & Ew' & _).
  destruct (split_access_facts _ _ _ _ _ W0 Ha) as (nd0 & t0 & En0 & Et0 & End & Etr & W & En & Et & Hid & Hk & Hlax0 & Ht0).
  destruct (sp_access_next _ _ _ _ _ Ha) as (_ & _ & _ & Edm & _).
  assert (Hwd0 : forall w, wdim s w = wdim s1 w) by (intros w; unfold wdim; rewrite Edm; reflexivity).
  set (v := nvirt nd) in *. set (k := nopen nd) in *. set (nw := next_wire s1) in *.
  set (t' := ab_tensor s1 nd t) in *.
  pose proof (wf_node s1 W n nd En) as Hn.
  assert (Hlt : length (axes t) = nlegs nd).
  { rewrite <- (wf_axes_length s1 n nd W En). rewrite (tens_aget _ _ _ Et). reflexivity. }
  assert (Hv : v <= nlegs nd) by apply (ni_virt _ _ _ Hn).
  assert (Hvk : v + k = nlegs nd) by (unfold k, nopen; fold v; lia).
  assert (Hpid : perm nd = seq 0 (nlegs nd)) by (rewrite Hid, Hlt; reflexivity).
  assert (Hds : length (firstn k gshape) = k) by (rewrite firstn_length; lia).
  (* the fresh wires, as a fresh_wires call *)
  destruct (fresh_wires s1 (firstn k gshape)) as [s2 neww] eqn:Hfw.
  destruct (InvBuild.fresh_wires_spec _ _ _ _ Hfw) as (Eneww & F2 & F3 & _).
  rewrite Hds in Eneww. fold nw in Eneww. subst neww.
  assert (Hdims2 : dims s' = dims s2) by (rewrite Ed', F2; reflexivity).
  assert (Hwd_old : forall w, w < nw -> wdim s' w = wdim s1 w).
  { intros w Hw. unfold wdim at 1. rewrite Hdims2. apply (fresh_wires_wdim_old _ _ _ _ w Hfw Hw). }
  assert (Hwd_new : map (wdim s') (seq nw k) = firstn k gshape).
  { erewrite map_ext; [apply (fresh_wires_wdim_new _ _ _ _ Hfw (wf_dims s1 W))|].
    intros w. unfold wdim. rewrite Hdims2. reflexivity. }
  assert (Hax' : axes t' = firstn v (axes t) ++ seq nw k) by reflexivity.
  assert (Hlt' : length (axes t') = nlegs nd).
  { rewrite Hax', app_length, firstn_length, seq_length. nlia. }
  (* tensors and logical axes *)
  assert (T1 : forall x, tens s' x = if Nat.eqb x n then t' else tens s1 x).
  { intros x. unfold tens. rewrite Et', aget_aset. destruct (Nat.eqb x n); reflexivity. }
  assert (Ht1 : tens s1 n = t) by (apply tens_aget; exact Et).
  assert (Hold : forall x xn w, aget x (nodes s1) = Some xn -> In w (axes (tens s1 x)) -> w < nw).
  { intros x xn w Ex Hw. apply (wf_wires s1 W x (tens s1 x) w); [apply (wf_tens s1 x xn W Ex)|exact Hw]. }
  assert (Hlaxn : lax s1 n nd = axes t).
  { unfold lax, laxes. rewrite Ht1, Hpid, <- Hlt. apply permute_seq. }
  assert (Hlaxn' : lax s' n nd = axes t').
  { unfold lax, laxes. rewrite T1, Nat.eqb_refl, Hpid, <- Hlt'. apply permute_seq. }
  assert (Hlax_o : forall x xn, x <> n -> lax s' x xn = lax s1 x xn).
  { intros x xn Hx. unfold lax. rewrite T1. destruct (Nat.eqb_spec x n); [contradiction|reflexivity]. }
  assert (Hvirt : forall x xn j, aget x (nodes s1) = Some xn -> j < nvirt xn -> nth j (lax s' x xn) 0 = nth j (lax s1 x xn) 0).
  { intros x xn j Ex Hj. destruct (Nat.eq_dec x n) as [->|Hx]; [|rewrite Hlax_o by exact Hx; reflexivity].
    rewrite Ex in En. injection En as ->. rewrite Hlaxn, Hlaxn', Hax'. fold v in Hj.
    rewrite app_nth1 by (rewrite firstn_length; nlia). apply nth_firstn_lt. exact Hj. }
  assert (Hown_o : forall x xn, x <> n -> own_of xn (tens s' x) = own_of xn (tens s1 x)).
  { intros x xn Hx. rewrite T1. destruct (Nat.eqb_spec x n); [contradiction|reflexivity]. }
  assert (Hnp : nparents nd <= v) by (unfold v, nvirt; lia).
  assert (Hown_n : own_of nd (tens s' n) = firstn (nparents nd) (axes t) ++ seq nw k).
  { unfold own_of. fold (lax s' n nd). rewrite Hlaxn', Hax'. fold v.
    rewrite firstn_app, firstn_firstn_le by exact Hnp.
    replace (nparents nd - length (firstn v (axes t))) with 0 by (rewrite firstn_length; nlia). cbn [firstn]. rewrite app_nil_r.
    rewrite skipn_app, firstn_length.
    replace (skipn v (firstn v (axes t))) with (@nil wire) by (symmetry; apply skipn_all2; rewrite firstn_length; nlia).
    replace (v - Nat.min v (length (axes t))) with 0 by nlia. reflexivity. }
  assert (Hown_n1 : own_of nd (tens s1 n) = firstn (nparents nd) (axes t) ++ skipn v (axes t)).
  { unfold own_of. fold (lax s1 n nd). rewrite Hlaxn. reflexivity. }
  assert (Hown_lt : forall x xn w, aget x (nodes s1) = Some xn -> In w (own_of xn (tens s1 x)) -> w < nw).
  { intros x xn w Ex Hw. apply (Hold x xn w Ex). apply sp_own_of_incl in Hw. unfold laxes in Hw.
    apply (permute_incl 0 (perm xn) (axes (tens s1 x))); [|exact Hw].
    pose proof (wf_axes_length s1 x xn W Ex) as Hal. pose proof (wf_node_wf s1 x xn W Ex) as [Hp Hq].
    intros i Hi. pose proof (perm_bound _ _ Hp i Hi) as Hb. pose proof (nlegs_shape xn (conj Hp Hq)). nlia. }
  constructor.
  - rewrite En'. apply (wf_nd s1 W).
  - rewrite Et'. apply NoDup_akeys_aset. apply (wf_tnd s1 W).
  - intros x Hx. rewrite En'. rewrite Et' in Hx. apply amem_aget in Hx. destruct Hx as [u Hu]. rewrite aget_aset in Hu.
    destruct (Nat.eqb_spec x n) as [->|Hxn]; [apply amem_aget; eauto|].
    apply (wf_tn s1 W). apply amem_aget. eauto.
  - rewrite En', Er'. apply (wf_root s1 W).
  - intros x xn Ex. rewrite En' in Ex. pose proof (wf_node s1 W x xn Ex) as Hx. constructor.
    + rewrite Et'. apply amem_aget. rewrite aget_aset. destruct (Nat.eqb x n); [eauto|]. apply amem_aget. apply (ni_t _ _ _ Hx).
    + apply (ni_perm _ _ _ Hx).
    + rewrite T1. destruct (Nat.eqb_spec x n) as [->|Hxn].
      * rewrite Ex in En. injection En as ->. rewrite (ni_shape _ _ _ Hn), Ht1, Hax', map_app, Hwd_new.
        rewrite <- (firstn_skipn v (axes t)) at 1. rewrite map_app. f_equal.
        -- apply map_ext_in. intros w Hw. symmetry. apply Hwd_old. apply (Hold n nd w Ex). rewrite Ht1.
           apply (in_firstn_in _ _ _ Hw).
        -- rewrite Hsq, <- Hdim. apply map_ext. intros w. symmetry. apply Hwd0.
      * rewrite (ni_shape _ _ _ Hx). apply map_ext_in. intros w Hw. symmetry. apply Hwd_old. apply (Hold x xn w Ex Hw).
    + apply (ni_virt _ _ _ Hx).
    + apply (ni_chnd _ _ _ Hx).
    + intros c Hc. rewrite En'. apply (ni_ch _ _ _ Hx c Hc).
    + intros p Hp. rewrite En'. destruct (ni_par _ _ _ Hx p Hp) as (pn & i & Ep & Hin & Hi & Hw).
      exists pn, i. repeat split; auto.
      assert (Hppn : parent pn <> Some x).
      { intros Hc. destruct (wf_acyc s1 W) as [d Hd]. pose proof (Hd x xn p Ex Hp). pose proof (Hd p pn x Ep Hc). lia. }
      rewrite (Hvirt x xn 0 Ex) by (unfold nvirt, nparents; rewrite Hp; lia).
      rewrite (Hvirt p pn i Ep) by (apply (neighbour_index_lt pn x i Hppn Hi)). exact Hw.
  - intros x xn Ex. rewrite En' in Ex. destruct (Nat.eq_dec x n) as [->|Hxn].
    + rewrite Ex in En. injection En as ->. rewrite Hown_n.
      pose proof (wf_own1 s1 W n nd Ex) as Hnd. rewrite Hown_n1 in Hnd.
      apply NoDup_app_iff. split; [apply (NoDup_app_l _ _ Hnd)|]. split; [apply seq_NoDup|].
      intros w Hw Hw2. apply in_seq in Hw2.
      assert (w < nw); [|lia]. apply (Hown_lt n nd w Ex). rewrite Hown_n1. apply in_or_app. left. exact Hw.
    + rewrite Hown_o by exact Hxn. apply (wf_own1 s1 W x xn Ex).
  - intros k1 n1 k2 n2 w E1 E2 H1 H2. rewrite En' in E1, E2.
    assert (Hcase : forall x xn y yn, aget x (nodes s1) = Some xn -> aget y (nodes s1) = Some yn -> x = n -> y <> n ->
               In w (own_of xn (tens s' x)) -> In w (own_of yn (tens s' y)) -> x = y).
    { intros x xn y yn Ex Ey -> Hy Hx1 Hy1. rewrite Ex in En. injection En as ->.
      rewrite Hown_n in Hx1. rewrite Hown_o in Hy1 by exact Hy. apply in_app_or in Hx1. destruct Hx1 as [Hx1|Hx1].
      - apply (wf_own2 s1 W n nd y yn w Ex Ey); [|exact Hy1]. rewrite Hown_n1. apply in_or_app. left. exact Hx1.
      - apply in_seq in Hx1. pose proof (Hown_lt y yn w Ey Hy1). lia. }
    destruct (Nat.eq_dec k1 n) as [K1|K1]; destruct (Nat.eq_dec k2 n) as [K2|K2].
    + congruence.
    + apply (Hcase k1 n1 k2 n2); assumption.
    + symmetry. apply (Hcase k2 n2 k1 n1); assumption.
    + rewrite Hown_o in H1, H2 by assumption. apply (wf_own2 s1 W k1 n1 k2 n2 w E1 E2 H1 H2).
  - intros x tx w Ex Hw. rewrite Ew'. rewrite Et', aget_aset in Ex. destruct (Nat.eqb_spec x n) as [->|Hxn].
    + injection Ex as <-. rewrite Hax' in Hw. apply in_app_or in Hw. destruct Hw as [Hw|Hw].
      * assert (w < nw); [|lia]. apply (Hold n nd w En). rewrite Ht1.
        apply (in_firstn_in _ _ _ Hw).
      * apply in_seq in Hw. fold nw. lia.
    + pose proof (wf_wires s1 W x tx w Ex Hw). lia.
  - intros w Hw. rewrite Hdims2 in Hw. rewrite Ew'. pose proof (fresh_wires_dims_bound _ _ _ _ Hfw (wf_dims s1 W) w Hw) as Hb.
    rewrite F3, Hds in Hb. exact Hb.
  - rewrite En'. apply (wf_acyc s1 W).
Qed.

(* ---- two neighbouring nodes of a tree satisfy pair_ok --------------------------------------- *)
Lemma pair_ok_tstruct l a na b nb :
  tstruct l -> aget a l = Some na -> aget b l = Some nb -> In b (neighbouring_nodes na) ->
  nvirt na <= nlegs na -> nvirt nb <= nlegs nb -> pair_ok a na b nb.
Proof.
  intros T Ea Eb Hin Hva Hvb.
  destruct (ts_acyc _ T) as [rank Hr].
  assert (Hadj : (In b (children na) /\ parent nb = Some a /\ ~ In a (children nb) /\ parent na <> Some b)
           \/ (In a (children nb) /\ parent na = Some b /\ ~ In b (children na) /\ parent nb <> Some a)).
  { apply in_neighbouring in Hin. destruct Hin as [Hp|Hc].
    - right. destruct (ts_par _ T a na b Ea Hp) as (nb' & Eb' & Hin'). rewrite Eb in Eb'. injection Eb' as <-.
      split; [exact Hin'|]. split; [exact Hp|]. split; [eapply ts_parent_not_child; eauto|].
      intros Hq. pose proof (Hr a na b Ea Hp). pose proof (Hr b nb a Eb Hq). lia.
    - left. destruct (ts_ch _ T a na b Ea Hc) as (nb' & Eb' & Hp'). rewrite Eb in Eb'. injection Eb' as <-.
      split; [exact Hc|]. split; [exact Hp'|]. split; [eapply ts_parent_not_child; eauto|].
      intros Hq. pose proof (Hr a na b Ea Hq). pose proof (Hr b nb a Eb Hp'). lia. }
  assert (Hne : a <> b).
  { intros ->. destruct Hadj as [(H1 & _)|(H1 & _)]; [rewrite Eb in Ea; injection Ea as ->|rewrite Ea in Eb; injection Eb as ->];
      eapply ts_not_self_child; eauto. }
  constructor; auto.
  - eapply ts_chnd; eauto.
  - eapply ts_chnd; eauto.
  - intros x Hx1 Hx2. destruct (ts_ch _ T a na x Ea Hx1) as (xn & Ex & Hp1).
    destruct (ts_ch _ T b nb x Eb Hx2) as (xn' & Ex' & Hp2). rewrite Ex in Ex'. injection Ex' as <-. congruence.
  - split; [eapply ts_not_self_child; eauto|eapply ts_not_self_parent; eauto].
  - split; [eapply ts_not_self_child; eauto|eapply ts_not_self_parent; eauto].
  - intros p Hp. split; [eapply ts_parent_not_child; eauto|]. intros Hpb Hpin.
    destruct (ts_ch _ T b nb p Eb Hpin) as (pn & Ep & Hpp). pose proof (Hr a na p Ea Hp). pose proof (Hr p pn b Ep Hpp).
    destruct Hadj as [(_ & Hq & _)|(_ & Hq & _)]; [pose proof (Hr b nb a Eb Hq); lia|congruence].
  - intros p Hp. split; [eapply ts_parent_not_child; eauto|]. intros Hpa Hpin.
    destruct (ts_ch _ T a na p Ea Hpin) as (pn & Ep & Hpp). pose proof (Hr b nb p Eb Hp). pose proof (Hr p pn a Ep Hpp).
    destruct Hadj as [(_ & Hq & _)|(_ & Hq & _)]; [congruence|pose proof (Hr a na b Ea Hq); lia].
Qed.

Lemma pair_ok_wf s a na b nb :
  wf s -> aget a (nodes s) = Some na -> aget b (nodes s) = Some nb -> In b (neighbouring_nodes na) -> pair_ok a na b nb.
Proof.
  intros W Ea Eb Hin. apply (pair_ok_tstruct (nodes s)); auto.
  - apply wf_tstruct. exact W.
  - apply (ni_virt _ _ _ (wf_node s W a na Ea)).
  - apply (ni_virt _ _ _ (wf_node s W b nb Eb)).
Qed.

(* ---- contract_nodes: what contract_inv says, plus the untouched rest ------------------------- *)
Lemma contract_inv2 s a b new s' :
  wf s -> contract_nodes s a b new = Some s' -> (new = a \/ new = b \/ ~ In new (akeys (nodes s))) ->
  exists p c s2 pn cn nn ax nt, contract_facts s a b new s' p c s2 pn cn nn ax nt /\
    (forall k, k <> p -> k <> c -> aget k (nodes s2) = aget k (nodes s) /\ aget k (tensors s2) = aget k (tensors s)) /\
    (exists pn0 cn0, aget p (nodes s) = Some pn0 /\ aget c (nodes s) = Some cn0 /\
       pn = reset_permutation pn0 /\ cn = reset_permutation cn0) /\
    logical s p = Some (tens s2 p) /\ logical s c = Some (tens s2 c) /\
    next_atom s' = next_atom s /\ defs s' = defs s /\ atab s' = atab s /\ dims s' = dims s /\ next_wire s' = next_wire s /\
    root s2 = root s.
Proof.
  intros W H Hnew. unfold contract_nodes in H.
  destruct (determine_parentage s a b) as [[p c]|] eqn:Edp; [|discriminate].
  destruct (access s p) as [[[s1 pn] pt]|] eqn:A1; [|discriminate].
  destruct (access s1 c) as [[[s2 cn] ct]|] eqn:A2; [|discriminate].
  destruct (neighbour_index pn c) as [ax|] eqn:Eax; [|discriminate].
  destruct (s_tensordot pt ct ax 0) as [nt|] eqn:Etd; [|discriminate].
  destruct (create_contracted_node _ pn cn c (p =? a)) as [nn|] eqn:Enn; [|discriminate].
  match type of H with match ?r with _ => _ end = _ => destruct r as [s4|] eqn:R4; [|discriminate] end.
  destruct (replace_node_in_neighbours s4 new c true) as [s5|] eqn:R5; [|discriminate].
  injection H as <-.
  destruct (determine_parentage_inv s a b p c Edp) as (na & nb & Ea & Eb & Hcase).
  pose proof (access_preserves_wf s p s1 pn pt W A1) as W1.
  pose proof (access_preserves_wf s1 c s2 cn ct W1 A2) as W2.
  destruct (access_result _ _ _ _ _ A1) as (B1 & B2 & B3 & B4 & B5 & B6 & B7 & B8 & (pn0 & B9 & B10 & B11)).
  destruct (access_result _ _ _ _ _ A2) as (C1 & C2 & C3 & C4 & C5 & C6 & C7 & C8 & (cn0 & C9 & C10 & C11)).
  assert (Hpcne : p <> c /\ a <> b /\ parent cn0 = Some p /\ aget c (nodes s) = Some cn0).
  { destruct Hcase as [(-> & -> & Hp)|(-> & -> & Hp)].
    - assert (a <> b) by (intros ->; apply (wf_not_self_parent s b nb W Eb Hp)).
      destruct (B4 b (not_eq_sym H)) as [B4a _]. rewrite B4a, Eb in C9. injection C9 as <-. auto.
    - assert (b <> a) by (intros ->; apply (wf_not_self_parent s a na W Ea Hp)).
      destruct (B4 a (not_eq_sym H)) as [B4a _]. rewrite B4a, Ea in C9. injection C9 as <-. auto. }
  destruct Hpcne as (Hpc & Hab & Hparc & Ec0).
  destruct (C4 p Hpc) as [C4a C4b].
  assert (Hnew2 : new = p \/ new = c \/ ~ In new (akeys (nodes s2))).
  { rewrite C8, B8. destruct Hcase as [(-> & -> & _)|(-> & -> & _)]; tauto. }
  assert (Hp2 : aget p (nodes s2) = Some pn) by (rewrite C4a; exact B1).
  assert (Hparc2 : parent cn = Some p) by (rewrite C10; exact Hparc).
  assert (Hwd : map (wdim s) (axes nt) = map (wdim s2) (axes nt)).
  { apply map_ext. intros w. unfold wdim. rewrite C5, B5. reflexivity. }
  rewrite Hwd in Enn.
  assert (Hpt : tens s2 p = pt) by (apply tens_aget; rewrite C4b; exact B2).
  assert (Hct : tens s2 c = ct) by (apply tens_aget; exact C2).
  pose proof (contract_view s2 p c pn cn new nt nn s4 s5 W2 Hp2 C1 Hparc2 Hnew2 R4 R5) as View.
  exists p, c, s2, pn, cn, nn, ax, nt. split; [constructor; auto|].
  - destruct Hcase as [(-> & -> & _)|(-> & -> & _)]; auto.
  - rewrite Hpt, Hct. exact Etd.
  - rewrite C8, B8. reflexivity.
  - intros k nk E. destruct (access_lax s p s1 pn pt k nk W A1 E) as (nk1 & E1 & P1 & P2 & P3).
    destruct (access_lax s1 c s2 cn ct k nk1 W1 A2 E1) as (nk2 & E2 & Q1 & Q2 & Q3).
    exists nk2. repeat split; congruence.
  - rewrite (access_total_atoms s1 c s2 cn ct W1 A2). apply (access_total_atoms s p s1 pn pt W A1).
  - rewrite (access_total_ends s1 c s2 cn ct W1 A2). apply (access_total_ends s p s1 pn pt W A1).
  - destruct (access_keys _ _ _ _ _ A1) as (_ & K1 & _). destruct (access_keys _ _ _ _ _ A2) as (_ & K2 & _). congruence.
  - split.
    { intros k Hkp Hkc. destruct (C4 k Hkc) as [-> ->]. apply (B4 k Hkp). }
    destruct (access_inv _ _ _ _ _ A1) as (pn0' & pt0 & X1 & X2 & X3 & X4 & X5).
    destruct (access_inv _ _ _ _ _ A2) as (cn0' & ct0 & Y1 & Y2 & Y3 & Y4 & Y5).
    split.
    { exists pn0', cn0'. split; [exact X1|]. split; [|auto].
      destruct (B4 c (not_eq_sym Hpc)) as [<- _]. exact Y1. }
    split; [rewrite Hpt; apply (access_returns_logical _ _ _ _ _ A1)|].
    split; [rewrite Hct, <- (access_logical _ _ _ _ _ c A1); apply (access_returns_logical _ _ _ _ _ A2)|].
    destruct (sp_access_next _ _ _ _ _ A1) as (N1 & N2 & N3 & N4 & N5).
    destruct (sp_access_next _ _ _ _ _ A2) as (M1 & M2 & M3 & M4 & M5).
    destruct View as (_ & _ & _ & _ & _ & _ & _ & V8 & V9).
    assert (G : forall x y del z, replace_node_in_neighbours x y del true = Some z ->
              next_atom z = next_atom x /\ defs z = defs x /\ atab z = atab x).
    { intros x y del z. unfold replace_node_in_neighbours. destruct (Nat.eqb y del); [intros [= <-]; auto|].
      destruct (aget del (nodes x)); [|discriminate].
      match goal with |- match ?e with _ => _ end = _ -> _ => destruct e as [[r l2]|]; [|discriminate] end.
      intros [= <-]. cbn. auto. }
    destruct (G _ _ _ _ R4) as (G1 & G2 & G3). destruct (G _ _ _ _ R5) as (G4 & G5 & G6). cbn in *.
    repeat split; congruence.
Qed.

(* ---- split_nodes: the view of InvSplit.v, from the call ---------------------------------------- *)
Lemma split_view_of s n o i oid iid kind m rbond s' :
  wf s -> split_nodes s n o i oid iid kind m rbond = Some s' -> spec_ok s n o i -> ids_ok s n oid iid ->
  exists s1 nd t ol il on2 in2 cO cI bd,
    access s n = Some (s1, nd, t) /\ wf s1 /\
    find_leg_values nd o = Some ol /\ find_leg_values nd i = Some il /\
    ol = sp_pl o ++ cO ++ ls_open o /\ il = sp_pl i ++ cI ++ ls_open i /\
    bd = sp_bd s kind m rbond (permute 0 ol (axes t)) (permute 0 il (axes t)) /\
    defs s' = defs s ++ [sp_def s1 t ol il kind m] /\
    next_atom s' = S (S (next_atom s)) /\
    atab s' = (atab s ++ [(next_atom s, permute 0 ol (axes t) ++ [next_wire s])]) ++ [(S (next_atom s), next_wire s :: permute 0 il (axes t))] /\
    ((sp_in_above i = true /\ split_view s1 s' n nd t iid oid i o cI cO in2 on2 (sp_it s1 t il) (sp_ot s1 t ol) bd) \/
     (sp_in_above i = false /\ split_view s1 s' n nd t oid iid o i cO cI on2 in2 (sp_ot s1 t ol) (sp_it s1 t il) bd)).
Proof.
  intros H Hs Hspec Hids.
  destruct (split_nodes_inv _ _ _ _ _ _ _ _ _ _ Hs) as (s1 & nd & t & ol & il & on2 & in2 & l2 & bd & Ha & Hbd & I).
  destruct (split_access_facts _ _ _ _ _ H Ha) as (nd0 & t0 & En0 & Et0 & End & Etr & H1 & En & Et & Hid & Hk & _).
  destruct (sp_access_next _ _ _ _ _ Ha) as (Na & Nw & Nd & Ndm & Nt).
  destruct (Hspec nd0 En0) as [LO LI].
  assert (LO' : leg_ok nd o) by (rewrite End; apply leg_ok_reset; exact LO).
  assert (LI' : leg_ok nd i) by (rewrite End; apply leg_ok_reset; exact LI).
  assert (Hids' : ids_ok s1 n oid iid) by (unfold ids_ok; rewrite Hk; exact Hids).
  destruct (split_inv_view _ _ _ _ _ _ _ _ _ _ _ _ _ _ _ _ _ H1 En Et Hid LO' LI' Hids' I) as (cO & cI & Eo & Ei & V).
  exists s1, nd, t, ol, il, on2, in2, cO, cI, bd.
  split; [exact Ha|]. split; [exact H1|].
  split; [apply (si_ol _ _ _ _ _ _ _ _ _ _ _ _ _ _ _ _ _ I)|]. split; [apply (si_il _ _ _ _ _ _ _ _ _ _ _ _ _ _ _ _ _ I)|].
  split; [exact Eo|]. split; [exact Ei|]. split; [exact Hbd|].
  split; [rewrite (spf_defs _ _ _ _ _ _ _ _ _ _ _ _ _ _ _ _ _ I), Nd; reflexivity|].
  split; [rewrite (spf_next_atom _ _ _ _ _ _ _ _ _ _ _ _ _ _ _ _ _ I), Na; reflexivity|].
  split; [|exact V].
  pose proof (si_s' _ _ _ _ _ _ _ _ _ _ _ _ _ _ _ _ _ I) as Es. cbv zeta in Es. rewrite Es.
  destruct (Nat.eqb n oid || Nat.eqb n iid); cbn; rewrite Nt, Na, Nw; reflexivity.
Qed.

(* ---- the recorded specifications describe the contracted node truthfully ----------------------- *)
Lemma lbc_leg_ok a na b nb u v nd :
  pair_ok a na b nb -> lbc_nodes a na b nb = Some (u, v) ->
  (In b (children na) -> parent nd = parent na /\ children nd = remove_first b (children na) ++ children nb) ->
  (In a (children nb) -> parent nd = parent nb /\ children nd = children na ++ remove_first a (children nb)) ->
  leg_ok nd u /\ leg_ok nd v /\ nvirt nd = nvirt na + nvirt nb - 2.
Proof.
  intros Hok Hl HA HB. destruct (lbc_names _ _ _ _ _ _ Hok Hl) as (Hou & Hov & Hcase).
  destruct Hcase as [(Hin & Hup & Huc & Hur & Hvp & Hvc & Hvr)|(Hin & Hup & Huc & Hur & Hvp & Hvc & Hvr)].
  - destruct (HA Hin) as [Hp Hc].
    assert (Hpb : parent nb = Some a) by (destruct (po_adj _ _ _ _ Hok) as [(_ & ? & _)|(_ & _ & ? & _)]; [assumption|contradiction]).
    assert (Hnv : nvirt nd = nvirt na + nvirt nb - 2).
    { unfold nvirt, nparents. rewrite Hp, Hc, Hpb, app_length. pose proof (TrotterProofs.remove_first_length _ _ Hin). nlia. }
    split; [|split; [|exact Hnv]];
    unfold leg_ok; rewrite ?Hup, ?Huc, ?Hur, ?Hvp, ?Hvc, ?Hvr, ?Hou, ?Hov, ?Hp, ?Hc, ?Hnv; repeat split; try discriminate; auto.
    + intros Hr. apply is_root_spec. exact Hr.
    + apply incl_appl. apply incl_refl.
    + intros l Hl'. apply in_seq in Hl'. lia.
    + apply incl_appr. apply incl_refl.
    + intros l Hl'. apply in_seq in Hl'. lia.
  - destruct (HB Hin) as [Hp Hc].
    assert (Hpa : parent na = Some b).
    { destruct (po_adj _ _ _ _ Hok) as [(_ & _ & Hy & _)|(_ & ? & _)]; [contradiction|assumption]. }
    assert (Hnv : nvirt nd = nvirt na + nvirt nb - 2).
    { unfold nvirt, nparents. rewrite Hp, Hc, Hpa, app_length. pose proof (TrotterProofs.remove_first_length _ _ Hin). nlia. }
    split; [|split; [|exact Hnv]];
    unfold leg_ok; rewrite ?Hup, ?Huc, ?Hur, ?Hvp, ?Hvc, ?Hvr, ?Hou, ?Hov, ?Hp, ?Hc, ?Hnv; repeat split; try discriminate; auto.
    + apply incl_appl. apply incl_refl.
    + intros l Hl'. apply in_seq in Hl'. lia.
    + intros Hr. apply is_root_spec. exact Hr.
    + apply incl_appr. apply incl_refl.
    + intros l Hl'. apply in_seq in Hl'. lia.
Qed.

(* ---- the three sub-operations of a two-site gate, with everything known about them ----------- *)
Record gate_chain (contr : id) (s : store) (a b : id) (g : tgate) (s1 s2 s3 : store) (na nb : node) (u v : legspec) : Prop := {
  gc_b : aget b (nodes s) = Some nb;
  gc_ok : pair_ok a na b nb;
  gc_ca : contr <> a;
  gc_cb : contr <> b;
  gc_new : ~ In contr (akeys (nodes s));
  gc_lbc : lbc_nodes a na b nb = Some (u, v);
  gc_c : contract_nodes s a b contr = Some s1;
  gc_a : absorb_open s1 contr (t_shape g) = Some s2;
  gc_s : split_nodes s2 contr u v a b (t_kind g) Reduced (t_bond g) = Some s3;
  gc_wf1 : wf s1;
  gc_wf2 : wf s2;
  gc_spec : spec_ok s2 contr u v;
  gc_nv : forall nd, aget contr (nodes s2) = Some nd -> nvirt nd = nvirt na + nvirt nb - 2;
  gc_ids : ids_ok s2 contr a b;
  gc_wf3 : wf s3
}.

Lemma reset_parent n : parent (reset_permutation n) = parent n. Proof. reflexivity. Qed.
Lemma reset_children n : children (reset_permutation n) = children n. Proof. reflexivity. Qed.
Lemma nlegs_reset n : nlegs (reset_permutation n) = nlegs n.
Proof. unfold nlegs. cbn. apply seq_length. Qed.
Lemma nvirt_reset n : nvirt (reset_permutation n) = nvirt n.
Proof. reflexivity. Qed.
Lemma nopen_reset n : nopen (reset_permutation n) = nopen n.
Proof. unfold nopen. rewrite nlegs_reset, nvirt_reset. reflexivity. Qed.

(* the contraction half: invariant, truthful specifications, admissible identifiers *)
Lemma gate_half contr s a b gshape s1 s2 na nb u v :
  wf s -> aget a (nodes s) = Some na -> aget b (nodes s) = Some nb -> pair_ok a na b nb ->
  ~ In contr (akeys (nodes s)) -> lbc_nodes a na b nb = Some (u, v) ->
  contract_nodes s a b contr = Some s1 -> absorb_open s1 contr gshape = Some s2 ->
  wf s1 /\ wf s2 /\ ids_ok s2 contr a b /\
  exists nd, aget contr (nodes s2) = Some nd /\ leg_ok nd u /\ leg_ok nd v /\ nvirt nd = nvirt na + nvirt nb - 2 /\
             nopen nd = nopen na + nopen nb.
Proof.
  intros W Ea Eb Hok Hnew Hl Hcn Hab.
  assert (Hca : contr <> a) by (intros ->; apply Hnew; eapply aget_Some_keys; eauto).
  assert (Hcb : contr <> b) by (intros ->; apply Hnew; eapply aget_Some_keys; eauto).
  assert (Hnew' : contr = a \/ contr = b \/ ~ In contr (akeys (nodes s))) by tauto.
  pose proof (contract_preserves_wf _ _ _ _ _ W Hcn Hnew') as W1.
  pose proof (absorb_preserves_wf _ _ _ _ W1 Hab) as W2.
  destruct (contract_inv2 _ _ _ _ _ W Hcn Hnew') as (p & c & s2c & pn & cn & nn & ax & nt & F & Hoth & (pn0 & cn0 & Ep0 & Ec0 & -> & ->) & _).
  destruct F as [Fpc Fab Fwf2 Fp Fc Fpar Fpp Fpc' Fax Ftd Fnn Fkeys Flax Fatoms Fends Ftkeys Fview].
  destruct Fview as (V1 & V2 & V3 & V4 & V5 & V6 & V7 & V8 & V9).
  destruct (create_contracted_node_structure _ _ _ _ _ _ Fnn) as [Hnp Hnc]. rewrite reset_parent in Hnp. rewrite !reset_children in Hnc.
  destruct (absorb_open_inv _ _ _ _ Hab) as (s1a & nd & t & Hacc & _ & _ & _ & En2 & _).
  destruct (access_result _ _ _ _ _ Hacc) as (B1 & _ & _ & B4 & _ & _ & _ & B8 & (nd0 & B9 & B10 & B11)).
  rewrite V2 in B9. injection B9 as <-.
  destruct (contract_open_rule _ _ _ _ _ na nb W Hcn Hnew' Ea Eb) as (nn' & Enn' & Hopen & _).
  rewrite V2 in Enn'. injection Enn' as <-.
  split; [exact W1|]. split; [exact W2|]. split.
  { unfold ids_ok. rewrite En2, B8. split; right; apply aget_None.
    - destruct Fpc as [[-> ->]|[-> ->]]; [apply V3|apply V4]; congruence.
    - destruct Fpc as [[-> ->]|[-> ->]]; [apply V4|apply V3]; congruence. }
  exists nd. split; [rewrite En2; exact B1|].
  assert (Hno : nopen nd = nopen na + nopen nb).
  { destruct (access_inv _ _ _ _ _ Hacc) as (x & y & X1 & _ & -> & _). rewrite V2 in X1. injection X1 as <-.
    rewrite nopen_reset.
    rewrite <- (open_of_length nn (tens s1 contr)), Hopen, app_length, !open_of_length. reflexivity. }
  cut (leg_ok nd u /\ leg_ok nd v /\ nvirt nd = nvirt na + nvirt nb - 2); [tauto|].
  apply (lbc_leg_ok a na b nb u v nd Hok Hl).
  - intros Hin. rewrite B10, B11, Hnp, Hnc.
    destruct Fpc as [[-> ->]|[-> ->]].
    + rewrite Ea in Ep0. injection Ep0 as <-. rewrite Eb in Ec0. injection Ec0 as <-. rewrite Nat.eqb_refl. auto.
    + exfalso. rewrite Ea in Ec0. injection Ec0 as <-. rewrite reset_parent in Fpar.
      destruct (po_adj _ _ _ _ Hok) as [(_ & _ & _ & Hx)|(_ & _ & Hx & _)]; contradiction.
  - intros Hin. rewrite B10, B11, Hnp, Hnc.
    destruct Fpc as [[-> ->]|[-> ->]].
    + exfalso. rewrite Eb in Ec0. injection Ec0 as <-. rewrite reset_parent in Fpar.
      destruct (po_adj _ _ _ _ Hok) as [(_ & _ & Hx & _)|(_ & _ & _ & Hx)]; contradiction.
    + rewrite Eb in Ep0. injection Ep0 as <-. rewrite Ea in Ec0. injection Ec0 as <-.
      destruct (Nat.eqb_spec b a) as [E|_]; [congruence|]. auto.
Qed.

Lemma two_site_chain contr s a b g s1 s2 s3 na :
  wf s -> aget a (nodes s) = Some na -> aget contr (nodes s) = None ->
  two_site_stages contr s a b g = Some (s1, s2, s3) ->
  exists nb u v, gate_chain contr s a b g s1 s2 s3 na nb u v.
Proof.
  intros W Ea Hc H. unfold two_site_stages in H.
  destruct (legs_before_combination s a b) as [[u v]|] eqn:Hl; [|discriminate].
  destruct (contract_nodes s a b contr) as [t1|] eqn:Hcn; [|discriminate].
  destruct (absorb_open t1 contr (t_shape g)) as [t2|] eqn:Hab; [|discriminate].
  destruct (split_nodes t2 contr u v a b (t_kind g) Reduced (t_bond g)) as [t3|] eqn:Hs; [|discriminate].
  injection H as <- <- <-. unfold legs_before_combination in Hl. rewrite Ea in Hl.
  destruct (aget b (nodes s)) as [nb|] eqn:Eb; [|discriminate].
  assert (Hnbr : In b (neighbouring_nodes na)).
  { apply in_neighbouring. unfold lbc_nodes in Hl. destruct (memb a (children nb)) eqn:M1.
    - apply memb_In in M1. destruct (ni_ch _ _ _ (wf_node s W b nb Eb) a M1) as (na' & Ea' & Hp).
      rewrite Ea in Ea'. injection Ea' as <-. left. exact Hp.
    - destruct (memb b (children na)) eqn:M2; [|discriminate]. right. apply memb_In. exact M2. }
  pose proof (pair_ok_wf s a na b nb W Ea Eb Hnbr) as Hok.
  assert (Hca : contr <> a) by (intros ->; congruence).
  assert (Hcb : contr <> b) by (intros ->; congruence).
  assert (Hnew : ~ In contr (akeys (nodes s))) by (apply aget_None; exact Hc).
  destruct (gate_half _ _ _ _ _ _ _ _ _ _ _ W Ea Eb Hok Hnew Hl Hcn Hab) as (W1 & W2 & Hids & nd & End & L1 & L2 & Hnv0 & _).
  assert (Hspec : spec_ok t2 contr u v) by (intros ndx Ex; rewrite End in Ex; injection Ex as <-; auto).
  assert (Hnv : forall ndx, aget contr (nodes t2) = Some ndx -> nvirt ndx = nvirt na + nvirt nb - 2)
    by (intros ndx Ex; rewrite End in Ex; injection Ex as <-; auto).
  pose proof (split_preserves_wf _ _ _ _ _ _ _ _ _ _ W2 Hs Hspec Hids) as W3.
  exists nb, u, v. constructor; auto.
Qed.

(* ---- orientation: which of the two nodes is the upper one ---------------------------------------- *)
Lemma gate_oriented contr s a b g s1 s2 s3 na nb u v :
  wf s -> aget a (nodes s) = Some na ->
  gate_chain contr s a b g s1 s2 s3 na nb u v ->
  exists p c pn0 cn0 su sl,
    ((p = a /\ c = b /\ pn0 = na /\ cn0 = nb /\ su = u /\ sl = v) \/ (p = b /\ c = a /\ pn0 = nb /\ cn0 = na /\ su = v /\ sl = u)) /\
    aget p (nodes s) = Some pn0 /\ aget c (nodes s) = Some cn0 /\ parent cn0 = Some p /\ In c (children pn0) /\
    parent pn0 <> Some c /\ p <> c /\
    ls_parent su = parent pn0 /\ ls_children su = remove_first c (children pn0) /\
    ls_parent sl = None /\ ls_children sl = children cn0 /\
    exists s2a nd2 t2 cU cL nU nL tU tL bd,
      access s2 contr = Some (s2a, nd2, t2) /\ wf s2a /\
      split_view s2a s3 contr nd2 t2 p c su sl cU cL nU nL tU tL bd.
Proof.
  intros W Ea G. destruct G as [Eb Hok Hca Hcb Hnew Hl Hcn Hab Hs W1 W2 Hspec Hnv Hids W3].
  destruct (lbc_names _ _ _ _ _ _ Hok Hl) as (_ & _ & Hcase).
  destruct (split_view_of _ _ _ _ _ _ _ _ _ _ W2 Hs Hspec Hids)
    as (s2a & nd2 & t2 & ol & il & on2 & in2 & cO & cI & bd & Hacc & W2a & _ & _ & _ & _ & _ & _ & _ & _ & V).
  destruct Hcase as [(Hin & Hup & Huc & Hur & Hvp & Hvc & Hvr)|(Hin & Hup & Huc & Hur & Hvp & Hvc & Hvr)].
  - assert (Hpb : parent nb = Some a) by (destruct (po_adj _ _ _ _ Hok) as [(_ & ? & _)|(_ & _ & ? & _)]; [assumption|contradiction]).
    assert (Hpa : parent na <> Some b) by (destruct (po_adj _ _ _ _ Hok) as [(_ & _ & _ & ?)|(_ & ? & Hx & _)]; [assumption|contradiction]).
    exists a, b, na, nb, u, v. split; [left; tauto|]. repeat (split; [solve [auto | apply (po_ne _ _ _ _ Hok)]|]).
    exists s2a, nd2, t2, cO, cI, on2, in2, (sp_ot s2a t2 ol), (sp_it s2a t2 il), bd. split; [exact Hacc|]. split; [exact W2a|].
    destruct V as [[Hab' _]|[_ V]]; [|exact V].
    unfold sp_in_above in Hab'. rewrite Hvr, Hvp in Hab'. discriminate.
  - assert (Hpa : parent na = Some b).
    { destruct (po_adj _ _ _ _ Hok) as [(_ & _ & Hy & _)|(_ & ? & _)]; [contradiction|assumption]. }
    assert (Hpb : parent nb <> Some a) by (destruct (po_adj _ _ _ _ Hok) as [(Hx & _)|(_ & _ & _ & ?)]; [|assumption];
      destruct (po_adj _ _ _ _ Hok) as [(_ & _ & Hy & _)|(_ & _ & Hy & _)]; contradiction).
    exists b, a, nb, na, v, u. split; [right; tauto|].
    repeat (split; [solve [auto | apply not_eq_sym; apply (po_ne _ _ _ _ Hok)]|]).
    exists s2a, nd2, t2, cI, cO, in2, on2, (sp_it s2a t2 il), (sp_ot s2a t2 ol), bd. split; [exact Hacc|]. split; [exact W2a|].
    destruct V as [[_ V]|[Hab' _]]; [exact V|].
    unfold sp_in_above in Hab'. rewrite Hvr, Hvp in Hab'. unfold is_root in Hab'. destruct (parent nb); discriminate.
Qed.

Lemma replace_first_back x y l : ~ In y l -> replace_first y x (replace_first x y l) = l.
Proof.
  intros Hy. induction l as [|z t IH]; cbn; [reflexivity|].
  destruct (Nat.eqb_spec x z) as [->|Hxz]; cbn.
  - rewrite Nat.eqb_refl. reflexivity.
  - destruct (Nat.eqb_spec y z) as [->|Hyz]; [exfalso; apply Hy; left; reflexivity|].
    f_equal. apply IH. intros H. apply Hy. right. exact H.
Qed.

Lemma same_tree_intro l l' : NoDup (akeys l) -> NoDup (akeys l') ->
  (forall k, match aget k l, aget k l' with
             | Some n, Some n' => parent n = parent n' /\ Permutation (children n) (children n')
             | None, None => True
             | _, _ => False
             end) -> same_tree l l'.
Proof.
  intros N1 N2 H. split; [|exact H].
  assert (P : Permutation (akeys l) (akeys l')).
  { apply NoDup_Permutation; auto. intros k. specialize (H k). split; intros Hin; apply keys_aget in Hin; destruct Hin as [x Hx].
    - rewrite Hx in H. destruct (aget k l') eqn:E; [|contradiction]. eapply aget_Some_keys; eauto.
    - rewrite Hx in H. destruct (aget k l) eqn:E; [|contradiction]. eapply aget_Some_keys; eauto. }
  apply Permutation_length in P. unfold akeys in P. rewrite !map_length in P. exact P.
Qed.

(* ---- A1: a two-site gate gives the same tree back -------------------------------------------------- *)
Theorem two_site_gate_same_tree_wf contr s a b g s1 s2 s3 na :
  wf s -> aget a (nodes s) = Some na -> aget contr (nodes s) = None ->
  two_site_stages contr s a b g = Some (s1, s2, s3) ->
  In b (neighbouring_nodes na) /\ wf s3 /\
  same_tree (nodes s) (nodes s3) /\ root s3 = root s /\
  aget contr (nodes s3) = None /\ aget contr (tensors s3) = None /\
  (forall k, k <> a -> k <> b -> aget k (nodes s3) = aget k (nodes s) /\ aget k (tensors s3) = aget k (tensors s)).
Proof.
  intros W Ea Hc H.
  destruct (two_site_chain _ _ _ _ _ _ _ _ _ W Ea Hc H) as (nb & u & v & G).
  destruct (gate_oriented _ _ _ _ _ _ _ _ _ _ _ _ W Ea G) as (p & c & pn0 & cn0 & su & sl & Hor & Ep0 & Ec0 & Hparc & Hcin & Hppc & Hpc &
     Hsup & Hsuc & Hslp & Hslc & s2a & nd2 & t2 & cU & cL & nU & nL & tU & tL & bd & Hacc2 & W2a & V).
  pose proof G as G'. destruct G' as [Eb Hok Hca Hcb Hnew Hl Hcn Hab Hs W1 W2 Hspec Hnv Hids W3].
  assert (Hnew' : contr = a \/ contr = b \/ ~ In contr (akeys (nodes s))) by tauto.
  destruct (contract_inv2 _ _ _ _ _ W Hcn Hnew') as (p' & c' & s2c & pn & cn & nn & ax & nt & F & Hoth & (pn0' & cn0' & Ep0' & Ec0' & -> & ->) & _ & _ & _ & _ & _ & _ & _ & Hroot2c).
  destruct F as [Fpc Fab Fwf2 Fp Fc Fpar Fpp Fpc' Fax Ftd Fnn Fkeys Flax Fatoms Fends Ftkeys Fview].
  destruct Fview as (V1 & V2 & V3 & V4 & V5 & V6 & V7 & V8 & V9).
  rewrite reset_parent in Fpar.
  (* the two orientations agree *)
  assert (Hpp' : p' = p /\ c' = c).
  { destruct Hor as [(-> & -> & -> & -> & _)|(-> & -> & -> & -> & _)]; destruct Fpc as [[-> ->]|[-> ->]]; auto; exfalso.
    - rewrite Ea in Ec0'. injection Ec0' as <-. congruence.
    - rewrite Eb in Ec0'. injection Ec0' as <-. congruence. }
  destruct Hpp' as [-> ->]. rewrite Ep0 in Ep0'. injection Ep0' as <-. rewrite Ec0 in Ec0'. injection Ec0' as <-.
  rewrite reset_parent, !reset_children in V5.
  assert (Hcp_ne : contr <> p /\ contr <> c) by (destruct Hor as [(-> & -> & _)|(-> & -> & _)]; auto).
  destruct Hcp_ne as [Hcp Hcc].
  assert (Hab_k : forall k, k = a \/ k = b <-> k = p \/ k = c) by (intros k; destruct Hor as [(-> & -> & _)|(-> & -> & _)]; tauto).
  (* absorb and the two accesses of the temporary node *)
  destruct (absorb_open_inv _ _ _ _ Hab) as (s1a & nd1 & t1 & Hacc1 & _ & _ & _ & En2 & Er2 & Et2 & _).
  destruct (access_result _ _ _ _ _ Hacc1) as (B1 & _ & _ & B4 & _ & _ & B7 & B8 & (nd10 & B9 & B10 & B11)).
  rewrite V2 in B9. injection B9 as <-.
  destruct (access_result _ _ _ _ _ Hacc2) as (C1 & _ & _ & C4 & _ & _ & C7 & C8 & (nd20 & C9 & C10 & C11)).
  rewrite En2, B1 in C9. injection C9 as <-.
  destruct (create_contracted_node_structure _ _ _ _ _ _ Fnn) as [Hnp Hnc]. rewrite reset_parent in Hnp.
  assert (Hnd2p : parent nd2 = parent pn0) by congruence.
  pose proof (wf_tstruct s W) as T.
  (* nodes other than the pair and the temporary one, along the way *)
  assert (Hmid_n : forall k, k <> p -> k <> c -> k <> contr ->
            aget k (nodes s2a) = option_map (rt p c contr (children pn0) (children cn0) (parent pn0) k) (aget k (nodes s))).
  { intros k K1 K2 K3. destruct (C4 k K3) as [-> _]. rewrite En2. destruct (B4 k K3) as [-> _].
    rewrite (V5 k K1 K2 K3). destruct (Hoth k K1 K2) as [-> _]. reflexivity. }
  assert (Hmid_t : forall k, k <> p -> k <> c -> k <> contr -> aget k (tensors s2a) = aget k (tensors s)).
  { intros k K1 K2 K3. destruct (C4 k K3) as [_ ->]. rewrite Et2, aget_aset_other by exact K3. destruct (B4 k K3) as [_ ->].
    rewrite V7, sp_aget_snoc_other by exact K3. rewrite !aget_adel_other by assumption. apply (Hoth k K1 K2). }
  assert (HcontrT : aget contr (tensors s) = None).
  { destruct (aget contr (tensors s)) eqn:E; [|reflexivity]. exfalso. apply Hnew. apply (wf_keys_iff s contr W).
    eapply aget_Some_keys; eauto. }
  assert (Hothers : forall k, k <> p -> k <> c -> aget k (nodes s3) = aget k (nodes s) /\ aget k (tensors s3) = aget k (tensors s)).
  { intros k K1 K2. destruct (Nat.eq_dec k contr) as [->|K3].
    - split.
      + rewrite Hc. destruct (aget contr (nodes s3)) eqn:E; [|reflexivity]. exfalso.
        apply aget_Some_keys in E. apply (sv_keys _ _ _ _ _ _ _ _ _ _ _ _ _ _ _ _ V) in E. destruct E as [E|[E|[E _]]]; congruence.
      + rewrite HcontrT. rewrite (sv_told _ _ _ _ _ _ _ _ _ _ _ _ _ _ _ _ V) by congruence. rewrite Nat.eqb_refl. reflexivity.
    - split.
      + pose proof (Hmid_n k K1 K2 K3) as Hm. destruct (aget k (nodes s)) as [nk0|] eqn:Ek0; cbn in Hm.
        * destruct (sv_old _ _ _ _ _ _ _ _ _ _ _ _ _ _ _ _ V k _ K3 Hm) as (nk' & E' & Hperm & Hshape & HpU & HpL & HpO & HcP & HcO).
          rewrite E'. f_equal. cbn [rt perm shape] in Hperm, Hshape. apply node_eq; auto.
          -- (* parent *)
             destruct (in_dec Nat.eq_dec k (children pn0)) as [I1|I1].
             ++ rewrite HpU by (rewrite Hsuc; apply remove_first_In_other; auto).
                destruct (ts_ch _ T p pn0 k Ep0 I1) as (nk0' & Ek0' & Hq). rewrite Ek0 in Ek0'. injection Ek0' as <-. symmetry. exact Hq.
             ++ destruct (in_dec Nat.eq_dec k (children cn0)) as [I2|I2].
                ** rewrite HpL by (rewrite Hslc; exact I2).
                   destruct (ts_ch _ T c cn0 k Ec0 I2) as (nk0' & Ek0' & Hq). rewrite Ek0 in Ek0'. injection Ek0' as <-. symmetry. exact Hq.
                ** rewrite HpO.
                   --- cbn [rt parent]. apply memb_false in I1. apply memb_false in I2. rewrite I1, I2. reflexivity.
                   --- rewrite Hsuc. intros Hx. apply I1. apply (remove_first_In _ _ _ Hx).
                   --- rewrite Hslc. exact I2.
          -- (* children *)
             destruct (option_eq_dec_id (parent pn0) (Some k)) as [Hpk|Hpk].
             ++ rewrite HcP by (rewrite Hnd2p; exact Hpk). cbn [rt children]. rewrite Hpk, Nat.eqb_refl.
                apply replace_first_back. intros Hx.
                destruct (ts_ch _ T k nk0 contr Ek0 Hx) as (xn & Ex & _). congruence.
             ++ rewrite HcO by (rewrite Hnd2p; exact Hpk). cbn [rt children].
                destruct (parent pn0) as [q|]; [|reflexivity]. destruct (Nat.eqb_spec k q) as [->|]; [exfalso; apply Hpk; reflexivity|reflexivity].
        * destruct (aget k (nodes s3)) eqn:E; [|reflexivity]. exfalso.
          apply aget_Some_keys in E. apply (sv_keys _ _ _ _ _ _ _ _ _ _ _ _ _ _ _ _ V) in E. destruct E as [E|[E|[_ E]]]; try congruence.
          apply keys_aget in E. destruct E as [x Ex]. congruence.
      + rewrite (sv_told _ _ _ _ _ _ _ _ _ _ _ _ _ _ _ _ V) by congruence. destruct (Nat.eqb_spec k contr); [contradiction|].
        apply Hmid_t; assumption. }
  (* the pair *)
  destruct (two_site_gate_restores contr s a b g s1 s2 s3 na nb Ea Eb Hok Hca Hcb H)
    as (na' & nb' & Ea' & Eb' & Hpa' & Hca' & Hpb' & Hcb' & Hroot).
  assert (Hnbr : In b (neighbouring_nodes na)).
  { apply in_neighbouring. destruct Hor as [(-> & -> & -> & -> & _)|(-> & -> & -> & -> & _)]; auto. }
  assert (Hroot' : root s3 = root s).
  { rewrite Hroot. destruct (wf_root s W) as (r & rn & Hr & Er & Hpr & Hu). rewrite Hr.
    unfold is_root. destruct (parent na) eqn:Pa.
    - destruct (parent nb) eqn:Pb.
      + rewrite Er2, B7, V6, reset_parent, Hroot2c, Hr.
        destruct Hor as [(_ & _ & -> & _)|(_ & _ & -> & _)]; [rewrite Pa|rewrite Pb]; reflexivity.
      + f_equal. apply (Hu b nb Eb Pb).
    - f_equal. apply (Hu a na Ea Pa). }
  assert (Hoth_ab : forall k, k <> a -> k <> b -> aget k (nodes s3) = aget k (nodes s) /\ aget k (tensors s3) = aget k (tensors s)).
  { intros k K1 K2. apply Hothers; intros E; [destruct (proj2 (Hab_k k) (or_introl E))|destruct (proj2 (Hab_k k) (or_intror E))]; contradiction. }
  split; [exact Hnbr|]. split; [exact W3|]. split.
  { apply same_tree_intro; [apply (wf_nd s W)|apply (wf_nd s3 W3)|].
    intros k. destruct (Nat.eq_dec k a) as [->|K1].
    - rewrite Ea, Ea'. split; [symmetry; exact Hpa'|symmetry; exact Hca'].
    - destruct (Nat.eq_dec k b) as [->|K2].
      + rewrite Eb, Eb'. split; [symmetry; exact Hpb'|symmetry; exact Hcb'].
      + destruct (Hoth_ab k K1 K2) as [-> _]. destruct (aget k (nodes s)); auto. }
  split; [exact Hroot'|].
  assert (Hcpc : contr <> p /\ contr <> c) by auto.
  destruct (Hothers contr (proj1 Hcpc) (proj2 Hcpc)) as [X1 X2].
  split; [rewrite X1; exact Hc|]. split; [rewrite X2; exact HcontrT|]. exact Hoth_ab.
Qed.

(* ---- A3: every gate application, and a whole TEBD step, preserve the invariant and the tree ------- *)
Lemma access_same_tree s n s1 nd t : wf s -> access s n = Some (s1, nd, t) ->
  same_tree (nodes s) (nodes s1) /\ root s1 = root s /\ forall k, aget k (nodes s) = None -> aget k (nodes s1) = None.
Proof.
  intros W Ha. pose proof (access_preserves_wf _ _ _ _ _ W Ha) as W1.
  destruct (access_result _ _ _ _ _ Ha) as (B1 & _ & _ & B4 & _ & _ & B7 & B8 & (nd0 & B9 & B10 & B11)).
  split; [|split; [exact B7|]].
  - apply same_tree_intro; [apply (wf_nd s W)|apply (wf_nd s1 W1)|]. intros k. destruct (Nat.eq_dec k n) as [->|K].
    + rewrite B9, B1. split; [symmetry; exact B10|rewrite B11; reflexivity].
    + destruct (B4 k K) as [-> _]. destruct (aget k (nodes s)); auto.
  - intros k Hk. destruct (Nat.eq_dec k n) as [->|K]; [congruence|]. destruct (B4 k K) as [-> _]. exact Hk.
Qed.

Theorem apply_gate_preserves_wf contr s g s' :
  wf s -> aget contr (nodes s) = None -> apply_gate contr s g = Some s' ->
  wf s' /\ aget contr (nodes s') = None /\ same_tree (nodes s) (nodes s') /\ root s' = root s.
Proof.
  intros W Hc H. unfold apply_gate, apply_gate_stages in H.
  destruct (t_ids g) as [|a [|b [|x r]]]; cbn in H.
  - injection H as <-. split; [exact W|]. split; [exact Hc|]. split; [apply same_tree_refl|reflexivity].
  - destruct (absorb_open s a (t_shape g)) as [s1|] eqn:Hab; [|discriminate]. cbn in H. injection H as <-.
    split; [apply (absorb_preserves_wf _ _ _ _ W Hab)|].
    destruct (absorb_open_inv _ _ _ _ Hab) as (s0 & nd & t & Hacc & _ & _ & _ & En & Er & _).
    destruct (access_same_tree _ _ _ _ _ W Hacc) as (S1 & S2 & S3). rewrite En, Er. auto.
  - destruct (two_site_stages contr s a b g) as [[[s1 s2] s3]|] eqn:Hts; [|discriminate]. cbn in H. injection H as <-.
    assert (Ea : exists na, aget a (nodes s) = Some na).
    { unfold two_site_stages, legs_before_combination in Hts. destruct (aget a (nodes s)) as [na|]; [eauto|discriminate]. }
    destruct Ea as [na Ea].
    destruct (two_site_gate_same_tree_wf _ _ _ _ _ _ _ _ _ W Ea Hc Hts) as (_ & W3 & St & Hr & Hn & _). auto.
  - discriminate.
Qed.

Theorem tebd_step_preserves_wf contr : forall gs s s',
  wf s -> aget contr (nodes s) = None -> tebd_step contr s gs = Some s' ->
  wf s' /\ aget contr (nodes s') = None /\ same_tree (nodes s) (nodes s') /\ root s' = root s.
Proof.
  induction gs as [|g gs IH]; intros s s' W Hc H; cbn in H.
  - injection H as <-. split; [exact W|]. split; [exact Hc|]. split; [apply same_tree_refl|reflexivity].
  - destruct (apply_gate contr s g) as [s1|] eqn:Hg; [|discriminate].
    destruct (apply_gate_preserves_wf _ _ _ _ W Hc Hg) as (W1 & Hc1 & St1 & Hr1).
    destruct (IH s1 s' W1 Hc1 H) as (W' & Hc' & St' & Hr').
    split; [exact W'|]. split; [exact Hc'|]. split; [eapply same_tree_trans; eauto|congruence].
Qed.

(* the executable form *)
Theorem two_site_gate_same_tree contr s a b g s1 s2 s3 na :
  wfb s = true -> aget a (nodes s) = Some na -> aget contr (nodes s) = None ->
  two_site_stages contr s a b g = Some (s1, s2, s3) ->
  In b (neighbouring_nodes na) /\ wfb s3 = true /\
  same_tree (nodes s) (nodes s3) /\ root s3 = root s /\
  aget contr (nodes s3) = None /\ aget contr (tensors s3) = None /\
  (forall k, k <> a -> k <> b -> aget k (nodes s3) = aget k (nodes s) /\ aget k (tensors s3) = aget k (tensors s)).
Proof.
  intros W Ea Hc H. apply wfb_iff in W.
  destruct (two_site_gate_same_tree_wf _ _ _ _ _ _ _ _ _ W Ea Hc H) as (X1 & X2 & X3). apply wfb_iff in X2. auto.
Qed.

Theorem apply_gate_preserves_wfb contr s g s' :
  wfb s = true -> aget contr (nodes s) = None -> apply_gate contr s g = Some s' ->
  wfb s' = true /\ aget contr (nodes s') = None /\ same_tree (nodes s) (nodes s') /\ root s' = root s.
Proof.
  intros W Hc H. apply wfb_iff in W. destruct (apply_gate_preserves_wf _ _ _ _ W Hc H) as (X1 & X2). apply wfb_iff in X1. auto.
Qed.

Theorem tebd_step_preserves_wfb contr gs s s' :
  wfb s = true -> aget contr (nodes s) = None -> tebd_step contr s gs = Some s' ->
  wfb s' = true /\ aget contr (nodes s') = None /\ same_tree (nodes s) (nodes s') /\ root s' = root s.
Proof.
  intros W Hc H. apply wfb_iff in W. destruct (tebd_step_preserves_wf _ _ _ _ W Hc H) as (X1 & X2). apply wfb_iff in X1. auto.
Qed.

(* several steps (tebd_steps of TrotterProofs.v) *)
Theorem tebd_steps_preserve_wfb contr gs : forall n s s',
  wfb s = true -> aget contr (nodes s) = None -> tebd_steps contr n s gs = Some s' ->
  wfb s' = true /\ aget contr (nodes s') = None /\ same_tree (nodes s) (nodes s') /\ root s' = root s.
Proof.
  induction n as [|n IH]; intros s s' W Hc H; cbn in H.
  - injection H as <-. split; [exact W|]. split; [exact Hc|]. split; [apply same_tree_refl|reflexivity].
  - destruct (tebd_step contr s gs) as [s1|] eqn:E; [|discriminate].
    destruct (tebd_step_preserves_wfb _ _ _ _ W Hc E) as (W1 & Hc1 & St1 & Hr1).
    destruct (IH s1 s' W1 Hc1 H) as (W' & Hc' & St' & Hr').
    split; [exact W'|]. split; [exact Hc'|]. split; [eapply same_tree_trans; eauto|congruence].
Qed.

(* ---- A2: the diagram the gate folds into the network ------------------------------------------------ *)
Lemma find_leg_values_ext n n' sp : parent n = parent n' -> children n = children n' ->
  find_leg_values n sp = find_leg_values n' sp.
Proof.
  intros Hp Hc. unfold find_leg_values. erewrite map_ext; [reflexivity|]. intros x. apply neighbour_index_ext; assumption.
Qed.

(* the tensor the SVD kernel receives: the contraction of the two old tensors (in the order
   _create_contracted_node gives the legs), the gate atom [ga] with its inputs on the old open wires
   (now summed) and its fresh output wires in their place *)
Definition gate_folded (nn : node) (nt : sarr) (ga : nat) (outw : list wire) : sarr :=
  {| axes := firstn (nvirt nn) (laxes nn nt) ++ outw;
     atoms := atoms nt ++ [ga];
     bnd := skipn (nvirt nn) (laxes nn nt) ++ bnd nt |}.

Theorem two_site_gate_diagram_wf contr s a b g s1 s2 s3 na :
  wf s -> aget a (nodes s) = Some na -> aget contr (nodes s) = None ->
  two_site_stages contr s a b g = Some (s1, s2, s3) ->
  exists nb u v p c pn0 cn0 pt ct ax nt nn lu lv,
    aget b (nodes s) = Some nb /\ lbc_nodes a na b nb = Some (u, v) /\
    ((p = a /\ c = b) \/ (p = b /\ c = a)) /\
    aget p (nodes s) = Some pn0 /\ aget c (nodes s) = Some cn0 /\ parent cn0 = Some p /\
    (* the two old tensors and their contraction over the bond *)
    logical s p = Some pt /\ logical s c = Some ct /\ neighbour_index pn0 c = Some ax /\
    s_tensordot pt ct ax 0 = Some nt /\
    (* the contracted node and the legs the two recorded specifications name *)
    aget contr (nodes s1) = Some nn /\ aget contr (tensors s1) = Some nt /\
    find_leg_values nn u = Some lu /\ find_leg_values nn v = Some lv /\
    Permutation (lu ++ lv) (seq 0 (nlegs nn)) /\
    let ga := next_atom s in
    let opa := open_of na (tens s a) in
    let opb := open_of nb (tens s b) in
    let outw := seq (next_wire s) (nopen na + nopen nb) in
    let bw := next_wire s + (nopen na + nopen nb) in
    let G := gate_folded nn nt ga outw in
    (* the open wires of the contracted node are the old open wires of node1 then node2 *)
    skipn (nvirt nn) (laxes nn nt) = opa ++ opb /\
    (* the gate atom: outputs on fresh wires, inputs on the old open wires; then the two SVD factors *)
    atab s3 = atab s ++ [(ga, outw ++ opa ++ opb); (S ga, permute 0 lu (axes G) ++ [bw]); (S (S ga), bw :: permute 0 lv (axes G))] /\
    defs s3 = defs s ++ [{| kq := S ga; kr := S (S ga); kbond := bw; kinput := s_transpose (lu ++ lv) G;
                            kkind := t_kind g; kmode := match t_kind g with 0 => Some Reduced | _ => None end |}] /\
    aget a (tensors s3) = Some {| axes := permute 0 lu (axes G) ++ [bw]; atoms := [S ga]; bnd := [] |} /\
    aget b (tensors s3) = Some {| axes := bw :: permute 0 lv (axes G); atoms := [S (S ga)]; bnd := [] |} /\
    next_atom s3 = S (S (S ga)) /\ next_wire s3 = S bw /\
    (exists bd, dims s3 = (dims s ++ combine outw (firstn (nopen na + nopen nb) (t_shape g))) ++ [(bw, bd)]) /\
    (* the gate's output wires take the places of the open legs: node1's first, in order *)
    exists na' nb', aget a (nodes s3) = Some na' /\ aget b (nodes s3) = Some nb' /\
      open_of na' (tens s3 a) = seq (next_wire s) (nopen na) /\
      open_of nb' (tens s3 b) = seq (next_wire s + nopen na) (nopen nb).
Proof.
  intros W Ea Hc H.
  destruct (two_site_chain _ _ _ _ _ _ _ _ _ W Ea Hc H) as (nb & u & v & G).
  destruct G as [Eb Hok Hca Hcb Hnew Hl Hcn Hab Hs W1 W2 Hspec Hnv Hids W3].
  assert (Hnew' : contr = a \/ contr = b \/ ~ In contr (akeys (nodes s))) by tauto.
  destruct (contract_inv2 _ _ _ _ _ W Hcn Hnew')
    as (p & c & s2c & pn & cn & nn & ax & nt & F & Hoth & (pn0 & cn0 & Ep0 & Ec0 & -> & ->) & Lp & Lc & Na1 & Nd1 & Nt1 & Ndm1 & Nw1 & _).
  destruct F as [Fpc Fab Fwf2 Fp Fc Fpar Fpp Fpc' Fax Ftd Fnn Fkeys Flax Fatoms Fends Ftkeys Fview].
  destruct Fview as (V1 & V2 & V3 & V4 & V5 & V6 & V7 & V8 & V9).
  rewrite reset_parent in Fpar.
  assert (Hcp : contr <> p /\ contr <> c) by (destruct Fpc as [[-> ->]|[-> ->]]; auto). destruct Hcp as [Hcp Hcc].
  (* the tensor of the contracted node *)
  assert (Tc : aget contr (tensors s1) = Some nt).
  { rewrite V7. rewrite contract_tensors_aget; [rewrite Nat.eqb_refl; reflexivity|apply (wf_tnd s2c Fwf2)|].
    rewrite !aget_adel_other by assumption. destruct (aget contr (tensors s2c)) eqn:E; [|reflexivity]. exfalso.
    apply aget_Some_keys in E. rewrite Ftkeys in E. apply Hnew. apply (wf_keys_iff s contr W). exact E. }
  assert (Tc' : tens s1 contr = nt) by (apply tens_aget; exact Tc).
  destruct (contract_open_rule _ _ _ _ _ na nb W Hcn Hnew' Ea Eb) as (nn' & Enn' & Hopen & _).
  rewrite V2 in Enn'. injection Enn' as <-. rewrite Tc' in Hopen.
  (* absorb *)
  destruct (absorb_open_inv _ _ _ _ Hab) as (s1a & nd1 & t1 & Hacc1 & _ & _ & _ & En2 & Er2 & Et2 & Ed2 & Ew2 & Ea2 & Edf2 & Eat2).
  destruct (access_inv _ _ _ _ _ Hacc1) as (nn1 & nt1 & X1 & X2 & X3 & X4 & X5).
  rewrite V2 in X1. injection X1 as <-. rewrite Tc in X2. injection X2 as <-.
  destruct (sp_access_next _ _ _ _ _ Hacc1) as (Na1a & Nw1a & Nd1a & Ndm1a & Nt1a).
  assert (Hnopen : nopen nn = nopen na + nopen nb).
  { rewrite <- (open_of_length nn nt), Hopen, app_length, !open_of_length. reflexivity. }
  assert (Hg : ab_tensor s1a nd1 t1 = gate_folded nn nt (next_atom s) (seq (next_wire s) (nopen na + nopen nb))).
  { unfold ab_tensor, gate_folded. rewrite X3, X4, nvirt_reset, nopen_reset, Hnopen, Na1a, Nw1a, Na1, Nw1. reflexivity. }
  rewrite Hg in Et2. set (GG := gate_folded nn nt (next_atom s) (seq (next_wire s) (nopen na + nopen nb))) in *.
  pose proof (ni_virt _ _ _ (wf_node s1 W1 contr nn V2)) as Hvn.
  assert (Hlen : length (axes GG) = nlegs nn).
  { unfold GG, gate_folded. cbn [axes]. rewrite app_length, firstn_length, laxes_length, seq_length.
    rewrite <- Hnopen. unfold nopen. nlia. }
  (* split *)
  destruct (split_new_def _ _ _ _ _ _ _ _ _ _ {| kq := 0; kr := 0; kbond := 0; kinput := empty_sarr; kkind := 0; kmode := None |} W2 Hs)
    as (s2a & nd2 & t2 & ol & il & bd & Hacc2 & Hlog2 & Eol & Eil & Hperm & _ & Hlast & Hdefs & Toid & Tiid & Nw3 & Na3 & Dm3 & _).
  destruct (split_view_of _ _ _ _ _ _ _ _ _ _ W2 Hs Hspec Hids)
    as (s2a' & nd2' & t2' & ol' & il' & on2 & in2 & cO & cI & bd' & Hacc2' & _ & Eol' & Eil' & _ & _ & _ & _ & _ & Hatab & _).
  rewrite Hacc2 in Hacc2'. injection Hacc2' as <- <- <-. rewrite Eol in Eol'. injection Eol' as <-. rewrite Eil in Eil'. injection Eil' as <-.
  destruct (access_inv _ _ _ _ _ Hacc2) as (ndx & tx & Y1 & Y2 & Y3 & Y4 & Y5).
  assert (Endx : ndx = nd1).
  { rewrite En2 in Y1. rewrite X5 in Y1. cbn in Y1. rewrite aget_aset_same in Y1. congruence. }
  rewrite Et2, aget_aset_same in Y2. injection Y2 as <-. subst ndx.
  assert (Ht2 : t2 = GG).
  { rewrite Y4, X3. cbn [perm reset_permutation]. fold (nlegs nn). rewrite <- Hlen. apply s_transpose_seq. }
  rewrite Ht2 in Hperm, Hlast, Toid, Tiid, Hatab.
  assert (Hflv : forall sp, find_leg_values nd2 sp = find_leg_values nn sp).
  { intros sp. apply find_leg_values_ext; rewrite Y3, X3; reflexivity. }
  rewrite Hflv in Eol, Eil.
  assert (Hnext : next_atom s2 = S (next_atom s) /\ next_wire s2 = next_wire s + (nopen na + nopen nb)).
  { rewrite Ea2, Ew2, Na1a, Nw1a, Na1, Nw1, X3, nopen_reset, Hnopen. auto. }
  destruct Hnext as [NA2 NW2].
  exists nb, u, v, p, c, pn0, cn0, (tens s2c p), (tens s2c c), ax, nt, nn, ol, il.
  split; [exact Eb|]. split; [exact Hl|]. split; [exact Fpc|]. split; [exact Ep0|]. split; [exact Ec0|]. split; [exact Fpar|].
  split; [exact Lp|]. split; [exact Lc|].
  split; [rewrite <- Fax; apply neighbour_index_ext; reflexivity|].
  split; [exact Ftd|]. split; [exact V2|]. split; [exact Tc|]. split; [exact Eol|]. split; [exact Eil|].
  split; [rewrite <- Hlen; exact Hperm|].
  cbv zeta. fold GG.
  split; [exact Hopen|].
  split.
  { rewrite Hatab, Eat2, Nt1a, Nt1, NA2, NW2, Na1a, Nw1a, Na1, Nw1, X3, X4, nopen_reset, nvirt_reset, Hnopen.
    change (axes (s_transpose (perm nn) nt)) with (laxes nn nt).
    change (open_of nn nt) with (skipn (nvirt nn) (laxes nn nt)) in Hopen. rewrite Hopen, <- !app_assoc. reflexivity. }
  split.
  { rewrite Hdefs, Hlast, Edf2, Nd1a, Nd1, NA2, NW2. reflexivity. }
  split; [rewrite Toid, NA2, NW2; reflexivity|].
  split; [rewrite Tiid, NA2, NW2; reflexivity|].
  split; [rewrite Na3, NA2; reflexivity|]. split; [rewrite Nw3, NW2; reflexivity|].
  split.
  { exists bd. rewrite Dm3, NW2, Ed2, Ndm1a, Ndm1, Nw1a, Nw1, X3, nopen_reset, Hnopen. reflexivity. }
  assert (End1 : aget contr (nodes s2) = Some nd1) by (rewrite En2, X5; cbn; apply aget_aset_same).
  destruct (split_open_legs _ _ _ _ _ _ _ _ _ _ nd1 W2 Hs Hspec Hids End1) as (no & ni & Eno & Eni & Ho & Hi & _).
  exists no, ni. split; [exact Eno|]. split; [exact Eni|].
  assert (Hlax : lax s2 contr nd1 = axes GG).
  { unfold lax, laxes. rewrite (tens_aget _ _ _ (eq_trans (f_equal (aget contr) Et2) (aget_aset_same _ _ _))).
    rewrite X3. cbn [perm reset_permutation]. fold (nlegs nn). rewrite <- Hlen. apply permute_seq. }
  pose proof (Hnv nd1 End1) as Hnv1. rewrite X3, nvirt_reset in Hnv1.
  destruct (lbc_names _ _ _ _ _ _ Hok Hl) as (Hou & Hov & _).
  assert (Hvw : length (firstn (nvirt nn) (laxes nn nt)) = nvirt na + nvirt nb - 2).
  { rewrite firstn_length, laxes_length. nlia. }
  assert (E1 : forall x bb : list wire, map (fun l => nth l (x ++ bb) 0) (seq (length x) (length bb)) = bb).
  { intros x bb. pose proof (map_nth_seq_mid 0 x bb []) as Q. rewrite app_nil_r in Q. exact Q. }
  rewrite Ho, Hi, Hlax, Hou, Hov. unfold GG, gate_folded. cbn [axes]. rewrite seq_app. split.
  - pose proof (map_nth_seq_mid 0 (firstn (nvirt nn) (laxes nn nt)) (seq (next_wire s) (nopen na)) (seq (next_wire s + nopen na) (nopen nb))) as Q.
    unfold wire in *. rewrite Hvw, seq_length in Q. exact Q.
  - pose proof (E1 (firstn (nvirt nn) (laxes nn nt) ++ seq (next_wire s) (nopen na)) (seq (next_wire s + nopen na) (nopen nb))) as Q.
    unfold wire in *. rewrite app_length, Hvw, !seq_length, <- app_assoc in Q. exact Q.
Qed.

(* ==== acceptance: when do the sub-operations succeed ================================================ *)
Lemma pop_some {A} (d : A) : forall i (l : list A), i < length l -> exists r, pop i l = Some (nth i l d, r) /\ S (length r) = length l.
Proof.
  induction i as [|i IH]; intros [|x t] H; cbn in *; try lia.
  - eexists. split; reflexivity.
  - destruct (IH t ltac:(lia)) as (r & -> & Hr). eexists. split; [reflexivity|]. cbn. lia.
Qed.

Lemma pop_n_some {A} : forall k i (l : list A), i + k <= length l -> exists xs r, pop_n k i l = Some (xs, r) /\ length r + k = length l.
Proof.
  induction k as [|k IH]; intros i l H; cbn.
  - exists [], l. split; [reflexivity|lia].
  - destruct l as [|x0 t0] eqn:El; [cbn in H; lia|]. rewrite <- El in *.
    destruct (pop_some x0 i l ltac:(lia)) as (r & -> & Hr).
    destruct (IH i r ltac:(lia)) as (xs & r' & -> & Hr'). eexists _, _. split; [reflexivity|]. lia.
Qed.

Lemma insert_perm {A} (x : A) : forall i l, Permutation (insert i x l) (x :: l).
Proof.
  induction i as [|i IH]; intros [|y t]; cbn; try apply Permutation_refl.
  rewrite IH. apply perm_swap.
Qed.

Lemma olc_loop_some orig : forall l n, (forall x, In x l -> orig <= snd (fst x)) -> exists n', olc_loop orig n l = Some n'.
Proof.
  induction l as [|[[cid leg] val] t IH]; intros n H; cbn [olc_loop].
  - eauto.
  - pose proof (H _ (or_introl eq_refl)) as H0. cbn in H0. destruct (Nat.ltb_spec leg orig); [lia|].
    apply IH. intros x Hx. apply H. right. exact Hx.
Qed.

Lemma olc_loop_perm orig : forall l n n', olc_loop orig n l = Some n' ->
  (forall x, In x l -> In (snd x) (perm n)) -> Permutation (perm n') (perm n).
Proof.
  induction l as [|[[cid leg] val] t IH]; intros n n' H Hin; cbn [olc_loop] in H.
  - injection H as <-. apply Permutation_refl.
  - destruct (leg <? orig); [discriminate|].
    pose proof (Hin _ (or_introl eq_refl)) as H0. cbn in H0.
    assert (P : Permutation (insert (nvirt n) val (remove_first val (perm n))) (perm n)).
    { rewrite insert_perm. symmetry. apply remove_first_perm. exact H0. }
    rewrite (IH _ _ H); [exact P|]. cbn [perm]. intros x Hx. apply (Permutation_in _ (Permutation_sym P)). apply Hin. right. exact Hx.
Qed.

Lemma olc_some n d : (forall cl, In cl d -> nvirt n <= snd cl < nlegs n) ->
  exists n', open_legs_to_children n d = Some n' /\ nlegs n' = nlegs n.
Proof.
  intros H. unfold open_legs_to_children.
  assert (Hf : forallb (fun cl : id * nat => snd cl <? nlegs n) d = true).
  { apply forallb_forall. intros cl Hcl. apply Nat.ltb_lt. apply (H cl Hcl). }
  rewrite Hf.
  set (l := map (fun cl : id * nat => (fst cl, snd cl, nth (snd cl) (perm n) 0)) d).
  destruct (olc_loop_some (nvirt n) l n) as [n' E].
  { intros x Hx. unfold l in Hx. apply in_map_iff in Hx. destruct Hx as (cl & <- & Hcl). cbn. apply (H cl Hcl). }
  exists n'. split; [exact E|]. unfold nlegs. apply Permutation_length. apply (olc_loop_perm _ _ _ _ E).
  intros x Hx. unfold l in Hx. apply in_map_iff in Hx. destruct Hx as (cl & <- & Hcl). cbn. apply nth_In. apply (H cl Hcl).
Qed.

Lemma oltp_some shp p leg : leg < length shp ->
  exists q, move leg 0 (seq 0 (length shp)) = Some q /\ Permutation q (seq 0 (length shp)) /\
    open_leg_to_parent (new_node shp) p leg = Some {| parent := Some p; children := []; perm := q; shape := shp |}.
Proof.
  intros H. unfold open_leg_to_parent. cbn [is_root new_node parent negb].
  assert (Hok : open_leg_ok (new_node shp) leg = true).
  { unfold open_leg_ok, nopen, nlegs, nvirt, nparents. cbn [new_node parent children perm length Nat.add]. rewrite seq_length.
    rewrite (proj2 (Nat.eqb_neq (length shp - 0) 0)) by lia. rewrite (proj2 (Nat.ltb_lt leg (length shp)) H).
    rewrite (proj2 (Nat.ltb_ge leg 0)) by lia. reflexivity. }
  fold (new_node shp). rewrite Hok. cbn [negb perm children shape new_node].
  unfold move. destruct (pop_some 0 leg (seq 0 (length shp)) ltac:(rewrite seq_length; exact H)) as (r & E & Hr).
  rewrite E. eexists. split; [reflexivity|]. split; [|reflexivity].
  cbn [insert]. 
  assert (P : forall {A} i (l : list A) x r, pop i l = Some (x, r) -> Permutation (x :: r) l).
  { intros A. induction i as [|i IH]; intros [|y t] x r' Hp; cbn in Hp; try discriminate.
    - injection Hp as <- <-. apply Permutation_refl.
    - destruct (pop i t) as [[z t']|] eqn:E'; [|discriminate]. injection Hp as <- <-.
      rewrite perm_swap. apply perm_skip. apply (IH _ _ _ E'). }
  apply (P _ _ _ _ _ E).
Qed.

(* _create_contracted_node never raises on two neighbouring well-formed nodes *)
Lemma ccn_succeeds shp pn cn c first :
  In c (children pn) -> nvirt pn <= nlegs pn -> nvirt cn <= nlegs cn -> nparents cn = 1 ->
  length shp = (nlegs pn - 1) + (nlegs cn - 1) ->
  exists nn, create_contracted_node shp pn cn c first = Some nn.
Proof.
  intros Hc Hvp Hvc Hpc Hlen. unfold create_contracted_node.
  set (pch := remove_first c (children pn)).
  assert (Hpch : S (length pch) = length (children pn)) by (apply InvContract.remove_first_length; exact Hc).
  set (N := length shp) in *. set (np := nparents pn). set (lp := nlegs pn) in *. set (lc := nlegs cn) in *.
  set (cc := children cn).
  assert (Eop : lp = np + S (length pch) + nopen pn).
  { unfold nopen. fold lp. unfold nvirt in *. fold np in Hvp |- *. nlia. }
  assert (Eoc : lc = 1 + length cc + nopen cn).
  { unfold nopen. fold lc. unfold nvirt in *. rewrite Hpc in *. fold cc in Hvc |- *. nlia. }
  assert (EN : N = np + length pch + nopen pn + length cc + nopen cn) by nlia.
  assert (R1 : exists n1, (match parent pn with Some pp => open_leg_to_parent (new_node shp) pp 0 | None => Some (new_node shp) end) = Some n1
                /\ nvirt n1 = np /\ nlegs n1 = N /\ children n1 = [] /\ parent n1 = parent pn).
  { destruct (parent pn) as [pp|] eqn:Epp.
    - destruct (oltp_some shp pp 0) as (q & Hm & Hq & E); [unfold np, nparents in EN; rewrite Epp in EN; fold N; nlia|].
      eexists. split; [exact E|]. unfold nvirt, nparents, nlegs, np, nparents. cbn. rewrite Epp.
      apply Permutation_length in Hq. rewrite seq_length in Hq. auto.
    - eexists. split; [reflexivity|]. unfold nvirt, nparents, nlegs, np, nparents. cbn. rewrite Epp, seq_length. auto. }
  destruct R1 as (n1 & -> & Hv1 & Hl1 & Hc1 & Hp1).
  set (d := if first then enum_from np pch ++ enum_from (lp - 1) cc else enum_from (lp - 1) cc ++ enum_from np pch).
  assert (Hd : forall cl, In cl d -> nvirt n1 <= snd cl < nlegs n1).
  { intros cl Hcl. rewrite Hv1, Hl1.
    assert (Hs : In (snd cl) (seq np (length pch)) \/ In (snd cl) (seq (lp - 1) (length cc))).
    { rewrite <- !enum_from_snd. unfold d in Hcl. destruct first; apply in_app_or in Hcl; destruct Hcl as [Hcl|Hcl];
        [left|right|right|left]; apply in_map; exact Hcl. }
    destruct Hs as [Hs|Hs]; apply in_seq in Hs; nlia. }
  destruct (olc_some n1 d Hd) as (n2 & E2 & Hl2). fold pch np lp cc. fold d. rewrite E2.
  destruct first; [eauto|].
  unfold exchange_open_leg_ranges.
  assert (Hnv : nvirt n2 = np + length cc + length pch).
  { apply open_legs_to_children_structure in E2. destruct E2 as [Ep2 Ec2]. unfold nvirt, nparents. rewrite Ep2, Ec2, Hc1, Hp1.
    fold (nparents pn). fold np. unfold d. cbn [app]. rewrite map_app, !enum_from_fst, app_length. nlia. }
  set (nv := nvirt n2) in *. rewrite Hl2, Hl1.
  replace (nv + nopen pn <? nv) with false by (symmetry; apply Nat.ltb_ge; lia).
  replace (nv + nopen pn <? nv + nopen pn) with false by (symmetry; apply Nat.ltb_ge; lia).
  destruct (pop_n_some (N - (nv + nopen pn)) (nv + nopen pn) (perm n2)) as (v2 & p1 & -> & Hp1len).
  { fold (nlegs n2). rewrite Hl2, Hl1. nlia. }
  destruct (pop_n_some (nopen pn) nv p1) as (v1 & p2 & -> & _).
  { fold (nlegs n2) in Hp1len. rewrite Hl2, Hl1 in Hp1len. nlia. }
  eauto.
Qed.

Lemma access_some s n nd t : aget n (nodes s) = Some nd -> aget n (tensors s) = Some t ->
  access s n = Some (upd_tensors (upd_nodes s (aset n (reset_permutation nd))) (aset n (s_transpose (perm nd) t)),
                     reset_permutation nd, s_transpose (perm nd) t).
Proof. intros E1 E2. unfold access. rewrite E1, E2. reflexivity. Qed.

Lemma rnin_some s new old del on :
  aget old (nodes s) = Some on ->
  (forall pp, parent on = Some pp -> pp <> new -> exists ppn, aget pp (nodes s) = Some ppn /\ In old (children ppn)) ->
  exists s', replace_node_in_neighbours s new old del = Some s'.
Proof.
  intros Eon Hpp. unfold replace_node_in_neighbours. destruct (Nat.eqb new old); [eauto|]. rewrite Eon.
  fold (reparent_fold new (children on) (nodes s)).
  destruct (parent on) as [pp|] eqn:Epp; [|eauto].
  destruct (Nat.eqb_spec pp new) as [|Hne]; [eauto|].
  destruct (Hpp pp eq_refl Hne) as (ppn & Eppn & Hin).
  rewrite reparent_fold_aget, Eppn. cbn [option_map]. rewrite reparent_children.
  apply memb_In in Hin. rewrite Hin. eauto.
Qed.

(* contract_nodes never raises on two neighbouring nodes of a well-formed store (fresh identifier) *)
Theorem contract_succeeds s a b new na nb :
  wf s -> aget a (nodes s) = Some na -> aget b (nodes s) = Some nb -> In b (neighbouring_nodes na) ->
  ~ In new (akeys (nodes s)) ->
  exists s', contract_nodes s a b new = Some s'.
Proof.
  intros W Ea Eb Hnbr Hnew.
  pose proof (pair_ok_wf s a na b nb W Ea Eb Hnbr) as Hok.
  assert (Hor : exists p c pn0 cn0, determine_parentage s a b = Some (p, c) /\ aget p (nodes s) = Some pn0 /\
            aget c (nodes s) = Some cn0 /\ parent cn0 = Some p /\ In c (children pn0) /\ parent pn0 <> Some c /\ p <> c /\
            (p = a \/ p = b) /\ (c = a \/ c = b)).
  { unfold determine_parentage. rewrite Ea, Eb.
    destruct (po_adj _ _ _ _ Hok) as [(Hin & Hpb & Hnin & Hpa)|(Hin & Hpa & Hnin & Hpb)].
    - rewrite Hpb, Nat.eqb_refl. exists a, b, na, nb. repeat split; auto. apply (po_ne _ _ _ _ Hok).
    - assert (E1 : (match parent nb with Some p => Nat.eqb p a | None => false end) = false).
      { destruct (parent nb) as [q|]; [|reflexivity]. apply Nat.eqb_neq. congruence. }
      rewrite E1, Hpa, Nat.eqb_refl. exists b, a, nb, na. repeat split; auto. apply not_eq_sym. apply (po_ne _ _ _ _ Hok). }
  destruct Hor as (p & c & pn0 & cn0 & Edp & Ep & Ec & Hparc & Hcin & Hppc & Hpc & Hpab & Hcab).
  assert (Hnp : new <> p /\ new <> c).
  { split; intros ->; apply Hnew; eapply aget_Some_keys; eauto. }
  destruct Hnp as [Hnp Hnc].
  unfold contract_nodes. rewrite Edp.
  pose proof (wf_tens s p pn0 W Ep) as Etp. pose proof (wf_tens s c cn0 W Ec) as Etc.
  rewrite (access_some s p pn0 _ Ep Etp).
  set (pn := reset_permutation pn0). set (pt := s_transpose (perm pn0) (tens s p)).
  set (s1 := upd_tensors (upd_nodes s (aset p pn)) (aset p pt)).
  assert (Ec1 : aget c (nodes s1) = Some cn0) by (cbn; rewrite aget_aset_other by congruence; exact Ec).
  assert (Etc1 : aget c (tensors s1) = Some (tens s c)) by (cbn; rewrite aget_aset_other by congruence; exact Etc).
  rewrite (access_some s1 c cn0 _ Ec1 Etc1).
  set (cn := reset_permutation cn0). set (ct := s_transpose (perm cn0) (tens s c)).
  set (s2 := upd_tensors (upd_nodes s1 (aset c cn)) (aset c ct)).
  (* the bond *)
  destruct (ni_par _ _ _ (wf_node s W c cn0 Ec) p Hparc) as (pn0' & ax & Ep' & _ & Hax & Hwire).
  rewrite Ep in Ep'. injection Ep' as <-.
  assert (Hax' : neighbour_index pn c = Some ax) by exact Hax. rewrite Hax'.
  pose proof (ni_virt _ _ _ (wf_node s W p pn0 Ep)) as Hvp. pose proof (ni_virt _ _ _ (wf_node s W c cn0 Ec)) as Hvc.
  assert (Hnpc : nparents cn0 = 1) by (unfold nparents; rewrite Hparc; reflexivity).
  assert (Haxlt : ax < nlegs pn0) by (pose proof (neighbour_index_lt pn0 c ax Hppc Hax); lia).
  assert (H0lt : 0 < nlegs cn0) by (unfold nvirt in Hvc; lia).
  assert (Hapt : axes pt = lax s p pn0) by reflexivity.
  assert (Hact : axes ct = lax s c cn0) by reflexivity.
  destruct (pop_some 0 ax (axes pt)) as (ra & Epa & Hra); [rewrite Hapt; unfold lax; rewrite laxes_length; exact Haxlt|].
  destruct (pop_some 0 0 (axes ct)) as (rb & Epb & Hrb); [rewrite Hact; unfold lax; rewrite laxes_length; exact H0lt|].
  unfold s_tensordot. unfold wire in *. rewrite Epa, Epb, Hapt, Hact, <- Hwire, Nat.eqb_refl. cbv beta iota.
  match goal with |- context [create_contracted_node (map (wdim s) (axes ?T)) _ _ _ _] => set (nt := T) end.
  (* the new node *)
  assert (Hshp : length (map (wdim s) (axes nt)) = (nlegs pn - 1) + (nlegs cn - 1)).
  { rewrite map_length. cbn [axes nt]. rewrite app_length. unfold pn, cn. rewrite !nlegs_reset.
    rewrite Hapt in Hra. rewrite Hact in Hrb. unfold lax in Hra, Hrb. rewrite laxes_length in Hra, Hrb. nlia. }
  destruct (ccn_succeeds (map (wdim s) (axes nt)) pn cn c (Nat.eqb p a)) as [nn Enn].
  { exact Hcin. }
  { unfold pn. rewrite nlegs_reset. exact Hvp. }
  { unfold cn. rewrite nlegs_reset. exact Hvc. }
  { exact Hnpc. }
  { exact Hshp. }
  unfold wire in *. rewrite Enn.
  (* the neighbours *)
  match goal with |- context [replace_node_in_neighbours ?X new p true] => set (s3 := X) end.
  assert (Ep3 : aget p (nodes s3) = Some pn).
  { cbn. rewrite aget_aset_other by congruence. apply aget_aset_same. }
  assert (Ec3 : aget c (nodes s3) = Some cn) by (cbn; apply aget_aset_same).
  assert (Hnd3 : NoDup (akeys (nodes s3))) by (cbn; repeat apply NoDup_akeys_aset; apply (wf_nd s W)).
  destruct (rnin_some s3 new p true pn Ep3) as [s4 E4].
  { intros pp Hpp _. change (parent pn) with (parent pn0) in Hpp.
    destruct (ni_par _ _ _ (wf_node s W p pn0 Ep) pp Hpp) as (ppn & i & Epp & Hin & _).
    assert (pp <> p) by (intros ->; apply (wf_not_self_parent s p pn0 W Ep Hpp)).
    assert (pp <> c) by congruence.
    exists ppn. split; [|exact Hin]. cbn. rewrite !aget_aset_other by assumption. exact Epp. }
  rewrite E4.
  destruct (rnin_spec s3 new p true s4 pn E4 Hnp Hnd3 Ep3) as (L & Es4 & HndL & HL & _).
  assert (EcL : aget c L = Some (reparent new (children pn) c cn)).
  { rewrite HL. cbn [andb]. destruct (Nat.eqb_spec c p) as [|_]; [congruence|].
    change (parent pn) with (parent pn0). destruct (parent pn0) as [pp|] eqn:Epp.
    - destruct (Nat.eqb_spec c pp) as [->|_]; [congruence|]. rewrite andb_false_r, Ec3. reflexivity.
    - rewrite Ec3. reflexivity. }
  destruct (rnin_some s4 new c true (reparent new (children pn) c cn)) as [s5 E5].
  { rewrite Es4. cbn. exact EcL. }
  { intros pp Hpp Hne. exfalso. rewrite reparent_parent in Hpp.
    change (children pn) with (children pn0) in Hpp. apply memb_In in Hcin. rewrite Hcin in Hpp.
    destruct (Nat.eqb_spec c new); [congruence|]. cbn in Hpp. congruence. }
  rewrite E5. eauto.
Qed.

(* ---- absorb_into_open_legs accepts a gate of the right shape -------------------------------------- *)
Lemma absorb_succeeds s n nd gshape :
  wf s -> aget n (nodes s) = Some nd ->
  gshape = map (wdim s) (open_of nd (tens s n)) ++ map (wdim s) (open_of nd (tens s n)) ->
  exists s', absorb_open s n gshape = Some s'.
Proof.
  intros W En ->. pose proof (wf_tens s n nd W En) as Et.
  unfold absorb_open. rewrite (access_some s n nd _ En Et). rewrite nopen_reset, nvirt_reset.
  change (skipn (nvirt nd) (axes (s_transpose (perm nd) (tens s n)))) with (open_of nd (tens s n)).
  set (ow := open_of nd (tens s n)). set (ds := map (wdim s) ow).
  assert (Hl : length ds = nopen nd) by (unfold ds, ow; rewrite map_length; apply open_of_length).
  rewrite app_length, Hl. replace (nopen nd + nopen nd =? 2 * nopen nd) with true by (symmetry; apply Nat.eqb_eq; lia).
  cbn [negb]. rewrite <- Hl, firstn_app_len, skipn_app_len.
  rewrite (proj2 (list_eqb_eq ds ds) eq_refl). cbn [negb].
  destruct (fresh_wires _ ds) as [s2 neww]. unfold fresh_atom. eauto.
Qed.

(* ---- the two node records of a split --------------------------------------------------------------- *)
Lemma oltp_some' shp p leg : leg < length shp ->
  exists n1, open_leg_to_parent (new_node shp) p leg = Some n1 /\ nvirt n1 = 1 /\ nlegs n1 = length shp.
Proof.
  intros H. destruct (oltp_some shp p leg H) as (q & _ & Hq & E). eexists. split; [exact E|].
  unfold nvirt, nparents, nlegs. cbn. apply Permutation_length in Hq. rewrite seq_length in Hq. auto.
Qed.

Lemma in_enum_from_snd {A} a (l : list A) cl : In cl (enum_from a l) -> a <= snd cl < a + length l.
Proof. intros H. apply (in_map snd) in H. rewrite enum_from_snd in H. apply in_seq in H. exact H. Qed.

Lemma in_node_some i shp oid (cl : list nat) :
  length shp = 1 + length (sp_pl i ++ cl ++ ls_open i) -> length cl = length (ls_children i) ->
  (ls_root i = true -> ls_parent i = None) ->
  exists in1 in2, sp_in1 i (new_node shp) oid = Some in1 /\ open_legs_to_children in1 (sp_in_children i oid) = Some in2.
Proof.
  intros Hlen Hcl Hr. unfold sp_in1, sp_in_children, sp_pl in *. rewrite !app_length in Hlen.
  destruct (ls_parent i) as [ip|] eqn:Pi.
  - destruct (ls_root i) eqn:Ri; [discriminate (Hr eq_refl)|]. cbn [length] in Hlen.
    destruct (oltp_some' shp ip 1 ltac:(lia)) as (in1 & E1 & Hv & Hl). exists in1. rewrite E1.
    destruct (olc_some in1 ([(oid, 1)] ++ enum_from 2 (ls_children i))) as (in2 & E2 & _); [|eauto].
    intros x [<-|Hx]; cbn [snd]; [lia|]. apply in_enum_from_snd in Hx. lia.
  - destruct (ls_root i) eqn:Ri; cbn [length] in Hlen.
    + exists (new_node shp). 
      destruct (olc_some (new_node shp) ([(oid, 0)] ++ enum_from 1 (ls_children i))) as (in2 & E2 & _); [|eauto].
      unfold nvirt, nparents, nlegs. cbn [new_node parent children perm length]. rewrite seq_length.
      intros x [<-|Hx]; cbn [snd]; [lia|]. apply in_enum_from_snd in Hx. lia.
    + destruct (oltp_some' shp oid 0 ltac:(lia)) as (in1 & E1 & Hv & Hl). exists in1. rewrite E1.
      destruct (olc_some in1 ([] ++ enum_from 1 (ls_children i))) as (in2 & E2 & _); [|eauto].
      intros x Hx. cbn [app] in Hx. apply in_enum_from_snd in Hx. lia.
Qed.

Lemma out_node_some o i shp iid (cl : list nat) :
  length shp = length (sp_pl o ++ cl ++ ls_open o) + 1 -> length cl = length (ls_children o) ->
  (ls_root o = true -> ls_parent o = None) ->
  (sp_in_above i = true -> ls_parent o = None) ->
  (sp_in_above i = false -> ls_root o = true \/ ls_parent o <> None) ->
  exists on1 on2, sp_out1 o (new_node shp) iid = Some on1 /\ open_legs_to_children on1 (sp_out_children o i on1 iid) = Some on2.
Proof.
  intros Hlen Hcl Hr Ha Hb. unfold sp_out1, sp_out_children, sp_pl in *. rewrite !app_length in Hlen.
  destruct (ls_parent o) as [op|] eqn:Po.
  - destruct (ls_root o) eqn:Ro; [discriminate (Hr eq_refl)|]. cbn [length] in Hlen.
    destruct (sp_in_above i) eqn:Ab; [discriminate (Ha eq_refl)|].
    destruct (oltp_some' shp op 0 ltac:(lia)) as (on1 & E1 & Hv & Hl). exists on1. rewrite E1.
    destruct (olc_some on1 ([(iid, nlegs on1 - 1)] ++ enum_from 1 (ls_children o))) as (on2 & E2 & _); [|eauto].
    intros x [<-|Hx]; cbn [snd]; [lia|]. apply in_enum_from_snd in Hx. lia.
  - cbn [length] in Hlen. destruct (ls_root o) eqn:Ro.
    + exists (new_node shp).
      assert (Hv : nvirt (new_node shp) = 0) by reflexivity.
      assert (Hl : nlegs (new_node shp) = length shp) by (unfold nlegs; cbn; apply seq_length).
      destruct (sp_in_above i) eqn:Ab.
      * destruct (olc_some (new_node shp) ([] ++ enum_from 1 (ls_children o))) as (on2 & E2 & _); [|eauto].
        intros x Hx. cbn [app] in Hx. apply in_enum_from_snd in Hx. lia.
      * destruct (olc_some (new_node shp) ([(iid, nlegs (new_node shp) - 1)] ++ enum_from 0 (ls_children o))) as (on2 & E2 & _); [|eauto].
        intros x [<-|Hx]; cbn [snd]; [lia|]. apply in_enum_from_snd in Hx. lia.
    + destruct (sp_in_above i) eqn:Ab; [|destruct (Hb eq_refl) as [|]; congruence].
      set (M := nlegs (new_node shp) - 1).
      assert (HM : M < length shp) by (unfold M, nlegs; cbn; rewrite seq_length; lia).
      destruct (oltp_some' shp iid M HM) as (on1 & E1 & Hv & Hl). exists on1. rewrite E1.
      destruct (olc_some on1 ([] ++ enum_from 1 (ls_children o))) as (on2 & E2 & _); [|eauto].
      intros x Hx. cbn [app] in Hx. apply in_enum_from_snd in Hx. lia.
Qed.

(* ---- renaming in the neighbours succeeds when every named node is adjacent ----------------------- *)
Lemma risn_some new old : forall ns l, NoDup ns ->
  (forall x, In x ns -> exists xn, aget x l = Some xn /\ (parent xn = Some old \/ In old (children xn))) ->
  exists l', replace_in_some_neighbours l new old ns = Some l' /\ (forall k, ~ In k ns -> aget k l' = aget k l).
Proof.
  induction ns as [|x t IH]; intros l Hnd H.
  - exists l. split; [reflexivity|auto].
  - inversion Hnd as [|? ? Hni Hnd']; subst. destruct (H x (or_introl eq_refl)) as (xn & Ex & Hadj).
    assert (Er : exists xn', replace_neighbour xn old new = Some xn').
    { unfold replace_neighbour. destruct (parent xn) as [p|] eqn:Ep.
      - destruct (Nat.eqb_spec p old); [eauto|]. destruct Hadj as [Hp|Hc]; [congruence|].
        apply memb_In in Hc. rewrite Hc. eauto.
      - destruct Hadj as [Hp|Hc]; [discriminate|]. apply memb_In in Hc. rewrite Hc. eauto. }
    destruct Er as [xn' Er].
    destruct (IH (aset x xn' l) Hnd') as (l' & E & Ho).
    { intros y Hy. destruct (H y (or_intror Hy)) as (yn & Ey & Hy'). exists yn. split; [|exact Hy'].
      rewrite aget_aset_other; [exact Ey|]. intros ->. contradiction. }
    exists l'. split.
    + rewrite sp_risn_fold. cbn [fold_left]. unfold sp_risn_step at 2. rewrite Ex, Er. exact E.
    + intros k Hk. rewrite Ho by (intros Hin; apply Hk; right; exact Hin). apply aget_aset_other. intros ->. apply Hk. left. reflexivity.
Qed.

(* ---- split_nodes accepts truthful, disjoint, exhaustive specifications ------------------------------- *)
Lemma split_body_succeeds s1 n nd t o i oid iid kind m bd ol il :
  find_leg_values nd o = Some ol -> find_leg_values nd i = Some il ->
  Permutation (ol ++ il) (seq 0 (length (axes t))) ->
  oid <> iid -> (kind = 0 -> m = Keep -> il <> []) ->
  sp_asserts o i = true ->
  (ls_root o = true -> ls_parent o = None) -> (ls_root i = true -> ls_parent i = None) ->
  NoDup (find_all_neighbour_ids o ++ find_all_neighbour_ids i) ->
  (forall x, In x (find_all_neighbour_ids o ++ find_all_neighbour_ids i) ->
     x <> oid /\ x <> iid /\ exists xn, aget x (nodes s1) = Some xn /\ (parent xn = Some n \/ In n (children xn))) ->
  exists s', split_body s1 n nd t o i oid iid kind m bd = Some s'.
Proof.
  intros Eol Eil Hperm Hne Hkeep Hass Hro Hri Hnd Hadj.
  unfold split_body. rewrite Eol, Eil.
  assert (Hlen : length (ol ++ il) = length (axes t)).
  { apply Permutation_length in Hperm. rewrite seq_length in Hperm. exact Hperm. }
  assert (Hp : is_perm_of_seq (ol ++ il) && Nat.eqb (length (ol ++ il)) (length (axes t)) = true).
  { apply andb_true_iff. split; [apply is_perm_of_seq_spec; rewrite Hlen; exact Hperm|apply Nat.eqb_eq; exact Hlen]. }
  rewrite Hp. cbn [negb]. destruct (Nat.eqb_spec oid iid) as [|_]; [contradiction|].
  assert (Hk : (match kind, m, il with 0, Keep, [] => true | _, _, _ => false end) = false).
  { destruct kind as [|k]; [|reflexivity]. destruct m; try reflexivity. destruct il; [exfalso; apply (Hkeep eq_refl eq_refl eq_refl)|reflexivity]. }
  rewrite Hk. cbv zeta. rewrite !sp_some_match, !sp_some_match_neg.
  unfold sp_asserts in Hass. apply andb_true_iff in Hass. destruct Hass as [Hass A4]. apply andb_true_iff in Hass. destruct Hass as [Hass A3].
  apply andb_true_iff in Hass. destruct Hass as [A1 A2]. apply negb_true_iff in A1, A2, A3, A4.
  rewrite A1, A2, A3, A4.
  destruct (sp_flv_inv _ _ _ Eol) as (cO & _ & EolD & HcO). destruct (sp_flv_inv _ _ _ Eil) as (cI & _ & EilD & HcI).
  (* the in node *)
  match goal with |- context [sp_in1 i (new_node ?shp) oid] => set (ishp := shp) end.
  destruct (in_node_some i ishp oid cI) as (in1 & in2 & E1 & E2); auto.
  { unfold ishp. rewrite map_length. cbn [axes sp_it length]. rewrite permute_length, EilD. reflexivity. }
  rewrite E1, E2.
  (* the out node *)
  match goal with |- context [sp_out1 o (new_node ?shp) iid] => set (oshp := shp) end.
  destruct (out_node_some o i oshp iid cO) as (on1 & on2 & E3 & E4); auto.
  { unfold oshp. rewrite map_length. cbn [axes sp_ot]. rewrite app_length, permute_length, EolD. reflexivity. }
  { intros Hab. fold (sp_in_above i) in A3. destruct (sp_some (ls_parent o)) eqn:E; [|destruct (ls_parent o); [discriminate|reflexivity]].
    rewrite Hab in A3. discriminate. }
  { intros Hab. unfold sp_in_above in Hab. apply orb_false_iff in Hab. destruct Hab as [R P]. rewrite R, P in A4. cbn in A4.
    destruct (ls_root o); [left; reflexivity|]. right. destruct (ls_parent o); [discriminate|discriminate]. }
  rewrite E3, E4.
  (* the neighbours *)
  pose proof (NoDup_app_l _ _ Hnd) as Hndo. pose proof (NoDup_app_r _ _ Hnd) as Hndi.
  set (l0 := aset iid in2 (aset oid on2 (nodes s1))).
  assert (Hl0 : forall x, In x (find_all_neighbour_ids o ++ find_all_neighbour_ids i) -> aget x l0 = aget x (nodes s1)).
  { intros x Hx. destruct (Hadj x Hx) as (X1 & X2 & _). unfold l0. rewrite !aget_aset_other by assumption. reflexivity. }
  destruct (risn_some oid n (find_all_neighbour_ids o) l0 Hndo) as (l1 & R1 & O1).
  { intros x Hx. destruct (Hadj x (in_or_app _ _ _ (or_introl Hx))) as (_ & _ & xn & Ex & Hx').
    exists xn. split; [|exact Hx']. rewrite Hl0 by (apply in_or_app; left; exact Hx). exact Ex. }
  fold l0. rewrite R1.
  destruct (risn_some iid n (find_all_neighbour_ids i) l1 Hndi) as (l2 & R2 & O2).
  { intros x Hx. destruct (Hadj x (in_or_app _ _ _ (or_intror Hx))) as (_ & _ & xn & Ex & Hx').
    exists xn. split; [|exact Hx']. rewrite O1.
    - rewrite Hl0 by (apply in_or_app; right; exact Hx). exact Ex.
    - intros Hxo. apply NoDup_app_iff in Hnd. destruct Hnd as (_ & _ & Hd). exact (Hd x Hxo Hx). }
  rewrite R2. eauto.
Qed.

Theorem split_succeeds s n nd0 o i oid iid kind m rb ol il :
  wf s -> aget n (nodes s) = Some nd0 ->
  find_leg_values nd0 o = Some ol -> find_leg_values nd0 i = Some il ->
  Permutation (ol ++ il) (seq 0 (nlegs nd0)) ->
  oid <> iid -> (kind = 0 -> m = Keep -> il <> []) ->
  sp_asserts o i = true ->
  leg_ok nd0 o -> leg_ok nd0 i -> ids_ok s n oid iid ->
  NoDup (find_all_neighbour_ids o ++ find_all_neighbour_ids i) ->
  exists s', split_nodes s n o i oid iid kind m rb = Some s'.
Proof.
  intros W En Eol Eil Hperm Hne Hkeep Hass LO LI Hids Hnd.
  pose proof (wf_tens s n nd0 W En) as Et.
  rewrite split_nodes_body. rewrite (access_some s n nd0 _ En Et).
  rewrite (find_leg_values_ext (reset_permutation nd0) nd0 o eq_refl eq_refl), Eol.
  rewrite (find_leg_values_ext (reset_permutation nd0) nd0 i eq_refl eq_refl), Eil.
  pose proof (wf_tstruct s W) as T.
  assert (Hroot_par : forall sp, leg_ok nd0 sp -> ls_root sp = true -> ls_parent sp = None).
  { intros sp (L1 & L2 & _) Hr. destruct (ls_parent sp) as [q|] eqn:E; [|reflexivity]. rewrite (L1 q eq_refl) in L2. discriminate (L2 Hr). }
  assert (F1 : find_leg_values (reset_permutation nd0) o = Some ol) by (rewrite <- Eol; apply find_leg_values_ext; reflexivity).
  assert (F2 : find_leg_values (reset_permutation nd0) i = Some il) by (rewrite <- Eil; apply find_leg_values_ext; reflexivity).
  assert (F3 : Permutation (ol ++ il) (seq 0 (length (axes (s_transpose (perm nd0) (tens s n)))))).
  { cbn [axes s_transpose]. rewrite permute_length. exact Hperm. }
  apply (split_body_succeeds _ n _ _ o i oid iid kind m _ ol il F1 F2 F3 Hne Hkeep Hass (Hroot_par o LO) (Hroot_par i LI) Hnd).
  - intros x Hx.
    assert (Hxn : In x (neighbouring_nodes nd0)).
    { apply in_neighbouring. apply in_app_or in Hx. destruct Hx as [Hx|Hx]; apply sp_In_nbrs in Hx.
      - destruct LO as (L1 & _ & L3 & _). destruct Hx as [Hx|Hx]; [left; apply L1; exact Hx|right; apply L3; exact Hx].
      - destruct LI as (L1 & _ & L3 & _). destruct Hx as [Hx|Hx]; [left; apply L1; exact Hx|right; apply L3; exact Hx]. }
    destruct (ts_neighbour_sym _ n nd0 x T En Hxn) as (xn & Ex & Hnx & Hne').
    assert (Hxk : In x (akeys (nodes s))) by (eapply aget_Some_keys; eauto).
    destruct Hids as [[->|Ho] [->|Hi]]; (split; [congruence|split; [congruence|]]);
      exists xn; (split; [cbn; rewrite aget_aset_other by exact Hne'; exact Ex|apply in_neighbouring; exact Hnx]).
Qed.

(* ---- the recorded specifications are disjoint and pass the asserts of split_nodes ------------------ *)
Lemma lbc_specs_ok a na b nb u v : pair_ok a na b nb -> lbc_nodes a na b nb = Some (u, v) ->
  sp_asserts u v = true /\ NoDup (find_all_neighbour_ids u ++ find_all_neighbour_ids v).
Proof.
  intros Hok Hl. destruct (lbc_names _ _ _ _ _ _ Hok Hl) as (_ & _ & Hcase).
  unfold sp_asserts, find_all_neighbour_ids.
  destruct Hcase as [(Hin & Hup & Huc & Hur & Hvp & Hvc & Hvr)|(Hin & Hup & Huc & Hur & Hvp & Hvc & Hvr)];
    rewrite Hup, Huc, Hur, Hvp, Hvc, Hvr.
  - assert (Hpa : parent na <> Some b) by (destruct (po_adj _ _ _ _ Hok) as [(_ & _ & _ & ?)|(_ & ? & Hx & _)]; [assumption|contradiction]).
    split; [unfold is_root; destruct (parent na); reflexivity|]. cbn [app].
    destruct (InvContract.remove_first_NoDup b (children na) (po_nda _ _ _ _ Hok)) as [Hr1 Hr2].
    apply NoDup_app_iff. split; [|split; [apply (po_ndb _ _ _ _ Hok)|]].
    + destruct (parent na) as [q|] eqn:Pa; [|exact Hr1]. cbn [app]. constructor; [|exact Hr1].
      intros Hq. apply remove_first_In in Hq. apply (proj1 (po_para _ _ _ _ Hok q Pa) Hq).
    + intros x Hx Hy. apply in_app_or in Hx. destruct Hx as [Hx|Hx].
      * destruct (parent na) as [q|] eqn:Pa; [|destruct Hx]. destruct Hx as [<-|[]].
        apply (proj2 (po_para _ _ _ _ Hok q Pa)); [congruence|exact Hy].
      * apply remove_first_In in Hx. apply (po_disj _ _ _ _ Hok x Hx Hy).
  - assert (Hpb : parent nb <> Some a) by (destruct (po_adj _ _ _ _ Hok) as [(Hx & _)|(_ & _ & _ & ?)]; [|assumption];
      destruct (po_adj _ _ _ _ Hok) as [(_ & _ & Hy & _)|(_ & _ & Hy & _)]; contradiction).
    split; [unfold is_root; destruct (parent nb); reflexivity|]. cbn [app].
    destruct (InvContract.remove_first_NoDup a (children nb) (po_ndb _ _ _ _ Hok)) as [Hr1 Hr2].
    apply NoDup_app_iff. split; [apply (po_nda _ _ _ _ Hok)|]. split.
    + destruct (parent nb) as [q|] eqn:Pb; [|exact Hr1]. cbn [app]. constructor; [|exact Hr1].
      intros Hq. apply remove_first_In in Hq. apply (proj1 (po_parb _ _ _ _ Hok q Pb) Hq).
    + intros x Hx Hy. apply in_app_or in Hy. destruct Hy as [Hy|Hy].
      * destruct (parent nb) as [q|] eqn:Pb; [|destruct Hy]. destruct Hy as [<-|[]].
        apply (proj2 (po_parb _ _ _ _ Hok q Pb)); [congruence|exact Hx].
      * apply remove_first_In in Hy. apply (po_disj _ _ _ _ Hok x Hx Hy).
Qed.

(* ---- A1, acceptance: on two neighbouring nodes of a well-formed store, with a fresh temporary
   identifier and a gate tensor whose shape is (open dims of node1 ++ node2) twice, no sub-operation of
   the two-site gate raises ------------------------------------------------------------------------- *)
Theorem two_site_gate_succeeds_wf contr s a b g na nb :
  wf s -> aget a (nodes s) = Some na -> aget b (nodes s) = Some nb -> In b (neighbouring_nodes na) ->
  aget contr (nodes s) = None ->
  t_shape g = map (wdim s) (open_of na (tens s a) ++ open_of nb (tens s b)) ++
              map (wdim s) (open_of na (tens s a) ++ open_of nb (tens s b)) ->
  exists s1 s2 s3, two_site_stages contr s a b g = Some (s1, s2, s3).
Proof.
  intros W Ea Eb Hnbr Hc Hshape.
  pose proof (pair_ok_wf s a na b nb W Ea Eb Hnbr) as Hok.
  assert (Hnew : ~ In contr (akeys (nodes s))) by (apply aget_None; exact Hc).
  assert (Hnew' : contr = a \/ contr = b \/ ~ In contr (akeys (nodes s))) by tauto.
  assert (Hca : contr <> a) by (intros ->; congruence).
  assert (Hcb : contr <> b) by (intros ->; congruence).
  assert (Hl : exists u v, lbc_nodes a na b nb = Some (u, v)).
  { unfold lbc_nodes. destruct (po_adj _ _ _ _ Hok) as [(Hin & _)|(Hin & _)]; apply memb_In in Hin.
    - destruct (memb a (children nb)); [eauto|]. rewrite Hin. eauto.
    - rewrite Hin. eauto. }
  destruct Hl as (u & v & Hl).
  destruct (contract_succeeds s a b contr na nb W Ea Eb Hnbr Hnew) as [s1 Hcn].
  pose proof (contract_preserves_wf _ _ _ _ _ W Hcn Hnew') as W1.
  destruct (contract_open_rule _ _ _ _ _ na nb W Hcn Hnew' Ea Eb) as (nn & Enn & Hopen & _).
  destruct (contract_inv2 _ _ _ _ _ W Hcn Hnew') as (_ & _ & _ & _ & _ & _ & _ & _ & _ & _ & _ & _ & _ & _ & _ & _ & Ndm & _).
  assert (Hwd : forall w, wdim s1 w = wdim s w) by (intros w; unfold wdim; rewrite Ndm; reflexivity).
  destruct (absorb_succeeds s1 contr nn (t_shape g) W1 Enn) as [s2 Hab].
  { rewrite Hopen, Hshape. f_equal; apply map_ext; intros w; symmetry; apply Hwd. }
  destruct (gate_half _ _ _ _ _ _ _ _ _ _ _ W Ea Eb Hok Hnew Hl Hcn Hab) as (_ & W2 & Hids & nd & End & L1 & L2 & Hnv & Hno).
  assert (Hlbc : legs_before_combination s a b = Some (u, v)) by (unfold legs_before_combination; rewrite Ea, Eb; exact Hl).
  destruct (contract_specs_partition s a b contr s1 na nb u v Ea Eb Hok Hlbc Hcn) as (nn' & lu & lv & Enn' & Flu & Flv & Hperm).
  rewrite Enn in Enn'. injection Enn' as <-.
  destruct (absorb_open_inv _ _ _ _ Hab) as (s1a & nd1 & t1 & Hacc & _ & _ & _ & En2 & _).
  destruct (access_result _ _ _ _ _ Hacc) as (B1 & _ & _ & _ & _ & _ & _ & _ & (nd0 & B9 & B10 & B11)).
  rewrite Enn in B9. injection B9 as <-. rewrite En2, B1 in End. injection End as <-.
  destruct (lbc_specs_ok _ _ _ _ _ _ Hok Hl) as [Hass Hnd].
  assert (Hnl : nlegs nd1 = nlegs na + nlegs nb - 2).
  { pose proof (ni_virt _ _ _ (wf_node s2 W2 contr nd1 ltac:(rewrite En2; exact B1))) as Hv1.
    pose proof (po_va _ _ _ _ Hok). pose proof (po_vb _ _ _ _ Hok).
    assert (1 <= nvirt na /\ 1 <= nvirt nb).
    { destruct (po_adj _ _ _ _ Hok) as [(Hin & Hp & _)|(Hin & Hp & _)]; apply TrotterProofs.remove_first_length in Hin;
        unfold nvirt, nparents; rewrite Hp; split; destruct (parent na), (parent nb); nlia. }
    unfold nopen in Hno. nlia. }
  destruct (split_succeeds s2 contr nd1 u v a b (t_kind g) Reduced (t_bond g) lu lv) as [s3 Hs]; auto.
  - rewrite En2. exact B1.
  - rewrite <- Flu. apply find_leg_values_ext; assumption.
  - rewrite <- Flv. apply find_leg_values_ext; assumption.
  - rewrite Hnl. exact Hperm.
  - apply (po_ne _ _ _ _ Hok).
  - intros _ Hm. discriminate Hm.
  - exists s1, s2, s3. unfold two_site_stages. rewrite Hlbc, Hcn, Hab, Hs. reflexivity.
Qed.

(* ==== acceptance of whole steps: the open dimensions of every node are kept ============================ *)
Definition odims (s : store) (k : id) : list nat :=
  match aget k (nodes s) with Some nk => map (wdim s) (open_of nk (tens s k)) | None => [] end.

(* a gate fits a store: its identifiers are a node, or two neighbouring nodes, and its tensor has the
   open dimensions of the node(s) twice (outputs, inputs) *)
Definition gate_fits (s : store) (g : tgate) : Prop :=
  match t_ids g with
  | [] => True
  | [a] => (exists na, aget a (nodes s) = Some na) /\ t_shape g = odims s a ++ odims s a
  | [a; b] => (exists na, aget a (nodes s) = Some na /\ In b (neighbouring_nodes na)) /\
              t_shape g = (odims s a ++ odims s b) ++ (odims s a ++ odims s b)
  | _ => False
  end.

Lemma open_lt s k nk w : wf s -> aget k (nodes s) = Some nk -> In w (open_of nk (tens s k)) -> w < next_wire s.
Proof.
  intros W E Hw. apply (wf_wires s W k (tens s k) w (wf_tens s k nk W E)).
  unfold open_of in Hw. assert (Hl : In w (laxes nk (tens s k))).
  { rewrite <- (firstn_skipn (nvirt nk) (laxes nk (tens s k))). apply in_or_app. right. exact Hw. }
  unfold laxes in Hl. apply (permute_incl 0 (perm nk) (axes (tens s k))); [|exact Hl].
  pose proof (wf_axes_length s k nk W E) as Hal. pose proof (wf_node_wf s k nk W E) as [Hp Hq].
  intros i Hi. pose proof (perm_bound _ _ Hp i Hi) as Hb. pose proof (nlegs_shape nk (conj Hp Hq)). nlia.
Qed.

Lemma wdim_old s s' extra w : wf s -> dims s' = dims s ++ extra ->
  (forall x, In x (akeys extra) -> next_wire s <= x) -> w < next_wire s -> wdim s' w = wdim s w.
Proof.
  intros W Hd Hx Hw. unfold wdim. rewrite Hd, aget_app. unfold wire in *. destruct (aget w (dims s)) as [v|]; [reflexivity|].
  destruct (aget w extra) as [v|] eqn:E; [|reflexivity]. apply aget_Some_keys in E. apply Hx in E. lia.
Qed.

Lemma odims_kept s s' extra k : wf s -> dims s' = dims s ++ extra ->
  (forall x, In x (akeys extra) -> next_wire s <= x) ->
  aget k (nodes s') = aget k (nodes s) -> aget k (tensors s') = aget k (tensors s) -> odims s' k = odims s k.
Proof.
  intros W Hd Hx En Et. unfold odims. rewrite En. destruct (aget k (nodes s)) as [nk|] eqn:E; [|reflexivity].
  assert (Ht : tens s' k = tens s k) by (unfold tens; rewrite Et; reflexivity). rewrite Ht.
  apply map_ext_in. intros w Hw. apply (wdim_old s s' extra w W Hd Hx). apply (open_lt s k nk w W E Hw).
Qed.

Lemma odims_length s k nk : aget k (nodes s) = Some nk -> length (odims s k) = nopen nk.
Proof. intros E. unfold odims. rewrite E, map_length. apply open_of_length. Qed.

Lemma app_eq_split {A} (x1 y1 x2 y2 : list A) : x1 ++ y1 = x2 ++ y2 -> length x1 = length x2 -> x1 = x2 /\ y1 = y2.
Proof.
  revert x2. induction x1 as [|a t IH]; intros [|b t2] H Hl; cbn in *; try discriminate; [auto|].
  injection H as -> H. destruct (IH t2 H ltac:(lia)) as [-> ->]. auto.
Qed.

(* the dimensions of fresh wires appended to the table *)
Lemma wdim_fresh s s' ds extra : wf s -> dims s' = (dims s ++ combine (seq (next_wire s) (length ds)) ds) ++ extra ->
  (forall x, In x (akeys extra) -> next_wire s + length ds <= x) ->
  map (wdim s') (seq (next_wire s) (length ds)) = ds.
Proof.
  intros W Hd Hx.
  destruct (fresh_wires s ds) as [s2 ws] eqn:Hfw.
  destruct (InvBuild.fresh_wires_spec _ _ _ _ Hfw) as (Ews & F2 & _).
  transitivity (map (wdim s2) ws); [|apply (fresh_wires_wdim_new _ _ _ _ Hfw (wf_dims s W))].
  subst ws. apply map_ext_in. intros w Hw. apply in_seq in Hw. unfold wdim. unfold wire in *. rewrite Hd, <- F2, aget_app.
  destruct (aget w (dims s2)) as [v|]; [reflexivity|].
  destruct (aget w extra) as [v|] eqn:E; [|reflexivity]. apply aget_Some_keys in E. apply Hx in E. lia.
Qed.

(* ---- the two-site gate keeps the open dimensions of every node ------------------------------------ *)
Lemma two_site_gate_odims contr s a b g s1 s2 s3 na nb :
  wf s -> aget a (nodes s) = Some na -> aget b (nodes s) = Some nb -> aget contr (nodes s) = None ->
  t_shape g = (odims s a ++ odims s b) ++ (odims s a ++ odims s b) ->
  two_site_stages contr s a b g = Some (s1, s2, s3) ->
  forall k, odims s3 k = odims s k.
Proof.
  intros W Ea Eb Hc Hshape H k.
  destruct (two_site_gate_same_tree_wf _ _ _ _ _ _ _ _ _ W Ea Hc H) as (_ & _ & _ & _ & _ & _ & Hoth).
  destruct (two_site_gate_diagram_wf _ _ _ _ _ _ _ _ _ W Ea Hc H)
    as (nb' & u & v & p & c & pn0 & cn0 & pt & ct & ax & nt & nn & lu & lv & Eb' & _ & _ & _ & _ & _ & _ & _ & _ & _ & _ & _ & _ & _ & _ & D).
  cbv zeta in D. destruct D as (_ & _ & _ & _ & _ & _ & Nw3 & (bd & Dm) & na' & nb'' & Ea3 & Eb3 & Oa & Ob).
  rewrite Eb in Eb'. injection Eb' as <-.
  set (K := nopen na + nopen nb) in *. set (nw := next_wire s) in *.
  pose proof (odims_length s a na Ea) as La. pose proof (odims_length s b nb Eb) as Lb.
  assert (Hds : firstn K (t_shape g) = odims s a ++ odims s b).
  { rewrite Hshape. replace K with (length (odims s a ++ odims s b)) by (rewrite app_length, La, Lb; reflexivity).
    apply firstn_app_len. }
  rewrite Hds in Dm.
  assert (HK : length (odims s a ++ odims s b) = K) by (rewrite app_length, La, Lb; reflexivity).
  assert (Hfresh : map (wdim s3) (seq nw K) = odims s a ++ odims s b).
  { rewrite <- HK. apply (wdim_fresh s s3 _ [(nw + K, bd)] W).
    - rewrite HK. exact Dm.
    - intros x [<-|[]]. rewrite HK. cbn. lia. }
  unfold K in Hfresh. rewrite seq_app, map_app in Hfresh.
  apply app_eq_split in Hfresh; [|rewrite map_length, seq_length, La; reflexivity]. destruct Hfresh as [Fa Fb].
  destruct (Nat.eq_dec k a) as [->|Ka]; [|destruct (Nat.eq_dec k b) as [->|Kb]].
  - unfold odims at 1. rewrite Ea3, Oa. exact Fa.
  - unfold odims at 1. rewrite Eb3, Ob. exact Fb.
  - destruct (Hoth k Ka Kb) as [En Et].
    apply (odims_kept s s3 (combine (seq nw K) (odims s a ++ odims s b) ++ [(nw + K, bd)]) k W); auto.
    + rewrite Dm, <- app_assoc. reflexivity.
    + intros x Hx. rewrite akeys_app in Hx. apply in_app_or in Hx. destruct Hx as [Hx|Hx].
      * apply ib_akeys_combine in Hx. apply in_seq in Hx. lia.
      * destruct Hx as [<-|[]]. cbn. lia.
Qed.

(* ---- the single-site gate -------------------------------------------------------------------------- *)
Lemma one_site_gate_odims s a gshape s' na :
  wf s -> aget a (nodes s) = Some na -> gshape = odims s a ++ odims s a ->
  absorb_open s a gshape = Some s' -> forall k, odims s' k = odims s k.
Proof.
  intros W Ea Hshape H k.
  destruct (absorb_open_inv _ _ _ _ H) as (s1 & nd & t & Hacc & Hlen & Hsq & Hdim & En' & Er' & Et' & Ed' & Ew' & _).
  destruct (access_inv _ _ _ _ _ Hacc) as (na0 & t0 & X1 & X2 & X3 & X4 & X5). rewrite Ea in X1. injection X1 as <-.
  destruct (sp_access_next _ _ _ _ _ Hacc) as (_ & Nw & _ & Ndm & _).
  pose proof (odims_length s a na Ea) as La.
  assert (Hno : nopen nd = nopen na) by (rewrite X3; apply nopen_reset).
  assert (Hds : firstn (nopen nd) gshape = odims s a).
  { rewrite Hshape, Hno, <- La. apply firstn_app_len. }
  rewrite Hds, Ndm, Nw, Hno in Ed'.
  destruct (Nat.eq_dec k a) as [->|Ka].
  - unfold odims at 1. rewrite En', X5. cbn [nodes upd_tensors upd_nodes]. rewrite aget_aset_same.
    assert (Ht : tens s' a = ab_tensor s1 nd t) by (apply tens_aget; rewrite Et'; apply aget_aset_same). rewrite Ht.
    pose proof (ni_virt _ _ _ (wf_node s W a na Ea)) as Hv.
    assert (Hlt : length (axes t) = nlegs na) by (rewrite X4; cbn; apply permute_length).
    assert (Hop : open_of nd (ab_tensor s1 nd t) = seq (next_wire s) (nopen na)).
    { unfold open_of, laxes, ab_tensor. cbn [axes]. rewrite Hno, Nw.
      assert (Hvn : nvirt nd = nvirt na) by (rewrite X3; reflexivity). rewrite Hvn.
      assert (Hpn : perm nd = seq 0 (nlegs na)) by (rewrite X3; reflexivity). rewrite Hpn.
      assert (Hfl : length (firstn (nvirt na) (axes t)) = nvirt na) by (rewrite firstn_length; nlia).
      replace (nlegs na) with (length (firstn (nvirt na) (axes t) ++ seq (next_wire s) (nopen na)))
        by (rewrite app_length, Hfl, seq_length; unfold nopen; nlia).
      rewrite permute_seq. rewrite <- Hfl at 1. apply skipn_app_len. }
    rewrite Hop. rewrite <- La. apply (wdim_fresh s s' (odims s a) [] W).
    + rewrite app_nil_r, La. exact Ed'.
    + intros x [].
  - apply (odims_kept s s' (combine (seq (next_wire s) (nopen na)) (odims s a)) k W Ed').
    + intros x Hx. apply ib_akeys_combine in Hx. apply in_seq in Hx. lia.
    + rewrite En', X5. cbn. apply aget_aset_other. exact Ka.
    + rewrite Et', aget_aset_other by exact Ka. rewrite X5. cbn. apply aget_aset_other. exact Ka.
Qed.

(* ---- every fitting gate is accepted; the store stays well-formed, the tree and the open dimensions
   stay the same ---------------------------------------------------------------------------------- *)
Theorem apply_gate_accepts contr s g :
  wf s -> aget contr (nodes s) = None -> gate_fits s g ->
  exists s', apply_gate contr s g = Some s' /\ wf s' /\ aget contr (nodes s') = None /\
             same_tree (nodes s) (nodes s') /\ root s' = root s /\ forall k, odims s' k = odims s k.
Proof.
  intros W Hc Hfit.
  assert (Hgen : forall s', apply_gate contr s g = Some s' -> (forall k, odims s' k = odims s k) ->
            exists s', apply_gate contr s g = Some s' /\ wf s' /\ aget contr (nodes s') = None /\
             same_tree (nodes s) (nodes s') /\ root s' = root s /\ forall k, odims s' k = odims s k).
  { intros s' E Ho. exists s'. destruct (apply_gate_preserves_wf _ _ _ _ W Hc E) as (X1 & X2 & X3 & X4).
    split; [exact E|]. split; [exact X1|]. split; [exact X2|]. split; [exact X3|]. split; [exact X4|exact Ho]. }
  unfold gate_fits in Hfit. unfold apply_gate, apply_gate_stages in *.
  destruct (t_ids g) as [|a [|b [|x r]]] eqn:Eids; [| | |contradiction].
  - apply (Hgen s); [reflexivity|auto].
  - destruct Hfit as [[na Ea] Hshape].
    destruct (absorb_succeeds s a na (t_shape g) W Ea) as [s' E].
    { unfold odims in Hshape. rewrite Ea in Hshape. exact Hshape. }
    apply (Hgen s'); [rewrite E; reflexivity|]. apply (one_site_gate_odims s a (t_shape g) s' na W Ea Hshape E).
  - destruct Hfit as [(na & Ea & Hnbr) Hshape].
    destruct (ts_neighbour_sym _ a na b (wf_tstruct s W) Ea Hnbr) as (nb & Eb & _).
    destruct (two_site_gate_succeeds_wf contr s a b g na nb W Ea Eb Hnbr Hc) as (s1 & s2 & s3 & E).
    { unfold odims in Hshape. rewrite Ea, Eb in Hshape. rewrite !map_app. exact Hshape. }
    apply (Hgen s3); [rewrite E; reflexivity|]. apply (two_site_gate_odims contr s a b g s1 s2 s3 na nb W Ea Eb Hc Hshape E).
Qed.

Lemma gate_fits_transfer s s' g : same_tree (nodes s) (nodes s') -> (forall k, odims s' k = odims s k) ->
  gate_fits s g -> gate_fits s' g.
Proof.
  intros St Ho. unfold gate_fits. destruct (t_ids g) as [|a [|b [|x r]]]; auto.
  - intros [[na Ea] Hs]. split; [|rewrite !Ho; exact Hs].
    destruct (same_tree_some _ _ _ _ St Ea) as (na' & Ea' & _). eauto.
  - intros [(na & Ea & Hn) Hs]. split; [|rewrite !Ho; exact Hs].
    destruct (same_tree_some _ _ _ _ St Ea) as (na' & Ea' & _). exists na'. split; [exact Ea'|].
    apply (Permutation_in _ (same_tree_neighbours _ _ _ _ _ St Ea Ea') Hn).
Qed.

Theorem tebd_step_accepts contr : forall gs s,
  wf s -> aget contr (nodes s) = None -> Forall (gate_fits s) gs ->
  exists s', tebd_step contr s gs = Some s' /\ wf s' /\ aget contr (nodes s') = None /\
             same_tree (nodes s) (nodes s') /\ root s' = root s /\ forall k, odims s' k = odims s k.
Proof.
  induction gs as [|g gs IH]; intros s W Hc Hf.
  - exists s. cbn. split; [reflexivity|]. split; [exact W|]. split; [exact Hc|]. split; [apply same_tree_refl|auto].
  - inversion Hf as [|? ? Hg Hgs]; subst.
    destruct (apply_gate_accepts contr s g W Hc Hg) as (s1 & E1 & W1 & Hc1 & St1 & Hr1 & Ho1).
    destruct (IH s1 W1 Hc1) as (s' & E' & W' & Hc' & St' & Hr' & Ho').
    { eapply Forall_impl; [|exact Hgs]. intros g'. apply (gate_fits_transfer s s1 g' St1 Ho1). }
    exists s'. cbn [tebd_step]. rewrite E1. split; [exact E'|]. split; [exact W'|]. split; [exact Hc'|].
    split; [eapply same_tree_trans; eauto|]. split; [congruence|]. intros k. rewrite Ho'. apply Ho1.
Qed.

Theorem tebd_step_accepts_wfb contr gs s :
  wfb s = true -> aget contr (nodes s) = None -> Forall (gate_fits s) gs ->
  exists s', tebd_step contr s gs = Some s' /\ wfb s' = true /\ aget contr (nodes s') = None /\
             same_tree (nodes s) (nodes s') /\ root s' = root s /\ forall k, odims s' k = odims s k.
Proof.
  intros W Hc Hf. apply wfb_iff in W. destruct (tebd_step_accepts contr gs s W Hc Hf) as (s' & E & W' & X).
  exists s'. split; [exact E|]. split; [apply wfb_iff; exact W'|exact X].
Qed.

(* ==== the statements with the executable invariant ================================================== *)
(* A1, total form: acceptance and restoration together *)
Theorem two_site_gate_total contr s a b g na nb :
  wfb s = true -> aget a (nodes s) = Some na -> aget b (nodes s) = Some nb -> In b (neighbouring_nodes na) ->
  aget contr (nodes s) = None ->
  t_shape g = map (wdim s) (open_of na (tens s a) ++ open_of nb (tens s b)) ++
              map (wdim s) (open_of na (tens s a) ++ open_of nb (tens s b)) ->
  exists s1 s2 s3, two_site_stages contr s a b g = Some (s1, s2, s3) /\
    wfb s3 = true /\ same_tree (nodes s) (nodes s3) /\ root s3 = root s /\
    aget contr (nodes s3) = None /\ aget contr (tensors s3) = None /\
    (forall k, k <> a -> k <> b -> aget k (nodes s3) = aget k (nodes s) /\ aget k (tensors s3) = aget k (tensors s)).
Proof.
  intros W Ea Eb Hnbr Hc Hshape. pose proof (proj1 (wfb_iff s) W) as W'.
  destruct (two_site_gate_succeeds_wf contr s a b g na nb W' Ea Eb Hnbr Hc Hshape) as (s1 & s2 & s3 & H).
  exists s1, s2, s3. split; [exact H|].
  destruct (two_site_gate_same_tree contr s a b g s1 s2 s3 na W Ea Hc H) as (_ & X). exact X.
Qed.

Theorem two_site_gate_succeeds contr s a b g na nb :
  wfb s = true -> aget a (nodes s) = Some na -> aget b (nodes s) = Some nb -> In b (neighbouring_nodes na) ->
  aget contr (nodes s) = None ->
  t_shape g = map (wdim s) (open_of na (tens s a) ++ open_of nb (tens s b)) ++
              map (wdim s) (open_of na (tens s a) ++ open_of nb (tens s b)) ->
  exists s1 s2 s3, two_site_stages contr s a b g = Some (s1, s2, s3).
Proof. intros W. apply two_site_gate_succeeds_wf. apply wfb_iff. exact W. Qed.

(* the single-site gate *)
Theorem one_site_gate_succeeds s a gshape na :
  wfb s = true -> aget a (nodes s) = Some na ->
  gshape = map (wdim s) (open_of na (tens s a)) ++ map (wdim s) (open_of na (tens s a)) ->
  exists s', absorb_open s a gshape = Some s' /\ wfb s' = true.
Proof.
  intros W Ea Hs. apply wfb_iff in W. destruct (absorb_succeeds s a na gshape W Ea Hs) as [s' E].
  exists s'. split; [exact E|]. apply wfb_iff. apply (absorb_preserves_wf _ _ _ _ W E).
Qed.

(* the three sub-operations, acceptance and invariant together *)
Theorem contract_accepts s a b new na nb :
  wfb s = true -> aget a (nodes s) = Some na -> aget b (nodes s) = Some nb -> In b (neighbouring_nodes na) ->
  ~ In new (akeys (nodes s)) ->
  exists s', contract_nodes s a b new = Some s' /\ wfb s' = true.
Proof.
  intros W Ea Eb Hn Hnew. apply wfb_iff in W. destruct (contract_succeeds s a b new na nb W Ea Eb Hn Hnew) as [s' E].
  exists s'. split; [exact E|]. apply wfb_iff. apply (contract_preserves_wf _ _ _ _ _ W E). tauto.
Qed.

Theorem absorb_preserves_wfb s n gshape s' : wfb s = true -> absorb_open s n gshape = Some s' -> wfb s' = true.
Proof. intros W H. apply wfb_iff. apply wfb_iff in W. apply (absorb_preserves_wf _ _ _ _ W H). Qed.

Theorem split_accepts s n nd0 o i oid iid kind m rb ol il :
  wfb s = true -> aget n (nodes s) = Some nd0 ->
  find_leg_values nd0 o = Some ol -> find_leg_values nd0 i = Some il ->
  Permutation (ol ++ il) (seq 0 (nlegs nd0)) ->
  oid <> iid -> (kind = 0 -> m = Keep -> il <> []) ->
  sp_asserts o i = true ->
  leg_ok nd0 o -> leg_ok nd0 i -> ids_ok s n oid iid ->
  NoDup (find_all_neighbour_ids o ++ find_all_neighbour_ids i) ->
  exists s', split_nodes s n o i oid iid kind m rb = Some s' /\ wfb s' = true.
Proof.
  intros W En Eol Eil Hp Hne Hk Ha LO LI Hids Hnd. apply wfb_iff in W.
  destruct (split_succeeds s n nd0 o i oid iid kind m rb ol il W En Eol Eil Hp Hne Hk Ha LO LI Hids Hnd) as [s' E].
  exists s'. split; [exact E|]. apply wfb_iff. apply (split_preserves_wf _ _ _ _ _ _ _ _ _ _ W E); [|exact Hids].
  intros nd E'. rewrite En in E'. injection E' as <-. auto.
Qed.

(* A2 with the executable invariant *)
Theorem two_site_gate_diagram contr s a b g s1 s2 s3 na :
  wfb s = true -> aget a (nodes s) = Some na -> aget contr (nodes s) = None ->
  two_site_stages contr s a b g = Some (s1, s2, s3) ->
  exists nb u v p c pn0 cn0 pt ct ax nt nn lu lv,
    aget b (nodes s) = Some nb /\ lbc_nodes a na b nb = Some (u, v) /\
    ((p = a /\ c = b) \/ (p = b /\ c = a)) /\
    aget p (nodes s) = Some pn0 /\ aget c (nodes s) = Some cn0 /\ parent cn0 = Some p /\
    logical s p = Some pt /\ logical s c = Some ct /\ neighbour_index pn0 c = Some ax /\
    s_tensordot pt ct ax 0 = Some nt /\
    aget contr (nodes s1) = Some nn /\ aget contr (tensors s1) = Some nt /\
    find_leg_values nn u = Some lu /\ find_leg_values nn v = Some lv /\
    Permutation (lu ++ lv) (seq 0 (nlegs nn)) /\
    let ga := next_atom s in
    let opa := open_of na (tens s a) in
    let opb := open_of nb (tens s b) in
    let outw := seq (next_wire s) (nopen na + nopen nb) in
    let bw := next_wire s + (nopen na + nopen nb) in
    let G := gate_folded nn nt ga outw in
    skipn (nvirt nn) (laxes nn nt) = opa ++ opb /\
    atab s3 = atab s ++ [(ga, outw ++ opa ++ opb); (S ga, permute 0 lu (axes G) ++ [bw]); (S (S ga), bw :: permute 0 lv (axes G))] /\
    defs s3 = defs s ++ [{| kq := S ga; kr := S (S ga); kbond := bw; kinput := s_transpose (lu ++ lv) G;
                            kkind := t_kind g; kmode := match t_kind g with 0 => Some Reduced | _ => None end |}] /\
    aget a (tensors s3) = Some {| axes := permute 0 lu (axes G) ++ [bw]; atoms := [S ga]; bnd := [] |} /\
    aget b (tensors s3) = Some {| axes := bw :: permute 0 lv (axes G); atoms := [S (S ga)]; bnd := [] |} /\
    next_atom s3 = S (S (S ga)) /\ next_wire s3 = S bw /\
    (exists bd, dims s3 = (dims s ++ combine outw (firstn (nopen na + nopen nb) (t_shape g))) ++ [(bw, bd)]) /\
    exists na' nb', aget a (nodes s3) = Some na' /\ aget b (nodes s3) = Some nb' /\
      open_of na' (tens s3 a) = seq (next_wire s) (nopen na) /\
      open_of nb' (tens s3 b) = seq (next_wire s + nopen na) (nopen nb).
Proof. intros W. apply two_site_gate_diagram_wf. apply wfb_iff. exact W. Qed.

(* non-vacuity: the chain 0 - 1 - 2 of Props/C08.v *)
Example gate_tree_example :
  let s := fst (run empty_store [AddRoot 0 [2; 3]; AddChild 1 [3; 2; 2] 0 0 1; AddChild 2 [2; 2] 1 1 1]) in
  wfb s = true /\ aget 99 (nodes s) = None /\
  match aget 1 (nodes s), aget 0 (nodes s) with
  | Some na, Some nb =>
      memb 0 (neighbouring_nodes na) = true /\
      map (wdim s) (open_of na (tens s 1) ++ open_of nb (tens s 0)) = [2; 2]
  | _, _ => False
  end /\
  match two_site_stages 99 s 1 0 {| t_ids := [1; 0]; t_shape := [2; 2; 2; 2]; t_kind := 1; t_bond := 0 |} with
  | Some (_, _, s3) => wfb s3 = true /\ map fst (nodes s3) = [2; 1; 0]
  | None => False
  end.
Proof. vm_compute. repeat split; reflexivity. Qed.

(* the three gates of the example of Props/C08.v fit that store (so tebd_step_accepts applies to it) *)
Example gate_fits_example :
  let s := fst (run empty_store [AddRoot 0 [2; 3]; AddChild 1 [3; 2; 2] 0 0 1; AddChild 2 [2; 2] 1 1 1]) in
  Forall (gate_fits s) [ {| t_ids := [1; 0]; t_shape := [2; 2; 2; 2]; t_kind := 1; t_bond := 0 |};
                         {| t_ids := [1; 2]; t_shape := [2; 2; 2; 2]; t_kind := 1; t_bond := 0 |};
                         {| t_ids := [2]; t_shape := [2; 2]; t_kind := 1; t_bond := 0 |} ].
Proof.
  cbv zeta. apply Forall_cons; [|apply Forall_cons; [|apply Forall_cons; [|apply Forall_nil]]];
    unfold gate_fits; cbn [t_ids t_shape]; (split; [|vm_compute; reflexivity]).
  - eexists. split; [vm_compute; reflexivity|vm_compute; auto].
  - eexists. split; [vm_compute; reflexivity|vm_compute; auto].
  - eexists. vm_compute. reflexivity.
Qed.

(* ---- the exact child order of the restored pair ------------------------------------------------------ *)
(* the lower node of the pair gets exactly its old child list back; in the upper node the partner is
   moved to the front, the other children keep their order *)
Theorem two_site_gate_children contr s a b g s1 s2 s3 na :
  wfb s = true -> aget a (nodes s) = Some na -> aget contr (nodes s) = None ->
  two_site_stages contr s a b g = Some (s1, s2, s3) ->
  exists p c pn0 cn0 pn3 cn3,
    ((p = a /\ c = b) \/ (p = b /\ c = a)) /\
    aget p (nodes s) = Some pn0 /\ aget c (nodes s) = Some cn0 /\ parent cn0 = Some p /\ In c (children pn0) /\
    aget p (nodes s3) = Some pn3 /\ aget c (nodes s3) = Some cn3 /\
    parent pn3 = parent pn0 /\ children pn3 = c :: remove_first c (children pn0) /\
    parent cn3 = Some p /\ children cn3 = children cn0.
Proof.
  intros Wb Ea Hc H. pose proof (proj1 (wfb_iff s) Wb) as W.
  destruct (two_site_chain _ _ _ _ _ _ _ _ _ W Ea Hc H) as (nb & u & v & G).
  destruct (gate_oriented _ _ _ _ _ _ _ _ _ _ _ _ W Ea G) as (p & c & pn0 & cn0 & su & sl & Hor & Ep0 & Ec0 & Hparc & Hcin & Hppc & Hpc &
     Hsup & Hsuc & Hslp & Hslc & s2a & nd2 & t2 & cU & cL & nU & nL & tU & tL & bd & Hacc2 & W2a & V).
  exists p, c, pn0, cn0, nU, nL.
  split; [destruct Hor as [(-> & -> & _)|(-> & -> & _)]; auto|].
  split; [exact Ep0|]. split; [exact Ec0|]. split; [exact Hparc|]. split; [exact Hcin|].
  split; [apply (sv_nU _ _ _ _ _ _ _ _ _ _ _ _ _ _ _ _ V)|]. split; [apply (sv_nL _ _ _ _ _ _ _ _ _ _ _ _ _ _ _ _ V)|].
  split.
  { (* parent of the upper node = parent of the contracted node = old parent *)
    rewrite (sv_nU_par _ _ _ _ _ _ _ _ _ _ _ _ _ _ _ _ V).
    destruct (two_site_gate_same_tree_wf _ _ _ _ _ _ _ _ _ W Ea Hc H) as (_ & _ & St & _).
    destruct (same_tree_some _ _ _ _ St Ep0) as (pn3' & Ep3 & Hpp & _).
    rewrite (sv_nU _ _ _ _ _ _ _ _ _ _ _ _ _ _ _ _ V) in Ep3. injection Ep3 as <-.
    rewrite Hpp. symmetry. apply (sv_nU_par _ _ _ _ _ _ _ _ _ _ _ _ _ _ _ _ V). }
  split; [rewrite (sv_nU_ch _ _ _ _ _ _ _ _ _ _ _ _ _ _ _ _ V), Hsuc; reflexivity|].
  split; [apply (sv_nL_par _ _ _ _ _ _ _ _ _ _ _ _ _ _ _ _ V)|].
  rewrite (sv_nL_ch _ _ _ _ _ _ _ _ _ _ _ _ _ _ _ _ V). exact Hslc.
Qed.

