(* Property C08, the tree level of the two-site gate (TEBD._apply_one_trotter_step_two_site) over the
   Layer-W store, on top of the proved store invariant (TTN/Inv*.v):
     - absorb_into_open_legs preserves the invariant;
     - the contraction / absorption / split chain of one gate preserves it, the recorded leg
       specifications describe the contracted node truthfully, the identifiers are admissible;
     - the gate gives back the same tree: root, every other node (record and tensor) unchanged, the
       temporary identifier gone (two_site_gate_same_tree);
     - every gate application and every TEBD step preserve wfb (list induction).
   New file; the model files (TTN/Store.v, TEBD/Trotter.v) are untouched. *)
From Coq Require Import List Arith Bool Lia Permutation.
From PTN Require Import TTN.Store TTN.StoreProofs TTN.Inv TTN.InvProofs TTN.InvNode TTN.InvBuild TTN.InvContract TTN.InvSplit
  TTN.CanonTree TEBD.Trotter TEBD.TrotterProofs.
Import ListNotations.

Ltac nlia := unfold id, wire in *; lia.

(* ---- absorb_open, unfolded ------------------------------------------------------------------ *)
Definition ab_tensor (s1 : store) (nd : node) (t : sarr) : sarr :=
  {| axes := firstn (nvirt nd) (axes t) ++ seq (next_wire s1) (nopen nd);
     atoms := atoms t ++ [next_atom s1];
     bnd := skipn (nvirt nd) (axes t) ++ bnd t |}.

Lemma absorb_open_inv s n gshape s' : absorb_open s n gshape = Some s' ->
  exists s1 nd t,
    access s n = Some (s1, nd, t) /\
    length gshape = 2 * nopen nd /\ firstn (nopen nd) gshape = skipn (nopen nd) gshape /\
    map (wdim s) (skipn (nvirt nd) (axes t)) = skipn (nopen nd) gshape /\
    nodes s' = nodes s1 /\ root s' = root s1 /\
    tensors s' = aset n (ab_tensor s1 nd t) (tensors s1) /\
    dims s' = dims s1 ++ combine (seq (next_wire s1) (nopen nd)) (firstn (nopen nd) gshape) /\
    next_wire s' = next_wire s1 + nopen nd /\
    next_atom s' = S (next_atom s1) /\ defs s' = defs s1 /\
    atab s' = atab s1 ++ [(next_atom s1, seq (next_wire s1) (nopen nd) ++ skipn (nvirt nd) (axes t))].
Proof.
  unfold absorb_open. destruct (access s n) as [[[s1 nd] t]|] eqn:Hacc; [|discriminate].
  destruct (Nat.eqb_spec (length gshape) (2 * nopen nd)) as [Hlen|]; [|discriminate]. cbn [negb].
  destruct (list_eqb (firstn (nopen nd) gshape) (skipn (nopen nd) gshape)) eqn:Hsq; [|discriminate]. cbn [negb].
  destruct (list_eqb (map (wdim s) (skipn (nvirt nd) (axes t))) (skipn (nopen nd) gshape)) eqn:Hdim; [|discriminate]. cbn [negb].
  destruct (fresh_wires s1 (firstn (nopen nd) gshape)) as [s2 neww] eqn:Hfw.
  destruct (InvBuild.fresh_wires_spec _ _ _ _ Hfw) as (-> & E2 & E3 & E4 & E5 & E6 & E7 & E8 & E9).
  assert (Hl : length (firstn (nopen nd) gshape) = nopen nd) by (rewrite firstn_length; lia).
  rewrite Hl in *.
  unfold fresh_atom. intros [= <-]. exists s1, nd, t. split; [reflexivity|].
  apply list_eqb_eq in Hsq, Hdim. cbn. unfold ab_tensor.
  rewrite E4, E5, E6, E7, E8, E9, E2, E3. repeat split; auto.
Qed.

Lemma in_firstn_in {A} k (l : list A) x : In x (firstn k l) -> In x l.
Proof. intros H. rewrite <- (firstn_skipn k l). apply in_or_app. left. exact H. Qed.

Lemma firstn_firstn_le {A} a b (l : list A) : a <= b -> firstn a (firstn b l) = firstn a l.
Proof. intros H. rewrite firstn_firstn. f_equal. lia. Qed.

(* absorb_into_open_legs preserves the store invariant *)
Theorem absorb_preserves_wf s n gshape s' : wf s -> absorb_open s n gshape = Some s' -> wf s'.
Proof.
  intros W0 H. destruct (absorb_open_inv _ _ _ _ H) as (s1 & nd & t & Ha & Hlen & Hsq & Hdim & En' & Er' & Et' & Ed' & Ew' & _).
  destruct (split_access_facts _ _ _ _ _ W0 Ha) as (nd0 & t0 & En0 & Et0 & End & Etr & W & En & Et & Hid & Hk & Hlax0 & Ht0).
  destruct (sp_access_next _ _ _ _ _ Ha) as (_ & _ & _ & Edm & _).
  assert (Hwd0 : forall w, wdim s w = wdim s1 w) by (intros w; unfold wdim; rewrite Edm; reflexivity).
  set (v := nvirt nd) in *. set (k := nopen nd) in *. set (nw := next_wire s1) in *.
  set (t' := ab_tensor s1 nd t) in *.
  pose proof (wf_node s1 W n nd En) as Hn.
  assert (Hlt : length (axes t) = nlegs nd).
  { rewrite <- (wf_axes_length s1 n nd W En). rewrite (tens_aget _ _ _ Et). reflexivity. }
  assert (Hv : v <= nlegs nd) by apply (ni_virt _ _ _ Hn).
  assert (Hvk : v + k = nlegs nd) by (unfold k, nopen; fold v; lia).
  assert (Hpid : perm nd = seq 0 (nlegs nd)) by (rewrite Hid, Hlt; reflexivity).
  assert (Hds : length (firstn k gshape) = k) by (rewrite firstn_length; lia).
  (* the fresh wires, as a fresh_wires call *)
  destruct (fresh_wires s1 (firstn k gshape)) as [s2 neww] eqn:Hfw.
  destruct (InvBuild.fresh_wires_spec _ _ _ _ Hfw) as (Eneww & F2 & F3 & _).
  rewrite Hds in Eneww. fold nw in Eneww. subst neww.
  assert (Hdims2 : dims s' = dims s2) by (rewrite Ed', F2; reflexivity).
  assert (Hwd_old : forall w, w < nw -> wdim s' w = wdim s1 w).
  { intros w Hw. unfold wdim at 1. rewrite Hdims2. apply (fresh_wires_wdim_old _ _ _ _ w Hfw Hw). }
  assert (Hwd_new : map (wdim s') (seq nw k) = firstn k gshape).
  { erewrite map_ext; [apply (fresh_wires_wdim_new _ _ _ _ Hfw (wf_dims s1 W))|].
    intros w. unfold wdim. rewrite Hdims2. reflexivity. }
  assert (Hax' : axes t' = firstn v (axes t) ++ seq nw k) by reflexivity.
  assert (Hlt' : length (axes t') = nlegs nd).
  { rewrite Hax', app_length, firstn_length, seq_length. nlia. }
  (* tensors and logical axes *)
  assert (T1 : forall x, tens s' x = if Nat.eqb x n then t' else tens s1 x).
  { intros x. unfold tens. rewrite Et', aget_aset. destruct (Nat.eqb x n); reflexivity. }
  assert (Ht1 : tens s1 n = t) by (apply tens_aget; exact Et).
  assert (Hold : forall x xn w, aget x (nodes s1) = Some xn -> In w (axes (tens s1 x)) -> w < nw).
  { intros x xn w Ex Hw. apply (wf_wires s1 W x (tens s1 x) w); [apply (wf_tens s1 x xn W Ex)|exact Hw]. }
  assert (Hlaxn : lax s1 n nd = axes t).
  { unfold lax, laxes. rewrite Ht1, Hpid, <- Hlt. apply permute_seq. }
  assert (Hlaxn' : lax s' n nd = axes t').
  { unfold lax, laxes. rewrite T1, Nat.eqb_refl, Hpid, <- Hlt'. apply permute_seq. }
  assert (Hlax_o : forall x xn, x <> n -> lax s' x xn = lax s1 x xn).
  { intros x xn Hx. unfold lax. rewrite T1. destruct (Nat.eqb_spec x n); [contradiction|reflexivity]. }
  assert (Hvirt : forall x xn j, aget x (nodes s1) = Some xn -> j < nvirt xn -> nth j (lax s' x xn) 0 = nth j (lax s1 x xn) 0).
  { intros x xn j Ex Hj. destruct (Nat.eq_dec x n) as [->|Hx]; [|rewrite Hlax_o by exact Hx; reflexivity].
    rewrite Ex in En. injection En as ->. rewrite Hlaxn, Hlaxn', Hax'. fold v in Hj.
    rewrite app_nth1 by (rewrite firstn_length; nlia). apply nth_firstn_lt. exact Hj. }
  assert (Hown_o : forall x xn, x <> n -> own_of xn (tens s' x) = own_of xn (tens s1 x)).
  { intros x xn Hx. rewrite T1. destruct (Nat.eqb_spec x n); [contradiction|reflexivity]. }
  assert (Hnp : nparents nd <= v) by (unfold v, nvirt; lia).
  assert (Hown_n : own_of nd (tens s' n) = firstn (nparents nd) (axes t) ++ seq nw k).
  { unfold own_of. fold (lax s' n nd). rewrite Hlaxn', Hax'. fold v.
    rewrite firstn_app, firstn_firstn_le by exact Hnp.
    replace (nparents nd - length (firstn v (axes t))) with 0 by (rewrite firstn_length; nlia). cbn [firstn]. rewrite app_nil_r.
    rewrite skipn_app, firstn_length.
    replace (skipn v (firstn v (axes t))) with (@nil wire) by (symmetry; apply skipn_all2; rewrite firstn_length; nlia).
    replace (v - Nat.min v (length (axes t))) with 0 by nlia. reflexivity. }
  assert (Hown_n1 : own_of nd (tens s1 n) = firstn (nparents nd) (axes t) ++ skipn v (axes t)).
  { unfold own_of. fold (lax s1 n nd). rewrite Hlaxn. reflexivity. }
  assert (Hown_lt : forall x xn w, aget x (nodes s1) = Some xn -> In w (own_of xn (tens s1 x)) -> w < nw).
  { intros x xn w Ex Hw. apply (Hold x xn w Ex). apply sp_own_of_incl in Hw. unfold laxes in Hw.
    apply (permute_incl 0 (perm xn) (axes (tens s1 x))); [|exact Hw].
    pose proof (wf_axes_length s1 x xn W Ex) as Hal. pose proof (wf_node_wf s1 x xn W Ex) as [Hp Hq].
    intros i Hi. pose proof (perm_bound _ _ Hp i Hi) as Hb. pose proof (nlegs_shape xn (conj Hp Hq)). nlia. }
  constructor.
  - rewrite En'. apply (wf_nd s1 W).
  - rewrite Et'. apply NoDup_akeys_aset. apply (wf_tnd s1 W).
  - intros x Hx. rewrite En'. rewrite Et' in Hx. apply amem_aget in Hx. destruct Hx as [u Hu]. rewrite aget_aset in Hu.
    destruct (Nat.eqb_spec x n) as [->|Hxn]; [apply amem_aget; eauto|].
    apply (wf_tn s1 W). apply amem_aget. eauto.
  - rewrite En', Er'. apply (wf_root s1 W).
  - intros x xn Ex. rewrite En' in Ex. pose proof (wf_node s1 W x xn Ex) as Hx. constructor.
    + rewrite Et'. apply amem_aget. rewrite aget_aset. destruct (Nat.eqb x n); [eauto|]. apply amem_aget. apply (ni_t _ _ _ Hx).
    + apply (ni_perm _ _ _ Hx).
    + rewrite T1. destruct (Nat.eqb_spec x n) as [->|Hxn].
      * rewrite Ex in En. injection En as ->. rewrite (ni_shape _ _ _ Hn), Ht1, Hax', map_app, Hwd_new.
        rewrite <- (firstn_skipn v (axes t)) at 1. rewrite map_app. f_equal.
        -- apply map_ext_in. intros w Hw. symmetry. apply Hwd_old. apply (Hold n nd w Ex). rewrite Ht1.
           apply (in_firstn_in _ _ _ Hw).
        -- rewrite Hsq, <- Hdim. apply map_ext. intros w. symmetry. apply Hwd0.
      * rewrite (ni_shape _ _ _ Hx). apply map_ext_in. intros w Hw. symmetry. apply Hwd_old. apply (Hold x xn w Ex Hw).
    + apply (ni_virt _ _ _ Hx).
    + apply (ni_chnd _ _ _ Hx).
    + intros c Hc. rewrite En'. apply (ni_ch _ _ _ Hx c Hc).
    + intros p Hp. rewrite En'. destruct (ni_par _ _ _ Hx p Hp) as (pn & i & Ep & Hin & Hi & Hw).
      exists pn, i. repeat split; auto.
      assert (Hppn : parent pn <> Some x).
      { intros Hc. destruct (wf_acyc s1 W) as [d Hd]. pose proof (Hd x xn p Ex Hp). pose proof (Hd p pn x Ep Hc). lia. }
      rewrite (Hvirt x xn 0 Ex) by (unfold nvirt, nparents; rewrite Hp; lia).
      rewrite (Hvirt p pn i Ep) by (apply (neighbour_index_lt pn x i Hppn Hi)). exact Hw.
  - intros x xn Ex. rewrite En' in Ex. destruct (Nat.eq_dec x n) as [->|Hxn].
    + rewrite Ex in En. injection En as ->. rewrite Hown_n.
      pose proof (wf_own1 s1 W n nd Ex) as Hnd. rewrite Hown_n1 in Hnd.
      apply NoDup_app_iff. split; [apply (NoDup_app_l _ _ Hnd)|]. split; [apply seq_NoDup|].
      intros w Hw Hw2. apply in_seq in Hw2.
      assert (w < nw); [|lia]. apply (Hown_lt n nd w Ex). rewrite Hown_n1. apply in_or_app. left. exact Hw.
    + rewrite Hown_o by exact Hxn. apply (wf_own1 s1 W x xn Ex).
  - intros k1 n1 k2 n2 w E1 E2 H1 H2. rewrite En' in E1, E2.
    assert (Hcase : forall x xn y yn, aget x (nodes s1) = Some xn -> aget y (nodes s1) = Some yn -> x = n -> y <> n ->
               In w (own_of xn (tens s' x)) -> In w (own_of yn (tens s' y)) -> x = y).
    { intros x xn y yn Ex Ey -> Hy Hx1 Hy1. rewrite Ex in En. injection En as ->.
      rewrite Hown_n in Hx1. rewrite Hown_o in Hy1 by exact Hy. apply in_app_or in Hx1. destruct Hx1 as [Hx1|Hx1].
      - apply (wf_own2 s1 W n nd y yn w Ex Ey); [|exact Hy1]. rewrite Hown_n1. apply in_or_app. left. exact Hx1.
      - apply in_seq in Hx1. pose proof (Hown_lt y yn w Ey Hy1). lia. }
    destruct (Nat.eq_dec k1 n) as [K1|K1]; destruct (Nat.eq_dec k2 n) as [K2|K2].
    + congruence.
    + apply (Hcase k1 n1 k2 n2); assumption.
    + symmetry. apply (Hcase k2 n2 k1 n1); assumption.
    + rewrite Hown_o in H1, H2 by assumption. apply (wf_own2 s1 W k1 n1 k2 n2 w E1 E2 H1 H2).
  - intros x tx w Ex Hw. rewrite Ew'. rewrite Et', aget_aset in Ex. destruct (Nat.eqb_spec x n) as [->|Hxn].
    + injection Ex as <-. rewrite Hax' in Hw. apply in_app_or in Hw. destruct Hw as [Hw|Hw].
      * assert (w < nw); [|lia]. apply (Hold n nd w En). rewrite Ht1.
        apply (in_firstn_in _ _ _ Hw).
      * apply in_seq in Hw. fold nw. lia.
    + pose proof (wf_wires s1 W x tx w Ex Hw). lia.
  - intros w Hw. rewrite Hdims2 in Hw. rewrite Ew'. pose proof (fresh_wires_dims_bound _ _ _ _ Hfw (wf_dims s1 W) w Hw) as Hb.
    rewrite F3, Hds in Hb. exact Hb.
  - rewrite En'. apply (wf_acyc s1 W).
Qed.

(* ---- two neighbouring nodes of a tree satisfy pair_ok --------------------------------------- *)
Lemma pair_ok_tstruct l a na b nb :
  tstruct l -> aget a l = Some na -> aget b l = Some nb -> In b (neighbouring_nodes na) ->
  nvirt na <= nlegs na -> nvirt nb <= nlegs nb -> pair_ok a na b nb.
Proof.
  intros T Ea Eb Hin Hva Hvb.
  destruct (ts_acyc _ T) as [rank Hr].
  assert (Hadj : (In b (children na) /\ parent nb = Some a /\ ~ In a (children nb) /\ parent na <> Some b)
           \/ (In a (children nb) /\ parent na = Some b /\ ~ In b (children na) /\ parent nb <> Some a)).
  { apply in_neighbouring in Hin. destruct Hin as [Hp|Hc].
    - right. destruct (ts_par _ T a na b Ea Hp) as (nb' & Eb' & Hin'). rewrite Eb in Eb'. injection Eb' as <-.
      split; [exact Hin'|]. split; [exact Hp|]. split; [eapply ts_parent_not_child; eauto|].
      intros Hq. pose proof (Hr a na b Ea Hp). pose proof (Hr b nb a Eb Hq). lia.
    - left. destruct (ts_ch _ T a na b Ea Hc) as (nb' & Eb' & Hp'). rewrite Eb in Eb'. injection Eb' as <-.
      split; [exact Hc|]. split; [exact Hp'|]. split; [eapply ts_parent_not_child; eauto|].
      intros Hq. pose proof (Hr a na b Ea Hq). pose proof (Hr b nb a Eb Hp'). lia. }
  assert (Hne : a <> b).
  { intros ->. destruct Hadj as [(H1 & _)|(H1 & _)]; [rewrite Eb in Ea; injection Ea as ->|rewrite Ea in Eb; injection Eb as ->];
      eapply ts_not_self_child; eauto. }
  constructor; auto.
  - eapply ts_chnd; eauto.
  - eapply ts_chnd; eauto.
  - intros x Hx1 Hx2. destruct (ts_ch _ T a na x Ea Hx1) as (xn & Ex & Hp1).
    destruct (ts_ch _ T b nb x Eb Hx2) as (xn' & Ex' & Hp2). rewrite Ex in Ex'. injection Ex' as <-. congruence.
  - split; [eapply ts_not_self_child; eauto|eapply ts_not_self_parent; eauto].
  - split; [eapply ts_not_self_child; eauto|eapply ts_not_self_parent; eauto].
  - intros p Hp. split; [eapply ts_parent_not_child; eauto|]. intros Hpb Hpin.
    destruct (ts_ch _ T b nb p Eb Hpin) as (pn & Ep & Hpp). pose proof (Hr a na p Ea Hp). pose proof (Hr p pn b Ep Hpp).
    destruct Hadj as [(_ & Hq & _)|(_ & Hq & _)]; [pose proof (Hr b nb a Eb Hq); lia|congruence].
  - intros p Hp. split; [eapply ts_parent_not_child; eauto|]. intros Hpa Hpin.
    destruct (ts_ch _ T a na p Ea Hpin) as (pn & Ep & Hpp). pose proof (Hr b nb p Eb Hp). pose proof (Hr p pn a Ep Hpp).
    destruct Hadj as [(_ & Hq & _)|(_ & Hq & _)]; [congruence|pose proof (Hr a na b Ea Hq); lia].
Qed.

Lemma pair_ok_wf s a na b nb :
  wf s -> aget a (nodes s) = Some na -> aget b (nodes s) = Some nb -> In b (neighbouring_nodes na) -> pair_ok a na b nb.
Proof.
  intros W Ea Eb Hin. apply (pair_ok_tstruct (nodes s)); auto.
  - apply wf_tstruct. exact W.
  - apply (ni_virt _ _ _ (wf_node s W a na Ea)).
  - apply (ni_virt _ _ _ (wf_node s W b nb Eb)).
Qed.

(* ---- contract_nodes: what contract_inv says, plus the untouched rest ------------------------- *)
Lemma contract_inv2 s a b new s' :
  wf s -> contract_nodes s a b new = Some s' -> (new = a \/ new = b \/ ~ In new (akeys (nodes s))) ->
  exists p c s2 pn cn nn ax nt, contract_facts s a b new s' p c s2 pn cn nn ax nt /\
    (forall k, k <> p -> k <> c -> aget k (nodes s2) = aget k (nodes s) /\ aget k (tensors s2) = aget k (tensors s)) /\
    (exists pn0 cn0, aget p (nodes s) = Some pn0 /\ aget c (nodes s) = Some cn0 /\
       pn = reset_permutation pn0 /\ cn = reset_permutation cn0) /\
    logical s p = Some (tens s2 p) /\ logical s c = Some (tens s2 c) /\
    next_atom s' = next_atom s /\ defs s' = defs s /\ atab s' = atab s /\ dims s' = dims s /\ next_wire s' = next_wire s /\
    root s2 = root s.
Proof.
  intros W H Hnew. unfold contract_nodes in H.
  destruct (determine_parentage s a b) as [[p c]|] eqn:Edp; [|discriminate].
  destruct (access s p) as [[[s1 pn] pt]|] eqn:A1; [|discriminate].
  destruct (access s1 c) as [[[s2 cn] ct]|] eqn:A2; [|discriminate].
  destruct (neighbour_index pn c) as [ax|] eqn:Eax; [|discriminate].
  destruct (s_tensordot pt ct ax 0) as [nt|] eqn:Etd; [|discriminate].
  destruct (create_contracted_node _ pn cn c (p =? a)) as [nn|] eqn:Enn; [|discriminate].
  match type of H with match ?r with _ => _ end = _ => destruct r as [s4|] eqn:R4; [|discriminate] end.
  destruct (replace_node_in_neighbours s4 new c true) as [s5|] eqn:R5; [|discriminate].
  injection H as <-.
  destruct (determine_parentage_inv s a b p c Edp) as (na & nb & Ea & Eb & Hcase).
  pose proof (access_preserves_wf s p s1 pn pt W A1) as W1.
  pose proof (access_preserves_wf s1 c s2 cn ct W1 A2) as W2.
  destruct (access_result _ _ _ _ _ A1) as (B1 & B2 & B3 & B4 & B5 & B6 & B7 & B8 & (pn0 & B9 & B10 & B11)).
  destruct (access_result _ _ _ _ _ A2) as (C1 & C2 & C3 & C4 & C5 & C6 & C7 & C8 & (cn0 & C9 & C10 & C11)).
  assert (Hpcne : p <> c /\ a <> b /\ parent cn0 = Some p /\ aget c (nodes s) = Some cn0).
  { destruct Hcase as [(-> & -> & Hp)|(-> & -> & Hp)].
    - assert (a <> b) by (intros ->; apply (wf_not_self_parent s b nb W Eb Hp)).
      destruct (B4 b (not_eq_sym H)) as [B4a _]. rewrite B4a, Eb in C9. injection C9 as <-. auto.
    - assert (b <> a) by (intros ->; apply (wf_not_self_parent s a na W Ea Hp)).
      destruct (B4 a (not_eq_sym H)) as [B4a _]. rewrite B4a, Ea in C9. injection C9 as <-. auto. }
  destruct Hpcne as (Hpc & Hab & Hparc & Ec0).
  destruct (C4 p Hpc) as [C4a C4b].
  assert (Hnew2 : new = p \/ new = c \/ ~ In new (akeys (nodes s2))).
  { rewrite C8, B8. destruct Hcase as [(-> & -> & _)|(-> & -> & _)]; tauto. }
  assert (Hp2 : aget p (nodes s2) = Some pn) by (rewrite C4a; exact B1).
  assert (Hparc2 : parent cn = Some p) by (rewrite C10; exact Hparc).
  assert (Hwd : map (wdim s) (axes nt) = map (wdim s2) (axes nt)).
  { apply map_ext. intros w. unfold wdim. rewrite C5, B5. reflexivity. }
  rewrite Hwd in Enn.
  assert (Hpt : tens s2 p = pt) by (apply tens_aget; rewrite C4b; exact B2).
  assert (Hct : tens s2 c = ct) by (apply tens_aget; exact C2).
  pose proof (contract_view s2 p c pn cn new nt nn s4 s5 W2 Hp2 C1 Hparc2 Hnew2 R4 R5) as View.
  exists p, c, s2, pn, cn, nn, ax, nt. split; [constructor; auto|].
  - destruct Hcase as [(-> & -> & _)|(-> & -> & _)]; auto.
  - rewrite Hpt, Hct. exact Etd.
  - rewrite C8, B8. reflexivity.
  - intros k nk E. destruct (access_lax s p s1 pn pt k nk W A1 E) as (nk1 & E1 & P1 & P2 & P3).
    destruct (access_lax s1 c s2 cn ct k nk1 W1 A2 E1) as (nk2 & E2 & Q1 & Q2 & Q3).
    exists nk2. repeat split; congruence.
  - rewrite (access_total_atoms s1 c s2 cn ct W1 A2). apply (access_total_atoms s p s1 pn pt W A1).
  - rewrite (access_total_ends s1 c s2 cn ct W1 A2). apply (access_total_ends s p s1 pn pt W A1).
  - destruct (access_keys _ _ _ _ _ A1) as (_ & K1 & _). destruct (access_keys _ _ _ _ _ A2) as (_ & K2 & _). congruence.
  - split.
    { intros k Hkp Hkc. destruct (C4 k Hkc) as [-> ->]. apply (B4 k Hkp). }
    destruct (access_inv _ _ _ _ _ A1) as (pn0' & pt0 & X1 & X2 & X3 & X4 & X5).
    destruct (access_inv _ _ _ _ _ A2) as (cn0' & ct0 & Y1 & Y2 & Y3 & Y4 & Y5).
    split.
    { exists pn0', cn0'. split; [exact X1|]. split; [|auto].
      destruct (B4 c (not_eq_sym Hpc)) as [<- _]. exact Y1. }
    split; [rewrite Hpt; apply (access_returns_logical _ _ _ _ _ A1)|].
    split; [rewrite Hct, <- (access_logical _ _ _ _ _ c A1); apply (access_returns_logical _ _ _ _ _ A2)|].
    destruct (sp_access_next _ _ _ _ _ A1) as (N1 & N2 & N3 & N4 & N5).
    destruct (sp_access_next _ _ _ _ _ A2) as (M1 & M2 & M3 & M4 & M5).
    destruct View as (_ & _ & _ & _ & _ & _ & _ & V8 & V9).
    assert (G : forall x y del z, replace_node_in_neighbours x y del true = Some z ->
              next_atom z = next_atom x /\ defs z = defs x /\ atab z = atab x).
    { intros x y del z. unfold replace_node_in_neighbours. destruct (Nat.eqb y del); [intros [= <-]; auto|].
      destruct (aget del (nodes x)); [|discriminate].
      match goal with |- match ?e with _ => _ end = _ -> _ => destruct e as [[r l2]|]; [|discriminate] end.
      intros [= <-]. cbn. auto. }
    destruct (G _ _ _ _ R4) as (G1 & G2 & G3). destruct (G _ _ _ _ R5) as (G4 & G5 & G6). cbn in *.
    repeat split; congruence.
Qed.

(* ---- split_nodes: the view of InvSplit.v, from the call ---------------------------------------- *)
Lemma split_view_of s n o i oid iid kind m rbond s' :
  wf s -> split_nodes s n o i oid iid kind m rbond = Some s' -> spec_ok s n o i -> ids_ok s n oid iid ->
  exists s1 nd t ol il on2 in2 cO cI bd,
    access s n = Some (s1, nd, t) /\ wf s1 /\
    find_leg_values nd o = Some ol /\ find_leg_values nd i = Some il /\
    ol = sp_pl o ++ cO ++ ls_open o /\ il = sp_pl i ++ cI ++ ls_open i /\
    bd = sp_bd s kind m rbond (permute 0 ol (axes t)) (permute 0 il (axes t)) /\
    defs s' = defs s ++ [sp_def s1 t ol il kind m] /\
    next_atom s' = S (S (next_atom s)) /\
    atab s' = (atab s ++ [(next_atom s, permute 0 ol (axes t) ++ [next_wire s])]) ++ [(S (next_atom s), next_wire s :: permute 0 il (axes t))] /\
    ((sp_in_above i = true /\ split_view s1 s' n nd t iid oid i o cI cO in2 on2 (sp_it s1 t il) (sp_ot s1 t ol) bd) \/
     (sp_in_above i = false /\ split_view s1 s' n nd t oid iid o i cO cI on2 in2 (sp_ot s1 t ol) (sp_it s1 t il) bd)).
Proof.
  intros H Hs Hspec Hids.
  destruct (split_nodes_inv _ _ _ _ _ _ _ _ _ _ Hs) as (s1 & nd & t & ol & il & on2 & in2 & l2 & bd & Ha & Hbd & I).
  destruct (split_access_facts _ _ _ _ _ H Ha) as (nd0 & t0 & En0 & Et0 & End & Etr & H1 & En & Et & Hid & Hk & _).
  destruct (sp_access_next _ _ _ _ _ Ha) as (Na & Nw & Nd & Ndm & Nt).
  destruct (Hspec nd0 En0) as [LO LI].
  assert (LO' : leg_ok nd o) by (rewrite End; apply leg_ok_reset; exact LO).
  assert (LI' : leg_ok nd i) by (rewrite End; apply leg_ok_reset; exact LI).
  assert (Hids' : ids_ok s1 n oid iid) by (unfold ids_ok; rewrite Hk; exact Hids).
  destruct (split_inv_view _ _ _ _ _ _ _ _ _ _ _ _ _ _ _ _ _ H1 En Et Hid LO' LI' Hids' I) as (cO & cI & Eo & Ei & V).
  exists s1, nd, t, ol, il, on2, in2, cO, cI, bd.
  split; [exact Ha|]. split; [exact H1|].
  split; [apply (si_ol _ _ _ _ _ _ _ _ _ _ _ _ _ _ _ _ _ I)|]. split; [apply (si_il _ _ _ _ _ _ _ _ _ _ _ _ _ _ _ _ _ I)|].
  split; [exact Eo|]. split; [exact Ei|]. split; [exact Hbd|].
  split; [rewrite (spf_defs _ _ _ _ _ _ _ _ _ _ _ _ _ _ _ _ _ I), Nd; reflexivity|].
  split; [rewrite (spf_next_atom _ _ _ _ _ _ _ _ _ _ _ _ _ _ _ _ _ I), Na; reflexivity|].
  split; [|exact V].
  pose proof (si_s' _ _ _ _ _ _ _ _ _ _ _ _ _ _ _ _ _ I) as Es. cbv zeta in Es. rewrite Es.
  destruct (Nat.eqb n oid || Nat.eqb n iid); cbn; rewrite Nt, Na, Nw; reflexivity.
Qed.

(* ---- the recorded specifications describe the contracted node truthfully ----------------------- *)
Lemma lbc_leg_ok a na b nb u v nd :
  pair_ok a na b nb -> lbc_nodes a na b nb = Some (u, v) ->
  (In b (children na) -> parent nd = parent na /\ children nd = remove_first b (children na) ++ children nb) ->
  (In a (children nb) -> parent nd = parent nb /\ children nd = children na ++ remove_first a (children nb)) ->
  leg_ok nd u /\ leg_ok nd v /\ nvirt nd = nvirt na + nvirt nb - 2.
Proof.
  intros Hok Hl HA HB. destruct (lbc_names _ _ _ _ _ _ Hok Hl) as (Hou & Hov & Hcase).
  destruct Hcase as [(Hin & Hup & Huc & Hur & Hvp & Hvc & Hvr)|(Hin & Hup & Huc & Hur & Hvp & Hvc & Hvr)].
  - destruct (HA Hin) as [Hp Hc].
    assert (Hpb : parent nb = Some a) by (destruct (po_adj _ _ _ _ Hok) as [(_ & ? & _)|(_ & _ & ? & _)]; [assumption|contradiction]).
    assert (Hnv : nvirt nd = nvirt na + nvirt nb - 2).
    { unfold nvirt, nparents. rewrite Hp, Hc, Hpb, app_length. pose proof (TrotterProofs.remove_first_length _ _ Hin). nlia. }
    split; [|split; [|exact Hnv]];
    unfold leg_ok; rewrite ?Hup, ?Huc, ?Hur, ?Hvp, ?Hvc, ?Hvr, ?Hou, ?Hov, ?Hp, ?Hc, ?Hnv; repeat split; try discriminate; auto.
    + intros Hr. apply is_root_spec. exact Hr.
    + apply incl_appl. apply incl_refl.
    + intros l Hl'. apply in_seq in Hl'. lia.
    + apply incl_appr. apply incl_refl.
    + intros l Hl'. apply in_seq in Hl'. lia.
  - destruct (HB Hin) as [Hp Hc].
    assert (Hpa : parent na = Some b).
    { destruct (po_adj _ _ _ _ Hok) as [(_ & _ & Hy & _)|(_ & ? & _)]; [contradiction|assumption]. }
    assert (Hnv : nvirt nd = nvirt na + nvirt nb - 2).
    { unfold nvirt, nparents. rewrite Hp, Hc, Hpa, app_length. pose proof (TrotterProofs.remove_first_length _ _ Hin). nlia. }
    split; [|split; [|exact Hnv]];
    unfold leg_ok; rewrite ?Hup, ?Huc, ?Hur, ?Hvp, ?Hvc, ?Hvr, ?Hou, ?Hov, ?Hp, ?Hc, ?Hnv; repeat split; try discriminate; auto.
    + apply incl_appl. apply incl_refl.
    + intros l Hl'. apply in_seq in Hl'. lia.
    + intros Hr. apply is_root_spec. exact Hr.
    + apply incl_appr. apply incl_refl.
    + intros l Hl'. apply in_seq in Hl'. lia.
Qed.

(* ---- the three sub-operations of a two-site gate, with everything known about them ----------- *)
Record gate_chain (contr : id) (s : store) (a b : id) (g : tgate) (s1 s2 s3 : store) (na nb : node) (u v : legspec) : Prop := {
  gc_b : aget b (nodes s) = Some nb;
  gc_ok : pair_ok a na b nb;
  gc_ca : contr <> a;
  gc_cb : contr <> b;
  gc_new : ~ In contr (akeys (nodes s));
  gc_lbc : lbc_nodes a na b nb = Some (u, v);
  gc_c : contract_nodes s a b contr = Some s1;
  gc_a : absorb_open s1 contr (t_shape g) = Some s2;
  gc_s : split_nodes s2 contr u v a b (t_kind g) Reduced (t_bond g) = Some s3;
  gc_wf1 : wf s1;
  gc_wf2 : wf s2;
  gc_spec : spec_ok s2 contr u v;
  gc_nv : forall nd, aget contr (nodes s2) = Some nd -> nvirt nd = nvirt na + nvirt nb - 2;
  gc_ids : ids_ok s2 contr a b;
  gc_wf3 : wf s3
}.

Lemma reset_parent n : parent (reset_permutation n) = parent n. Proof. reflexivity. Qed.
Lemma reset_children n : children (reset_permutation n) = children n. Proof. reflexivity. Qed.

Lemma two_site_chain contr s a b g s1 s2 s3 na :
  wf s -> aget a (nodes s) = Some na -> aget contr (nodes s) = None ->
  two_site_stages contr s a b g = Some (s1, s2, s3) ->
  exists nb u v, gate_chain contr s a b g s1 s2 s3 na nb u v.
Proof.
  intros W Ea Hc H. unfold two_site_stages in H.
  destruct (legs_before_combination s a b) as [[u v]|] eqn:Hl; [|discriminate].
  destruct (contract_nodes s a b contr) as [t1|] eqn:Hcn; [|discriminate].
  destruct (absorb_open t1 contr (t_shape g)) as [t2|] eqn:Hab; [|discriminate].
  destruct (split_nodes t2 contr u v a b (t_kind g) Reduced (t_bond g)) as [t3|] eqn:Hs; [|discriminate].
  injection H as <- <- <-. unfold legs_before_combination in Hl. rewrite Ea in Hl.
  destruct (aget b (nodes s)) as [nb|] eqn:Eb; [|discriminate].
  assert (Hnbr : In b (neighbouring_nodes na)).
  { apply in_neighbouring. unfold lbc_nodes in Hl. destruct (memb a (children nb)) eqn:M1.
    - apply memb_In in M1. destruct (ni_ch _ _ _ (wf_node s W b nb Eb) a M1) as (na' & Ea' & Hp).
      rewrite Ea in Ea'. injection Ea' as <-. left. exact Hp.
    - destruct (memb b (children na)) eqn:M2; [|discriminate]. right. apply memb_In. exact M2. }
  pose proof (pair_ok_wf s a na b nb W Ea Eb Hnbr) as Hok.
  assert (Hca : contr <> a) by (intros ->; congruence).
  assert (Hcb : contr <> b) by (intros ->; congruence).
  assert (Hnew : ~ In contr (akeys (nodes s))) by (apply aget_None; exact Hc).
  assert (Hnew' : contr = a \/ contr = b \/ ~ In contr (akeys (nodes s))) by tauto.
  pose proof (contract_preserves_wf _ _ _ _ _ W Hcn Hnew') as W1.
  pose proof (absorb_preserves_wf _ _ _ _ W1 Hab) as W2.
  destruct (contract_inv2 _ _ _ _ _ W Hcn Hnew') as (p & c & s2c & pn & cn & nn & ax & nt & F & Hoth & (pn0 & cn0 & Ep0 & Ec0 & -> & ->) & _).
  destruct F as [Fpc Fab Fwf2 Fp Fc Fpar Fpp Fpc' Fax Ftd Fnn Fkeys Flax Fatoms Fends Ftkeys Fview].
  destruct Fview as (V1 & V2 & V3 & V4 & V5 & V6 & V7 & V8 & V9).
  destruct (create_contracted_node_structure _ _ _ _ _ _ Fnn) as [Hnp Hnc]. rewrite reset_parent in Hnp. rewrite !reset_children in Hnc.
  destruct (absorb_open_inv _ _ _ _ Hab) as (s1a & nd & t & Hacc & _ & _ & _ & En2 & _).
  destruct (access_result _ _ _ _ _ Hacc) as (B1 & _ & _ & B4 & _ & _ & _ & B8 & (nd0 & B9 & B10 & B11)).
  rewrite V2 in B9. injection B9 as <-.
  assert (Hspec0 : forall ndx, aget contr (nodes t2) = Some ndx -> leg_ok ndx u /\ leg_ok ndx v /\ nvirt ndx = nvirt na + nvirt nb - 2).
  { intros ndx Ex. rewrite En2, B1 in Ex. injection Ex as <-.
    apply (lbc_leg_ok a na b nb u v nd Hok Hl).
    - intros Hin. rewrite B10, B11, Hnp, Hnc.
      destruct Fpc as [[-> ->]|[-> ->]].
      + rewrite Ea in Ep0. injection Ep0 as <-. rewrite Eb in Ec0. injection Ec0 as <-. rewrite Nat.eqb_refl. auto.
      + exfalso. rewrite Ea in Ec0. injection Ec0 as <-. rewrite reset_parent in Fpar.
        destruct (po_adj _ _ _ _ Hok) as [(_ & _ & _ & Hx)|(_ & _ & Hx & _)]; contradiction.
    - intros Hin. rewrite B10, B11, Hnp, Hnc.
      destruct Fpc as [[-> ->]|[-> ->]].
      + exfalso. rewrite Eb in Ec0. injection Ec0 as <-. rewrite reset_parent in Fpar.
        destruct (po_adj _ _ _ _ Hok) as [(_ & _ & Hx & _)|(_ & _ & _ & Hx)]; contradiction.
      + rewrite Eb in Ep0. injection Ep0 as <-. rewrite Ea in Ec0. injection Ec0 as <-.
        destruct (Nat.eqb_spec b a) as [E|_]; [congruence|]. auto. }
  assert (Hspec : spec_ok t2 contr u v) by (intros ndx Ex; destruct (Hspec0 ndx Ex) as (? & ? & _); auto).
  assert (Hnv : forall ndx, aget contr (nodes t2) = Some ndx -> nvirt ndx = nvirt na + nvirt nb - 2) by (intros ndx Ex; apply (Hspec0 ndx Ex)).
  assert (Hids : ids_ok t2 contr a b).
  { unfold ids_ok. rewrite En2, B8. split; right; apply aget_None.
    - destruct Fpc as [[-> ->]|[-> ->]]; [apply V3|apply V4]; congruence.
    - destruct Fpc as [[-> ->]|[-> ->]]; [apply V4|apply V3]; congruence. }
  pose proof (split_preserves_wf _ _ _ _ _ _ _ _ _ _ W2 Hs Hspec Hids) as W3.
  exists nb, u, v. constructor; auto.
Qed.

(* ---- orientation: which of the two nodes is the upper one ---------------------------------------- *)
Lemma gate_oriented contr s a b g s1 s2 s3 na nb u v :
  wf s -> aget a (nodes s) = Some na ->
  gate_chain contr s a b g s1 s2 s3 na nb u v ->
  exists p c pn0 cn0 su sl,
    ((p = a /\ c = b /\ pn0 = na /\ cn0 = nb /\ su = u /\ sl = v) \/ (p = b /\ c = a /\ pn0 = nb /\ cn0 = na /\ su = v /\ sl = u)) /\
    aget p (nodes s) = Some pn0 /\ aget c (nodes s) = Some cn0 /\ parent cn0 = Some p /\ In c (children pn0) /\
    parent pn0 <> Some c /\ p <> c /\
    ls_parent su = parent pn0 /\ ls_children su = remove_first c (children pn0) /\
    ls_parent sl = None /\ ls_children sl = children cn0 /\
    exists s2a nd2 t2 cU cL nU nL tU tL bd,
      access s2 contr = Some (s2a, nd2, t2) /\ wf s2a /\
      split_view s2a s3 contr nd2 t2 p c su sl cU cL nU nL tU tL bd.
Proof.
  intros W Ea G. destruct G as [Eb Hok Hca Hcb Hnew Hl Hcn Hab Hs W1 W2 Hspec Hnv Hids W3].
  destruct (lbc_names _ _ _ _ _ _ Hok Hl) as (_ & _ & Hcase).
  destruct (split_view_of _ _ _ _ _ _ _ _ _ _ W2 Hs Hspec Hids)
    as (s2a & nd2 & t2 & ol & il & on2 & in2 & cO & cI & bd & Hacc & W2a & _ & _ & _ & _ & _ & _ & _ & _ & V).
  destruct Hcase as [(Hin & Hup & Huc & Hur & Hvp & Hvc & Hvr)|(Hin & Hup & Huc & Hur & Hvp & Hvc & Hvr)].
  - assert (Hpb : parent nb = Some a) by (destruct (po_adj _ _ _ _ Hok) as [(_ & ? & _)|(_ & _ & ? & _)]; [assumption|contradiction]).
    assert (Hpa : parent na <> Some b) by (destruct (po_adj _ _ _ _ Hok) as [(_ & _ & _ & ?)|(_ & ? & Hx & _)]; [assumption|contradiction]).
    exists a, b, na, nb, u, v. split; [left; tauto|]. repeat (split; [solve [auto | apply (po_ne _ _ _ _ Hok)]|]).
    exists s2a, nd2, t2, cO, cI, on2, in2, (sp_ot s2a t2 ol), (sp_it s2a t2 il), bd. split; [exact Hacc|]. split; [exact W2a|].
    destruct V as [[Hab' _]|[_ V]]; [|exact V].
    unfold sp_in_above in Hab'. rewrite Hvr, Hvp in Hab'. discriminate.
  - assert (Hpa : parent na = Some b).
    { destruct (po_adj _ _ _ _ Hok) as [(_ & _ & Hy & _)|(_ & ? & _)]; [contradiction|assumption]. }
    assert (Hpb : parent nb <> Some a) by (destruct (po_adj _ _ _ _ Hok) as [(Hx & _)|(_ & _ & _ & ?)]; [|assumption];
      destruct (po_adj _ _ _ _ Hok) as [(_ & _ & Hy & _)|(_ & _ & Hy & _)]; contradiction).
    exists b, a, nb, na, v, u. split; [right; tauto|].
    repeat (split; [solve [auto | apply not_eq_sym; apply (po_ne _ _ _ _ Hok)]|]).
    exists s2a, nd2, t2, cI, cO, in2, on2, (sp_it s2a t2 il), (sp_ot s2a t2 ol), bd. split; [exact Hacc|]. split; [exact W2a|].
    destruct V as [[_ V]|[Hab' _]]; [exact V|].
    unfold sp_in_above in Hab'. rewrite Hvr, Hvp in Hab'. unfold is_root in Hab'. destruct (parent nb); discriminate.
Qed.

Lemma replace_first_back x y l : ~ In y l -> replace_first y x (replace_first x y l) = l.
Proof.
  intros Hy. induction l as [|z t IH]; cbn; [reflexivity|].
  destruct (Nat.eqb_spec x z) as [->|Hxz]; cbn.
  - rewrite Nat.eqb_refl. reflexivity.
  - destruct (Nat.eqb_spec y z) as [->|Hyz]; [exfalso; apply Hy; left; reflexivity|].
    f_equal. apply IH. intros H. apply Hy. right. exact H.
Qed.

Lemma same_tree_intro l l' : NoDup (akeys l) -> NoDup (akeys l') ->
  (forall k, match aget k l, aget k l' with
             | Some n, Some n' => parent n = parent n' /\ Permutation (children n) (children n')
             | None, None => True
             | _, _ => False
             end) -> same_tree l l'.
Proof.
  intros N1 N2 H. split; [|exact H].
  assert (P : Permutation (akeys l) (akeys l')).
  { apply NoDup_Permutation; auto. intros k. specialize (H k). split; intros Hin; apply keys_aget in Hin; destruct Hin as [x Hx].
    - rewrite Hx in H. destruct (aget k l') eqn:E; [|contradiction]. eapply aget_Some_keys; eauto.
    - rewrite Hx in H. destruct (aget k l) eqn:E; [|contradiction]. eapply aget_Some_keys; eauto. }
  apply Permutation_length in P. unfold akeys in P. rewrite !map_length in P. exact P.
Qed.

(* ---- A1: a two-site gate gives the same tree back -------------------------------------------------- *)
Theorem two_site_gate_same_tree_wf contr s a b g s1 s2 s3 na :
  wf s -> aget a (nodes s) = Some na -> aget contr (nodes s) = None ->
  two_site_stages contr s a b g = Some (s1, s2, s3) ->
  In b (neighbouring_nodes na) /\ wf s3 /\
  same_tree (nodes s) (nodes s3) /\ root s3 = root s /\
  aget contr (nodes s3) = None /\ aget contr (tensors s3) = None /\
  (forall k, k <> a -> k <> b -> aget k (nodes s3) = aget k (nodes s) /\ aget k (tensors s3) = aget k (tensors s)).
Proof.
  intros W Ea Hc H.
  destruct (two_site_chain _ _ _ _ _ _ _ _ _ W Ea Hc H) as (nb & u & v & G).
  destruct (gate_oriented _ _ _ _ _ _ _ _ _ _ _ _ W Ea G) as (p & c & pn0 & cn0 & su & sl & Hor & Ep0 & Ec0 & Hparc & Hcin & Hppc & Hpc &
     Hsup & Hsuc & Hslp & Hslc & s2a & nd2 & t2 & cU & cL & nU & nL & tU & tL & bd & Hacc2 & W2a & V).
  pose proof G as G'. destruct G' as [Eb Hok Hca Hcb Hnew Hl Hcn Hab Hs W1 W2 Hspec Hnv Hids W3].
  assert (Hnew' : contr = a \/ contr = b \/ ~ In contr (akeys (nodes s))) by tauto.
  destruct (contract_inv2 _ _ _ _ _ W Hcn Hnew') as (p' & c' & s2c & pn & cn & nn & ax & nt & F & Hoth & (pn0' & cn0' & Ep0' & Ec0' & -> & ->) & _ & _ & _ & _ & _ & _ & _ & Hroot2c).
  destruct F as [Fpc Fab Fwf2 Fp Fc Fpar Fpp Fpc' Fax Ftd Fnn Fkeys Flax Fatoms Fends Ftkeys Fview].
  destruct Fview as (V1 & V2 & V3 & V4 & V5 & V6 & V7 & V8 & V9).
  rewrite reset_parent in Fpar.
  (* the two orientations agree *)
  assert (Hpp' : p' = p /\ c' = c).
  { destruct Hor as [(-> & -> & -> & -> & _)|(-> & -> & -> & -> & _)]; destruct Fpc as [[-> ->]|[-> ->]]; auto; exfalso.
    - rewrite Ea in Ec0'. injection Ec0' as <-. congruence.
    - rewrite Eb in Ec0'. injection Ec0' as <-. congruence. }
  destruct Hpp' as [-> ->]. rewrite Ep0 in Ep0'. injection Ep0' as <-. rewrite Ec0 in Ec0'. injection Ec0' as <-.
  rewrite reset_parent, !reset_children in V5.
  assert (Hcp_ne : contr <> p /\ contr <> c) by (destruct Hor as [(-> & -> & _)|(-> & -> & _)]; auto).
  destruct Hcp_ne as [Hcp Hcc].
  assert (Hab_k : forall k, k = a \/ k = b <-> k = p \/ k = c) by (intros k; destruct Hor as [(-> & -> & _)|(-> & -> & _)]; tauto).
  (* absorb and the two accesses of the temporary node *)
  destruct (absorb_open_inv _ _ _ _ Hab) as (s1a & nd1 & t1 & Hacc1 & _ & _ & _ & En2 & Er2 & Et2 & _).
  destruct (access_result _ _ _ _ _ Hacc1) as (B1 & _ & _ & B4 & _ & _ & B7 & B8 & (nd10 & B9 & B10 & B11)).
  rewrite V2 in B9. injection B9 as <-.
  destruct (access_result _ _ _ _ _ Hacc2) as (C1 & _ & _ & C4 & _ & _ & C7 & C8 & (nd20 & C9 & C10 & C11)).
  rewrite En2, B1 in C9. injection C9 as <-.
  destruct (create_contracted_node_structure _ _ _ _ _ _ Fnn) as [Hnp Hnc]. rewrite reset_parent in Hnp.
  assert (Hnd2p : parent nd2 = parent pn0) by congruence.
  pose proof (wf_tstruct s W) as T.
  (* nodes other than the pair and the temporary one, along the way *)
  assert (Hmid_n : forall k, k <> p -> k <> c -> k <> contr ->
            aget k (nodes s2a) = option_map (rt p c contr (children pn0) (children cn0) (parent pn0) k) (aget k (nodes s))).
  { intros k K1 K2 K3. destruct (C4 k K3) as [-> _]. rewrite En2. destruct (B4 k K3) as [-> _].
    rewrite (V5 k K1 K2 K3). destruct (Hoth k K1 K2) as [-> _]. reflexivity. }
  assert (Hmid_t : forall k, k <> p -> k <> c -> k <> contr -> aget k (tensors s2a) = aget k (tensors s)).
  { intros k K1 K2 K3. destruct (C4 k K3) as [_ ->]. rewrite Et2, aget_aset_other by exact K3. destruct (B4 k K3) as [_ ->].
    rewrite V7, sp_aget_snoc_other by exact K3. rewrite !aget_adel_other by assumption. apply (Hoth k K1 K2). }
  assert (HcontrT : aget contr (tensors s) = None).
  { destruct (aget contr (tensors s)) eqn:E; [|reflexivity]. exfalso. apply Hnew. apply (wf_keys_iff s contr W).
    eapply aget_Some_keys; eauto. }
  assert (Hothers : forall k, k <> p -> k <> c -> aget k (nodes s3) = aget k (nodes s) /\ aget k (tensors s3) = aget k (tensors s)).
  { intros k K1 K2. destruct (Nat.eq_dec k contr) as [->|K3].
    - split.
      + rewrite Hc. destruct (aget contr (nodes s3)) eqn:E; [|reflexivity]. exfalso.
        apply aget_Some_keys in E. apply (sv_keys _ _ _ _ _ _ _ _ _ _ _ _ _ _ _ _ V) in E. destruct E as [E|[E|[E _]]]; congruence.
      + rewrite HcontrT. rewrite (sv_told _ _ _ _ _ _ _ _ _ _ _ _ _ _ _ _ V) by congruence. rewrite Nat.eqb_refl. reflexivity.
    - split.
      + pose proof (Hmid_n k K1 K2 K3) as Hm. destruct (aget k (nodes s)) as [nk0|] eqn:Ek0; cbn in Hm.
        * destruct (sv_old _ _ _ _ _ _ _ _ _ _ _ _ _ _ _ _ V k _ K3 Hm) as (nk' & E' & Hperm & Hshape & HpU & HpL & HpO & HcP & HcO).
          rewrite E'. f_equal. cbn [rt perm shape] in Hperm, Hshape. apply node_eq; auto.
          -- (* parent *)
             destruct (in_dec Nat.eq_dec k (children pn0)) as [I1|I1].
             ++ rewrite HpU by (rewrite Hsuc; apply remove_first_In_other; auto).
                destruct (ts_ch _ T p pn0 k Ep0 I1) as (nk0' & Ek0' & Hq). rewrite Ek0 in Ek0'. injection Ek0' as <-. symmetry. exact Hq.
             ++ destruct (in_dec Nat.eq_dec k (children cn0)) as [I2|I2].
                ** rewrite HpL by (rewrite Hslc; exact I2).
                   destruct (ts_ch _ T c cn0 k Ec0 I2) as (nk0' & Ek0' & Hq). rewrite Ek0 in Ek0'. injection Ek0' as <-. symmetry. exact Hq.
                ** rewrite HpO.
                   --- cbn [rt parent]. apply memb_false in I1. apply memb_false in I2. rewrite I1, I2. reflexivity.
                   --- rewrite Hsuc. intros Hx. apply I1. apply (remove_first_In _ _ _ Hx).
                   --- rewrite Hslc. exact I2.
          -- (* children *)
             destruct (option_eq_dec_id (parent pn0) (Some k)) as [Hpk|Hpk].
             ++ rewrite HcP by (rewrite Hnd2p; exact Hpk). cbn [rt children]. rewrite Hpk, Nat.eqb_refl.
                apply replace_first_back. intros Hx.
                destruct (ts_ch _ T k nk0 contr Ek0 Hx) as (xn & Ex & _). congruence.
             ++ rewrite HcO by (rewrite Hnd2p; exact Hpk). cbn [rt children].
                destruct (parent pn0) as [q|]; [|reflexivity]. destruct (Nat.eqb_spec k q) as [->|]; [exfalso; apply Hpk; reflexivity|reflexivity].
        * destruct (aget k (nodes s3)) eqn:E; [|reflexivity]. exfalso.
          apply aget_Some_keys in E. apply (sv_keys _ _ _ _ _ _ _ _ _ _ _ _ _ _ _ _ V) in E. destruct E as [E|[E|[_ E]]]; try congruence.
          apply keys_aget in E. destruct E as [x Ex]. congruence.
      + rewrite (sv_told _ _ _ _ _ _ _ _ _ _ _ _ _ _ _ _ V) by congruence. destruct (Nat.eqb_spec k contr); [contradiction|].
        apply Hmid_t; assumption. }
  (* the pair *)
  destruct (two_site_gate_restores contr s a b g s1 s2 s3 na nb Ea Eb Hok Hca Hcb H)
    as (na' & nb' & Ea' & Eb' & Hpa' & Hca' & Hpb' & Hcb' & Hroot).
  assert (Hnbr : In b (neighbouring_nodes na)).
  { apply in_neighbouring. destruct Hor as [(-> & -> & -> & -> & _)|(-> & -> & -> & -> & _)]; auto. }
  assert (Hroot' : root s3 = root s).
  { rewrite Hroot. destruct (wf_root s W) as (r & rn & Hr & Er & Hpr & Hu). rewrite Hr.
    unfold is_root. destruct (parent na) eqn:Pa.
    - destruct (parent nb) eqn:Pb.
      + rewrite Er2, B7, V6, reset_parent, Hroot2c, Hr.
        destruct Hor as [(_ & _ & -> & _)|(_ & _ & -> & _)]; [rewrite Pa|rewrite Pb]; reflexivity.
      + f_equal. apply (Hu b nb Eb Pb).
    - f_equal. apply (Hu a na Ea Pa). }
  assert (Hoth_ab : forall k, k <> a -> k <> b -> aget k (nodes s3) = aget k (nodes s) /\ aget k (tensors s3) = aget k (tensors s)).
  { intros k K1 K2. apply Hothers; intros E; [destruct (proj2 (Hab_k k) (or_introl E))|destruct (proj2 (Hab_k k) (or_intror E))]; contradiction. }
  split; [exact Hnbr|]. split; [exact W3|]. split.
  { apply same_tree_intro; [apply (wf_nd s W)|apply (wf_nd s3 W3)|].
    intros k. destruct (Nat.eq_dec k a) as [->|K1].
    - rewrite Ea, Ea'. split; [symmetry; exact Hpa'|symmetry; exact Hca'].
    - destruct (Nat.eq_dec k b) as [->|K2].
      + rewrite Eb, Eb'. split; [symmetry; exact Hpb'|symmetry; exact Hcb'].
      + destruct (Hoth_ab k K1 K2) as [-> _]. destruct (aget k (nodes s)); auto. }
  split; [exact Hroot'|].
  assert (Hcpc : contr <> p /\ contr <> c) by auto.
  destruct (Hothers contr (proj1 Hcpc) (proj2 Hcpc)) as [X1 X2].
  split; [rewrite X1; exact Hc|]. split; [rewrite X2; exact HcontrT|]. exact Hoth_ab.
Qed.

(* ---- A3: every gate application, and a whole TEBD step, preserve the invariant and the tree ------- *)
Lemma access_same_tree s n s1 nd t : wf s -> access s n = Some (s1, nd, t) ->
  same_tree (nodes s) (nodes s1) /\ root s1 = root s /\ forall k, aget k (nodes s) = None -> aget k (nodes s1) = None.
Proof.
  intros W Ha. pose proof (access_preserves_wf _ _ _ _ _ W Ha) as W1.
  destruct (access_result _ _ _ _ _ Ha) as (B1 & _ & _ & B4 & _ & _ & B7 & B8 & (nd0 & B9 & B10 & B11)).
  split; [|split; [exact B7|]].
  - apply same_tree_intro; [apply (wf_nd s W)|apply (wf_nd s1 W1)|]. intros k. destruct (Nat.eq_dec k n) as [->|K].
    + rewrite B9, B1. split; [symmetry; exact B10|rewrite B11; reflexivity].
    + destruct (B4 k K) as [-> _]. destruct (aget k (nodes s)); auto.
  - intros k Hk. destruct (Nat.eq_dec k n) as [->|K]; [congruence|]. destruct (B4 k K) as [-> _]. exact Hk.
Qed.

Theorem apply_gate_preserves_wf contr s g s' :
  wf s -> aget contr (nodes s) = None -> apply_gate contr s g = Some s' ->
  wf s' /\ aget contr (nodes s') = None /\ same_tree (nodes s) (nodes s') /\ root s' = root s.
Proof.
  intros W Hc H. unfold apply_gate, apply_gate_stages in H.
  destruct (t_ids g) as [|a [|b [|x r]]]; cbn in H.
  - injection H as <-. split; [exact W|]. split; [exact Hc|]. split; [apply same_tree_refl|reflexivity].
  - destruct (absorb_open s a (t_shape g)) as [s1|] eqn:Hab; [|discriminate]. cbn in H. injection H as <-.
    split; [apply (absorb_preserves_wf _ _ _ _ W Hab)|].
    destruct (absorb_open_inv _ _ _ _ Hab) as (s0 & nd & t & Hacc & _ & _ & _ & En & Er & _).
    destruct (access_same_tree _ _ _ _ _ W Hacc) as (S1 & S2 & S3). rewrite En, Er. auto.
  - destruct (two_site_stages contr s a b g) as [[[s1 s2] s3]|] eqn:Hts; [|discriminate]. cbn in H. injection H as <-.
    assert (Ea : exists na, aget a (nodes s) = Some na).
    { unfold two_site_stages, legs_before_combination in Hts. destruct (aget a (nodes s)) as [na|]; [eauto|discriminate]. }
    destruct Ea as [na Ea].
    destruct (two_site_gate_same_tree_wf _ _ _ _ _ _ _ _ _ W Ea Hc Hts) as (_ & W3 & St & Hr & Hn & _). auto.
  - discriminate.
Qed.

Theorem tebd_step_preserves_wf contr : forall gs s s',
  wf s -> aget contr (nodes s) = None -> tebd_step contr s gs = Some s' ->
  wf s' /\ aget contr (nodes s') = None /\ same_tree (nodes s) (nodes s') /\ root s' = root s.
Proof.
  induction gs as [|g gs IH]; intros s s' W Hc H; cbn in H.
  - injection H as <-. split; [exact W|]. split; [exact Hc|]. split; [apply same_tree_refl|reflexivity].
  - destruct (apply_gate contr s g) as [s1|] eqn:Hg; [|discriminate].
    destruct (apply_gate_preserves_wf _ _ _ _ W Hc Hg) as (W1 & Hc1 & St1 & Hr1).
    destruct (IH s1 s' W1 Hc1 H) as (W' & Hc' & St' & Hr').
    split; [exact W'|]. split; [exact Hc'|]. split; [eapply same_tree_trans; eauto|congruence].
Qed.

(* the executable form *)
Theorem two_site_gate_same_tree contr s a b g s1 s2 s3 na :
  wfb s = true -> aget a (nodes s) = Some na -> aget contr (nodes s) = None ->
  two_site_stages contr s a b g = Some (s1, s2, s3) ->
  In b (neighbouring_nodes na) /\ wfb s3 = true /\
  same_tree (nodes s) (nodes s3) /\ root s3 = root s /\
  aget contr (nodes s3) = None /\ aget contr (tensors s3) = None /\
  (forall k, k <> a -> k <> b -> aget k (nodes s3) = aget k (nodes s) /\ aget k (tensors s3) = aget k (tensors s)).
Proof.
  intros W Ea Hc H. apply wfb_iff in W.
  destruct (two_site_gate_same_tree_wf _ _ _ _ _ _ _ _ _ W Ea Hc H) as (X1 & X2 & X3). apply wfb_iff in X2. auto.
Qed.

Theorem apply_gate_preserves_wfb contr s g s' :
  wfb s = true -> aget contr (nodes s) = None -> apply_gate contr s g = Some s' ->
  wfb s' = true /\ aget contr (nodes s') = None /\ same_tree (nodes s) (nodes s') /\ root s' = root s.
Proof.
  intros W Hc H. apply wfb_iff in W. destruct (apply_gate_preserves_wf _ _ _ _ W Hc H) as (X1 & X2). apply wfb_iff in X1. auto.
Qed.

Theorem tebd_step_preserves_wfb contr gs s s' :
  wfb s = true -> aget contr (nodes s) = None -> tebd_step contr s gs = Some s' ->
  wfb s' = true /\ aget contr (nodes s') = None /\ same_tree (nodes s) (nodes s') /\ root s' = root s.
Proof.
  intros W Hc H. apply wfb_iff in W. destruct (tebd_step_preserves_wf _ _ _ _ W Hc H) as (X1 & X2). apply wfb_iff in X1. auto.
Qed.

(* several steps (tebd_steps of TrotterProofs.v) *)
Theorem tebd_steps_preserve_wfb contr gs : forall n s s',
  wfb s = true -> aget contr (nodes s) = None -> tebd_steps contr n s gs = Some s' ->
  wfb s' = true /\ aget contr (nodes s') = None /\ same_tree (nodes s) (nodes s') /\ root s' = root s.
Proof.
  induction n as [|n IH]; intros s s' W Hc H; cbn in H.
  - injection H as <-. split; [exact W|]. split; [exact Hc|]. split; [apply same_tree_refl|reflexivity].
  - destruct (tebd_step contr s gs) as [s1|] eqn:E; [|discriminate].
    destruct (tebd_step_preserves_wfb _ _ _ _ W Hc E) as (W1 & Hc1 & St1 & Hr1).
    destruct (IH s1 s' W1 Hc1 H) as (W' & Hc' & St' & Hr').
    split; [exact W'|]. split; [exact Hc'|]. split; [eapply same_tree_trans; eauto|congruence].
Qed.

(* ---- A2: the diagram the gate folds into the network ------------------------------------------------ *)
Lemma find_leg_values_ext n n' sp : parent n = parent n' -> children n = children n' ->
  find_leg_values n sp = find_leg_values n' sp.
Proof.
  intros Hp Hc. unfold find_leg_values. erewrite map_ext; [reflexivity|]. intros x. apply neighbour_index_ext; assumption.
Qed.

Lemma nlegs_reset n : nlegs (reset_permutation n) = nlegs n.
Proof. unfold nlegs. cbn. apply seq_length. Qed.
Lemma nvirt_reset n : nvirt (reset_permutation n) = nvirt n.
Proof. reflexivity. Qed.
Lemma nopen_reset n : nopen (reset_permutation n) = nopen n.
Proof. unfold nopen. rewrite nlegs_reset, nvirt_reset. reflexivity. Qed.

(* the tensor the SVD kernel receives: the contraction of the two old tensors (in the order
   _create_contracted_node gives the legs), the gate atom [ga] with its inputs on the old open wires
   (now summed) and its fresh output wires in their place *)
Definition gate_folded (nn : node) (nt : sarr) (ga : nat) (outw : list wire) : sarr :=
  {| axes := firstn (nvirt nn) (laxes nn nt) ++ outw;
     atoms := atoms nt ++ [ga];
     bnd := skipn (nvirt nn) (laxes nn nt) ++ bnd nt |}.

Theorem two_site_gate_diagram_wf contr s a b g s1 s2 s3 na :
  wf s -> aget a (nodes s) = Some na -> aget contr (nodes s) = None ->
  two_site_stages contr s a b g = Some (s1, s2, s3) ->
  exists nb u v p c pn0 cn0 pt ct ax nt nn lu lv,
    aget b (nodes s) = Some nb /\ lbc_nodes a na b nb = Some (u, v) /\
    ((p = a /\ c = b) \/ (p = b /\ c = a)) /\
    aget p (nodes s) = Some pn0 /\ aget c (nodes s) = Some cn0 /\ parent cn0 = Some p /\
    (* the two old tensors and their contraction over the bond *)
    logical s p = Some pt /\ logical s c = Some ct /\ neighbour_index pn0 c = Some ax /\
    s_tensordot pt ct ax 0 = Some nt /\
    (* the contracted node and the legs the two recorded specifications name *)
    aget contr (nodes s1) = Some nn /\ aget contr (tensors s1) = Some nt /\
    find_leg_values nn u = Some lu /\ find_leg_values nn v = Some lv /\
    Permutation (lu ++ lv) (seq 0 (nlegs nn)) /\
    let ga := next_atom s in
    let opa := open_of na (tens s a) in
    let opb := open_of nb (tens s b) in
    let outw := seq (next_wire s) (nopen na + nopen nb) in
    let bw := next_wire s + (nopen na + nopen nb) in
    let G := gate_folded nn nt ga outw in
    (* the open wires of the contracted node are the old open wires of node1 then node2 *)
    skipn (nvirt nn) (laxes nn nt) = opa ++ opb /\
    (* the gate atom: outputs on fresh wires, inputs on the old open wires; then the two SVD factors *)
    atab s3 = atab s ++ [(ga, outw ++ opa ++ opb); (S ga, permute 0 lu (axes G) ++ [bw]); (S (S ga), bw :: permute 0 lv (axes G))] /\
    defs s3 = defs s ++ [{| kq := S ga; kr := S (S ga); kbond := bw; kinput := s_transpose (lu ++ lv) G;
                            kkind := t_kind g; kmode := match t_kind g with 0 => Some Reduced | _ => None end |}] /\
    aget a (tensors s3) = Some {| axes := permute 0 lu (axes G) ++ [bw]; atoms := [S ga]; bnd := [] |} /\
    aget b (tensors s3) = Some {| axes := bw :: permute 0 lv (axes G); atoms := [S (S ga)]; bnd := [] |} /\
    next_atom s3 = S (S (S ga)) /\ next_wire s3 = S bw /\
    (* the gate's output wires take the places of the open legs: node1's first, in order *)
    exists na' nb', aget a (nodes s3) = Some na' /\ aget b (nodes s3) = Some nb' /\
      open_of na' (tens s3 a) = seq (next_wire s) (nopen na) /\
      open_of nb' (tens s3 b) = seq (next_wire s + nopen na) (nopen nb).
Proof.
  intros W Ea Hc H.
  destruct (two_site_chain _ _ _ _ _ _ _ _ _ W Ea Hc H) as (nb & u & v & G).
  destruct G as [Eb Hok Hca Hcb Hnew Hl Hcn Hab Hs W1 W2 Hspec Hnv Hids W3].
  assert (Hnew' : contr = a \/ contr = b \/ ~ In contr (akeys (nodes s))) by tauto.
  destruct (contract_inv2 _ _ _ _ _ W Hcn Hnew')
    as (p & c & s2c & pn & cn & nn & ax & nt & F & Hoth & (pn0 & cn0 & Ep0 & Ec0 & -> & ->) & Lp & Lc & Na1 & Nd1 & Nt1 & Ndm1 & Nw1 & _).
  destruct F as [Fpc Fab Fwf2 Fp Fc Fpar Fpp Fpc' Fax Ftd Fnn Fkeys Flax Fatoms Fends Ftkeys Fview].
  destruct Fview as (V1 & V2 & V3 & V4 & V5 & V6 & V7 & V8 & V9).
  rewrite reset_parent in Fpar.
  assert (Hcp : contr <> p /\ contr <> c) by (destruct Fpc as [[-> ->]|[-> ->]]; auto). destruct Hcp as [Hcp Hcc].
  (* the tensor of the contracted node *)
  assert (Tc : aget contr (tensors s1) = Some nt).
  { rewrite V7. rewrite contract_tensors_aget; [rewrite Nat.eqb_refl; reflexivity|apply (wf_tnd s2c Fwf2)|].
    rewrite !aget_adel_other by assumption. destruct (aget contr (tensors s2c)) eqn:E; [|reflexivity]. exfalso.
    apply aget_Some_keys in E. rewrite Ftkeys in E. apply Hnew. apply (wf_keys_iff s contr W). exact E. }
  assert (Tc' : tens s1 contr = nt) by (apply tens_aget; exact Tc).
  destruct (contract_open_rule _ _ _ _ _ na nb W Hcn Hnew' Ea Eb) as (nn' & Enn' & Hopen & _).
  rewrite V2 in Enn'. injection Enn' as <-. rewrite Tc' in Hopen.
  (* absorb *)
  destruct (absorb_open_inv _ _ _ _ Hab) as (s1a & nd1 & t1 & Hacc1 & _ & _ & _ & En2 & Er2 & Et2 & Ed2 & Ew2 & Ea2 & Edf2 & Eat2).
  destruct (access_inv _ _ _ _ _ Hacc1) as (nn1 & nt1 & X1 & X2 & X3 & X4 & X5).
  rewrite V2 in X1. injection X1 as <-. rewrite Tc in X2. injection X2 as <-.
  destruct (sp_access_next _ _ _ _ _ Hacc1) as (Na1a & Nw1a & Nd1a & Ndm1a & Nt1a).
  assert (Hnopen : nopen nn = nopen na + nopen nb).
  { rewrite <- (open_of_length nn nt), Hopen, app_length, !open_of_length. reflexivity. }
  assert (Hg : ab_tensor s1a nd1 t1 = gate_folded nn nt (next_atom s) (seq (next_wire s) (nopen na + nopen nb))).
  { unfold ab_tensor, gate_folded. rewrite X3, X4, nvirt_reset, nopen_reset, Hnopen, Na1a, Nw1a, Na1, Nw1. reflexivity. }
  rewrite Hg in Et2. set (GG := gate_folded nn nt (next_atom s) (seq (next_wire s) (nopen na + nopen nb))) in *.
  pose proof (ni_virt _ _ _ (wf_node s1 W1 contr nn V2)) as Hvn.
  assert (Hlen : length (axes GG) = nlegs nn).
  { unfold GG, gate_folded. cbn [axes]. rewrite app_length, firstn_length, laxes_length, seq_length.
    rewrite <- Hnopen. unfold nopen. nlia. }
  (* split *)
  destruct (split_new_def _ _ _ _ _ _ _ _ _ _ {| kq := 0; kr := 0; kbond := 0; kinput := empty_sarr; kkind := 0; kmode := None |} W2 Hs)
    as (s2a & nd2 & t2 & ol & il & bd & Hacc2 & Hlog2 & Eol & Eil & Hperm & _ & Hlast & Hdefs & Toid & Tiid & Nw3 & Na3 & _).
  destruct (split_view_of _ _ _ _ _ _ _ _ _ _ W2 Hs Hspec Hids)
    as (s2a' & nd2' & t2' & ol' & il' & on2 & in2 & cO & cI & bd' & Hacc2' & _ & Eol' & Eil' & _ & _ & _ & _ & _ & Hatab & _).
  rewrite Hacc2 in Hacc2'. injection Hacc2' as <- <- <-. rewrite Eol in Eol'. injection Eol' as <-. rewrite Eil in Eil'. injection Eil' as <-.
  destruct (access_inv _ _ _ _ _ Hacc2) as (ndx & tx & Y1 & Y2 & Y3 & Y4 & Y5).
  assert (Endx : ndx = nd1).
  { rewrite En2 in Y1. rewrite X5 in Y1. cbn in Y1. rewrite aget_aset_same in Y1. congruence. }
  rewrite Et2, aget_aset_same in Y2. injection Y2 as <-. subst ndx.
  assert (Ht2 : t2 = GG).
  { rewrite Y4, X3. cbn [perm reset_permutation]. fold (nlegs nn). rewrite <- Hlen. apply s_transpose_seq. }
  rewrite Ht2 in Hperm, Hlast, Toid, Tiid, Hatab.
  assert (Hflv : forall sp, find_leg_values nd2 sp = find_leg_values nn sp).
  { intros sp. apply find_leg_values_ext; rewrite Y3, X3; reflexivity. }
  rewrite Hflv in Eol, Eil.
  assert (Hnext : next_atom s2 = S (next_atom s) /\ next_wire s2 = next_wire s + (nopen na + nopen nb)).
  { rewrite Ea2, Ew2, Na1a, Nw1a, Na1, Nw1, X3, nopen_reset, Hnopen. auto. }
  destruct Hnext as [NA2 NW2].
  exists nb, u, v, p, c, pn0, cn0, (tens s2c p), (tens s2c c), ax, nt, nn, ol, il.
  split; [exact Eb|]. split; [exact Hl|]. split; [exact Fpc|]. split; [exact Ep0|]. split; [exact Ec0|]. split; [exact Fpar|].
  split; [exact Lp|]. split; [exact Lc|].
  split; [rewrite <- Fax; apply neighbour_index_ext; reflexivity|].
  split; [exact Ftd|]. split; [exact V2|]. split; [exact Tc|]. split; [exact Eol|]. split; [exact Eil|].
  split; [rewrite <- Hlen; exact Hperm|].
  cbv zeta. fold GG.
  split; [exact Hopen|].
  split.
  { rewrite Hatab, Eat2, Nt1a, Nt1, NA2, NW2, Na1a, Nw1a, Na1, Nw1, X3, X4, nopen_reset, nvirt_reset, Hnopen.
    change (axes (s_transpose (perm nn) nt)) with (laxes nn nt).
    change (open_of nn nt) with (skipn (nvirt nn) (laxes nn nt)) in Hopen. rewrite Hopen, <- !app_assoc. reflexivity. }
  split.
  { rewrite Hdefs, Hlast, Edf2, Nd1a, Nd1, NA2, NW2. reflexivity. }
  split; [rewrite Toid, NA2, NW2; reflexivity|].
  split; [rewrite Tiid, NA2, NW2; reflexivity|].
  split; [rewrite Na3, NA2; reflexivity|]. split; [rewrite Nw3, NW2; reflexivity|].
  assert (End1 : aget contr (nodes s2) = Some nd1) by (rewrite En2, X5; cbn; apply aget_aset_same).
  destruct (split_open_legs _ _ _ _ _ _ _ _ _ _ nd1 W2 Hs Hspec Hids End1) as (no & ni & Eno & Eni & Ho & Hi & _).
  exists no, ni. split; [exact Eno|]. split; [exact Eni|].
  assert (Hlax : lax s2 contr nd1 = axes GG).
  { unfold lax, laxes. rewrite (tens_aget _ _ _ (eq_trans (f_equal (aget contr) Et2) (aget_aset_same _ _ _))).
    rewrite X3. cbn [perm reset_permutation]. fold (nlegs nn). rewrite <- Hlen. apply permute_seq. }
  pose proof (Hnv nd1 End1) as Hnv1. rewrite X3, nvirt_reset in Hnv1.
  destruct (lbc_names _ _ _ _ _ _ Hok Hl) as (Hou & Hov & _).
  assert (Hvw : length (firstn (nvirt nn) (laxes nn nt)) = nvirt na + nvirt nb - 2).
  { rewrite firstn_length, laxes_length. nlia. }
  assert (E1 : forall x bb : list wire, map (fun l => nth l (x ++ bb) 0) (seq (length x) (length bb)) = bb).
  { intros x bb. pose proof (map_nth_seq_mid 0 x bb []) as Q. rewrite app_nil_r in Q. exact Q. }
  rewrite Ho, Hi, Hlax, Hou, Hov. unfold GG, gate_folded. cbn [axes]. rewrite seq_app. split.
  - pose proof (map_nth_seq_mid 0 (firstn (nvirt nn) (laxes nn nt)) (seq (next_wire s) (nopen na)) (seq (next_wire s + nopen na) (nopen nb))) as Q.
    unfold wire in *. rewrite Hvw, seq_length in Q. exact Q.
  - pose proof (E1 (firstn (nvirt nn) (laxes nn nt) ++ seq (next_wire s) (nopen na)) (seq (next_wire s + nopen na) (nopen nb))) as Q.
    unfold wire in *. rewrite app_length, Hvw, !seq_length, <- app_assoc in Q. exact Q.
Qed.

