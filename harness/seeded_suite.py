#!/venv/bin/python
"""Confirms for every /verif/seeded/<name>/patch.diff that the library's existing test suite still
passes with the change applied (apart from the one baseline failure); records the result in meta.json."""
import glob, json, os, re, subprocess, sys
ROOT = os.path.dirname(os.path.dirname(os.path.abspath(__file__)))
names = sys.argv[1:] or sorted(os.path.basename(os.path.dirname(p)) for p in glob.glob(os.path.join(ROOT, "seeded", "*", "meta.json")))
wt = "/tmp/seedsuite"
subprocess.run(["git", "-C", "/repo", "worktree", "remove", "--force", wt], capture_output=True)
subprocess.run(["git", "-C", "/repo", "worktree", "add", "--detach", wt], check=True, capture_output=True)
try:
    for n in names:
        d = os.path.join(ROOT, "seeded", n)
        meta = json.load(open(os.path.join(d, "meta.json")))
        subprocess.run(["git", "-C", wt, "checkout", "--", "."], check=True)
        r = subprocess.run(["git", "-C", wt, "apply", os.path.join(d, "patch.diff")], capture_output=True, text=True)
        if r.returncode != 0:
            meta["suite_on_changed"] = {"error": "patch does not apply: " + r.stderr[-300:]}
        else:
            env = dict(os.environ, PYTHONPATH=wt, OMP_NUM_THREADS="1", OPENBLAS_NUM_THREADS="1", PYTHONDONTWRITEBYTECODE="1")
            p = subprocess.run("/venv/bin/python -m pytest -q -p no:cacheprovider --timeout=900 -n 8 tests 2>&1 | tail -4", shell=True, cwd=wt, env=env, capture_output=True, text=True)
            out = p.stdout
            m = re.search(r"(\d+) failed", out)
            mp = re.search(r"(\d+) passed", out)
            failed = int(m.group(1)) if m else 0
            meta["suite_on_changed"] = {"tail": out[-300:], "failed": failed, "passed": int(mp.group(1)) if mp else None,
                                        "cmd": "PYTHONPATH=<worktree with patch> pytest -q -n 8 tests"}
            meta["suite_only_baseline_failure"] = (failed == 0) or (failed == 1 and "test_random_jump_operator" in out)
            meta["valid_seed"] = bool(meta.get("demo_on_unchanged", {}).get("rc") == 0 and meta.get("demo_on_changed", {}).get("rc") not in (0, None)
                                      and meta["suite_only_baseline_failure"])
        json.dump(meta, open(os.path.join(d, "meta.json"), "w"), indent=1)
        print(n, meta.get("suite_on_changed", {}).get("passed"), meta.get("suite_on_changed", {}).get("failed"), meta.get("valid_seed"), flush=True)
finally:
    subprocess.run(["git", "-C", "/repo", "worktree", "remove", "--force", wt], capture_output=True)
