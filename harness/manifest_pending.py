# executed by gen_manifest.py: reasons for properties not (yet) claimed
NOT_YET.update({})
