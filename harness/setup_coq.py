#!/venv/bin/python
"""setup_cmd: full (.vo) build of the Coq development from files on disk."""
import os
import sys
sys.path.insert(0, os.path.dirname(os.path.abspath(__file__)))
import lib
ok, log = lib.coq_build(timeout=3000)
print(log[-3000:])
sys.exit(0 if ok else 1)
