#!/venv/bin/python
"""setup_cmd: full (.vo) build of the Coq development from files on disk (make -k); succeeds iff
every file in the dependency cone of every registered property is built."""
import os
import sys
sys.path.insert(0, os.path.dirname(os.path.abspath(__file__)))
import lib
ok, log = lib.coq_build(timeout=3000)
enabled = open(os.path.join(lib.ROOT, "harness", "manifest_enabled.txt")).read().split()
bad = {}
for pid in enabled:
    st = lib.coq_cone_fresh(pid)
    if st:
        bad[pid] = st
if not ok:
    print(log[-3000:])
print("coq build:", "ok" if ok else "some files failed (make -k)", "| registered properties with unbuilt files:", bad or "none")
sys.exit(1 if bad else 0)
