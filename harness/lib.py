"""Shared machinery for the PyTreeNet property checks (see DESIGN.md, sections 3 and 7).

A check for property X does, in this order:
  1. proof obligations: incremental `make` of the Coq development, then a fresh
     `coqc` of theories/Props/X.v whose output (accepted theorems, Print Assumptions)
     is parsed; plus a hygiene grep for Admitted/Axiom/... over the development;
  2. corpus cases, then seeded generated cases;
  3. correspondence: the implementation (/repo, live) and the Coq model (vm_compute in
     generated case files) run on the same cases and are compared;
  4. property oracle: an independent reference written from the property text;
  5. when 1 or 3 is broken: a failing-input search with a larger budget;
  6. verdict, evidence file, replay file(s).
"""
from __future__ import annotations

import fcntl
import hashlib
import json
import os
import random
import re
import shutil
import subprocess
import sys
import time
import traceback
import warnings
from pathlib import Path

ROOT = Path(__file__).resolve().parent.parent
COQ = ROOT / "coq"
THEORIES = COQ / "theories"
WORK = ROOT / ".work"
EVIDENCE = Path(os.environ.get("VERIF_EVIDENCE_DIR", str(ROOT / "evidence")))   # seeded evaluations write elsewhere
REPLAYS = ROOT / "replays"
CORPUS = ROOT / "corpus"
REPO = Path(os.environ.get("VERIF_REPO", "/repo"))
GUARD = "PYTREENET_VERIF"

AXIOM_WHITELIST = {
    # standard-library axioms that may legitimately appear (named in DESIGN.md section 4)
    "functional_extensionality_dep", "FunctionalExtensionality.functional_extensionality_dep",
    "Eqdep.Eq_rect_eq.eq_rect_eq", "eq_rect_eq", "Eq_rect_eq.eq_rect_eq",
    "Classical_Prop.classic", "classic", "proof_irrelevance",
    "ProofIrrelevance.proof_irrelevance", "JMeq.JMeq_eq", "JMeq_eq",
    "ClassicalDedekindReals.sig_forall_dec", "ClassicalDedekindReals.sig_not_dec",
    "FunctionalExtensionality.functional_extensionality_dep",
}


def setup_repo_import():
    """Make `import pytreenet` resolve to the live /repo tree, hooks enabled."""
    os.environ[GUARD] = "1"
    os.environ.setdefault("PYTHONHASHSEED", "0")
    sys.dont_write_bytecode = True
    warnings.filterwarnings("ignore")
    p = str(REPO)
    if p in sys.path:
        sys.path.remove(p)
    sys.path.insert(0, p)


# --------------------------------------------------------------------------------------
# Coq value printer / parser
# --------------------------------------------------------------------------------------

def coq_z(n) -> str:
    n = int(n)
    return f"({n})" if n < 0 else str(n)


def coq_nat(n) -> str:
    n = int(n)
    assert 0 <= n < 5000, "nat literal too large"
    return f"{n}%nat"


def coq_bool(b) -> str:
    return "true" if b else "false"


def coq_list(items, f=str) -> str:
    return "[" + "; ".join(f(x) for x in items) + "]"


def coq_opt(x, f=str) -> str:
    return "None" if x is None else f"(Some {f(x)})"


def coq_pair(a, b) -> str:
    return f"({a}, {b})"


def coq_q(fr) -> str:
    """A Fraction as a Coq Q literal (numerator # denominator)."""
    from fractions import Fraction
    fr = Fraction(fr)
    return f"(({fr.numerator}) # {fr.denominator})"


def coq_string(s: str) -> str:
    return '"' + s.replace('"', '""') + '"'


_TOKEN = re.compile(r'\s*(?:(\[|\]|\(|\)|;|,|#)|("(?:[^"]|"")*")|(-?\d+)|([A-Za-z_][A-Za-z0-9_\.\']*)|(%[A-Za-z_]+))')


def _tokens(s):
    pos = 0
    out = []
    n = len(s)
    while pos < n:
        m = _TOKEN.match(s, pos)
        if not m:
            if s[pos:].strip() == "":
                break
            raise ValueError(f"cannot tokenise Coq output at {s[pos:pos+40]!r}")
        pos = m.end()
        if m.group(5):
            continue  # scope annotation
        if m.group(1):
            out.append(("p", m.group(1)))
        elif m.group(2):
            out.append(("s", m.group(2)[1:-1].replace('""', '"')))
        elif m.group(3):
            out.append(("n", int(m.group(3))))
        else:
            out.append(("i", m.group(4)))
    return out


def parse_coq(s: str):
    """Parse a printed Coq value: numbers, bools, strings, lists, tuples, option and
    constructor applications (-> ("Ctor", args...)); `a # b` -> Fraction."""
    toks = _tokens(s)
    pos = [0]

    def peek():
        return toks[pos[0]] if pos[0] < len(toks) else (None, None)

    def nxt():
        t = toks[pos[0]]
        pos[0] += 1
        return t

    def atom():
        k, v = nxt()
        if k == "n":
            return v
        if k == "s":
            return v
        if k == "i":
            if v == "true":
                return True
            if v == "false":
                return False
            if v == "None":
                return None
            if v == "tt":
                return ()
            return ("@", v)
        if k == "p" and v == "[":
            items = []
            if peek() == ("p", "]"):
                nxt()
                return items
            while True:
                items.append(expr())
                k2, v2 = nxt()
                if (k2, v2) == ("p", "]"):
                    return items
                assert (k2, v2) == ("p", ";"), (k2, v2)
        if k == "p" and v == "(":
            items = [expr()]
            while True:
                k2, v2 = nxt()
                if (k2, v2) == ("p", ")"):
                    break
                assert (k2, v2) == ("p", ","), (k2, v2)
                items.append(expr())
            return items[0] if len(items) == 1 else tuple(items)
        raise ValueError(f"unexpected token {k} {v}")

    def app():
        head = atom()
        if isinstance(head, tuple) and len(head) == 2 and head[0] == "@":
            args = []
            while True:
                k, v = peek()
                if k is None or (k == "p" and v in "]);,#"):
                    break
                args.append(atom())
            name = head[1]
            if name == "Some" and len(args) == 1:
                return ("Some", args[0])
            if not args:
                return name
            return (name, *args)
        return head

    def expr():
        a = app()
        if peek() == ("p", "#"):
            nxt()
            b = app()
            from fractions import Fraction
            return Fraction(a, b)
        return a

    v = expr()
    if pos[0] != len(toks):
        raise ValueError("trailing tokens in Coq output")
    return v


def unsome(v):
    """("Some", x) -> x ; None -> None."""
    if isinstance(v, tuple) and len(v) == 2 and v[0] == "Some":
        return v[1]
    return v


# --------------------------------------------------------------------------------------
# Context
# --------------------------------------------------------------------------------------

class Ctx:
    def __init__(self, prop_id: str, tier: str, seed: int):
        self.prop_id = prop_id
        self.tier = tier
        self.seed = seed
        self.t0 = time.time()
        self.work = WORK / f"{prop_id}_{os.getpid()}"
        if self.work.exists():
            shutil.rmtree(self.work)
        self.work.mkdir(parents=True)
        self.timings = {}
        self.notes = []
        self.ncoq = 0

    def rng(self, stream: str = "") -> random.Random:
        h = hashlib.sha256(f"{self.seed}:{self.prop_id}:{stream}".encode()).digest()
        return random.Random(int.from_bytes(h[:8], "big"))

    def thorough(self) -> bool:
        return self.tier == "thorough"

    def scale(self, quick: int, thorough: int) -> int:
        return thorough if self.thorough() else quick

    def cleanup(self):
        shutil.rmtree(self.work, ignore_errors=True)

    def timed(self, name):
        ctx = self

        class T:
            def __enter__(self_inner):
                self_inner.t = time.time()

            def __exit__(self_inner, *a):
                ctx.timings[name] = round(ctx.timings.get(name, 0) + time.time() - self_inner.t, 2)
        return T()


# --------------------------------------------------------------------------------------
# Coq drivers
# --------------------------------------------------------------------------------------

def _run(cmd, timeout, cwd=None, env=None):
    try:
        p = subprocess.run(cmd, cwd=cwd, env=env, capture_output=True, text=True, timeout=timeout)
        return p.returncode, p.stdout, p.stderr
    except subprocess.TimeoutExpired as e:
        return 124, (e.stdout or b"").decode() if isinstance(e.stdout, bytes) else (e.stdout or ""), "TIMEOUT"


def coq_project_files():
    return sorted(str(p.relative_to(COQ)) for p in THEORIES.rglob("*.v"))


def write_coq_project():
    lines = ["-Q theories PTN", "-arg -w", "-arg -notation-overridden,-deprecated-hint-without-locality,-deprecated-instance-without-locality,-ambiguous-paths,-redundant-canonical-projection,-deprecated-syntactic-definition"]
    lines += coq_project_files()
    txt = "\n".join(lines) + "\n"
    p = COQ / "_CoqProject"
    if not p.exists() or p.read_text() != txt:
        p.write_text(txt)
        return True
    return False


def coq_build(timeout=1500):
    """Incremental full (.vo) build of the development under an exclusive lock
    (`make -k`: files unrelated to a broken one are still built)."""
    COQ.mkdir(exist_ok=True)
    with open(COQ / ".lock", "w") as lk:
        fcntl.flock(lk, fcntl.LOCK_EX)
        changed = write_coq_project()
        if changed or not (COQ / "Makefile").exists():
            rc, out, err = _run(["coq_makefile", "-f", "_CoqProject", "-o", "Makefile"], 120, cwd=COQ)
            if rc != 0:
                return False, out + err
        rc, out, err = _run(["timeout", str(timeout), "make", "-k", "-j16"], timeout + 30, cwd=COQ)
        return rc == 0, (out + "\n" + err)[-6000:]


def coq_cone(prop_id: str):
    """Source files Props/<id>.v transitively depends on (inside the development)."""
    rc, out, err = _run(["coqdep", "-Q", "theories", "PTN"] + coq_project_files(), 120, cwd=COQ)
    deps = {}
    for line in out.splitlines():
        if ":" not in line:
            continue
        lhs, rhs = line.split(":", 1)
        tg = [t for t in lhs.split() if t.endswith(".vo")]
        if not tg:
            continue
        src = tg[0][:-1]
        deps[src] = [d[:-1] for d in rhs.split() if d.endswith(".vo") and d.startswith("theories/")]
    start = f"theories/Props/{prop_id}.v"
    seen = set()
    todo = [start]
    while todo:
        f = todo.pop()
        if f in seen:
            continue
        seen.add(f)
        todo += deps.get(f, [])
    return sorted(seen)


def coq_cone_fresh(prop_id: str):
    """The build is good for this property iff every file of its cone has an up-to-date .vo."""
    stale = []
    for f in coq_cone(prop_id):
        v = COQ / f
        vo = COQ / (f + "o")
        if not v.exists():
            stale.append(f + " (missing)")
        elif not vo.exists() or vo.stat().st_mtime < v.stat().st_mtime:
            stale.append(f)
    return stale


_HYGIENE = re.compile(r"\b(Admitted|admit|Axiom|Axioms|Parameter|Parameters|Conjecture|Conjectures|Admit Obligations|bypass_check|type-in-type|impredicative-set)\b|Unset\s+(Guard|Positivity|Universe)\s+Checking")


def strip_coq_comments(txt: str) -> str:
    out = []
    depth = 0
    i = 0
    n = len(txt)
    in_str = False
    while i < n:
        if not in_str and txt.startswith("(*", i):
            depth += 1
            i += 2
            continue
        if not in_str and depth and txt.startswith("*)", i):
            depth -= 1
            i += 2
            continue
        c = txt[i]
        if depth == 0:
            if c == '"':
                in_str = not in_str
            out.append(c)
        i += 1
    return "".join(out)


def hygiene():
    """Forbidden vernacular anywhere in the development (comments and strings excluded).
    `Variable`/`Hypothesis`/`Context` are only allowed inside a Section."""
    bad = []
    for f in sorted(THEORIES.rglob("*.v")):
        txt = strip_coq_comments(f.read_text())
        txt_nostr = re.sub(r'"(?:[^"]|"")*"', '""', txt)
        for m in _HYGIENE.finditer(txt_nostr):
            bad.append(f"{f.relative_to(COQ)}: {m.group(0)}")
        depth = 0
        for line in txt_nostr.splitlines():
            s = line.strip()
            if re.match(r"(Section|Module Type)\s+\w+", s):
                depth += 1
            elif re.match(r"End\s+\w+\s*\.", s) and depth > 0:
                depth -= 1
            elif depth == 0 and re.match(r"(Variable|Variables|Hypothesis|Hypotheses|Context)\b", s):
                bad.append(f"{f.relative_to(COQ)}: {s[:40]} outside Section")
    return bad


def coq_check_props(ctx: Ctx, prop_id: str, timeout=600):
    """coqc theories/Props/<id>.v afresh; return dict with obligations, discharged, axioms."""
    src = THEORIES / "Props" / f"{prop_id}.v"
    res = {"file": str(src.relative_to(ROOT)), "obligations": 0, "discharged": 0, "axioms": [],
           "theorems": [], "ok": False, "log": ""}
    if not src.exists():
        res["log"] = "missing Props file"
        return res
    txt = strip_coq_comments(src.read_text())
    names = re.findall(r"^\s*(?:Theorem|Lemma|Corollary|Example)\s+([A-Za-z0-9_']+)", txt, re.M)
    res["theorems"] = names
    res["obligations"] = len(names)
    # a Props file must contain statements closed by `exact`, nothing else that proves
    (ctx.work / "props").mkdir(exist_ok=True)
    out_vo = ctx.work / "props" / f"{prop_id}.vo"
    rc, out, err = _run(["timeout", str(timeout), "coqc", "-Q", str(THEORIES), "PTN",
                         "-w", "-notation-overridden,-deprecated-hint-without-locality,-deprecated-instance-without-locality,-ambiguous-paths,-redundant-canonical-projection,-deprecated-syntactic-definition",
                         "-o", str(out_vo), str(src)], timeout + 30)
    res["log"] = (out + "\n" + err)[-4000:]
    if rc != 0:
        # find how many theorems were accepted before the failure: unknown -> 0
        return res
    closed = out.count("Closed under the global context")
    ax_blocks = re.findall(r"Axioms:\n((?:.+\n?)+?)(?:\n|$)", out)
    axioms = set()
    for blk in ax_blocks:
        for line in blk.splitlines():
            m = re.match(r"^([A-Za-z0-9_\.']+)\s*:", line)
            if m:
                axioms.add(m.group(1))
    res["axioms"] = sorted(axioms)
    res["print_assumptions"] = closed + len(ax_blocks)
    bad_axioms = [a for a in axioms if a not in AXIOM_WHITELIST and a.split(".")[-1] not in AXIOM_WHITELIST]
    res["bad_axioms"] = bad_axioms
    if res["print_assumptions"] < len(names):
        res["log"] += f"\nPrint Assumptions missing: {res['print_assumptions']} for {len(names)} theorems"
        return res
    if bad_axioms:
        res["log"] += f"\nunlisted axioms: {bad_axioms}"
        return res
    res["discharged"] = len(names)
    res["ok"] = True
    return res


COQ_HEADER = """Set Printing Width 100000000.
Set Printing Depth 100000000.
Set Warnings "-notation-overridden,-deprecated-hint-without-locality,-ambiguous-paths,-abstract-large-number".
"""


def coq_eval(ctx: Ctx, imports: str, exprs: list[str], prelude: str = "", shard: int = 200,
             timeout: int = 900, scope: str = "Z_scope", jobs: int = 14):
    """Evaluate each Coq expression with vm_compute; returns the parsed values (or an
    Exception object for expressions whose shard failed). One `Eval` per expression,
    printed on one line, so no Coq output wrapping has to be undone."""
    if not exprs:
        return []
    ctx.ncoq += 1
    d = ctx.work / f"eval{ctx.ncoq}"
    d.mkdir()
    shards = [exprs[i:i + shard] for i in range(0, len(exprs), shard)]
    files = []
    for k, sh in enumerate(shards):
        f = d / f"cases_{k}.v"
        body = [COQ_HEADER, imports, prelude, f"Open Scope {scope}." if scope else ""]
        for j, e in enumerate(sh):
            body.append(f"Definition case_{j} := {e}.")
            body.append(f"Eval vm_compute in case_{j}.")
        f.write_text("\n".join(body) + "\n")
        files.append(f)
    procs = []
    results = [None] * len(shards)

    def launch(k):
        f = files[k]
        fo = open(f.with_suffix(".out"), "w")
        fe = open(f.with_suffix(".err"), "w")
        return subprocess.Popen(["timeout", str(timeout), "coqc", "-Q", str(THEORIES), "PTN", "-o", str(f.with_suffix(".vo")), str(f)],
                                stdout=fo, stderr=fe, text=True)
    pending = list(range(len(shards)))
    running = {}
    while pending or running:
        while pending and len(running) < jobs:
            k = pending.pop(0)
            running[k] = launch(k)
        done = []
        for k, p in running.items():
            if p.poll() is not None:
                out = files[k].with_suffix(".out").read_text()
                err = files[k].with_suffix(".err").read_text()
                results[k] = (p.returncode, out, err)
                done.append(k)
        for k in done:
            del running[k]
        if not done:
            time.sleep(0.02)
    values = []
    for k, sh in enumerate(shards):
        rc, out, err = results[k]
        if rc != 0:
            exc = RuntimeError(f"coqc failed on {files[k]} rc={rc}: {err[-1500:]}")
            values += [exc] * len(sh)
            continue
        chunks = re.split(r"^\s*= ", out, flags=re.M)[1:]
        if len(chunks) != len(sh):
            exc = RuntimeError(f"coq output count mismatch {len(chunks)} vs {len(sh)} in {files[k]}")
            values += [exc] * len(sh)
            continue
        for ch in chunks:
            # strip the trailing `: type`
            idx = ch.rfind("\n     : ")
            if idx < 0:
                idx = ch.rfind(" : ")
            body = ch[:idx]
            try:
                values.append(parse_coq(body))
            except Exception as e:  # noqa
                values.append(RuntimeError(f"parse error: {e}: {body[:200]}"))
    return values


# --------------------------------------------------------------------------------------
# Known findings, replay, evidence
# --------------------------------------------------------------------------------------

def load_known():
    p = ROOT / "known_findings.json"
    if not p.exists():
        return []
    return json.loads(p.read_text())["findings"]


def jsonable(x):
    import fractions
    try:
        import numpy as np
    except Exception:  # pragma: no cover
        np = None
    if isinstance(x, dict):
        return {str(k): jsonable(v) for k, v in x.items()}
    if isinstance(x, (list, tuple, set, frozenset)):
        return [jsonable(v) for v in x]
    if isinstance(x, fractions.Fraction):
        return f"{x.numerator}/{x.denominator}"
    if isinstance(x, complex):
        return [x.real, x.imag]
    if np is not None:
        if isinstance(x, np.ndarray):
            return jsonable(x.tolist())
        if isinstance(x, np.generic):
            return jsonable(x.item())
    if isinstance(x, float):
        if x != x or x in (float("inf"), float("-inf")):
            return repr(x)
        return x
    if isinstance(x, (str, int, bool)) or x is None:
        return x
    if isinstance(x, BaseException):
        return f"{type(x).__name__}: {x}"
    return repr(x)


def case_hash(case) -> str:
    return hashlib.sha256(json.dumps(jsonable(case), sort_keys=True).encode()).hexdigest()[:12]


def write_replay(prop_id, kind, case, detail, seed, tier):
    REPLAYS.mkdir(exist_ok=True)
    h = case_hash([kind, case, str(detail)[:200]])
    p = REPLAYS / f"{prop_id}_{h}.json"
    p.write_text(json.dumps({"property": prop_id, "kind": kind, "seed": seed, "tier": tier,
                             "case": jsonable(case), "detail": jsonable(detail)}, indent=1))
    return p


def validate_evidence(ev: dict):
    for k in ("property_id", "tier", "seed", "level", "coverage", "wall_s"):
        assert k in ev, k
    assert ev["tier"] in ("quick", "thorough")
    assert isinstance(ev["seed"], int)
    cov = ev["coverage"]
    if ev["level"] == "proof":
        for k in ("obligations", "discharged", "checker_cmd", "trusted_base"):
            assert k in cov, k
        assert cov["obligations"] >= 1 and cov["discharged"] >= 1
    for k in ("evaluations", "distinct_nontrivial", "rule", "samples"):
        assert k in cov, k
    assert isinstance(cov["samples"], list) and cov["samples"]


def write_evidence(ev: dict):
    EVIDENCE.mkdir(exist_ok=True)
    validate_evidence(ev)
    (EVIDENCE / f"{ev['property_id']}.json").write_text(json.dumps(jsonable(ev), indent=1) + "\n")


# --------------------------------------------------------------------------------------
# The generic check driver
# --------------------------------------------------------------------------------------

class Finding:
    """A property violation observed on a concrete case."""

    def __init__(self, case, what, known_id=None):
        self.case = case
        self.what = what
        self.known_id = known_id


class Prop:
    """Base class of a property check. Subclasses fill in the hooks."""
    id = "C00"
    title = ""
    design_ref = ""
    clauses: list = []          # [(tag F/O/I/V, text)]
    trusted_base: list = []     # extra trusted-base lines
    assumptions: list = []
    rule = ""

    # ---- hooks -------------------------------------------------------------------
    def corpus(self, ctx):
        """Minimised past failures / known-finding witnesses; run first."""
        p = CORPUS / f"{self.id}.json"
        if p.exists():
            return json.loads(p.read_text())
        return []

    def generate(self, ctx, stream: str, budget_scale: int = 1):
        """Return the list of generated cases (JSON-able)."""
        return []

    def nontrivial(self, case) -> bool:
        return True

    def impl(self, ctx, cases):
        """Run the implementation: list of observations (JSON-able), or Exception objects."""
        raise NotImplementedError

    def model(self, ctx, cases, obs):
        """Run the Coq model: list of model outputs (or None where no model applies)."""
        return [None] * len(cases)

    def compare(self, case, ob, mo):
        """Correspondence relation: None if model and implementation agree, else a string."""
        return None

    def oracle(self, case, ob):
        """Property oracle, independent of the model: None or a description of the violation."""
        return None

    def classify(self, case, what, known):
        """Return the id of the known finding this violation belongs to, or None."""
        return None

    def extra_obligations(self, ctx):
        """Additional per-instance kernel-checked obligations: (count, discharged, failures)."""
        return 0, 0, []

    def shrink(self, ctx, case, pred):
        return case

    def distribution(self, cases):
        return {}

    def sample_repr(self, case):
        return case


def run_check(prop: Prop, tier: str, seed: int, replay: str | None = None) -> int:
    setup_repo_import()
    ctx = Ctx(prop.id, tier, seed)
    known = [k for k in load_known() if k["property"] == prop.id]
    known_active = {k["id"]: k for k in known if k.get("status") == "known"}
    violations = []      # (kind, case, detail)
    known_hits = {}
    broken = []          # descriptions of broken proof / correspondence
    try:
        if replay:
            data = json.loads(Path(replay).read_text())
            cases = [data["case"]]
            obs = prop.impl(ctx, cases)
            what = None if isinstance(obs[0], SkipCase) else prop.oracle(cases[0], obs[0])
            mos = prop.model(ctx, cases, obs)
            tie = None
            if mos[0] is not None and not isinstance(obs[0], SkipCase):
                tie = prop.compare(cases[0], obs[0], mos[0])
            print(json.dumps({"oracle": jsonable(what), "tie": jsonable(tie), "observation": jsonable(obs[0])}, indent=1)[:6000])
            if what:
                kid = prop.classify(cases[0], what, known_active)
                if kid is not None and kid in known_active:
                    print(f"KNOWN-FINDING: property={prop.id} {kid}: {known_active[kid]['what']}")
                    what = None
            if what or tie:
                print(f"VIOLATION property={prop.id} replay={replay}")
                return 1
            return 0

        # 1. proofs
        with ctx.timed("coq_build"):
            ok, log = coq_build()
        stale = coq_cone_fresh(prop.id)
        if stale:
            broken.append({"kind": "coq-build", "detail": f"not built: {stale}", "log": log[-3000:]})
        elif not ok:
            ctx.notes.append("make reported failures outside this property's dependency cone")
        with ctx.timed("coq_props"):
            pr = coq_check_props(ctx, prop.id)
        if not pr["ok"]:
            broken.append({"kind": "proof", "detail": f"theorems of {pr['file']} not all accepted", "log": pr["log"][-3000:]})
        bad = hygiene()
        if bad:
            broken.append({"kind": "hygiene", "detail": bad[:20]})

        # 2./3./4.
        with ctx.timed("generate"):
            corpus = prop.corpus(ctx)
            gen = prop.generate(ctx, "main")
        cases = list(corpus) + list(gen)
        with ctx.timed("impl"):
            obs = prop.impl(ctx, cases)
        with ctx.timed("model"):
            try:
                mos = prop.model(ctx, cases, obs)
            except Exception as e:  # model evaluation itself failed
                mos = [RuntimeError(f"model evaluation failed: {e}")] * len(cases)
                traceback.print_exc()
        tie_checked = 0
        tie_bad = []
        with ctx.timed("compare+oracle"):
            for case, ob, mo in zip(cases, obs, mos):
                if isinstance(ob, SkipCase):
                    continue
                try:
                    what = prop.oracle(case, ob)
                except Exception as e:  # the oracle itself could not digest the observation
                    what = None
                    tie_bad.append((case, f"oracle raised {type(e).__name__}: {e}"))
                if what:
                    kid = prop.classify(case, what, known_active)
                    if kid is not None and kid in known_active:
                        known_hits.setdefault(kid, []).append((case, what))
                    else:
                        violations.append(("oracle", case, what))
                if mo is None:
                    continue
                tie_checked += 1
                if isinstance(mo, BaseException):
                    tie_bad.append((case, f"model error: {mo}"))
                    continue
                try:
                    d = prop.compare(case, ob, mo)
                except Exception as e:  # model and observation do not even have the same shape
                    d = f"comparison raised {type(e).__name__}: {e}"
                if d:
                    tie_bad.append((case, d))
        with ctx.timed("instance_obligations"):
            xo, xd, xfail = prop.extra_obligations(ctx)
        for f in xfail:
            broken.append({"kind": "instance-obligation", "detail": f})
        if tie_bad:
            # a tie disagreement that coincides with a known finding is not a broken tie
            real = []
            for case, d in tie_bad:
                kid = prop.classify(case, "tie:" + d, known_active)
                if kid is not None and kid in known_active:
                    known_hits.setdefault(kid, []).append((case, d))
                else:
                    real.append((case, d))
            if real:
                broken.append({"kind": "correspondence", "detail": real[0][1], "case": real[0][0], "count": len(real)})

        # 5. failing-input search when the proof or the tie is broken and no input yet
        searched = 0
        if broken and not violations:
            with ctx.timed("search"):
                seeds = [b["case"] for b in broken if "case" in b]
                extra = list(seeds) + list(prop.generate(ctx, "search", budget_scale=6))
                searched = len(extra)
                sobs = prop.impl(ctx, extra)
                for case, ob in zip(extra, sobs):
                    if isinstance(ob, SkipCase):
                        continue
                    what = prop.oracle(case, ob)
                    if what:
                        kid = prop.classify(case, what, known_active)
                        if kid is not None and kid in known_active:
                            continue
                        violations.append(("oracle", case, what))
                        break

        # 5b. the library source differs from the recorded baseline and nothing has been found: look harder with the
        #     property oracle (more generated inputs). Costs nothing on the recorded tree and cannot raise a false alarm
        #     (same oracle, same known-finding classification).
        changed = source_changed_files()
        if changed and not broken and not violations:
            with ctx.timed("search_changed_source"):
                extra = list(prop.generate(ctx, "search", budget_scale=3))
                searched = len(extra)
                sobs = prop.impl(ctx, extra)
                for case, ob in zip(extra, sobs):
                    if isinstance(ob, SkipCase):
                        continue
                    try:
                        what = prop.oracle(case, ob)
                    except Exception:  # noqa  (an oracle that cannot digest an observation decides nothing here)
                        what = None
                    if what:
                        kid = prop.classify(case, what, known_active)
                        if kid is not None and kid in known_active:
                            continue
                        violations.append(("oracle", case, what))
                        break

        # 6. verdict
        rc = 0
        for kid, hits in known_hits.items():
            print(f"KNOWN-FINDING: property={prop.id} {kid}: {known_active[kid]['what']} ({len(hits)} case(s) this run)")
        if violations:
            kind, case, what = violations[0]
            try:
                case_s = prop.shrink(ctx, case, lambda c: _still_fails(prop, ctx, c, known_active))
            except Exception:
                case_s = case
            rp = write_replay(prop.id, "property-oracle", case_s, {"what": what, "broken": broken}, seed, tier)
            print(f"VIOLATION property={prop.id} replay={rp}")
            rc = 1
        elif broken:
            rp = write_replay(prop.id, "broken-" + broken[0]["kind"], broken[0].get("case"),
                              {"broken": broken, "searched_inputs": searched}, seed, tier)
            print(f"VIOLATION property={prop.id} replay={rp} no-failing-input-found")
            rc = 1

        nontriv = set()
        for c in cases:
            if prop.nontrivial(c):
                nontriv.add(case_hash(c))
        samples = [prop.sample_repr(c) for c in (cases[:1] + cases[len(cases) // 2: len(cases) // 2 + 1] + cases[-1:])]
        tb = ["Coq 8.16.1 kernel (coqc); vm_compute used for model evaluation in correspondence files; no native_compute",
              "axioms reported by Print Assumptions for Props/%s.v: %s" % (prop.id, ", ".join(pr["axioms"]) if pr["axioms"] else "none (Closed under the global context)"),
              "correspondence harness (harness/lib.py, harness/props/%s.py): case generators, Coq literal printer, output parser, canonicalisation" % prop.id.lower(),
              "hand-written Gallina model tied to /repo by differential execution on every run (no translator, no extraction)",
              "Python 3.12 / NumPy / SciPy as the platform the implementation runs on"] + list(prop.trusted_base)
        ev = {
            "property_id": prop.id, "tier": tier, "seed": seed, "level": "proof",
            "coverage": {
                "obligations": pr["obligations"] + xo,
                "discharged": pr["discharged"] + xd,
                "checker_cmd": f"coqc -Q coq/theories PTN coq/theories/Props/{prop.id}.v (after make -C coq); instance obligations by coqc vm_compute case files",
                "trusted_base": tb,
                "theorems": pr["theorems"],
                "axioms": pr["axioms"],
                "instance_obligations": xo,
                "evaluations": len(cases) + searched,
                "distinct_nontrivial": len(nontriv),
                "rule": prop.rule,
                "samples": samples or ["<none>"],
                "traces_validated_against_impl": tie_checked,
                "correspondence_disagreements": len(tie_bad),
                "corpus_cases": len(corpus),
                "distribution": prop.distribution(cases),
                "clauses": [{"tag": t, "text": x} for t, x in prop.clauses],
                "known_findings_seen": sorted(known_hits),
                "broken": broken,
                "library_source_differs_from_baseline": changed[:20],
                "timings_s": ctx.timings,
            },
            "assumptions": list(prop.assumptions),
            "wall_s": round(time.time() - ctx.t0, 2),
            "violations": len(violations) + (1 if (broken and not violations) else 0),
        }
        write_evidence(ev)
        print(f"[{prop.id}] tier={tier} seed={seed} theorems={pr['discharged']}/{pr['obligations']} instance_obl={xd}/{xo} "
              f"cases={len(cases)} tie_checked={tie_checked} tie_bad={len(tie_bad)} violations={len(violations)} "
              f"known={sorted(known_hits)} wall={ev['wall_s']}s")
        return rc
    finally:
        ctx.cleanup()


SOURCE_DIGESTS = ROOT / "harness" / "source_digests.json"


def source_digests(repo=None):
    """{relative path: sha256 of the AST dump} for every library module (comments/formatting-insensitive)."""
    import ast
    repo = Path(repo or REPO)
    out = {}
    for f in sorted((repo / "pytreenet").rglob("*.py")):
        raw = f.read_bytes()
        try:
            import warnings
            with warnings.catch_warnings():
                warnings.simplefilter("ignore")
                data = ast.dump(ast.parse(raw)).encode()
        except SyntaxError:
            data = raw
        out[str(f.relative_to(repo))] = hashlib.sha256(data).hexdigest()
    return out


def source_changed_files():
    """library modules whose AST differs from the baseline recorded when the checks were last run green on /repo
    (harness/source_digests.json, written by `check.py --record-source`). Only used to decide how HARD to search:
    a changed source never is a violation by itself."""
    try:
        base = json.loads(SOURCE_DIGESTS.read_text())["files"]
    except Exception:
        return ["<no baseline>"]
    cur = source_digests()
    return sorted(k for k in set(base) | set(cur) if base.get(k) != cur.get(k))


class SkipCase:
    """Observation marker: the case was outside the property's quantifier (skipped)."""

    def __init__(self, why=""):
        self.why = why


def _still_fails(prop, ctx, case, known_active):
    ob = prop.impl(ctx, [case])[0]
    if isinstance(ob, SkipCase):
        return False
    what = prop.oracle(case, ob)
    if not what:
        return False
    kid = prop.classify(case, what, known_active)
    return not (kid is not None and kid in known_active)


def main(props: dict):
    import argparse
    ap = argparse.ArgumentParser()
    ap.add_argument("prop")
    ap.add_argument("--tier", default=os.environ.get("VERIF_TIER", "quick"))
    ap.add_argument("--seed", type=int, default=int(os.environ.get("VERIF_SEED", "1")))
    ap.add_argument("--replay")
    a = ap.parse_args()
    if a.tier not in ("quick", "thorough"):
        a.tier = "quick"
    prop = props[a.prop]()
    sys.exit(run_check(prop, a.tier, a.seed, a.replay))
