"""C04 — scalar products, norms and expectation values equal their dense definitions."""
from __future__ import annotations

import copy
import random
from collections import Counter

import numpy as np

from lib import Prop, coq_eval, coq_nat, coq_list
import wmodel
from wmodel import Driver, IdMap
from props.c02 import gen_build_on
import util
from util import TTNS, TTNO, TensorProduct

WOFF = 2000     # wire offset of the conjugated copy / second network
AOFF = 200      # atom offset
OOFF = 1000     # wire offset of the operator network
OAOFF = 100


def logical_open_wires(mobs):
    """node -> wires of its open legs (node order) from a model observation"""
    out = {}
    for (k, par, ch, perm, shape) in mobs["nodes"]:
        ax = mobs["tensors"][k]["axes"]
        logical = [ax[i] for i in perm]
        out[k] = logical[(1 if par is not None else 0) + len(ch):]
    return out


def edge_wires(mobs):
    out = []
    for (k, par, ch, perm, shape) in mobs["nodes"]:
        if par is not None:
            out.append(mobs["tensors"][k]["axes"][perm[0]])
    return out


def eval_closed(summary, tables):
    """numeric value of a closed diagram: atoms with their wire tables, glued wires identified"""
    axes, atoms, bnd, glue = summary
    parent = {}

    def find(x):
        parent.setdefault(x, x)
        while parent[x] != x:
            parent[x] = parent[parent[x]]
            x = parent[x]
        return x
    for a, b in glue:
        parent[find(a)] = find(b)
    lab = {}

    def L(w):
        r = find(w)
        if r not in lab:
            lab[r] = len(lab)
        return lab[r]
    args = []
    for a in atoms:
        val, ws = tables[a]
        args += [val, [L(w) for w in ws]]
    if len(lab) > 52:
        return None
    return complex(np.einsum(*args, [], optimize=True))


class C04(Prop):
    id = "C04"
    rule = ("random trees (1-6 nodes), independent child orders and leg shuffles for ket / bra / operator networks, complex integer-valued tensors "
            "(exact arithmetic) and float tensors; kinds: scalar product of two states, norm (canonical and not), TTNO expectation value, tensor-product "
            "expectation value on 0..N sites with non-Hermitian factors (with and without the centre shortcut), TTNO.as_matrix; non-trivial = at least 2 nodes; "
            "[str-C04] HISTORIES on one object (oracle only, dense reference recomputed from the current tensors at every probe): `hist` = one TTNS through 2-6 random "
            "steps out of canonical_form (REDUCED / FULL, same or another centre) / move_orthogonalization_center / ensure_orth_center / edits (apply_operator with "
            "non-unitary factors on 1-2 sites, replace_tensor, tensors[id] = new, in-place scaling) at, on and off the centre path, with norm(), scalar_product() with and "
            "without the centre shortcut, the single-site shortcut at the centre and a tensor product on 0-2 sites probed wherever the library has (re)established "
            "the gauge (centre None, or every edit since the last canonical_form was at the recorded centre); `ohist` = one TTNO through 2-4 rounds of as_matrix() + "
            "TTNO expectation value, between rounds a tensor gets new values with unchanged shapes (replace_tensor / assignment / in-place scaling / index assignment), "
            "the caller overwrites the matrix it was handed, or continues with a deepcopy of the operator; "
            "[str5-C04] `scale` = badly scaled / tiny / huge / (nearly) orthogonal inputs on trees of 1-7 nodes (dimension-1 legs included), oracle only, float complex tensors, "
            "ket, bra and TTNO rescaled independently node by node (tensors[id] = ... or replace_tensor): `gauge` per-node factors 10^U(-s,s), s in 3..12, optionally with random phases "
            "or only one tensor tiny / huge, one node compensating so that the product is 1 (the represented vector is unchanged); `pow2` the same with exact powers of two; "
            "`overall` product 10^U(-30,30) (tiny- and huge-norm states and operators); `ortho` ket and bra with exactly disjoint support on one site (exactly zero subtree block, "
            "scalar product 0); `near` the same up to eps = 10^U(-9.5,-6). Probed: scalar_product(bra) both ways and with a bra node times a complex z of modulus 10^U(-8,8) "
            "(conjugate-linearity), contract_two_ttns and expectation_value called directly, norm(), scalar_product() with and without the centre flag for ket and bra, TTNO and "
            "tensor-product (0-3 sites, factors scaled by 10^U(-8,8)) expectation values, all of these again after canonical_form (REDUCED / FULL) incl. the single-site shortcut, and "
            "TTNO.as_matrix(); reference = dense einsum of the CURRENT tensors, tolerance RELATIVE to the natural scale of the quantity (|<phi|psi>| <= |phi||psi|, "
            "|<psi|O|psi>| <= |psi|^2 |O|_2, largest entry of the matrix): 1e-9, and 1e-12 for the products of the `near` pairs; "
            "[str6-C04] `big` = LARGE instances (oracle only, float complex tensors, hence non-symmetric non-Hermitian operator tensors; ket, bra and TTNO built independently with their own "
            "child orders, leg shuffles and bond dimensions): `bonds` = trees of 3-7 nodes (shapes random / hub below the root / star / chain / binary) whose bonds are drawn per network from "
            "one of the ranges opwide (operator bond to the parent above the state's, state child bonds above the operator's), statewide, allwide, mixed (each bond independently 1..8), and then "
            "one node (an inner non-root node where the tree has one) has its child bonds (state or operator, at random) raised until its ket-plus-child-blocks tensor reaches a size class 2^10..2^16 entries (capped at 2^17, other nodes at 2^13; "
            "state, operator and bra bonds all differ in general); `nodes` = 8-9 (thorough up to 10) nodes with bonds 1-3; `degree` = a node (root or below it) with 3-6 children whose bonds are a random "
            "arrangement of distinct values, bra bonds equal or different. Probed on each: scalar_product(bra) both ways, contract_two_ttns and expectation_value called directly, norm(), "
            "scalar_product() with / without the centre flag, TTNO expectation value (also for the bra as state and after canonical_form at a random centre), tensor products on 0-3 sites, the "
            "centre shortcuts after canonical_form, TTNO.as_matrix(); reference = dense einsum (optimised contraction path) of the current tensors, tolerance 1e-9 relative to the natural scale; "
            "[str7-C04] `grown` = networks PRODUCED BY other public operations (oracle only, 1-7 nodes, shapes random / chain / star / hub): ket, bra and TTNO are each built from a random START node "
            "(add_root with a spare open leg), the subtrees by add_child_to_parent and every node on the path to the final root by add_parent_to_root, in a random interleaving with shuffled legs, "
            "with read-only queries on the live object in between (bond_dim / neighbour_dim / neighbour_index of one edge in either direction, of every bond of one / all nodes, max_bond_dim, "
            "completely_contract_tree(to_copy=True) of the unfinished network; outcome not judged) and calls the library rejects (bond_dim of a non-neighbour, add_child_to_parent with an existing "
            "identifier / a mismatching dimension / an unknown parent, add_parent_to_root with a mismatching dimension / an existing identifier): the rejected call must raise and leave root, parents, "
            "children and shapes as they were, the construction continues; then on the LIVE objects: scalar products both ways, with use_orthogonal_center=False, contract_two_ttns, conjugate-linearity, "
            "the state passed to itself and a deepcopy of it, norm(), scalar_product(), TTNO / tensor-product (0-3 sites) expectation values for ket and bra, expectation_value directly, as_matrix(); "
            "the same on a deepcopy / pickle round trip / conjugate().conjugate() of ket and operator, and on the ket after canonical_form (incl. the single-site shortcut); tolerance 1e-9 relative; "
            "`pairs` = pairs of RELATED states (oracle only, 1-7 nodes, live objects, no copies taken by the harness): the bra is the ket itself / a deepcopy or pickle round trip / a copy with one node "
            "times 1 + eps e^{i t} (assignment or replace_tensor) / a copy after exp(-i eps G) through apply_operator / a copy with every entry changed relatively by eps (eps = 10^U(-9,-3)), or an "
            "independent state with the SAME construction (child orders, shapes) at ordinary scale or with both networks' entries ~10^-12..10^-8.5 per node; with probability 0.35 both canonical at the same "
            "centre (edits then at the centre); the scalar-product probes above against np.vdot of the dense vectors, tolerance 1e-10 |psi||phi|")
    clauses = [
        ("F", "for all trees and independent child orders of ket / bra / operator (wf_two / wf_three): contract_two_ttns and expectation_value succeed and return the closed "
              "network: no open axis, atoms = all atoms, every edge wire bound, glued pairs exactly (ket leg n, bra leg n) resp. (ket leg n, operator input n) and "
              "(operator output n, conjugate ket leg n) (C04_contract_two_ttns_closed, C04_expectation_value_closed, local lemmas C04_all_but_one_axes, C04_bra_to_ket_ignore_axes, ...)"),
        ("F", "as_matrix permutation evens++odds is a permutation of the 2n legs with outputs first, in contraction order; tensordot bookkeeping"),
        # [ext-C04W]
        ("F", "completely_contract_tree as a store program (Contr/TensorProd.v): on EVERY wfb store it succeeds, the order is the pre-order, one node (the root) is left "
              "whose tensor has all atoms, open axes = the nodes' open wires in pre-order, every edge wire bound; as_matrix = that contraction transposed to outputs then "
              "inputs in contraction order (C04_complete_contraction, C04_as_matrix_is_full_contraction)"),
        ("F", "tensor_product_expectation_value, general path, for every well-formed one-leg-per-node state and every product on 0..N distinct sites: closed network, each factor "
              "a fresh atom whose input is the site's (now bound) open wire and whose output is glued to the conjugate copy's open wire; conjugate taken of the ORIGINAL state; "
              "empty product = scalar_product(); dispatch to the shortcuts (C04_tp_expectation_closed, C04_tp_hyp_closed, C04_tp_expectation_empty, C04_tp_expectation_value_dispatch)"),
        ("F", "diagrams of the two orthogonality-centre shortcuts (C04_center_norm_diagram, C04_center_single_site_diagram: state leg meets operator axis 1)"),
        ("O", "semantic bridge over any commutative semiring under the kernel contract `every tensor off the centre is an isometry from its bond toward the centre' "
              "(iso_atom, a hypothesis on the atom table): removal of one isometry pair (C04_iso_pair_remove), induction from the leaves toward the centre "
              "(C04_block_delta), value of <psi|psi> = value of the local centre diagram (C04_canonical_norm_is_local) -- for an abstract tree of atoms"),
        # [bridge-C04]
        ("F", "gvalue, the denotation of glued diagrams (SUM over bound wires and one index per glued pair of the product of the atoms): invariant under reordering "
              "atoms / bound wires / glued pairs, equal to Sem.value on diagrams without glue, and Blocks.g_tensordot denotes np.tensordot under the non-interference "
              "conditions td_ok (C04_gvalue_perm, C04_gvalue_plain, C04_gvalue_g_tensordot); the tree of a store re-rooted at the centre (C04_centre_tree); wf_two s (conj s) "
              "from wf s + one open leg per node (C04_wf_two_of_wf); canonical_form / move_orthogonalization_center establish / preserve the extended invariant wfs, "
              "one open leg per node and `every tensor off the centre is the plain Q atom of its QR call' (C04_canonical_form_plain, C04_move_center_plain); canon_hyp is "
              "sound (C04_canon_hyp_sound)"),
        ("O", "THE BRIDGE, under the kernel contract qr_contracts (Q^dagger Q = 1 on the atom table for the Q factor of every recorded QR call still in the network): "
              "for every state with wfs, one open leg per node, a centre passing iso_check and plain off-centre tensors, value(diagram of contract_two_ttns(s, conj s)) = "
              "value(diagram of the centre shortcut of scalar_product) (C04_canonical_norm_is_full_contraction) and value(diagram of the general path of "
              "tensor_product_expectation_value for one factor at the centre) = value(diagram of the single_site_operator_expectation_value shortcut) "
              "(C04_single_site_is_full_contraction), over any commutative semiring; end to end for the result of canonical_form on any wfs state with one open leg per node "
              "and after move_orthogonalization_center (C04_canonical_form_shortcuts, C04_move_center_shortcuts; the only further hypotheses: offsets of the conjugate copy)"),
        # [ext-C04T]
        ("F", "VALUE of the three-layer diagram <psi|H|psi> (Contr/ThreeLayerValue*.v), over any commutative semiring: for every wfs state, every wfs operator store on the same "
              "tree with independent child orders and (output, input) legs last (wf_three / three_ok), separated wire ranges (state < operator < woff <= conjugate copy) and any "
              "world reading the three atom families on their own wires, the model of expectation_value(state, ttno) succeeds with a closed diagram whose gvalue is the fused flat "
              "form three_flat = SUM over the three copies of every edge wire and one index per glued physical pair of PROD over the nodes of (ket tensor)(operator tensor)"
              "(conjugate ket tensor) (C04_ttno_expectation_value_flat, _flat_world with the stores' own atom tables; fusion lemma C04_fuse_items); the pairing hypothesis wf_three follows from the two "
              "store invariants, one / two open legs per node, same parents and children up to order (C04_wf_three_of_wf, C04_ttno_expectation_value_flat_wf); corollary: same node data in "
              "ANY child orders of state / conjugate copy / operator => same value (C04_ttno_expectation_child_orders); integer instance with non-symmetric operator tensors "
              "evaluated on both sides (C04_ttno_flat_example)"),
        # [/ext-C04T]
        ("I", "per explored tp instance: canon_hyp (wfsb, iso_check, one open leg per node, plain off-centre tensors, offsets: the structural hypotheses of the bridge theorems) "
              "on the MODEL's canonical form of the state at the centre the implementation used, by vm_compute (canon_case)"),
        # [/bridge-C04]
        ("I", "per explored tp / asmat instance: wfb, tp_hyp (hypotheses of C04_tp_hyp_closed) and the result checkers tp_result_ok / complete_contraction_ok by vm_compute; "
              "value ties: einsum of the model diagram = tensor_product_expectation_value (general path, dispatch with a forced centre), scalar_product() and "
              "single_site_operator_expectation_value at a forced centre, as_matrix entrywise (exact on integer tensors / 1e-9)"),
        # [/ext-C04W]
        ("I", "per explored instance: the hypothesis checkers two_ok / three_ok of those theorems and, as a cross-check, the closed-diagram summary, by vm_compute; "
              "the implementation's number equals the value of that diagram (exact arithmetic on Gaussian-integer tensors)"),
        ("V", "norm() total on every state, gauge independence, the shortcuts on canonical states against <psi|O|psi>: dense oracle"),
        # [str-C04]
        ("V", "histories: the same equalities at every probe of a call sequence on ONE state object (canonical_form / move / ensure / edits of tensors, re-canonicalisation "
              "after edits off the centre) and of repeated as_matrix() / expectation_value calls on ONE operator object whose tensors change value but not shape: dense "
              "oracle on the current tensors; no model tie (the theorems are per call: C04_canonical_form_shortcuts holds for EVERY wfs input state, whatever its centre attribute)"),
        # [/str-C04]
        # [str5-C04]
        ("V", "scale independence: the same equalities for networks whose node tensors differ from well-scaled ones by factors spread over up to 24 orders of magnitude "
              "(product 1, or tiny / huge overall), for exactly and nearly orthogonal pairs, with tolerances relative to the natural scale of each quantity: dense oracle; "
              "no model tie (the diagram theorems are independent of the tensor values)"),
        # [/str5-C04]
        # [str6-C04]
        ("V", "size independence: the same equalities on LARGE instances (node tensors with 2^10..2^17 entries after the child blocks are attached, single bonds up to ~200 on chain nodes, operator / state / bra "
              "bonds unequal in every direction, 8-10 nodes, nodes with 3-6 children of pairwise different bonds): dense oracle; no model tie (the closed-network theorems "
              "C04_contract_two_ttns_closed / C04_expectation_value_closed hold for every tree and all dimensions; the case files would only re-evaluate them on bigger literals)"),
        # [/str6-C04]
        # [str7-C04]
        ("V", "provenance independence: the same equalities for networks grown through add_parent_to_root / add_child_to_parent from an arbitrary start node with read-only queries and "
              "rejected calls (which must leave the network unchanged) between the steps, for their deepcopy / pickle / conjugate-twice images, and for pairs of related states (the state "
              "itself, copies, copies differing by eps = 1e-9..1e-3, same-structure independent states incl. tiny amplitudes): dense oracle; no model tie (the closed-network theorems are "
              "stated for every wf store, however it was built; the Store model has no add_parent_to_root operation)"),
        # [/str7-C04]
    ]
    trusted_base = ["NumPy tensordot/transpose/reshape implement the diagram operations (validated exactly on integer tensors)",
                    "kernel contract of the semantic bridge (qr_contracts / iso_atom, premises of the O theorems): the Q factor of every recorded QR call is an isometry "
                    "from its bond, Q^dagger Q = 1 (REDUCED / FULL modes; validated numerically by C03/C11; false for zero-padded KEEP factors, where the theorems are silent)",
                    "gvalue (Contr/TensorProdBridge.v) is the DEFINITION of what a glued diagram denotes (glued legs share one summation index); it agrees with Wire/Sem.value on "
                    "glue-free diagrams, satisfies the tensordot law (C04_gvalue_g_tensordot), and is what the harness evaluates numerically (eval_closed) against the implementation"]

    def generate(self, ctx, stream, budget_scale=1):
        rng = ctx.rng(stream)
        n = ctx.scale(160, 1600) * budget_scale
        kinds = ["two", "two", "ttno", "ttno", "tp", "tp", "norm", "asmat"]
        cases = [{"seed": rng.randrange(10 ** 9), "nnodes": rng.choice([1, 2, 2, 3, 3, 4, 4, 5, 6]), "kind": kinds[j % len(kinds)],
                  "ints": j % 5 != 0, "share": (j % 7 == 3)} for j in range(n)]
        # [str-C04] histories on one object (drawn AFTER the single-call cases, which therefore stay what they were)
        nh = ctx.scale(48, 480) * budget_scale
        hk = ["hist", "hist", "ohist"]
        cases += [{"seed": rng.randrange(10 ** 9), "nnodes": rng.choice([1, 2, 3, 3, 4, 4, 5, 6, 7]), "kind": hk[j % len(hk)],
                   "ints": j % 4 == 1, "share": False} for j in range(nh)]
        # [/str-C04]
        # [str5-C04] scale / conditioning families (oracle only; drawn AFTER everything above, which therefore stays what it was)
        ns = ctx.scale(72, 900) * budget_scale
        sk = ["gauge", "gauge", "gauge", "overall", "overall", "pow2", "ortho", "near"]
        cases += [{"seed": rng.randrange(10 ** 9), "nnodes": rng.choice([1, 2, 2, 3, 3, 4, 4, 5, 6, 7]), "kind": "scale", "sub": sk[j % len(sk)],
                   "ints": False, "share": False} for j in range(ns)]
        # [/str5-C04]
        # [str6-C04] large instances (oracle only; drawn AFTER everything above, which therefore stays what it was)
        nb = ctx.scale(14, 220) * budget_scale
        bk = ["bonds", "bonds", "bonds", "nodes", "bonds", "degree", "bonds"]
        for j in range(nb):
            sub = bk[j % len(bk)]
            nn = {"bonds": rng.choice([3, 4, 4, 5, 5, 6, 7]), "nodes": rng.choice(ctx.scale([8, 8, 9], [8, 9, 9, 10])), "degree": rng.choice([4, 5, 6, 7])}[sub]
            cases.append({"seed": rng.randrange(10 ** 9), "nnodes": nn, "kind": "big", "sub": sub, "ints": False, "share": False})
        # [/str6-C04]
        # [str7-C04] networks grown through add_parent_to_root with queries / rejected calls in between, and pairs of related states
        # (oracle only; drawn AFTER everything above, which therefore stays what it was)
        ng = ctx.scale(36, 400) * budget_scale
        cases += [{"seed": rng.randrange(10 ** 9), "nnodes": rng.choice([1, 2, 3, 3, 4, 4, 5, 5, 6, 7]), "kind": "grown", "ints": False, "share": False} for j in range(ng)]
        npair = ctx.scale(40, 480) * budget_scale
        pk = ["phase", "rot", "perturb", "tiny", "copy", "phase", "same", "self", "rot", "tiny"]
        cases += [{"seed": rng.randrange(10 ** 9), "nnodes": rng.choice([1, 2, 2, 3, 3, 4, 4, 5, 6, 7]), "kind": "pairs", "sub": pk[j % len(pk)],
                   "ints": False, "share": False} for j in range(npair)]
        # [/str7-C04]
        return cases

    def nontrivial(self, case):
        return case["nnodes"] >= 2

    def distribution(self, cases):
        c = Counter()
        for x in cases:
            c[x["kind"]] += 1
            if x["kind"] == "scale":
                c[f"scale:{x.get('sub')}"] += 1
            if x["kind"] == "big":
                c[f"big:{x.get('sub')}"] += 1
            if x["kind"] == "pairs":
                c[f"pairs:{x.get('sub')}"] += 1
            c[f"nodes={x['nnodes']}"] += 1
        return dict(c)

    # ------------------------------------------------------------------------------------------
    def _build(self, rng, parents, open_dims, bond, cls, ints, seed, share=False):
        drv = Driver(ttn_cls=cls, nprs=np.random.RandomState(seed % (2 ** 31)), ints=1 if ints else None, share=share)
        ops = gen_build_on(rng, parents, open_dims, bond)
        for op in ops:
            ok, err = drv.apply(op)
            if not ok:
                raise RuntimeError(f"build failed: {op}: {err}")
        return drv, ops

    def _run_case(self, case):
        rng = random.Random(case["seed"])
        n = case["nnodes"]
        if case["kind"] == "big":      # [str6-C04]
            return self._run_big(case, rng)
        if case["kind"] == "grown":    # [str7-C04]
            return self._run_grown(case, rng)
        parents = [None] + [rng.randrange(0, i) for i in range(1, n)]
        phys = [rng.choice([1, 2, 2, 3]) for _ in range(n)]
        bond = {i: rng.choice([1, 2, 2, 3]) for i in range(1, n)}
        kind = case["kind"]
        ids = [f"n{i}" for i in range(n)]
        dims = {f"n{i}": phys[i] for i in range(n)}
        # "shared": nodes with equal tensor shapes hold the SAME ndarray object (as product-state
        # constructors do); the network is handed to the library without any prior tensor access,
        # so the dense references are computed on deep copies
        share = bool(case.get("share"))
        if share:
            phys = [2] * n
            bond = {i: 2 for i in range(1, n)}
            dims = {f"n{i}": 2 for i in range(n)}
        ket, kops = self._build(rng, parents, [[d] for d in phys], bond, TTNS, case["ints"], case["seed"], share=share)
        # [str-C04]
        if kind == "hist":
            return self._run_hist(case, rng, ket.ttn, ids, dims)
        if kind == "ohist":
            bond3 = {i: rng.choice([1, 2, 2]) for i in range(1, n)}
            op, _ = self._build(rng, parents, [[d, d] for d in phys], bond3, TTNO, case["ints"], case["seed"] + 2)
            return self._run_ohist(case, rng, ket.ttn, op.ttn, ids)
        # [/str-C04]
        # [str5-C04]
        if kind == "scale":
            bond2 = {i: rng.choice([1, 2, 3]) for i in range(1, n)}
            bra, _ = self._build(rng, parents, [[d] for d in phys], bond2, TTNS, False, case["seed"] + 1)
            bond3 = {i: rng.choice([1, 2, 2]) for i in range(1, n)}
            op, _ = self._build(rng, parents, [[d, d] for d in phys], bond3, TTNO, False, case["seed"] + 2)
            return self._run_scale(case, rng, ket.ttn, bra.ttn, op.ttn, ids, dims)
        # [/str5-C04]
        if kind == "pairs":            # [str7-C04]
            return self._run_pairs(case, rng, ket.ttn, kops, ids, dims)
        psi = util.dense_vec(copy.deepcopy(ket.ttn), ids)
        ob = {"kind": kind, "kops": kops, "katoms": ket.atoms}
        if kind == "two":
            bond2 = {i: rng.choice([1, 2, 3]) for i in range(1, n)}
            if share:
                bond2 = {i: 2 for i in range(1, n)}
            bra, bops = self._build(rng, parents, [[d] for d in phys], bond2, TTNS, case["ints"], case["seed"] + 1, share=share)
            phi = util.dense_vec(copy.deepcopy(bra.ttn), ids)
            ob["bops"] = bops
            ob["batoms"] = bra.atoms
            ob["value"] = complex(copy.deepcopy(ket.ttn).scalar_product(copy.deepcopy(bra.ttn)))
            ob["dense"] = complex(np.vdot(phi, psi))
            # conjugate-linearity in the argument
            bra2 = copy.deepcopy(bra.ttn)
            for k in list(bra2.nodes):
                bra2.tensors[k] = bra2.tensors[k] * (2 + 1j)
                break
            ob["value_scaled"] = complex(copy.deepcopy(ket.ttn).scalar_product(bra2))
            ob["dense_scaled"] = complex(np.conj(2 + 1j) * np.vdot(phi, psi))
            ob["selfprod"] = complex(copy.deepcopy(ket.ttn).scalar_product())
            ob["dense_self"] = complex(np.vdot(psi, psi))
        elif kind == "ttno":
            bond3 = {i: rng.choice([1, 2, 2]) for i in range(1, n)}
            op, oops = self._build(rng, parents, [[d, d] for d in phys], bond3, TTNO, case["ints"], case["seed"] + 2)
            ob["oops"] = oops
            ob["oatoms"] = op.atoms
            O = util.dense_ttno(op.ttn, ids)
            ob["value"] = complex(copy.deepcopy(ket.ttn).operator_expectation_value(copy.deepcopy(op.ttn)))
            ob["dense"] = complex(np.vdot(psi, O @ psi))
            # canonical gauge must not change it
            kc = copy.deepcopy(ket.ttn)
            kc.canonical_form(rng.choice(ids))
            ob["value_canon"] = complex(kc.operator_expectation_value(copy.deepcopy(op.ttn)))
        elif kind == "tp":
            nprs = np.random.RandomState(case["seed"] % (2 ** 31))
            k = rng.randrange(0, n + 1)
            sites = rng.sample(ids, k)
            mats = {s: nprs.standard_normal((dims[s], dims[s])) + 1j * nprs.standard_normal((dims[s], dims[s])) for s in sites}
            dense = complex(np.vdot(psi, util.dense_tp(mats, ids, dims) @ psi))
            ob["nsites"] = k
            ob["dense"] = dense
            ob["value"] = complex(copy.deepcopy(ket.ttn).operator_expectation_value(TensorProduct(dict(mats))))
            kc = copy.deepcopy(ket.ttn)
            centre = sites[0] if sites else rng.choice(ids)
            kc.canonical_form(centre)
            ob["value_centre"] = complex(kc.operator_expectation_value(TensorProduct(dict(mats))))
            if k >= 1:
                ob["value_single"] = complex(kc.single_site_operator_expectation_value(centre, mats[centre]))
                ob["dense_single"] = complex(np.vdot(psi, util.dense_tp({centre: mats[centre]}, ids, dims) @ psi))
            # [ext-C04W] data for the model tie of tensor_product_expectation_value (Contr/TensorProd.v): the factors in
            # dict order, and the SHORTCUT code paths run on the un-canonicalised state with the centre attribute forced
            # (what they compute is the local diagram whatever the gauge; the model diagram must have that value)
            ob["sites"] = list(sites)
            ob["mats"] = {s_: mats[s_] for s_ in sites}
            ob["site_dims"] = {s_: dims[s_] for s_ in sites}
            ob["forced_centre"] = centre
            fc = copy.deepcopy(ket.ttn)
            fc.orthogonality_center_id = centre
            ob["value_forced_norm"] = complex(fc.scalar_product())
            fc = copy.deepcopy(ket.ttn)
            fc.orthogonality_center_id = centre
            ob["value_forced_tp"] = complex(fc.operator_expectation_value(TensorProduct(dict(mats))))
            ob["forced_op"] = mats[centre] if k >= 1 else nprs.standard_normal((dims[centre], dims[centre])) + 0j
            fc = copy.deepcopy(ket.ttn)
            fc.orthogonality_center_id = centre
            ob["value_forced_single"] = complex(fc.single_site_operator_expectation_value(centre, ob["forced_op"]))
            # [/ext-C04W]
        elif kind == "norm":
            t = copy.deepcopy(ket.ttn)
            try:
                ob["value"] = float(t.norm())
            except AssertionError as e:
                ob["norm_error"] = f"AssertionError: {e}"
            ob["dense"] = float(np.sqrt(np.vdot(psi, psi).real))
            kc = copy.deepcopy(ket.ttn)
            kc.canonical_form(rng.choice(ids))
            try:
                ob["value_canon"] = float(kc.norm())
            except AssertionError as e:
                ob["norm_error"] = f"AssertionError (canonical): {e}"
        elif kind == "asmat":
            bond3 = {i: rng.choice([1, 2, 2]) for i in range(1, n)}
            op, oops = self._build(rng, parents, [[d, d] for d in phys], bond3, TTNO, case["ints"], case["seed"] + 2)
            m, order = copy.deepcopy(op.ttn).as_matrix()
            # independent: einsum, rows = outputs (first open leg) in `order`, columns = inputs in `order`
            full = util.dense_ttn(op.ttn, order)     # axes out0,in0,out1,in1,... in `order`
            nn = len(order)
            ref = full.transpose([2 * j for j in range(nn)] + [2 * j + 1 for j in range(nn)])
            rows = int(np.prod(ref.shape[:nn]))
            ob["asmat_ok"] = bool(m.shape == (rows, rows) and np.allclose(m, ref.reshape(rows, rows)))
            ob["order"] = order
            ob["preorder"] = self._preorder(op.ttn)
            # [ext-C04W] data for the model tie of completely_contract_tree / as_matrix (Contr/TensorProd.v)
            ob["oops"] = oops
            ob["oatoms"] = op.atoms
            ob["matrix"] = m
            # [/ext-C04W]
        return ob

    # [str-C04] ------------------------------------------------------------------------------------
    # Set to True once the lead has decided about the finding "an edit off the recorded centre leaves
    # orthogonality_center_id behind" (then the state is probed after EVERY step of a history).
    # apply_operator / absorb_into_open_legs off the centre forget the centre (repo fix defae9f) and are always probed;
    # replace_tensor off the centre still keeps the record (known finding): probed and attributed to STALE_ID;
    # raw dictionary assignment and in-place numpy writes bypass the API and are only probed after the next canonical_form
    PROBE_STALE_CENTRE = True
    STALE_ID = "C04-stale-centre-after-replace-tensor"

    @staticmethod
    def _crand(nprs, shape, ints):
        if ints:
            return (nprs.randint(-2, 3, size=shape) + 1j * nprs.randint(-2, 3, size=shape)).astype(complex)
        return nprs.standard_normal(shape) + 1j * nprs.standard_normal(shape)

    def _probe(self, ttn, ids, dims, rng, nprs, label, stale, out):
        """every observable of the property on the LIVE object against the dense vector of its current tensors"""
        psi = util.dense_vec(copy.deepcopy(ttn), ids)
        nn = complex(np.vdot(psi, psi))
        centre = ttn.orthogonality_center_id

        def rec(q, value, ref):
            out.append({"step": label, "q": q, "value": value, "dense": ref, "stale": stale, "centre": centre})
        try:
            rec("norm()", complex(ttn.norm()), complex(np.sqrt(nn.real)))
            rec("scalar_product()", complex(ttn.scalar_product()), nn)
            rec("scalar_product(use_orthogonal_center=False)", complex(ttn.scalar_product(use_orthogonal_center=False)), nn)
            site = centre if centre is not None else rng.choice(ids)
            a = nprs.standard_normal((dims[site],) * 2) + 1j * nprs.standard_normal((dims[site],) * 2)
            ref = complex(np.vdot(psi, util.dense_tp({site: a}, ids, dims) @ psi))
            rec(f"single_site_operator_expectation_value({site})", complex(ttn.single_site_operator_expectation_value(site, a)), ref)
            rec(f"operator_expectation_value(TensorProduct on {site})", complex(ttn.operator_expectation_value(TensorProduct({site: a}))), ref)
            sites = rng.sample(ids, rng.randrange(0, min(2, len(ids)) + 1))
            mats = {s_: nprs.standard_normal((dims[s_],) * 2) + 1j * nprs.standard_normal((dims[s_],) * 2) for s_ in sites}
            rec(f"operator_expectation_value(TensorProduct on {sites})", complex(ttn.operator_expectation_value(TensorProduct(dict(mats)))),
                complex(np.vdot(psi, util.dense_tp(mats, ids, dims) @ psi)))
        except Exception as e:  # noqa
            out.append({"step": label, "q": "raised", "error": f"{type(e).__name__}: {e}", "stale": stale, "centre": centre})

    def _run_hist(self, case, rng, ttn, ids, dims):
        """one TTNS object through a random call sequence; probed wherever the library has (re)established the gauge"""
        nprs = np.random.RandomState((case["seed"] + 7) % (2 ** 31))
        ints = case["ints"]
        probes, trace = [], []
        dirty = False       # a tensor OFF the recorded centre was edited since the last canonical_form
        dirty_how = set()   # ... and through which entry points
        self._probe(ttn, ids, dims, rng, nprs, "initial", False, probes)
        nsteps = rng.randrange(2, 7)
        for j in range(nsteps):
            centre = ttn.orthogonality_center_id
            menu = ["canon", "canon", "edit", "edit", "edit"] + (["move", "ensure", "canon_same"] if centre is not None else ["ensure"])
            if dirty:
                menu += ["canon", "canon_same"]
            what = rng.choice(menu)
            if what in ("canon", "canon_same"):
                node = centre if (what == "canon_same" and centre is not None) else rng.choice(ids)
                mode = rng.choice(["reduced", "reduced", "reduced", "full"])
                ttn.canonical_form(node, mode=wmodel.MODES[mode])
                dirty = False
                dirty_how = set()
                trace.append(["canonical_form", node, mode])
            elif what == "move":
                node = rng.choice(ids)
                ttn.move_orthogonalization_center(node)
                trace.append(["move_orthogonalization_center", node])
            elif what == "ensure":
                node = rng.choice(ids)
                ttn.ensure_orth_center(node)
                trace.append(["ensure_orth_center", node])
            else:
                how = rng.choice(["apply", "apply", "replace", "assign", "scale"])
                if how == "apply":
                    sites = rng.sample(ids, rng.randrange(1, min(2, len(ids)) + 1))
                    # far from unitary: the gauge of the touched nodes is destroyed
                    mats = {s_: self._crand(nprs, (dims[s_],) * 2, ints) + 2 * np.eye(dims[s_]) for s_ in sites}
                    ttn.apply_operator(TensorProduct(mats))
                else:
                    sites = [rng.choice(ids)]
                    shape = ttn.tensors[sites[0]].shape
                    if how == "replace":
                        ttn.replace_tensor(sites[0], self._crand(nprs, shape, ints))
                    elif how == "assign":
                        ttn.tensors[sites[0]] = self._crand(nprs, shape, ints)
                    else:
                        ttn.tensors[sites[0]] *= (1.5 - 0.5j)
                if centre is not None and any(s_ != centre for s_ in sites):
                    dirty = True
                    dirty_how.add(how)
                trace.append([how, sites])
            stale = dirty and ttn.orthogonality_center_id is not None
            if not stale or (self.PROBE_STALE_CENTRE and dirty_how <= {"replace", "apply"}):
                self._probe(ttn, ids, dims, rng, nprs, f"after step {j} {trace[-1]}", stale, probes)
        return {"kind": "hist", "trace": trace, "probes": probes}

    def _run_ohist(self, case, rng, ket, ttno, ids):
        """one TTNO object: as_matrix() / expectation value, new tensor VALUES with unchanged shapes, again"""
        nprs = np.random.RandomState((case["seed"] + 11) % (2 ** 31))
        ints = case["ints"]
        psi = util.dense_vec(copy.deepcopy(ket), ids)
        probes, trace = [], []
        rounds = rng.randrange(2, 5)
        for r in range(rounds):
            label = f"round {r} (after {trace[-1] if trace else 'construction'})"
            try:
                m, order = ttno.as_matrix()
                full = util.dense_ttn(copy.deepcopy(ttno), order)     # axes out0,in0,out1,in1,... in `order`
                nn = len(order)
                ref = full.transpose([2 * j for j in range(nn)] + [2 * j + 1 for j in range(nn)])
                rows = int(np.prod(ref.shape[:nn]))
                ref = ref.reshape(rows, rows)
                ok = bool(m.shape == ref.shape and np.allclose(m, ref, rtol=1e-9, atol=1e-9))
                probes.append({"step": label, "q": "as_matrix()", "ok": ok, "order": order, "preorder": self._preorder(ttno),
                               "maxdev": float(np.max(np.abs(m - ref))) if m.shape == ref.shape else None})
                O = util.dense_ttno(copy.deepcopy(ttno), ids)
                probes.append({"step": label, "q": "operator_expectation_value(TTNO)", "value": complex(ket.operator_expectation_value(ttno)),
                               "dense": complex(np.vdot(psi, O @ psi))})
                if rng.random() < 0.5:
                    # the caller goes on computing with the matrix it was handed
                    m *= 0
                    trace.append(["caller overwrites the returned matrix in place"])
            except Exception as e:  # noqa
                probes.append({"step": label, "q": "raised", "error": f"{type(e).__name__}: {e}"})
                break
            how = rng.choice(["replace", "assign", "scale", "index", "copy+replace", "none"])
            node = rng.choice(ids)
            if how == "copy+replace":
                ttno = copy.deepcopy(ttno)
            shape = ttno.tensors[node].shape
            if how in ("replace", "copy+replace"):
                ttno.replace_tensor(node, self._crand(nprs, shape, ints))
            elif how == "assign":
                ttno.tensors[node] = self._crand(nprs, shape, ints)
            elif how == "scale":
                ttno.tensors[node] *= (0.5j)
            elif how == "index":
                # what TimeDependentTTNO.update does: entries of a node tensor are overwritten in place
                t = ttno.tensors[node]
                t[(0,) * t.ndim] += 3.0 - 1.0j
                ttno.tensors[node] = t
            trace.append([how, node])
        return {"kind": "ohist", "trace": trace, "probes": probes}
    # [/str-C04] -----------------------------------------------------------------------------------

    # [str5-C04] -----------------------------------------------------------------------------------
    # Badly scaled / tiny / huge / (nearly) orthogonal inputs.  The property text quantifies over ALL complex tensors and
    # "whatever the gauges": multiplying node tensors by factors c_i leaves the represented vector (times prod c_i) what it
    # is, however the factors are spread over the nodes.  Every quantity is judged against the dense einsum of the CURRENT
    # tensors with a tolerance RELATIVE to the natural scale of the reference (Cauchy-Schwarz bound of the quantity).
    RTOL = 1e-9
    RTOL_NEAR = 1e-12      # nearly orthogonal pairs: the value is ~eps * scale, eps down to 3e-10

    @staticmethod
    def _factors(rng, n, sub):
        """per-node scale factors; `gauge`/`pow2`: product 1 (up to rounding), `overall`: product 10^[-30,30]"""
        spreads = [s_ for s_ in (3, 5, 6, 7, 8, 10, 12) if s_ * max(n - 1, 1) <= 40]
        spread = rng.choice(spreads)
        j = rng.randrange(n)
        if sub == "pow2":
            ex = [rng.randrange(-3 * spread, 3 * spread + 1) for _ in range(n)]
            if n >= 2:
                ex[j] = -(sum(ex) - ex[j])
            return [complex(2.0 ** e) for e in ex], spread
        fac = [10.0 ** rng.uniform(-spread, spread) for _ in range(n)]
        if rng.random() < 0.35 and n >= 2:
            # the shape of "one tensor tiny, one huge, the rest untouched"
            fac = [1.0] * n
            fac[rng.choice([i for i in range(n) if i != j])] = 10.0 ** rng.choice([-1, 1]) * 10.0 ** rng.uniform(-spread, spread)
        if rng.random() < 0.4:
            fac = [f * np.exp(1j * rng.uniform(0, 2 * np.pi)) for f in fac]
        rest = complex(np.prod([f for i, f in enumerate(fac) if i != j])) if n >= 2 else 1.0
        total = 1.0 if (sub == "gauge" and n >= 2) else 10.0 ** rng.uniform(-30, 30)
        fac[j] = total / rest
        return [complex(f) for f in fac], spread

    @staticmethod
    def _rescale(rng, ttn, ids, fac):
        for k, f in zip(ids, fac):
            if f.imag == 0:
                f = f.real
            t = ttn.tensors[k] * f
            if rng.random() < 0.5:
                ttn.tensors[k] = t
            else:
                ttn.replace_tensor(k, t)

    def _run_scale(self, case, rng, ket, bra, op, ids, dims):
        from pytreenet.contractions.state_state_contraction import contract_two_ttns
        from pytreenet.contractions.state_operator_contraction import expectation_value
        nprs = np.random.RandomState((case["seed"] + 13) % (2 ** 31))
        sub = case.get("sub", "gauge")
        n = len(ids)
        info = {"sub": sub}
        rtol = self.RTOL
        if sub in ("ortho", "near"):
            cand = [k for k in ids if dims[k] >= 2]
            if not cand:
                sub = "gauge"
                info["sub"] = "gauge (no site of dimension >= 2)"
            else:
                x = rng.choice(cand)
                kt = np.array(ket.tensors[x], dtype=complex)
                bt = np.array(bra.tensors[x], dtype=complex)
                kt[..., 1:] = 0
                eps = 0.0
                if sub == "near":
                    eps = 10.0 ** rng.uniform(-9.5, -6)
                    bt[..., 0] *= eps
                    rtol = self.RTOL_NEAR
                else:
                    bt[..., 0] = 0
                ket.tensors[x] = kt
                bra.tensors[x] = bt
                info.update({"node": x, "eps": eps})
        if sub in ("gauge", "overall", "pow2"):
            kf, spread = self._factors(rng, n, sub)
            bf, _ = self._factors(rng, n, sub)
            of, _ = self._factors(rng, n, sub)
            self._rescale(rng, ket, ids, kf)
            self._rescale(rng, bra, ids, bf)
            self._rescale(rng, op, ids, of)
            info.update({"spread": spread, "ket_log10": [round(float(np.log10(abs(f))), 2) for f in kf],
                         "bra_log10": [round(float(np.log10(abs(f))), 2) for f in bf],
                         "op_log10": [round(float(np.log10(abs(f))), 2) for f in of]})
        psi = util.dense_vec(copy.deepcopy(ket), ids)
        phi = util.dense_vec(copy.deepcopy(bra), ids)
        O = util.dense_ttno(copy.deepcopy(op), ids)
        npsi, nphi = float(np.linalg.norm(psi)), float(np.linalg.norm(phi))
        nO = float(np.linalg.norm(O, 2))
        probes = []
        if not all(np.isfinite(v) and v > 0 for v in (npsi, nphi, nO)):
            raise RuntimeError(f"harness: degenerate reference norms {npsi} {nphi} {nO}")

        def rec(q, fun, ref, scale, rt=None):
            try:
                val = complex(fun())
            except Exception as e:  # noqa
                probes.append({"q": q, "error": f"{type(e).__name__}: {e}"})
                return
            probes.append({"q": q, "value": val, "dense": complex(ref), "scale": float(scale), "rtol": rt or rtol})

        ip = np.vdot(phi, psi)
        rec("ket.scalar_product(bra)", lambda: copy.deepcopy(ket).scalar_product(copy.deepcopy(bra)), ip, npsi * nphi)
        rec("bra.scalar_product(ket)", lambda: copy.deepcopy(bra).scalar_product(copy.deepcopy(ket)), np.conj(ip), npsi * nphi)
        rec("contract_two_ttns(ket, bra.conjugate())", lambda: contract_two_ttns(copy.deepcopy(ket), copy.deepcopy(bra).conjugate()), ip, npsi * nphi)
        z = complex(10.0 ** rng.uniform(-8, 8) * np.exp(1j * rng.uniform(0, 2 * np.pi)))
        b2 = copy.deepcopy(bra)
        kk = rng.choice(ids)
        b2.tensors[kk] = b2.tensors[kk] * z
        rec(f"ket.scalar_product(bra with node {kk} times {z})", lambda: copy.deepcopy(ket).scalar_product(b2), np.conj(z) * ip, abs(z) * npsi * nphi)
        for nm, st, vec, nv in (("ket", ket, psi, npsi), ("bra", bra, phi, nphi)):
            rec(f"{nm}.norm()", lambda: copy.deepcopy(st).norm(), nv, nv, self.RTOL)
            rec(f"{nm}.scalar_product()", lambda: copy.deepcopy(st).scalar_product(), nv ** 2, nv ** 2, self.RTOL)
            rec(f"{nm}.scalar_product(use_orthogonal_center=False)", lambda: copy.deepcopy(st).scalar_product(use_orthogonal_center=False), nv ** 2, nv ** 2, self.RTOL)
        ev = np.vdot(psi, O @ psi)
        rec("ket.operator_expectation_value(TTNO)", lambda: copy.deepcopy(ket).operator_expectation_value(copy.deepcopy(op)), ev, npsi ** 2 * nO, self.RTOL)
        rec("expectation_value(ket, TTNO)", lambda: expectation_value(copy.deepcopy(ket), copy.deepcopy(op)), ev, npsi ** 2 * nO, self.RTOL)
        sites = rng.sample(ids, rng.randrange(0, min(3, n) + 1))
        mats = {s_: (nprs.standard_normal((dims[s_],) * 2) + 1j * nprs.standard_normal((dims[s_],) * 2)) * 10.0 ** rng.uniform(-8, 8) for s_ in sites}
        tpd = util.dense_tp(mats, ids, dims)
        tps = npsi ** 2 * float(np.prod([np.linalg.norm(m_, 2) for m_ in mats.values()])) if mats else npsi ** 2
        tpv = np.vdot(psi, tpd @ psi)
        rec(f"ket.operator_expectation_value(TensorProduct on {sites})", lambda: copy.deepcopy(ket).operator_expectation_value(TensorProduct(dict(mats))), tpv, tps, self.RTOL)
        # the same state in a canonical gauge: shortcuts
        centre = sites[0] if sites and rng.random() < 0.6 else rng.choice(ids)
        mode = rng.choice(["reduced", "reduced", "full"])
        kc = copy.deepcopy(ket)
        try:
            kc.canonical_form(centre, mode=wmodel.MODES[mode])
        except Exception as e:  # noqa
            probes.append({"q": f"canonical_form({centre}, {mode})", "error": f"{type(e).__name__}: {e}"})
            kc = None
        if kc is not None:
            tag = f"after canonical_form({centre}, {mode}): "
            rec(tag + "norm()", lambda: kc.norm(), npsi, npsi, self.RTOL)
            rec(tag + "scalar_product()", lambda: kc.scalar_product(), npsi ** 2, npsi ** 2, self.RTOL)
            rec(tag + "scalar_product(use_orthogonal_center=False)", lambda: kc.scalar_product(use_orthogonal_center=False), npsi ** 2, npsi ** 2, self.RTOL)
            rec(tag + "scalar_product(bra)", lambda: kc.scalar_product(copy.deepcopy(bra)), ip, npsi * nphi)
            a = (nprs.standard_normal((dims[centre],) * 2) + 1j * nprs.standard_normal((dims[centre],) * 2)) * 10.0 ** rng.uniform(-8, 8)
            sref = np.vdot(psi, util.dense_tp({centre: a}, ids, dims) @ psi)
            ssc = npsi ** 2 * float(np.linalg.norm(a, 2))
            rec(tag + f"single_site_operator_expectation_value({centre})", lambda: kc.single_site_operator_expectation_value(centre, a), sref, ssc, self.RTOL)
            rec(tag + f"operator_expectation_value(TensorProduct on [{centre}])", lambda: kc.operator_expectation_value(TensorProduct({centre: a})), sref, ssc, self.RTOL)
            rec(tag + f"operator_expectation_value(TensorProduct on {sites})", lambda: kc.operator_expectation_value(TensorProduct(dict(mats))), tpv, tps, self.RTOL)
            rec(tag + "operator_expectation_value(TTNO)", lambda: kc.operator_expectation_value(copy.deepcopy(op)), ev, npsi ** 2 * nO, self.RTOL)
        # as_matrix of the (badly scaled) operator, entrywise relative to its largest entry
        try:
            m, order = copy.deepcopy(op).as_matrix()
            full = util.dense_ttn(copy.deepcopy(op), order)
            nn = len(order)
            ref = full.transpose([2 * j for j in range(nn)] + [2 * j + 1 for j in range(nn)])
            rows = int(np.prod(ref.shape[:nn]))
            ref = ref.reshape(rows, rows)
            top = float(np.max(np.abs(ref)))
            dev = float(np.max(np.abs(m - ref))) if m.shape == ref.shape else float("inf")
            probes.append({"q": "TTNO.as_matrix() (max entrywise deviation)", "value": complex(dev), "dense": 0j, "scale": top, "rtol": self.RTOL})
        except Exception as e:  # noqa
            probes.append({"q": "TTNO.as_matrix()", "error": f"{type(e).__name__}: {e}"})
        return {"kind": "scale", "info": info, "probes": probes}
    # [/str5-C04] ----------------------------------------------------------------------------------

    # [str6-C04] -----------------------------------------------------------------------------------
    # LARGE instances.  The property text quantifies over all trees and all bond dimensions; nothing in it is restricted to
    # the small tensors the other families use.  Three sub-families, all oracle only: big bonds (a node tensor with its
    # child blocks attached reaches 2^10..2^16 entries, the three networks having different bonds on every edge), many
    # nodes, and high-degree nodes with pairwise different bonds.  Reference: einsum with an optimised path on the current
    # tensors (util.dense_ttn has no path optimisation and is unusable for big bonds).
    BIG_DIM = 1024          # largest dimension of the full vector

    @staticmethod
    def _dense_net(ttn, ids):
        """full contraction of a tree network; open legs ordered by `ids`, several open legs of a node in node order"""
        ttn = copy.deepcopy(ttn)
        lab, args, out, nxt = {}, [], [], [0]

        def new():
            nxt[0] += 1
            return nxt[0] - 1
        for k in ids:
            node = ttn.nodes[k]
            t = ttn.tensors[k]
            sub = []
            if not node.is_root():
                sub.append(lab.setdefault((node.parent, k), new() if (node.parent, k) not in lab else None))
            for c in node.children:
                sub.append(lab.setdefault((k, c), new() if (k, c) not in lab else None))
            ol = [new() for _ in range(node.nopen_legs())]
            sub += ol
            out += ol
            assert len(sub) == t.ndim
            args += [t, sub]
        return np.einsum(*args, out, optimize="greedy")

    def _dense_op(self, ttno, ids):
        t = self._dense_net(ttno, ids)
        n = len(ids)
        t = t.transpose([2 * j for j in range(n)] + [2 * j + 1 for j in range(n)])
        d = int(np.prod(t.shape[:n]))
        return t.reshape(d, d)

    @staticmethod
    def _big_tree(rng, n, sub):
        if sub == "degree":
            # a node with 3..n-1 children: the root, or the only child of the root
            deg = rng.randrange(3, min(6, n - 1) + 1)
            below = rng.random() < 0.5 and n - 2 >= 3
            if below:
                deg = min(deg, n - 2)
                parents = [None, 0] + [1] * deg
            else:
                parents = [None] + [0] * deg
            while len(parents) < n:
                parents.append(rng.randrange(0, len(parents)))
            return parents, (1 if below else 0)
        shape = rng.choice(["random", "random", "hub", "hub", "star", "chain", "binary"]) if sub == "bonds" else rng.choice(["random", "random", "binary", "chain"])
        if shape == "hub" and n >= 4:
            parents = [None, 0] + [rng.choice([1, 1, 1, rng.randrange(0, i)]) for i in range(2, n)]
        elif shape == "star":
            parents = [None] + [0] * (n - 1)
        elif shape == "chain":
            parents = [None] + list(range(n - 1))
        elif shape == "binary":
            parents = [None] + [(i - 1) // 2 for i in range(1, n)]
        else:
            parents = [None] + [rng.randrange(0, i) for i in range(1, n)]
        nch = [sum(1 for p in parents if p == i) for i in range(n)]
        inner = [i for i in range(1, n) if nch[i] >= 1]
        if inner:
            top = max(nch[i] for i in inner)
            focus = rng.choice([i for i in inner if nch[i] == top] * 3 + inner)
        else:
            focus = 0
        return parents, focus

    def _run_big(self, case, rng):
        from pytreenet.contractions.state_state_contraction import contract_two_ttns
        from pytreenet.contractions.state_operator_contraction import expectation_value
        n, sub = case["nnodes"], case["sub"]
        nprs = np.random.RandomState((case["seed"] + 17) % (2 ** 31))
        parents, focus = self._big_tree(rng, n, sub)
        children = {i: [j for j in range(1, n) if parents[j] == i] for i in range(n)}
        phys = [rng.choice([2, 2, 2, 2, 3, 1]) for _ in range(n)]
        while int(np.prod(phys)) > self.BIG_DIM:
            j = rng.choice([i for i in range(n) if phys[i] > 1])
            phys[j] -= 1
        info = {"sub": sub, "parents": parents, "phys": phys, "focus": f"n{focus}"}
        edges = range(1, n)
        if sub == "nodes":
            kb = {i: rng.choice([1, 2, 2, 3]) for i in edges}
            bb = {i: rng.choice([1, 2, 3]) for i in edges}
            ob_ = {i: rng.choice([1, 2, 2, 3]) for i in edges}
        elif sub == "degree":
            # pairwise different bonds at the high-degree node, in a random arrangement; elsewhere 1..4
            kb = {i: rng.choice([1, 2, 3, 4]) for i in edges}
            bb = {i: rng.choice([1, 2, 3, 4]) for i in edges}
            ob_ = {i: rng.choice([1, 2, 3]) for i in edges}
            ch = children[focus]
            vals = rng.sample(range(2, 2 + len(ch) + 1), len(ch))
            for c, v in zip(ch, vals):
                kb[c] = v
            how = rng.choice(["equal", "equal", "own", "same"])
            info["bra_bonds"] = how
            if how != "own":
                e = rng.choice([2, 3])
                for c, v in zip(ch, vals):
                    bb[c] = e if how == "equal" else v
            if rng.random() < 0.5:
                for c, v in zip(ch, rng.sample(range(1, 1 + len(ch) + 1), len(ch))):
                    ob_[c] = v
        else:
            flav = rng.choice(["opwide", "opwide", "statewide", "allwide", "mixed", "mixed"])
            info["flavour"] = flav
            R = {"opwide": ((2, 4), (4, 7), (5, 10), (2, 5)), "statewide": ((3, 8), (4, 9), (1, 3), (1, 3)),
                 "allwide": ((3, 6), (3, 6), (3, 6), (3, 6)), "mixed": ((1, 8), (1, 8), (1, 8), (1, 8))}[flav]
            # (state bond to the parent, state bonds to the children, operator bond to the parent, operator bonds to the children) AT the focus node;
            # other edges: the same ranges by their role relative to their own lower node
            kb = {i: rng.randint(*R[1]) for i in edges}
            ob_ = {i: rng.randint(*R[3]) for i in edges}
            if focus != 0:
                kb[focus] = rng.randint(*R[0])
                ob_[focus] = rng.randint(*R[2])
            bb = {i: rng.randint(1, 6) for i in edges}
            # size class of the ket tensor of the focus node with its child blocks attached
            target = 2 ** rng.randrange(10, 17)
            info["target"] = target
            ch = children[focus]

            def size(i):
                return (kb[i] if i else 1) * phys[i] * int(np.prod([kb[c] * ob_[c] for c in children[i]] or [1]))
            while ch and size(focus) < target:
                c = rng.choice(ch)
                if rng.random() < 0.5:
                    kb[c] += 1
                else:
                    ob_[c] += 1
            # keep the other nodes (and the bra-side blocks) affordable
            for i in range(n):
                while size(i) > (2 ** 17 if i == focus else 2 ** 13):
                    c = max(children[i], key=lambda c_: kb[c_] * ob_[c_])
                    if kb[c] >= ob_[c]:
                        kb[c] -= 1
                    else:
                        ob_[c] -= 1
            info["size"] = size(focus)
        info.update({"ket_bonds": [kb[i] for i in edges], "bra_bonds_": [bb[i] for i in edges], "op_bonds": [ob_[i] for i in edges]})
        ids = [f"n{i}" for i in range(n)]
        dims = {f"n{i}": phys[i] for i in range(n)}
        ket = self._build(rng, parents, [[d] for d in phys], kb, TTNS, False, case["seed"])[0].ttn
        bra = self._build(rng, parents, [[d] for d in phys], bb, TTNS, False, case["seed"] + 1)[0].ttn
        op = self._build(rng, parents, [[d, d] for d in phys], ob_, TTNO, False, case["seed"] + 2)[0].ttn
        psi = self._dense_net(ket, ids).reshape(-1)
        phi = self._dense_net(bra, ids).reshape(-1)
        O = self._dense_op(op, ids)
        npsi, nphi = float(np.linalg.norm(psi)), float(np.linalg.norm(phi))
        nO = float(np.linalg.norm(O, 2))
        if not all(np.isfinite(v) and v > 0 for v in (npsi, nphi, nO)):
            raise RuntimeError(f"harness: degenerate reference norms {npsi} {nphi} {nO}")
        probes = []
        rtol = self.RTOL

        def rec(q, fun, ref, scale):
            try:
                val = complex(fun())
            except Exception as e:  # noqa
                probes.append({"q": q, "error": f"{type(e).__name__}: {e}"})
                return
            probes.append({"q": q, "value": val, "dense": complex(ref), "scale": float(scale), "rtol": rtol})
        ip = np.vdot(phi, psi)
        rec("ket.scalar_product(bra)", lambda: copy.deepcopy(ket).scalar_product(copy.deepcopy(bra)), ip, npsi * nphi)
        rec("bra.scalar_product(ket)", lambda: copy.deepcopy(bra).scalar_product(copy.deepcopy(ket)), np.conj(ip), npsi * nphi)
        rec("contract_two_ttns(ket, bra.conjugate())", lambda: contract_two_ttns(copy.deepcopy(ket), copy.deepcopy(bra).conjugate()), ip, npsi * nphi)
        for nm, st, nv in (("ket", ket, npsi), ("bra", bra, nphi)):
            rec(f"{nm}.norm()", lambda: copy.deepcopy(st).norm(), nv, nv)
            rec(f"{nm}.scalar_product()", lambda: copy.deepcopy(st).scalar_product(), nv ** 2, nv ** 2)
        rec("ket.scalar_product(use_orthogonal_center=False)", lambda: copy.deepcopy(ket).scalar_product(use_orthogonal_center=False), npsi ** 2, npsi ** 2)
        ev = np.vdot(psi, O @ psi)
        rec("ket.operator_expectation_value(TTNO)", lambda: copy.deepcopy(ket).operator_expectation_value(copy.deepcopy(op)), ev, npsi ** 2 * nO)
        rec("expectation_value(ket, TTNO)", lambda: expectation_value(copy.deepcopy(ket), copy.deepcopy(op)), ev, npsi ** 2 * nO)
        rec("bra.operator_expectation_value(TTNO)", lambda: copy.deepcopy(bra).operator_expectation_value(copy.deepcopy(op)), np.vdot(phi, O @ phi), nphi ** 2 * nO)
        sites = rng.sample(ids, rng.randrange(0, min(3, n) + 1))
        mats = {s_: nprs.standard_normal((dims[s_],) * 2) + 1j * nprs.standard_normal((dims[s_],) * 2) for s_ in sites}
        tps = npsi ** 2 * float(np.prod([np.linalg.norm(m_, 2) for m_ in mats.values()])) if mats else npsi ** 2
        tpv = np.vdot(psi, util.dense_tp(mats, ids, dims) @ psi)
        rec(f"ket.operator_expectation_value(TensorProduct on {sites})", lambda: copy.deepcopy(ket).operator_expectation_value(TensorProduct(dict(mats))), tpv, tps)
        centre = rng.choice([f"n{focus}", sites[0] if sites else rng.choice(ids), rng.choice(ids)])
        mode = rng.choice(["reduced", "reduced", "full"])
        kc = copy.deepcopy(ket)
        try:
            kc.canonical_form(centre, mode=wmodel.MODES[mode])
        except Exception as e:  # noqa
            probes.append({"q": f"canonical_form({centre}, {mode})", "error": f"{type(e).__name__}: {e}"})
            kc = None
        if kc is not None:
            tag = f"after canonical_form({centre}, {mode}): "
            rec(tag + "norm()", lambda: kc.norm(), npsi, npsi)
            rec(tag + "scalar_product(use_orthogonal_center=False)", lambda: kc.scalar_product(use_orthogonal_center=False), npsi ** 2, npsi ** 2)
            rec(tag + "scalar_product(bra)", lambda: kc.scalar_product(copy.deepcopy(bra)), ip, npsi * nphi)
            a = nprs.standard_normal((dims[centre],) * 2) + 1j * nprs.standard_normal((dims[centre],) * 2)
            sref = np.vdot(psi, util.dense_tp({centre: a}, ids, dims) @ psi)
            ssc = npsi ** 2 * float(np.linalg.norm(a, 2))
            rec(tag + f"single_site_operator_expectation_value({centre})", lambda: kc.single_site_operator_expectation_value(centre, a), sref, ssc)
            rec(tag + f"operator_expectation_value(TensorProduct on {sites})", lambda: kc.operator_expectation_value(TensorProduct(dict(mats))), tpv, tps)
            rec(tag + "operator_expectation_value(TTNO)", lambda: kc.operator_expectation_value(copy.deepcopy(op)), ev, npsi ** 2 * nO)
        try:
            m, order = copy.deepcopy(op).as_matrix()
            ref = self._dense_op(op, order)
            top = float(np.max(np.abs(ref)))
            dev = float(np.max(np.abs(m - ref))) if m.shape == ref.shape else float("inf")
            probes.append({"q": f"TTNO.as_matrix() (max entrywise deviation; order {order})", "value": complex(dev), "dense": 0j, "scale": top, "rtol": rtol})
            if list(order) != self._preorder(op):
                probes.append({"q": "TTNO.as_matrix()", "error": f"contraction order {order} is not the pre-order {self._preorder(op)}"})
        except Exception as e:  # noqa
            probes.append({"q": "TTNO.as_matrix()", "error": f"{type(e).__name__}: {e}"})
        return {"kind": "big", "info": info, "probes": probes}
    # [/str6-C04] ----------------------------------------------------------------------------------

    # [str7-C04] -----------------------------------------------------------------------------------
    # Networks PRODUCED BY other public operations of the library, and pairs of RELATED states.
    # `grown`: the property text quantifies over "any two states on the same tree" / "any state and any operator": how the
    # network object came to be is not restricted to add_root + add_child_to_parent.  Here ket, bra and TTNO are each built
    # from a random START node upward and downward at once: add_root(start, with a spare open leg towards its future parent),
    # add_child_to_parent for the subtrees, add_parent_to_root for every node on the path to the final root, in a random
    # interleaving, with READ-ONLY queries on the live object between the steps (bond_dim / neighbour_dim / neighbour_index of
    # random or all edges, max_bond_dim, an attempted contraction of the unfinished network) and calls the library REJECTS
    # (bond_dim of a non-neighbour, a child with an existing identifier / a mismatching dimension / an unknown parent, a new
    # root of mismatching dimension): a rejected call must leave the network as it was and the construction continues.
    # `pairs`: the bra is not an unrelated random state but DERIVED from the ket (the same object, a deepcopy / pickle round
    # trip, a copy times 1 + eps z at one node, a copy after a rotation exp(-i eps G) through apply_operator, a copy with
    # every entry perturbed relatively by eps, eps = 10^U(-9,-3)), or an independent state with the SAME child orders and
    # shapes (ordinary scale, or both with entries ~10^-9..10^-12), optionally both in canonical form at the same centre.
    RTOL_PAIR = 1e-10

    def _grow(self, rng, nprs, cls, parents, open_dims, bond, trace, who, problems):
        from pytreenet.core.node import Node
        n = len(parents)
        names = [f"n{i}" for i in range(n)]
        children = {i: [j for j in range(1, n) if parents[j] == i] for i in range(n)}
        start = 0 if rng.random() < 0.2 else rng.randrange(n)
        ttn = cls()
        cur = {}

        def fresh(i):
            legs = ([("u", bond[i])] if parents[i] is not None else []) + [("c", j, bond[j]) for j in children[i]]
            legs += [("o", k, d) for k, d in enumerate(open_dims[i])]
            rng.shuffle(legs)
            opos = [k for k, l in enumerate(legs) if l[0] == "o"]
            for k, l in zip(opos, sorted((legs[k] for k in opos), key=lambda l_: l_[1])):
                legs[k] = l
            return legs

        def rand(legs, bump=None):
            shape = [l[-1] for l in legs]
            if bump is not None:
                shape[bump] += 1
            return self._crand(nprs, tuple(shape), False)

        def pos(legs, tag, j=None):
            return [k for k, l in enumerate(legs) if l[0] == tag and (j is None or l[1] == j)][0]

        def snap():
            return (ttn.root_id, {k: (nd.parent, list(nd.children), tuple(nd.shape)) for k, nd in ttn.nodes.items()})

        def addable():
            return [(p, j) for p in sorted(cur) for j in children[p] if j not in cur]

        def inspect():
            how = rng.choice(["edge", "edge", "edge", "node", "all", "max", "contract"])
            present = sorted(cur)
            try:
                if how == "edge":
                    cand = [(a, b) for a in present for b in present if parents[b] == a]
                    cand = cand + [(b, a) for a, b in cand]
                    if not cand:
                        return
                    a, b = rng.choice(cand)
                    f = rng.choice(["bond_dim", "neighbour_dim", "neighbour_index"])
                    trace.append([who, "inspect", f, names[a], names[b]])
                    if f == "bond_dim":
                        ttn.bond_dim(names[a], names[b])
                    else:
                        getattr(ttn.nodes[names[a]], f)(names[b])
                elif how in ("node", "all"):
                    which = [rng.choice(present)] if how == "node" else present
                    trace.append([who, "inspect", "bond_dim of every bond of", [names[a] for a in which]])
                    for a in which:
                        nd = ttn.nodes[names[a]]
                        for b in ([nd.parent] if nd.parent is not None else []) + list(nd.children):
                            ttn.bond_dim(names[a], b)
                elif how == "max":
                    trace.append([who, "inspect", "max_bond_dim"])
                    ttn.max_bond_dim()
                else:
                    # an attempted contraction of the unfinished network (extra open legs: the library may decline)
                    trace.append([who, "inspect", "completely_contract_tree(to_copy=True)"])
                    ttn.completely_contract_tree(to_copy=True)
            except Exception as e:  # noqa   (a read-only query; its outcome is not what this property judges)
                trace[-1].append(f"-> {type(e).__name__}")

        def bad():
            present = sorted(cur)
            add = addable()
            menu = ["bond_dim", "bond_dim"] + (["dup", "dim", "noparent"] if add else []) + (["parentdim", "parentdup"] if parents[root[0]] is not None else [])
            how = rng.choice(menu)
            before = snap()
            try:
                if how == "bond_dim":
                    a = rng.choice(present)
                    others = [names[j] for j in present if j != a and parents[j] != a and parents[a] != j]
                    b = rng.choice(others + ["nowhere"])
                    call = ["bond_dim", names[a], b]
                    ttn.bond_dim(names[a], b)
                elif how in ("dup", "dim", "noparent"):
                    p, j = rng.choice(add)
                    cl = fresh(j)
                    cleg, pleg = pos(cl, "u"), pos(cur[p], "c", j)
                    nid = names[rng.choice(present)] if how == "dup" else names[j]
                    pid = "nowhere" if how == "noparent" else names[p]
                    call = ["add_child_to_parent", how, nid, pid]
                    ttn.add_child_to_parent(Node(identifier=nid), rand(cl, cleg if how == "dim" else None), cleg, pid, pleg)
                else:
                    r, q = root[0], parents[root[0]]
                    ql = fresh(q)
                    qleg, rleg = pos(ql, "c", r), pos(cur[r], "u")
                    nid = names[rng.choice(present)] if how == "parentdup" else names[q]
                    t = rand(ql, qleg if how == "parentdim" else None)
                    call = ["add_parent_to_root", how, nid]
                    ttn.add_parent_to_root(rleg, Node(tensor=t, identifier=nid), t, qleg)
            except Exception as e:  # noqa
                trace.append([who, "rejected"] + call + [type(e).__name__])
                if snap() != before:
                    problems.append(f"{who}: the rejected call {call} ({type(e).__name__}) changed the network: {before} -> {snap()}")
                return True
            trace.append([who, "ACCEPTED"] + call)
            problems.append(f"{who}: the call {call}, which has no valid meaning on this network, was accepted")
            return False

        legs = fresh(start)
        ttn.add_root(Node(identifier=names[start]), rand(legs))
        cur[start] = legs
        root = [start]
        trace.append([who, "add_root", names[start], [l[-1] for l in legs]])
        extras = 0
        while True:
            add = addable()
            canpar = parents[root[0]] is not None
            if not add and not canpar:
                break
            menu = ["child"] * (3 if add else 0) + ["parent"] * (2 if canpar else 0)
            if extras < 2 * n + 2:
                menu += ["inspect", "inspect", "bad"]
            what = rng.choice(menu)
            if what == "inspect":
                extras += 1
                inspect()
            elif what == "bad":
                extras += 1
                if not bad():
                    return ttn, False
            elif what == "child":
                p, j = rng.choice(add)
                cl = fresh(j)
                cleg, pl = pos(cl, "u"), cur[p]
                pleg = pos(pl, "c", j)
                trace.append([who, "add_child_to_parent", names[j], [l[-1] for l in cl], cleg, names[p], pleg])
                ttn.add_child_to_parent(Node(identifier=names[j]), rand(cl), cleg, names[p], pleg)
                x = pl.pop(pleg)
                pl.insert(sum(1 for l in pl if l[0] in ("P", "C")), ("C", j, x[-1]))
                x = cl.pop(cleg)
                cl.insert(0, ("P", x[-1]))
                cur[j] = cl
            else:
                r, q = root[0], parents[root[0]]
                ql, rl = fresh(q), cur[r]
                qleg, rleg = pos(ql, "c", r), pos(rl, "u")
                t = rand(ql)
                trace.append([who, "add_parent_to_root", rleg, names[q], [l[-1] for l in ql], qleg])
                ttn.add_parent_to_root(rleg, Node(tensor=t, identifier=names[q]), t if rng.random() < 0.5 else t.copy(), qleg)
                x = rl.pop(rleg)
                rl.insert(0, ("P", x[-1]))
                x = ql.pop(qleg)
                ql.insert(0, ("C", r, x[-1]))
                cur[q] = ql
                root[0] = q
        return ttn, True

    def _probe_pairwise(self, ket, bra, ids, probes, tag, rtol, rng):
        """scalar products of two LIVE state objects (no copies: the argument may be the state itself) against the dense vectors"""
        from pytreenet.contractions.state_state_contraction import contract_two_ttns
        psi = self._dense_net(ket, ids).reshape(-1)
        phi = self._dense_net(bra, ids).reshape(-1)
        npsi, nphi = float(np.linalg.norm(psi)), float(np.linalg.norm(phi))
        if not all(np.isfinite(v) and v > 0 for v in (npsi, nphi)):
            raise RuntimeError(f"harness: degenerate reference norms {npsi} {nphi}")

        def rec(q, fun, ref, scale):
            try:
                val = complex(fun())
            except Exception as e:  # noqa
                probes.append({"q": tag + q, "error": f"{type(e).__name__}: {e}"})
                return
            probes.append({"q": tag + q, "value": val, "dense": complex(ref), "scale": float(scale), "rtol": rtol})
        ip = np.vdot(phi, psi)
        rec("ket.scalar_product(bra)", lambda: ket.scalar_product(bra), ip, npsi * nphi)
        rec("bra.scalar_product(ket)", lambda: bra.scalar_product(ket), np.conj(ip), npsi * nphi)
        rec("ket.scalar_product(bra, use_orthogonal_center=False)", lambda: ket.scalar_product(bra, use_orthogonal_center=False), ip, npsi * nphi)
        rec("contract_two_ttns(ket, bra.conjugate())", lambda: contract_two_ttns(ket, bra.conjugate()), ip, npsi * nphi)
        z = complex(rng.choice([2 + 1j, 1j, -1.0, 10.0 ** rng.uniform(-3, 3) * np.exp(1j * rng.uniform(0, 2 * np.pi))]))
        kk = rng.choice(ids)
        b2 = copy.deepcopy(bra)
        b2.tensors[kk] = b2.tensors[kk] * z
        rec(f"ket.scalar_product(copy of bra with node {kk} times {z})", lambda: ket.scalar_product(b2), np.conj(z) * ip, abs(z) * npsi * nphi)
        rec("ket.scalar_product(ket)", lambda: ket.scalar_product(ket), npsi ** 2, npsi ** 2)
        rec("ket.scalar_product(deepcopy(ket))", lambda: ket.scalar_product(copy.deepcopy(ket)), npsi ** 2, npsi ** 2)
        rec("bra.scalar_product(bra)", lambda: bra.scalar_product(bra), nphi ** 2, nphi ** 2)
        return psi, phi, npsi, nphi

    def _probe_single(self, st, vec, nv, op, O, nO, ids, dims, rng, nprs, probes, tag, rtol):
        """norm, <psi|psi>, TTNO and tensor-product expectation values of one LIVE state object"""
        from pytreenet.contractions.state_operator_contraction import expectation_value

        def rec(q, fun, ref, scale):
            try:
                val = complex(fun())
            except Exception as e:  # noqa
                probes.append({"q": tag + q, "error": f"{type(e).__name__}: {e}"})
                return
            probes.append({"q": tag + q, "value": val, "dense": complex(ref), "scale": float(scale), "rtol": rtol})
        rec("norm()", lambda: st.norm(), nv, nv)
        rec("scalar_product()", lambda: st.scalar_product(), nv ** 2, nv ** 2)
        rec("scalar_product(use_orthogonal_center=False)", lambda: st.scalar_product(use_orthogonal_center=False), nv ** 2, nv ** 2)
        if op is not None:
            ev = np.vdot(vec, O @ vec)
            rec("operator_expectation_value(TTNO)", lambda: st.operator_expectation_value(op), ev, nv ** 2 * nO)
            rec("expectation_value(state, TTNO)", lambda: expectation_value(st, op), ev, nv ** 2 * nO)
        sites = rng.sample(ids, rng.randrange(0, min(3, len(ids)) + 1))
        mats = {s_: nprs.standard_normal((dims[s_],) * 2) + 1j * nprs.standard_normal((dims[s_],) * 2) for s_ in sites}
        tps = nv ** 2 * float(np.prod([np.linalg.norm(m_, 2) for m_ in mats.values()])) if mats else nv ** 2
        rec(f"operator_expectation_value(TensorProduct on {sites})", lambda: st.operator_expectation_value(TensorProduct(dict(mats))),
            np.vdot(vec, util.dense_tp(mats, ids, dims) @ vec), tps)

    def _probe_matrix(self, op, probes, tag, rtol):
        try:
            m, order = op.as_matrix()
            ref = self._dense_op(op, order)
            top = float(np.max(np.abs(ref)))
            dev = float(np.max(np.abs(m - ref))) if m.shape == ref.shape else float("inf")
            probes.append({"q": tag + f"TTNO.as_matrix() (max entrywise deviation; order {order})", "value": complex(dev), "dense": 0j, "scale": top, "rtol": rtol})
            if list(order) != self._preorder(op):
                probes.append({"q": tag + "TTNO.as_matrix()", "error": f"contraction order {order} is not the pre-order {self._preorder(op)}"})
        except Exception as e:  # noqa
            probes.append({"q": tag + "TTNO.as_matrix()", "error": f"{type(e).__name__}: {e}"})

    def _run_grown(self, case, rng):
        import pickle
        n = case["nnodes"]
        nprs = np.random.RandomState((case["seed"] + 19) % (2 ** 31))
        shape = rng.choice(["random", "random", "random", "chain", "star", "hub"])
        if shape == "chain":
            parents = [None] + list(range(n - 1))
        elif shape == "star":
            parents = [None] + [0] * (n - 1)
        elif shape == "hub" and n >= 4:
            parents = [None, 0] + [rng.choice([1, 1, rng.randrange(0, i)]) for i in range(2, n)]
        else:
            parents = [None] + [rng.randrange(0, i) for i in range(1, n)]
        phys = [rng.choice([1, 2, 2, 3]) for _ in range(n)]
        kb = {i: rng.choice([1, 2, 2, 3, 4]) for i in range(1, n)}
        bb = {i: rng.choice([1, 2, 3]) for i in range(1, n)}
        ob_ = {i: rng.choice([1, 2, 2, 3]) for i in range(1, n)}
        ids = [f"n{i}" for i in range(n)]
        dims = {f"n{i}": phys[i] for i in range(n)}
        trace, problems, probes = [], [], []
        out = {"kind": "grown", "info": {"parents": parents, "phys": phys}, "trace": trace, "problems": problems, "probes": probes}
        ket, ok1 = self._grow(rng, nprs, TTNS, parents, [[d] for d in phys], kb, trace, "ket", problems)
        bra, ok2 = self._grow(rng, nprs, TTNS, parents, [[d] for d in phys], bb, trace, "bra", problems)
        op, ok3 = self._grow(rng, nprs, TTNO, parents, [[d, d] for d in phys], ob_, trace, "op", problems)
        if not (ok1 and ok2 and ok3):
            return out
        rtol = self.RTOL
        O = self._dense_op(op, ids)
        nO = float(np.linalg.norm(O, 2))
        psi, phi, npsi, nphi = self._probe_pairwise(ket, bra, ids, probes, "", rtol, rng)
        self._probe_single(ket, psi, npsi, op, O, nO, ids, dims, rng, nprs, probes, "ket: ", rtol)
        self._probe_single(bra, phi, nphi, op, O, nO, ids, dims, rng, nprs, probes, "bra: ", rtol)
        self._probe_matrix(op, probes, "", rtol)
        # objects produced from the grown ones by a copy / a pickle round trip / conjugate().conjugate()
        how = rng.choice(["deepcopy", "pickle", "conjugate twice"])
        dup = {"deepcopy": copy.deepcopy, "pickle": lambda x: pickle.loads(pickle.dumps(x)), "conjugate twice": lambda x: x.conjugate().conjugate()}[how]
        try:
            k2, o2 = dup(ket), dup(op)
        except Exception as e:  # noqa
            probes.append({"q": how, "error": f"{type(e).__name__}: {e}"})
            return out
        self._probe_single(k2, psi, npsi, o2, O, nO, ids, dims, rng, nprs, probes, f"{how} of ket / op: ", rtol)
        self._probe_matrix(o2, probes, f"{how}: ", rtol)
        # ... and the grown ket itself in a canonical gauge (centre shortcuts)
        centre = rng.choice(ids)
        mode = rng.choice(["reduced", "reduced", "full"])
        try:
            ket.canonical_form(centre, mode=wmodel.MODES[mode])
        except Exception as e:  # noqa
            probes.append({"q": f"canonical_form({centre}, {mode})", "error": f"{type(e).__name__}: {e}"})
            return out
        tag = f"ket after canonical_form({centre}, {mode}): "
        self._probe_single(ket, psi, npsi, op, O, nO, ids, dims, rng, nprs, probes, tag, rtol)
        a = nprs.standard_normal((dims[centre],) * 2) + 1j * nprs.standard_normal((dims[centre],) * 2)
        try:
            val = complex(ket.single_site_operator_expectation_value(centre, a))
            probes.append({"q": tag + f"single_site_operator_expectation_value({centre})", "value": val,
                           "dense": complex(np.vdot(psi, util.dense_tp({centre: a}, ids, dims) @ psi)), "scale": npsi ** 2 * float(np.linalg.norm(a, 2)), "rtol": rtol})
        except Exception as e:  # noqa
            probes.append({"q": tag + "single_site_operator_expectation_value", "error": f"{type(e).__name__}: {e}"})
        return out

    def _run_pairs(self, case, rng, ket, kops, ids, dims):
        import pickle
        from scipy.linalg import expm
        nprs = np.random.RandomState((case["seed"] + 23) % (2 ** 31))
        sub = case["sub"]
        n = len(ids)
        info = {"sub": sub}
        probes = []
        out = {"kind": "pairs", "info": info, "probes": probes}

        def second():
            drv = Driver(ttn_cls=TTNS, nprs=np.random.RandomState((case["seed"] + 29) % (2 ** 31)))
            for o in kops:
                ok, err = drv.apply(o)
                if not ok:
                    raise RuntimeError(f"build failed: {o}: {err}")
            return drv.ttn
        centre = None
        if sub in ("tiny", "same"):
            bra = second()
            if sub == "tiny":
                fk, fb = 10.0 ** rng.uniform(-12, -8.5), 10.0 ** rng.uniform(-12, -8.5)
                info.update({"ket_factor_per_node": fk, "bra_factor_per_node": fb})
                for k in ids:
                    ket.tensors[k] = ket.tensors[k] * fk
                    bra.tensors[k] = bra.tensors[k] * fb
        if rng.random() < 0.35:
            centre = rng.choice(ids)
            mode = rng.choice(["reduced", "reduced", "full"])
            info["canonical_form"] = [centre, mode]
            ket.canonical_form(centre, mode=wmodel.MODES[mode])
            if sub in ("tiny", "same"):
                bra.canonical_form(centre, mode=wmodel.MODES[mode])
                if any(bra.tensors[k].shape != ket.tensors[k].shape for k in ids):
                    info["note"] = "shapes differ after canonical_form"
        if sub not in ("tiny", "same"):
            eps = 10.0 ** rng.uniform(-9, -3)
            info["eps"] = eps
            x = centre if centre is not None else rng.choice(ids)       # edits at the recorded centre keep the gauge
            if sub == "self":
                bra = ket
            elif sub == "copy":
                how = rng.choice(["deepcopy", "pickle"])
                info["how"] = how
                bra = copy.deepcopy(ket) if how == "deepcopy" else pickle.loads(pickle.dumps(ket))
            else:
                bra = copy.deepcopy(ket)
                info["node"] = x
                if sub == "phase":
                    z = 1 + eps * np.exp(1j * rng.uniform(0, 2 * np.pi))
                    info["factor"] = complex(z)
                    if rng.random() < 0.5:
                        bra.tensors[x] = bra.tensors[x] * z
                    else:
                        bra.replace_tensor(x, bra.tensors[x] * z)
                elif sub == "rot":
                    g = nprs.standard_normal((dims[x],) * 2) + 1j * nprs.standard_normal((dims[x],) * 2)
                    g = g + g.conj().T
                    g /= max(float(np.linalg.norm(g, 2)), 1e-300)
                    bra.apply_operator(TensorProduct({x: expm(-1j * eps * g)}))
                else:   # perturb: every entry (of one node if a centre is recorded, else of every node) changed relatively by eps
                    for k in ([x] if centre is not None else ids):
                        t = bra.tensors[k]
                        bra.tensors[k] = t * (1 + eps * (nprs.standard_normal(t.shape) + 1j * nprs.standard_normal(t.shape)))
        self._probe_pairwise(ket, bra, ids, probes, "", self.RTOL_PAIR, rng)
        return out
    # [/str7-C04] ----------------------------------------------------------------------------------

    @staticmethod
    def _preorder(ttn):
        out = []

        def rec(x):
            out.append(x)
            for c in ttn.nodes[x].children:
                rec(c)
        rec(ttn.root_id)
        return out

    def impl(self, ctx, cases):
        out = []
        for c in cases:
            try:
                out.append(self._run_case(c))
            except Exception as e:  # noqa
                import traceback
                out.append({"exception": f"{type(e).__name__}: {e}", "tb": traceback.format_exc()[-2000:], "kind": c["kind"]})
        return out

    # ------------------------------------------------------------------------------------------
    def model(self, ctx, cases, obs):
        exprs = []
        idx = []
        self._idms = {}
        for i, ob in enumerate(obs):
            if "exception" in ob or ob["kind"] not in ("two", "ttno"):
                continue
            idm = IdMap()
            self._idms[i] = idm
            kl = coq_list([("(" + wmodel.coq_op(o, idm) + ")") for o in ob["kops"]])
            if ob["kind"] == "two":
                bl = coq_list([("(" + wmodel.coq_op(o, idm) + ")") for o in ob["bops"]])
                exprs.append(f"two_case {kl} {bl} {coq_nat_big(WOFF)} {coq_nat(AOFF)}")
            else:
                ol = coq_list([("(" + wmodel.coq_op(o, idm) + ")") for o in ob["oops"]])
                exprs.append(f"three_case {kl} {ol} {coq_nat_big(OOFF)} {coq_nat(OAOFF)} {coq_nat_big(WOFF)} {coq_nat(AOFF)}")
            idx.append(i)
        imports = "From Coq Require Import List Arith. From PTN Require Import TTN.Store Contr.Blocks Contr.Closed. Import ListNotations."
        vals = coq_eval(ctx, imports, exprs, shard=15, scope="nat_scope", timeout=600)
        # hypotheses of the universal theorems C04_two_ok_closed / C04_three_ok_closed, per instance
        hyp = []
        for i in idx:
            ob = obs[i]
            idm = self._idms[i]
            kl = coq_list([("(" + wmodel.coq_op(o, idm) + ")") for o in ob["kops"]])
            if ob["kind"] == "two":
                bl = coq_list([("(" + wmodel.coq_op(o, idm) + ")") for o in ob["bops"]])
                hyp.append(f"two_ok (fst (run empty_store {kl})) (fst (run (store_at {coq_nat(WOFF)} {coq_nat(AOFF)}) {bl}))")
            else:
                ol = coq_list([("(" + wmodel.coq_op(o, idm) + ")") for o in ob["oops"]])
                hyp.append(f"three_ok {coq_nat(WOFF)} (fst (run empty_store {kl})) (fst (run (store_at {coq_nat(OOFF)} {coq_nat(OAOFF)}) {ol}))")
        hv = coq_eval(ctx, imports, hyp, shard=40, scope="nat_scope", timeout=600)
        for i, h in zip(idx, hv):
            self._closed[0] += 1
            if h is True:
                self._closed[1] += 1
            else:
                self._closed[2].append(f"seed {cases[i]['seed']}: hypothesis checker of the closed-network theorem is not true: {h}")
        out = [None] * len(cases)
        for i, v in zip(idx, vals):
            out[i] = v
        # [ext-C04W] the model programs of Contr/TensorProd.v on the `tp` and `asmat` cases
        self._model_ext(ctx, cases, obs, out)
        # [/ext-C04W]
        return out

    # [ext-C04W] ------------------------------------------------------------------------------------
    def _model_ext(self, ctx, cases, obs, out):
        exprs, idx = [], []
        for i, ob in enumerate(obs):
            if "exception" in ob or ob["kind"] not in ("tp", "asmat"):
                continue
            idm = IdMap()
            if ob["kind"] == "tp":
                kl = coq_list([("(" + wmodel.coq_op(o, idm) + ")") for o in ob["kops"]])
                fl = coq_list([f"({coq_nat(idm(s_))}, [{coq_nat(ob['site_dims'][s_])}; {coq_nat(ob['site_dims'][s_])}])" for s_ in ob["sites"]])
                exprs.append(f"tp_case {kl} {fl} [{coq_nat(idm(ob['forced_centre']))}] {coq_nat(WOFF)} {coq_nat(AOFF)}")
            else:
                ol = coq_list([("(" + wmodel.coq_op(o, idm) + ")") for o in ob["oops"]])
                exprs.append(f"asmat_case {ol}")
            idx.append(i)
        imports = ("From Coq Require Import List Arith. From PTN Require Import TTN.Store TTN.Inv Contr.Blocks Contr.Closed "
                   "Contr.TensorProd. Import ListNotations.")
        vals = coq_eval(ctx, imports, exprs, shard=10, scope="nat_scope", timeout=600)
        for i, v in zip(idx, vals):
            out[i] = v
        # [bridge-C04] structural hypotheses of C04_canonical_norm_is_full_contraction / C04_single_site_is_full_contraction
        # (canon_hyp: wfsb, iso_check, one open leg per node, plain off-centre tensors, offsets) on the MODEL's canonical
        # form of every explored `tp` state at the centre the implementation used; an instance obligation
        cexprs, cidx = [], []
        for i, ob in enumerate(obs):
            if "exception" in ob or ob["kind"] != "tp":
                continue
            idm = IdMap()
            kl = coq_list([("(" + wmodel.coq_op(o, idm) + ")") for o in ob["kops"]])
            cexprs.append(f"canon_case {kl} {coq_nat(idm(ob['forced_centre']))} {coq_nat(WOFF)} {coq_nat(AOFF)}")
            cidx.append(i)
        cimports = ("From Coq Require Import List Arith. From PTN Require Import TTN.Store Contr.TensorProdBridge. Import ListNotations.")
        cvals = coq_eval(ctx, cimports, cexprs, shard=20, scope="nat_scope", timeout=600)
        for i, v in zip(cidx, cvals):
            self._closed[0] += 1
            if v is True:
                self._closed[1] += 1
            else:
                self._closed[2].append(f"seed {cases[i]['seed']}: canon_hyp (hypotheses of the canonical-form bridge theorems) is not true on the model's canonical form: {v}")
        # [/bridge-C04]

    def _compare_ext(self, case, ob, mo):
        if isinstance(mo, Exception):
            return f"model evaluation failed: {mo}"
        idm = IdMap()
        for o in ob.get("kops" if ob["kind"] == "tp" else "oops"):
            wmodel.coq_op(o, idm)
        m1 = wmodel.model_obs_to_py(tuple(mo[:5]), idm)
        self._closed[0] += 1
        if mo[-1] is not True:
            self._closed[2].append(f"seed {case['seed']}: {ob['kind']}: hypothesis / result checker of the universal theorem is not true")
            return f"{ob['kind']}: the per-instance checker (hypotheses of the universal theorem and the expected diagram) is false"
        self._closed[1] += 1
        tol = lambda ref: 1e-9 * max(1.0, abs(ref))
        if ob["kind"] == "asmat":
            res = lib_unsome(mo[5])
            if res is None:
                return "model: complete_contraction does not go through"
            axes, atoms, bnd, order = res
            if [idm.r[k] for k in order] != list(ob["order"]):
                return f"contraction order: model {[idm.r[k] for k in order]} vs implementation {ob['order']}"
            t = wmodel.eval_diagram({"atoms": list(atoms), "axes": list(axes)}, m1["atab"], ob["oatoms"])
            n = len(order)
            rows = int(np.prod(t.shape[:n])) if n else 1
            mat = np.asarray(t).reshape(rows, -1)
            M = np.asarray(ob["matrix"])
            if mat.shape != M.shape:
                return f"as_matrix shape {M.shape} vs model {mat.shape}"
            if case["ints"]:
                if not np.array_equal(mat, M):
                    return "as_matrix differs entrywise from the value of the model diagram (exact)"
            elif not np.allclose(mat, M, rtol=1e-9, atol=1e-9):
                return "as_matrix differs entrywise from the value of the model diagram"
            return None
        # tp
        gen, atabk, disp, normc, single, (nw, na) = mo[5], mo[6], mo[7], mo[8], mo[9], mo[10]
        tables = {a: (ob["katoms"][a], ws) for a, ws in m1["atab"].items()}
        tables.update({a + AOFF: (np.conj(ob["katoms"][a]), [w + WOFF for w in ws]) for a, ws in m1["atab"].items()})
        ftab = dict(tables)
        for j, s_ in enumerate(ob["sites"]):
            ftab[na + j] = (ob["mats"][s_], None)
        for a, ws in atabk:
            if a in ftab and ftab[a][1] is None:
                ftab[a] = (ftab[a][0], list(ws))
        def val(summ, tab, what, ref):
            summ = lib_unsome(summ)
            if summ is None:
                return f"model: {what} does not go through"
            axes, atoms, bnd, glue = summ
            if list(axes):
                return f"model: {what} leaves open axes {axes}"
            v = eval_closed((axes, atoms, bnd, glue), tab)
            if v is not None and abs(v - ref) > tol(ref):
                return f"{what}: value of the model diagram {v} differs from the implementation's {ref}"
            return None
        r = val(gen, ftab, "tensor_product_expectation_value (general path)", ob["value"])
        if r:
            return r
        # the dispatch with the forced centre: general path, or a shortcut (operator atom `na` on wires (nw, nw+1))
        stab = dict(tables)
        stab[na] = (ob["forced_op"], [nw, nw + 1])
        dtab = stab if (len(ob["sites"]) == 1 and ob["sites"][0] == ob["forced_centre"]) else ftab
        r = (val(disp, dtab, "tensor_product_expectation_value (dispatch, centre recorded)", ob["value_forced_tp"])
             or val(normc, tables, "scalar_product() at the recorded centre", ob["value_forced_norm"])
             or val(single, stab, "single_site_operator_expectation_value at the centre", ob["value_forced_single"]))
        return r
    # [/ext-C04W] -----------------------------------------------------------------------------------

    def compare(self, case, ob, mo):
        # [ext-C04W]
        if ob.get("kind") in ("tp", "asmat"):
            return self._compare_ext(case, ob, mo)
        # [/ext-C04W]
        i_idm = None
        for i, idm in self._idms.items():
            pass
        # Coq prints left-nested pairs flat: the first observation's five components come first
        o1, o2, summ = tuple(mo[:5]), mo[5], mo[6]
        idm = IdMap()
        # ids are n0..n{k-1}: rebuild a mapping in first-occurrence order of the ket ops
        for o in ob["kops"]:
            wmodel.coq_op(o, idm)
        for o in ob.get("bops", ob.get("oops", [])):
            wmodel.coq_op(o, idm)
        m1 = wmodel.model_obs_to_py(o1, idm)
        m2 = wmodel.model_obs_to_py(o2, idm)
        if summ is None:
            return "model: the block recursion does not go through (a tensordot pairs legs that cannot be paired)"
        summ = summ[1] if isinstance(summ, tuple) and summ and summ[0] == "Some" else summ
        axes, atoms, bnd, glue = summ
        # expected closed diagram
        open1 = logical_open_wires(m1)
        open2 = logical_open_wires(m2)
        if ob["kind"] == "two":
            exp_atoms = sorted(list(m1["atab"]) + list(m2["atab"]))
            exp_bnd = sorted(edge_wires(m1) + edge_wires(m2))
            exp_glue = sorted(tuple(sorted((open1[k][0], open2[k][0]))) for k in open1)
            tables = {a: (ob["katoms"][a], ws) for a, ws in m1["atab"].items()}
            tables.update({a: (np.conj(ob["batoms"][a - AOFF]), ws) for a, ws in m2["atab"].items()})
        else:
            exp_atoms = sorted(list(m1["atab"]) + list(m2["atab"]) + [a + AOFF for a in m1["atab"]])
            ew = edge_wires(m1)
            exp_bnd = sorted(ew + edge_wires(m2) + [w + WOFF for w in ew])
            exp_glue = sorted([tuple(sorted((open1[k][0], open2[k][1]))) for k in open1] +
                              [tuple(sorted((open2[k][0], open1[k][0] + WOFF))) for k in open1])
            tables = {a: (ob["katoms"][a], ws) for a, ws in m1["atab"].items()}
            tables.update({a: (ob["oatoms"][a - OAOFF], ws) for a, ws in m2["atab"].items()})
            tables.update({a + AOFF: (np.conj(ob["katoms"][a]), [w + WOFF for w in ws]) for a, ws in m1["atab"].items()})
        got = (list(axes), sorted(atoms), sorted(bnd), sorted(tuple(p) for p in glue))
        exp = ([], exp_atoms, exp_bnd, exp_glue)
        self._closed[0] += 1
        if got != exp:
            self._closed[2].append(f"seed {case['seed']}: closed diagram differs from the expected one")
            return f"model diagram {got} is not the expected closed network {exp}"
        self._closed[1] += 1
        val = eval_closed((axes, atoms, bnd, glue), tables)
        if val is not None and abs(val - ob["value"]) > 1e-9 * max(1.0, abs(val)):
            return f"value of the model diagram {val} differs from the implementation's {ob['value']}"
        return None

    def extra_obligations(self, ctx):
        n, ok, fails = self._closed
        return n, ok, fails[:5]

    def run_reset(self):
        self._closed = [0, 0, []]

    # ------------------------------------------------------------------------------------------
    def oracle(self, case, ob):
        if "exception" in ob:
            return f"raised {ob['exception']}"
        tol = lambda ref: 1e-9 * max(1.0, abs(ref))
        k = ob["kind"]
        # [str-C04]
        if k in ("hist", "ohist"):
            for pr in ob["probes"]:
                pre = "stale-centre: " if pr.get("stale") else ""
                where = f"history {ob['trace']}, probe {pr['step']}"
                if pr["q"] == "raised":
                    return f"{pre}{where}: raised {pr['error']}"
                if pr["q"] == "as_matrix()":
                    if not pr["ok"]:
                        return f"{where}: as_matrix() differs from the full contraction of the operator's current tensors (max deviation {pr['maxdev']})"
                    if pr["order"] != pr["preorder"]:
                        return f"{where}: contraction order {pr['order']} is not the pre-order {pr['preorder']}"
                    continue
                if abs(pr["value"] - pr["dense"]) > tol(pr["dense"]):
                    return f"{pre}{where} (recorded centre {pr.get('centre')}): {pr['q']} = {pr['value']} != dense {pr['dense']}"
            return None
        # [/str-C04]
        # [str5-C04]
        if k == "scale":
            for pr in ob["probes"]:
                if "error" in pr:
                    return f"scale family {ob['info']}: {pr['q']} raised {pr['error']}"
                dev = abs(pr["value"] - pr["dense"])
                if not (dev <= pr["rtol"] * pr["scale"]):
                    return (f"scale family {ob['info']}: {pr['q']} = {pr['value']} != dense {pr['dense']} "
                            f"(deviation {dev:.3e} > {pr['rtol']:g} * natural scale {pr['scale']:.3e})")
            return None
        # [/str5-C04]
        # [str6-C04]
        if k == "big":
            for pr in ob["probes"]:
                if "error" in pr:
                    return f"large instance {ob['info']}: {pr['q']} raised {pr['error']}"
                dev = abs(pr["value"] - pr["dense"])
                if not (dev <= pr["rtol"] * pr["scale"]):
                    return (f"large instance {ob['info']}: {pr['q']} = {pr['value']} != dense {pr['dense']} "
                            f"(deviation {dev:.3e} > {pr['rtol']:g} * natural scale {pr['scale']:.3e})")
            return None
        # [/str6-C04]
        # [str7-C04]
        if k in ("grown", "pairs"):
            what = (f"network grown by {ob['trace']}" if k == "grown" else f"related pair {ob['info']}")
            for msg in ob.get("problems", []):
                return f"{what}: {msg}"
            for pr in ob["probes"]:
                if "error" in pr:
                    return f"{what}: {pr['q']} raised {pr['error']}"
                dev = abs(pr["value"] - pr["dense"])
                if not (dev <= pr["rtol"] * pr["scale"]):
                    return (f"{what}: {pr['q']} = {pr['value']} != dense {pr['dense']} "
                            f"(deviation {dev:.3e} > {pr['rtol']:g} * natural scale {pr['scale']:.3e})")
            return None
        # [/str7-C04]
        if k == "norm":
            if "norm_error" in ob:
                return f"norm() raised {ob['norm_error']}"
            if abs(ob["value"] - ob["dense"]) > tol(ob["dense"]) or abs(ob["value_canon"] - ob["dense"]) > tol(ob["dense"]):
                return f"norm {ob['value']} / canonical {ob['value_canon']} != dense {ob['dense']}"
            return None
        if k == "asmat":
            if not ob["asmat_ok"]:
                return "as_matrix differs from the full contraction (rows = outputs, columns = inputs in contraction order)"
            if ob["order"] != ob["preorder"]:
                return f"contraction order {ob['order']} is not the pre-order {ob['preorder']}"
            return None
        if abs(ob["value"] - ob["dense"]) > tol(ob["dense"]):
            return f"{k}: value {ob['value']} != dense {ob['dense']}"
        if k == "two":
            if abs(ob["value_scaled"] - ob["dense_scaled"]) > tol(ob["dense_scaled"]):
                return "scalar product is not conjugate-linear in its argument"
            if abs(ob["selfprod"] - ob["dense_self"]) > tol(ob["dense_self"]):
                return "scalar_product() != <psi|psi>"
        if k == "ttno" and abs(ob["value_canon"] - ob["dense"]) > tol(ob["dense"]):
            return "TTNO expectation value depends on the gauge"
        if k == "tp":
            if abs(ob["value_centre"] - ob["dense"]) > tol(ob["dense"]):
                return f"tensor-product expectation value with centre shortcut {ob['value_centre']} != dense {ob['dense']}"
            if "value_single" in ob and abs(ob["value_single"] - ob["dense_single"]) > tol(ob["dense_single"]):
                return "single-site expectation value at the centre differs from dense"
        return None

    # [str-C04]
    def classify(self, case, what, known):
        if isinstance(what, str) and what.startswith("stale-centre: ") and self.STALE_ID in known:
            # only the quantities that go through the centre shortcut belong to the recorded finding
            if "scalar_product(use_orthogonal_center=False)" in what or "raised" in what.split(": ", 2)[-1][:12]:
                return None
            import re
            m = re.search(r"operator_expectation_value\(TensorProduct on (\[.*?\])\)", what)
            if m and m.group(1).count("'") != 2:      # zero or several sites: no centre shortcut involved
                return None
            return self.STALE_ID
        return None
    # [/str-C04]

    def impl_wrapper(self):
        pass


def lib_unsome(x):
    """parsed `option`: ("Some", v) -> v, None -> None"""
    if isinstance(x, tuple) and x and x[0] == "Some":
        return x[1] if len(x) == 2 else tuple(x[1:])
    return x


def coq_nat_big(n):
    """a nat too large for a literal: built by multiplication of small literals"""
    return coq_nat(n)


_orig_impl = C04.impl


def _impl(self, ctx, cases):
    self.run_reset()
    return _orig_impl(self, ctx, cases)


C04.impl = _impl
