"""C13 — symbolic Gaussian elimination returns an exact factorisation of its input.

Cases
  {"kind": "block", "alph": [entry, ...], "r": r, "c": c, "start": s, "count": k}
        the k matrices r x c whose row-major entries are the base-|alph| digits (least significant
        first) of s, s+1, ..., s+k-1  (exhaustive enumerations are cut into such blocks)
  {"kind": "mat", "rows": [[entry, ...], ...]}        one explicit matrix
  {"kind": "malformed", "rows": []}                   the empty matrix (both sides must reject)
  {"kind": "hist", "mats": [rows, rows, ...]}         a HISTORY: the matrices are factorised one after the other in
        one process (module state, if any, survives from call to call); every result is judged against the input
        of ITS call, and once more after the last call (a later call must not alter an earlier result)
  {"kind": "reuse", "start": rows, "steps": [[op, ...], ...]}   a history in which the caller RE-USES LIST OBJECTS: the
        library works in place and returns the very lists it was given (the reduced matrix IS the input object), so a
        caller that keeps working with what it holds feeds the same row list objects into later calls.  `start` is
        factorised after the ops of steps[0] (usually none); every further step edits what the caller holds
        (see _reuse_apply: columns / rows appended, inserted, deleted, entries overwritten in place; a new matrix
        assembled from row lists of earlier inputs / results plus new rows; the returned left / right factor taken
        as the next input and extended; a rejected call on the empty matrix in between) and factorises again.  Every
        call is judged exactly (L * M' * R == input as coefficient functions) against the caller's DEEP COPY of the
        input taken immediately before the call; the model tie compares every call with the pure model applied to
        that deep copy (recorded in the observation as "inputs").
entry = "p/q" (a Fraction) or "p/q*sym" (the tuple (Fraction(p, q), "sym")).

Tie: the triple (Op_l, reduced, Op_r) returned by the real code is flattened to a list of integers
(shapes, numerators, denominators, entry kinds, symbol numbers; Python's stray `int 0` and
`Fraction(0)` both become Num 0) and compared verbatim with `enc_result (gaussian_elimination M)`
evaluated by vm_compute.  Oracle: shapes, not-larger, entry types and the exact polynomial product
in Python Fractions, written from the property text (no model involved).

Local work-around (see report): lib.coq_eval prints/parses numerals, which costs ~100 us per
integer in coqc; this module has its own evaluator `_coq_eval_ostr` (same header, flags and work
directory) that prints digit-constructor chains (`ostr` in SGE/Model.v) and parses them with
string operations.
"""
from __future__ import annotations

import copy
import itertools
import os
import re
import subprocess
import time
from fractions import Fraction

import lib
from lib import Prop, SkipCase

lib.setup_repo_import()

SYMS = ["a", "b", "c", "d", "e", "f", "g", "h"]
# IDENTIFIER SPELLINGS. The property speaks of "a symbol": the name is an arbitrary non-empty string chosen by the
# caller (numbered couplings J, J1, J11; g, gg; x_1 ...). SPELL_ALPHS are tiny character alphabets; the symbol names
# of a "spelling" matrix are the strings of length 1..3 over ONE of them (names that are prefixes, suffixes, repetitions
# and concatenations of each other), except the strings made of digits only (those read as numbers, not as symbols).
# The names are appended to SYMS (the numbering symbol name <-> nat of the model tie; the old numbers are unchanged).
SPELL_ALPHS = ["g", "g1", "J1", "ab", "x_", "k0"]


def _spell_names(chars):
    out = []
    for n in (1, 2, 3):
        for t in itertools.product(chars, repeat=n):
            w = "".join(t)
            if not w.isdigit():
                out.append(w)
    return out


SPELL_NAMES = {A: _spell_names(A) for A in SPELL_ALPHS}
for _A in SPELL_ALPHS:
    for _w in SPELL_NAMES[_A]:
        if _w not in SYMS:
            SYMS.append(_w)
# exhaustive enumerations with multi-character names (0 first)
SPELL_BLOCK = [["0", "1", "1*g", "1*g1", "1*gg"], ["0", "1", "1*J", "1*J1", "1*J11"], ["0", "2", "1*g", "1*gg", "2*ggg"],
               ["0", "1", "1*ab", "1*a", "1*b"], ["0", "1*x", "1*x_", "1*_x", "-1*_"], ["0", "1", "1*k", "1*k0", "1*k00"]]
FULL = ["0", "1", "-1", "2", "1/2", "1*a", "2*a", "1*b", "-1/3*b"]
EXTRA = ["3", "-2/5", "5/7", "3*c", "-1*c", "1*d", "-4/3*a", "7/2*e"]
# sub-alphabets for the exhaustive 3x3 / quick 2x3 enumerations (0 always first)
SUB5 = [["0", "1", "-1", "1*a", "1*b"], ["0", "1", "2", "1*a", "2*a"], ["0", "2", "1/2", "1*a", "-1/3*b"],
        ["0", "-1", "1/2", "2*a", "1*b"], ["0", "1", "1*a", "2*a", "1*b"]]
SUB3 = [["0", "1", "1*a"], ["0", "1*a", "1*b"], ["0", "1*a", "2*a"], ["0", "1", "2"], ["0", "-1", "1*b"]]
SUB4 = [["0", "1", "1*a", "1*b"], ["0", "1", "2", "1*a"], ["0", "1", "1*a", "2*a"], ["0", "1", "-1", "2"],
        ["0", "1/2", "1*a", "-1/3*b"]]


# histories: alphabet with more negative coefficients, and "hash twins": pairs of DISTINCT rationals that Python's
# hash() does not tell apart (hash(-1) == hash(-2); hash(q) == hash(q + (2**61 - 1)) because numeric hashes are
# reduced modulo the Mersenne prime 2**61 - 1). They are ordinary members of "rationals or rational multiples of one
# symbol"; a history visits a matrix and then its twin(s).
P61 = 2 ** 61 - 1
HIST = FULL + EXTRA + ["-2", "-2*a", "-1*a", "-2*c", "-1/2", "-2*b"]
H1 = ["0", "1", "-1", "-2", "2", "1/2", "-1/2", "1*a", "-1*a", "-2*a", "2*a", "1*b", "-2*b",
      str(P61), str(P61 + 1), str(-1 - P61), f"{P61 + 1}*a", f"{-1 - P61}*a"]
H2 = ["0", "1", "-1", "-2", "2", "1*a", "-1*a", "-2*a", "1*b"]
H4 = ["0", "-1", "-2", "1*a", "-1*a", "-2*a"]


def hash_twin(e):
    """A different entry of the same kind (same symbol) with the same Python hash."""
    co = Fraction(e[0] if isinstance(e, tuple) else e)
    if co == -1:
        t = Fraction(-2)
    elif co == -2:
        t = Fraction(-1)
    elif co >= 0:
        t = co + P61
    else:
        t = co - P61
    return (t, e[1]) if isinstance(e, tuple) else t


# fixed cases: the matrices of tests/test_gaussian_elimination.py and a few corner cases
FIXED = [
    [["2", "1", "-1"], ["-3", "-1", "2"], ["-2", "1", "2"]],
    [["2", "1", "-1", "5", "7"], ["-3", "-1", "2", "1", "0"], ["-2", "1", "2", "-2", "6"]],
    [["1*a", "1*b", "1*c", "0", "1*b"], ["0", "1*d", "0", "0", "1*d"], ["0", "1*e", "0", "0", "1*e"],
     ["0", "0", "1*f", "1*g", "0"], ["0", "0", "1*f", "1*g", "0"]],
    [["1*a", "1*b", "0", "0"], ["0", "1*b", "1*c", "0"], ["1*a", "0", "0", "1*d"], ["0", "0", "1*c", "1*d"]],
    [["0"]], [["0", "0"], ["0", "0"]], [["0", "0"], ["0", "0"], ["0", "0"]], [["1*a"]], [["5/7"]],
    [["1*a", "1*b"], ["2*a", "2*b"]], [["1*a", "2*a"], ["1*b", "2*b"]], [["1", "1*a"], ["1*a", "1"]],
    [["1", "2", "3"], ["4", "5", "6"], ["7", "8", "9"]],
    [["0", "0", "1"], ["0", "1*a", "0"], ["1*b", "0", "0"]],
    [["1*a", "1*b", "1*c"], ["1*b", "1*c", "1*a"], ["1*c", "1*a", "1*b"]],
    [["0", "1", "2", "3", "4", "5"]], [["0"], ["1"], ["2"], ["1*a"], ["2*a"], ["0"]],
]

# ------------------------------------------------------------------------------------------
# entries
# ------------------------------------------------------------------------------------------
def parse_entry(s):
    if "*" in s:
        q, sym = s.split("*")
        return (Fraction(q), sym)
    return Fraction(s)


def entry_str(e):
    if isinstance(e, tuple):
        return f"{e[0]}*{e[1]}"
    return str(Fraction(e))


def coq_ent(e):
    if isinstance(e, tuple):
        q = Fraction(e[0])
        return f"Sym (Q2Qc (({q.numerator}) # {q.denominator})) {SYMS.index(e[1])}%nat"
    q = Fraction(e)
    return f"Num (Q2Qc (({q.numerator}) # {q.denominator}))"


def coq_mat(M):
    return "[" + "; ".join("[" + "; ".join(coq_ent(e) for e in row) + "]" for row in M) + "]"


def decode(alph, r, c, code):
    """Same digit order as decode_mat in SGE/Model.v."""
    b = len(alph)
    M = []
    for _ in range(r):
        row = []
        for _ in range(c):
            row.append(alph[code % b])
            code //= b
        M.append(row)
    return M


def case_matrices(case):
    if case["kind"] == "block":
        alph = [parse_entry(s) for s in case["alph"]]
        return [decode(alph, case["r"], case["c"], case["start"] + k) for k in range(case["count"])]
    if case["kind"] == "hist":
        return [[[parse_entry(s) for s in row] for row in rows] for rows in case["mats"]]
    if case["kind"] == "reuse":
        raise ValueError("the inputs of a re-use history are in its observation")
    return [[[parse_entry(s) for s in row] for row in case["rows"]]]


# ------------------------------------------------------------------------------------------
# flat encoding of a result (mirrors enc_result in SGE/Model.v)
# ------------------------------------------------------------------------------------------
class BadType(Exception):
    pass


def _q(x):
    if isinstance(x, bool) or not isinstance(x, (int, Fraction)):
        raise BadType(f"{type(x).__name__} {x!r} where a Fraction is expected")
    x = Fraction(x)
    return [x.numerator, x.denominator]


def _e(x):
    if isinstance(x, tuple):
        if len(x) != 2 or not isinstance(x[1], str) or x[1] not in SYMS:
            raise BadType(f"entry {x!r}")
        return [1] + _q(x[0]) + [SYMS.index(x[1])]
    return [0] + _q(x) + [0]


def _rows(f, M):
    if not isinstance(M, list):
        raise BadType(f"{type(M).__name__} where a list of rows is expected")
    out = [len(M)]
    for r in M:
        if not isinstance(r, list):
            raise BadType(f"row {r!r}")
        out.append(len(r))
        for x in r:
            out += f(x)
    return out


def enc_result(res):
    """verbose flat-integer encoding = enc_result in SGE/Model.v"""
    L, M, R = res
    return _rows(_q, L) + _rows(_e, M) + _rows(_q, R)


def _qs(x):
    n, d = _q(x)
    return str(n) if d == 1 else f"{n}/{d}"


def _es(x):
    if isinstance(x, tuple):
        if len(x) != 2 or not isinstance(x[1], str) or x[1] not in SYMS:
            raise BadType(f"entry {x!r}")
        return f"{_qs(x[0])}*{SYMS.index(x[1])}"
    return _qs(x)


def out_result(res):
    """compact encoding = out_result in SGE/Model.v: "p m' n' q" + entries of L, M', R."""
    L, M, R = res
    for X in (L, M, R):
        if not isinstance(X, list) or not all(isinstance(r, list) for r in X):
            raise BadType("not a list of rows")
    p, mp = len(L), len(M)
    np_ = len(M[0]) if M else 0
    q = len(R[0]) if R else 0
    if all(len(r) == mp for r in L) and all(len(r) == np_ for r in M) and len(R) == np_ and all(len(r) == q for r in R):
        toks = [str(p), str(mp), str(np_), str(q)]
        toks += [_qs(x) for r in L for x in r]
        toks += [_es(x) for r in M for x in r]
        toks += [_qs(x) for r in R for x in r]
        return " ".join(toks)
    return "-2 " + " ".join(map(str, enc_result(res)))


def enc_str(ints):
    return " ".join(map(str, ints))


def dec_result(s):
    """Readable form of an encoding string (for messages)."""
    try:
        toks = s.split()
        if toks == ["-1"]:
            return "None"
        if toks[0] == "-2":
            return "ragged result " + s
        p, mp, np_, q = map(int, toks[:4])
        pos = [4]

        def ent(t):
            if "*" in t:
                a, b = t.split("*")
                return f"{a}*{SYMS[int(b)]}"
            return t

        def rows(nr, nc):
            out = []
            for _ in range(nr):
                out.append([ent(t) for t in toks[pos[0]:pos[0] + nc]])
                pos[0] += nc
            return out
        L = rows(p, mp); M = rows(mp, np_); R = rows(np_, q)
        return f"L={L} M'={M} R={R}"
    except Exception:  # noqa
        return s


# ------------------------------------------------------------------------------------------
# the property oracle (from the property text; does not look at the model)
# ------------------------------------------------------------------------------------------
def _lin(e):
    """an entry as a polynomial of degree <= 1: {symbol or '': coefficient}."""
    if isinstance(e, tuple):
        return {e[1]: Fraction(e[0])} if e[0] != 0 else {}
    return {"": Fraction(e)} if e != 0 else {}


def oracle_one(M0, res):
    if isinstance(res, BaseException):
        return f"raised {type(res).__name__}: {res}"
    if not (isinstance(res, tuple) and len(res) == 3):
        return f"returned {type(res).__name__}, not a triple"
    L, Mr, R = res
    m, n = len(M0), len(M0[0])
    for name, X in (("left factor", L), ("reduced matrix", Mr), ("right factor", R)):
        if not isinstance(X, list) or not all(isinstance(r, list) for r in X):
            return f"{name} is not a list of rows"
    if not Mr or not Mr[0]:
        return "reduced matrix is empty"
    mp, np_ = len(Mr), len(Mr[0])
    if any(len(r) != np_ for r in Mr):
        return "reduced matrix is not rectangular"
    if len(L) != m or any(len(r) != mp for r in L):
        return f"left factor is not {m} x {mp}"
    if len(R) != np_ or any(len(r) != n for r in R):
        return f"right factor is not {np_} x {n}"
    if mp > m or np_ > n:
        return f"reduced matrix {mp} x {np_} is larger than the input {m} x {n}"
    for X in (L, R):
        for r in X:
            for x in r:
                if isinstance(x, bool) or not isinstance(x, (int, Fraction)):
                    return f"operator entry {x!r} is not a rational"
    for r in Mr:
        for x in r:
            if isinstance(x, tuple):
                if len(x) != 2 or isinstance(x[0], bool) or not isinstance(x[0], (int, Fraction)) or not isinstance(x[1], str):
                    return f"entry {x!r} of the reduced matrix is not a rational multiple of one symbol"
            elif isinstance(x, bool) or not isinstance(x, (int, Fraction)):
                return f"entry {x!r} of the reduced matrix is neither a rational nor a multiple of one symbol"
    # exact product, entry by entry, as polynomials over Q
    lins = [[_lin(x) for x in r] for r in Mr]
    for i in range(m):
        for j in range(n):
            acc = {}
            for a in range(mp):
                la = L[i][a]
                if la == 0:
                    continue
                for b in range(np_):
                    rb = R[b][j]
                    if rb == 0:
                        continue
                    for sym, co in lins[a][b].items():
                        acc[sym] = acc.get(sym, 0) + la * co * rb
            acc = {k: v for k, v in acc.items() if v != 0}
            if acc != _lin(M0[i][j]):
                return f"(L*M'*R)[{i}][{j}] = {acc} but the input entry is {_lin(M0[i][j])}"
    return None


# ------------------------------------------------------------------------------------------
# running the implementation
# ------------------------------------------------------------------------------------------
_GE = None


def _ge():
    global _GE
    if _GE is None:
        from pytreenet.ttno.symbolic_gaussian_elimination_fraction import gaussian_elimination
        _GE = gaussian_elimination
    return _GE


def run_case(case):
    """-> observation {"enc": [str per matrix], "viol": None | [index, text]}"""
    ge = _ge()
    encs = []
    viol = None
    if case["kind"] == "malformed":
        try:
            res = ge(copy.deepcopy(case["rows"]))
            encs.append("returned " + repr(res)[:80])
        except Exception as e:  # noqa
            encs.append("EXC " + type(e).__name__)
        return {"enc": encs, "viol": None}
    if case["kind"] == "reuse":
        return run_reuse(case)
    hist = case["kind"] == "hist"
    kept = []
    for idx, M in enumerate(case_matrices(case)):
        M0 = copy.deepcopy(M)
        try:
            res = ge(M)
        except Exception as e:  # noqa
            res = e
        encs.append(_enc_or_text(res))
        if hist:
            kept.append((M0, res))
        if viol is None:
            w = oracle_one(M0, res)
            if w:
                viol = [idx, w + " for input " + _mat_str(M0)
                        + (f" (call {idx + 1} of a history of {len(case['mats'])} calls in one process)" if hist else "")]
    if hist and viol is None:
        # the caller still holds the earlier results: they must still be factorisations of their inputs
        for idx, (M0, res) in enumerate(kept):
            w = oracle_one(M0, res)
            if w is None and _enc_or_text(res) != encs[idx]:
                w = f"the result changed from {dec_result(encs[idx])} to {dec_result(_enc_or_text(res))}"
            if w:
                viol = [idx, f"after the later calls of the history, the result of call {idx + 1} is no longer what was "
                             f"returned / no longer a factorisation: {w} for input {_mat_str(M0)}"]
                break
    return {"enc": encs, "viol": viol}


def _mat_str(M):
    return str([[entry_str(x) for x in r] for r in M])


# ------------------------------------------------------------------------------------------
# histories in which the caller re-uses the list objects it gave to / got from the library
# ------------------------------------------------------------------------------------------
def _pool_add(pool, M):
    for row in M:
        if isinstance(row, list) and not any(row is x for x in pool):
            pool.append(row)


def _cyc(es, k):
    return parse_entry(es[k % len(es)])


def _reuse_apply(op, st, ge, rec):
    """One caller action on what it holds.  st = {"cur": current matrix (list of row lists), "last": last returned
    triple or None, "pool": every row list object the caller has created, passed in or got back so far}.
    Positions are taken modulo the current shape, entry lists cyclically, so an op is defined for every shape."""
    k = op[0]
    cur = st["cur"]
    r, c = len(cur), len(cur[0])
    if k == "appcol":                       # one more column: every row list grows in place
        for i, row in enumerate(cur):
            row.append(_cyc(op[1], i))
    elif k == "approw":                     # one more row: the outer list grows in place
        cur.append([_cyc(op[1], j) for j in range(c)])
    elif k == "inscol":
        p = op[1] % (c + 1)
        for i, row in enumerate(cur):
            row.insert(p, _cyc(op[2], i))
    elif k == "insrow":
        cur.insert(op[1] % (r + 1), [_cyc(op[2], j) for j in range(c)])
    elif k == "set":                        # overwrite an entry in place
        cur[op[1] % r][op[2] % c] = parse_entry(op[3])
    elif k == "setrow":                     # overwrite the content of a row list in place
        i = op[1] % r
        cur[i][:] = [_cyc(op[2], j) for j in range(c)]
    elif k == "delcol":
        if c > 1:
            j = op[1] % c
            for row in cur:
                del row[j]
    elif k == "delrow":
        if r > 1:
            del cur[op[1] % r]
    elif k == "swaprows":
        i, j = op[1] % r, op[2] % r
        cur[i], cur[j] = cur[j], cur[i]
    elif k == "outer":                      # a new outer list around the same row lists
        st["cur"] = list(cur)
    elif k == "rebuild":                    # a matrix assembled from row lists held from earlier calls + new rows
        pool = st["pool"]
        rows = []
        for p in op[1]:
            row = pool[p % len(pool)]
            if row and not any(row is x for x in rows):
                rows.append(row)
        if not rows:
            rows = [cur[0]]
        w = len(rows[0])
        for row in rows[1:]:                # the caller brings the other rows to the same width, in place
            while len(row) < w:
                row.append(_cyc(op[3], len(row)))
            del row[w:]
        for nr in op[2]:
            rows.append([_cyc(nr, j) for j in range(w)])
        st["cur"] = rows
    elif k == "use":                        # the returned left / right factor is the next input (plain rationals)
        last = st["last"]
        if last is not None:
            X = last[0] if op[1] == "L" else last[2]
            if isinstance(X, list) and X and all(isinstance(row, list) and row for row in X) \
                    and len({len(row) for row in X}) == 1:
                st["cur"] = X
    elif k == "fresh":                      # an unrelated matrix (the lists held so far stay in the pool)
        st["cur"] = [[parse_entry(x) for x in row] for row in op[1]]
    elif k == "bad":                        # a call the library rejects (the empty matrix); the caller goes on
        try:
            res = ge([])
            rec("[]", "returned " + repr(res)[:60])
        except Exception as e:  # noqa
            rec("[]", "EXC " + type(e).__name__)
    else:
        raise ValueError(f"unknown re-use op {op!r}")


def run_reuse(case):
    """-> {"enc": [str per call], "inputs": [rows (entry strings) per call; [] for a rejected empty-matrix call],
           "viol": None | [call index, text], "norm": number of stray `int 0` the caller replaced}"""
    ge = _ge()
    st = {"cur": [[parse_entry(x) for x in row] for row in case["start"]], "last": None, "pool": []}
    encs, inputs = [], []
    viol = None
    norm = 0

    def rec(inp, enc):
        inputs.append([] if inp == "[]" else inp)
        encs.append(enc)
    for si, ops in enumerate(case["steps"]):
        for op in ops:
            _reuse_apply(op, st, ge, rec)
        cur = st["cur"]
        # the domain of the check is Fraction / (Fraction, str) entries: the library leaves stray `int 0` in the matrices
        # it returns and rejects them as input; the caller replaces them in place (value and list objects unchanged)
        for row in cur:
            for j, x in enumerate(row):
                if type(x) is int:
                    row[j] = Fraction(x)
                    norm += 1
        _pool_add(st["pool"], cur)
        M0 = copy.deepcopy(cur)
        idx = len(encs)
        try:
            res = ge(cur)
        except Exception as e:  # noqa
            res = e
        rec([[entry_str(x) for x in row] for row in M0], _enc_or_text(res))
        w = oracle_one(M0, res)
        if w:
            viol = [idx, w + " for input " + _mat_str(M0) + f" (call {idx + 1} of a history in which the caller re-uses the "
                    f"list objects of the earlier calls; steps so far: {case['steps'][:si + 1]}, start {case['start']})"]
            break
        st["last"] = res
        st["cur"] = res[1]
        _pool_add(st["pool"], res[1])
    return {"enc": encs, "inputs": inputs, "viol": viol, "norm": norm}


def _enc_or_text(res):
    if isinstance(res, BaseException):
        return "EXC " + type(res).__name__ + ": " + str(res)[:80]
    try:
        return out_result(res)
    except BadType as e:
        return "BADTYPE " + str(e)
    except Exception as e:  # noqa
        return "UNENCODABLE " + repr(e)[:80]


def _run_case_safe(case):
    try:
        return run_case(case)
    except Exception as e:  # noqa
        import traceback
        return {"enc": [], "viol": [0, f"harness error {type(e).__name__}: {e}"], "tb": traceback.format_exc()[-1500:]}


def n_matrices(case):
    if case["kind"] == "hist":
        return len(case["mats"])
    if case["kind"] == "reuse":
        return len(case["steps"]) + sum(1 for ops in case["steps"] for op in ops if op[0] == "bad")
    return case["count"] if case["kind"] == "block" else 1


_FRESH_CODE = ("import sys, json\nsys.path.insert(0, sys.argv[1])\nimport props.c13 as m\n"
               "ob = m._run_case_safe(json.load(sys.stdin))\nprint('FRESH ' + json.dumps(ob.get('viol')))\n"
               "print('FRESHIN ' + json.dumps(ob.get('inputs')))\n")


def fresh_viol(case, timeout=600, want_inputs=False):
    """The observation's `viol` of `case` evaluated in a NEW interpreter (no state left over from earlier
    calls in this process); None when it passes there or cannot be evaluated.  want_inputs: -> (viol, inputs)."""
    import json
    import sys
    harness = os.path.dirname(os.path.dirname(os.path.abspath(__file__)))
    viol, inputs = None, None
    try:
        p = subprocess.run([sys.executable, "-W", "ignore", "-c", _FRESH_CODE, harness], input=json.dumps(case),
                           capture_output=True, text=True, timeout=timeout)
        for line in p.stdout.splitlines():
            if line.startswith("FRESH "):
                viol = json.loads(line[6:])
            elif line.startswith("FRESHIN "):
                inputs = json.loads(line[8:])
    except Exception:  # noqa
        pass
    return (viol, inputs) if want_inputs else viol


# ------------------------------------------------------------------------------------------
# evaluating the model
# ------------------------------------------------------------------------------------------
_PAREN = re.compile(r"[()\s]")
_XD = re.compile(r"X(\d)")


def parse_ostr_list(body):
    """`[X2 (K1 (X0 OE)); Mi (X1 OE)]` -> ["2 10", "-1"]"""
    body = body.strip()
    assert body.startswith("[") and body.endswith("]"), body[:80]
    body = body[1:-1]
    body = body.replace("PTN.SGE.Model.", "").replace("SGE.Model.", "").replace("Model.", "")
    body = _PAREN.sub("", body)
    if body == "":
        return []
    body = body.replace("OE", "").replace("Mi", "-").replace("K", "").replace("Sl", "/").replace("St", "*")
    body = _XD.sub(r"\1 ", body).replace(" /", "/").replace(" *", "*")
    return [x.strip() for x in body.split(";")]


def _coq_eval_ostr(ctx, exprs, per_file, timeout=900, jobs=14):
    """vm_compute each expression of type `list ostr`; returns one list of strings per
    expression (or an Exception). Same conventions as lib.coq_eval."""
    if not exprs:
        return []
    ctx.ncoq += 1
    d = ctx.work / f"eval{ctx.ncoq}"
    d.mkdir()
    imports = ("From Coq Require Import ZArith QArith Qcanon List.\nFrom PTN Require Import SGE.Model.\n"
               "Import ListNotations.\nLocal Close Scope Q_scope.\n")
    # pack expressions into files of roughly equal weight
    files = []
    cur, w = [], 0
    for k, (e, weight) in enumerate(exprs):
        cur.append((k, e))
        w += weight
        if w >= per_file:
            files.append(cur)
            cur, w = [], 0
    if cur:
        files.append(cur)
    paths = []
    for fi, sh in enumerate(files):
        f = d / f"cases_{fi}.v"
        body = [lib.COQ_HEADER, imports]
        for j, (k, e) in enumerate(sh):
            body.append(f"Definition case_{j} : list ostr := {e}.")
            body.append(f"Eval vm_compute in case_{j}.")
        f.write_text("\n".join(body) + "\n")
        paths.append(f)
    results = [None] * len(files)
    pending = list(range(len(files)))
    running = {}
    while pending or running:
        while pending and len(running) < jobs:
            k = pending.pop(0)
            f = paths[k]
            # output goes to files: a pipe would fill up (outputs are megabytes) and block coqc
            fo = open(f.with_suffix(".out"), "w")
            fe = open(f.with_suffix(".err"), "w")
            running[k] = (subprocess.Popen(["timeout", str(timeout), "coqc", "-Q", str(lib.THEORIES), "PTN", "-o",
                                            str(f.with_suffix(".vo")), str(f)], stdout=fo, stderr=fe), fo, fe)
        done = []
        for k, (p, fo, fe) in running.items():
            if p.poll() is not None:
                fo.close()
                fe.close()
                results[k] = (p.returncode, paths[k].with_suffix(".out").read_text(), paths[k].with_suffix(".err").read_text())
                done.append(k)
        for k in done:
            del running[k]
        if not done:
            time.sleep(0.02)
    values = [None] * len(exprs)
    for fi, sh in enumerate(files):
        rc, out, err = results[fi]
        if rc != 0:
            exc = RuntimeError(f"coqc failed on {paths[fi]} rc={rc}: {err[-1500:]}")
            for k, _ in sh:
                values[k] = exc
            continue
        chunks = re.split(r"^\s*= ", out, flags=re.M)[1:]
        if len(chunks) != len(sh):
            exc = RuntimeError(f"coq output count mismatch {len(chunks)} vs {len(sh)} in {paths[fi]}")
            for k, _ in sh:
                values[k] = exc
            continue
        for (k, _), ch in zip(sh, chunks):
            idx = ch.rfind("\n     : ")
            if idx < 0:
                idx = ch.rfind(" : ")
            try:
                values[k] = parse_ostr_list(ch[:idx])
            except Exception as e:  # noqa
                values[k] = RuntimeError(f"parse error: {e}: {ch[:200]}")
    return values


# ------------------------------------------------------------------------------------------
class C13(Prop):
    id = "C13"
    title = "symbolic Gaussian elimination is an exact factorisation"
    design_ref = "DESIGN.md section 5 / C13"
    rule = ("exhaustive enumerations (cut into blocks) of all r x c matrices over the alphabet {0, 1, -1, 2, 1/2, a, 2a, b, -b/3}: "
            "quick: every shape with <= 4 entries except 1x4/4x1, 2x3 and 3x2 over a seed-rotated 5-letter sub-alphabet, 3x3 over a "
            "seed-rotated 3-letter sub-alphabet; "
            "thorough: also 1x4, 4x1, 2x3, 3x2 over the full alphabet and 3x3 over a seed-rotated 4-letter sub-alphabet; "
            "random full-alphabet 3x3 blocks; random matrices up to 6x6 over a wider alphabet with zero rows/columns, "
            "parallel rows/columns and rank-deficient numeric blocks; the empty matrix as malformed input. "
            "HISTORIES (several calls in one process, each result judged against the input of its own call and again after the "
            "last call): sweeps through all 1x1 matrices over an 18-letter alphabet and all 1x2 / 2x1 matrices over a 9-letter "
            "alphabet (with -1, -2, their symbol multiples and rationals q, q + 2^61 - 1), forward then backward so that every "
            "ordered pair of distinct matrices occurs (thorough: also 2x2, 1x3, 3x1 over 6 letters); random histories of 3..7 "
            "related matrices up to 5x5: the same matrix again, 1-2 entries changed, entries replaced by hash twins (distinct "
            "rationals with equal Python hash: -1/-2, q/q +- (2^61-1)), scaled or swapped lines, the transpose, an earlier "
            "member again. "
            "IDENTIFIER SPELLINGS (symbol names are arbitrary strings): symbol names = strings of length 1..3 over a 1-2 character "
            "alphabet (g / g1 / J1 / ab / x_ / k0; names that are prefixes, suffixes, repetitions, concatenations of each other, "
            "digit-only strings excluded): exhaustive 1x2, 2x1, 2x2 over six 5-letter alphabets such as {0, 1, g, g1, gg}, "
            "{0, 1, J, J1, J11}, {0, x, x_, _x, -_} and 2x3 or 3x2 over one of them (seed-rotated; thorough: both shapes over all six); random "
            "matrices up to 5x5 over 2..6 such names with planted lines: genuine multiples, and lines whose coefficients are "
            "proportional to another line's while the symbols are rearranged within the line or drawn anew (not multiples: both "
            "must be reproduced), as rows or as columns. "
            "RE-USED LIST OBJECTS (the library reduces its argument in place and returns the very lists it was given): random "
            "histories of 2..6 factorisations in one process in which the caller keeps working with the objects it holds: the "
            "returned reduced matrix (= the input object) grown by a column and a row, lines appended / inserted / deleted, "
            "entries and rows overwritten in place, and factorised again; a matrix assembled from row lists of earlier inputs / "
            "results (same objects, brought to one width in place) plus new rows; a new outer list around the old rows plus a row; "
            "the returned left / right factor taken as the next input and extended; an unrelated matrix or a rejected call "
            "(empty matrix: both sides reject, the history goes on) in between; the same object again unchanged.  Every call is "
            "judged exactly (L*M'*R == input as coefficient functions, shapes, not larger) against the caller's deep copy of the "
            "input taken immediately before the call, and tied to the pure model applied to that copy.  Stray `int 0` entries "
            "of a returned matrix are replaced by Fraction(0) in place by the caller before it is fed back (domain of the check). "
            "non-trivial = at least 2 entries; distinct by case content. One case = one block, one matrix or one history; the number of "
            "matrices (calls) is in coverage.distribution.matrices")
    clauses = [
        ("F", "every non-empty rectangular matrix (all sizes): gaussian_elimination returns (fuel of the three while loops suffices, "
              "the matrix never becomes empty), shapes L m x m', M' m' x n', R n' x n with 1 <= m' <= m, 1 <= n' <= n, and "
              "coef (L*M'*R) i j x = coef M i j x for every i, j and every symbol/constant x (C13_exact_factorisation)"),
        ("F", "entries of M' are rationals or non-zero rational multiples of one symbol (by construction of the entry type; "
              "non-zero coefficients preserved: C13_entries_single_symbol)"),
        ("F", "each primitive preserves L*M*R as coefficient functions: row_add/col_add incl. the incompatible-symbols no-op branch, "
              "row/column swaps, deletion of zero rows/columns, are_parallel_* soundness, deparallelize_rows/cols (C13_*_product, C13_parallel_*_sound)"),
        ("V", "the Gallina model equals the Python code: exact comparison of (Op_l, reduced, Op_r) on the exhaustive and random inputs of this run; "
              "in a history every call is compared with the (pure) model applied to the matrix of that call, i.e. the result may not "
              "depend on earlier calls, nor on whether the list objects of the input were seen by an earlier call (re-use histories: "
              "the model is applied to the caller's deep copy of the input of every call)"),
    ]
    trusted_base = ["entry representation: Python Fraction / int 0 <-> Num q, tuple (Fraction, str) <-> Sym q s with symbols numbered by harness/props/c13.py "
                    "(one fixed injective table name -> nat for the 8 one-letter and the multi-character names; the model sees only the number, "
                    "i.e. it is by construction independent of how a symbol is spelled)",
                    "`for z in sorted(Z, reverse=True): del x[z]` is modelled as dropping the positions in Z (equal because Z is duplicate-free by construction of the loops)",
                    "decoders of block cases (decode in c13.py / decode_mat in SGE/Model.v) — a disagreement shows up as a tie failure"]
    assumptions = ["input entries are Fractions or tuples (Fraction, non-empty str) with non-zero coefficient, matrix rectangular and non-empty "
                   "(what _setup_gamma_matrix produces); an input `int 0` makes are_parallel_row raise TypeError and is outside the domain"]

    # ------------------------------------------------------------------ generation
    @staticmethod
    def _blocks(alph, r, c, size, lo=0, hi=None):
        total = len(alph) ** (r * c)
        hi = total if hi is None else hi
        out = []
        s = lo
        while s < hi:
            k = min(size, hi - s)
            out.append({"kind": "block", "alph": list(alph), "r": r, "c": c, "start": s, "count": k})
            s += k
        return out

    @staticmethod
    def _random_matrix(rng, maxdim=6, alph=None):
        r = rng.randrange(1, maxdim + 1)
        c = rng.randrange(1, maxdim + 1)
        al = [parse_entry(s) for s in (FULL if rng.random() < 0.5 else FULL + EXTRA)]
        if alph is not None:
            al = [parse_entry(s) for s in alph]
        numeric = [e for e in al if not isinstance(e, tuple)]
        p = rng.choice([0.3, 0.6, 0.9])
        mode = rng.random()
        if mode < 0.2:
            pool = numeric
        else:
            pool = al
        M = [[rng.choice(pool) if rng.random() < p else Fraction(0) for _ in range(c)] for _ in range(r)]

        def scale(e, f):
            return (f * e[0], e[1]) if isinstance(e, tuple) else f * e
        fs = [Fraction(1), Fraction(2), Fraction(-1, 2), Fraction(3), Fraction(-1)]
        if r > 1 and rng.random() < 0.4:      # parallel rows
            i, j = rng.sample(range(r), 2)
            f = rng.choice(fs)
            M[j] = [scale(e, f) for e in M[i]]
        if c > 1 and rng.random() < 0.4:      # parallel columns
            i, j = rng.sample(range(c), 2)
            f = rng.choice(fs)
            for row in M:
                row[j] = scale(row[i], f)
        if r > 2 and rng.random() < 0.4:      # rank-deficient numeric block: row k = combination of rows i, j
            i, j, k = rng.sample(range(r), 3)
            if all(not isinstance(e, tuple) for e in M[i] + M[j]):
                f, g = rng.choice(fs), rng.choice(fs)
                M[k] = [f * x + g * y for x, y in zip(M[i], M[j])]
        if c > 2 and rng.random() < 0.3:      # ... and for columns
            i, j, k = rng.sample(range(c), 3)
            if all(not isinstance(row[i], tuple) and not isinstance(row[j], tuple) for row in M):
                f, g = rng.choice(fs), rng.choice(fs)
                for row in M:
                    row[k] = f * row[i] + g * row[j]
        if r > 1 and rng.random() < 0.25:     # zero row
            M[rng.randrange(r)] = [Fraction(0)] * c
        if c > 1 and rng.random() < 0.25:     # zero column
            j = rng.randrange(c)
            for row in M:
                row[j] = Fraction(0)
        return {"kind": "mat", "rows": [[entry_str(e) for e in row] for row in M]}

    # ------------------------------------------------------------------ identifier spellings
    @staticmethod
    def _spelling_matrix(rng, maxdim=5):
        """A random matrix whose symbol names are 2..6 of the strings of length 1..3 over one tiny character alphabet
        (so names are prefixes / suffixes / repetitions / concatenations of each other), with planted line relations:
        genuinely parallel lines, and lines whose COEFFICIENTS are proportional to those of another line while the
        symbols differ by position (symbols permuted within the line, or redrawn) -- such lines are not multiples of each
        other and must both be reproduced by the product.  Rows or columns (the matrix is transposed half of the time)."""
        A = rng.choice(SPELL_ALPHS)
        pool = SPELL_NAMES[A]
        short = [w for w in pool if len(w) <= 2]
        names = list(dict.fromkeys(rng.sample(short, min(len(short), rng.randrange(1, 4)))
                                   + rng.sample(pool, min(len(pool), rng.randrange(1, 4)))))
        r = rng.randrange(2, maxdim + 1)
        c = rng.randrange(1, maxdim + 1)
        cos = [Fraction(1), Fraction(1), Fraction(1), Fraction(2), Fraction(-1), Fraction(1, 2), Fraction(3), Fraction(-2, 3)]
        p = rng.choice([0.5, 0.8, 1.0])
        psym = rng.choice([0.5, 0.75, 1.0])

        def ent():
            if rng.random() >= p:
                return Fraction(0)
            co = rng.choice(cos)
            return (co, rng.choice(names)) if rng.random() < psym else co

        def co_of(e):
            return e[0] if isinstance(e, tuple) else e

        def with_co(e, co):
            return (co, e[1]) if isinstance(e, tuple) else co
        M = [[ent() for _ in range(c)] for _ in range(r)]
        fs = [Fraction(1), Fraction(1), Fraction(2), Fraction(-1, 2), Fraction(3), Fraction(-1)]
        plant = []
        for _ in range(rng.choice([1, 1, 2])):
            i, j = rng.sample(range(r), 2)
            f = rng.choice(fs)
            w = rng.random()
            if w < 0.2:            # a genuine multiple
                M[j] = [with_co(e, f * co_of(e)) for e in M[i]]
                plant.append("parallel")
            elif w < 0.6:          # same coefficients (times f), the symbols of the line in a different arrangement
                if rng.random() < 0.5:
                    k = rng.randrange(1, c) if c > 1 else 0
                    perm = [(q + k) % c for q in range(c)]
                else:
                    perm = list(range(c))
                    rng.shuffle(perm)
                # entry q: coefficient f * (coefficient of M[i][q]), kind and symbol of M[i][perm[q]] (a zero there: a number)
                M[j] = [with_co(M[i][perm[q]], f * co_of(M[i][q])) if co_of(M[i][q]) != 0 else Fraction(0) for q in range(c)]
                plant.append("coefficients proportional, symbols rearranged")
            else:                  # same coefficients (times f), kind / symbol of every entry drawn anew
                row = []
                for q in range(c):
                    co = f * co_of(M[i][q])
                    if co == 0:
                        row.append(Fraction(0))
                    elif rng.random() < 0.3:
                        row.append(with_co(M[i][q], co))
                    else:
                        row.append((co, rng.choice(names)) if rng.random() < psym else co)
                M[j] = row
                plant.append("coefficients proportional, symbols redrawn")
        if rng.random() < 0.5:
            M = [list(col) for col in zip(*M)]
        return {"kind": "mat", "fam": "spelling " + repr(A), "plant": sorted(set(plant)),
                "rows": [[entry_str(e) for e in row] for row in M]}

    # ------------------------------------------------------------------ histories
    @staticmethod
    def _hist_case(mats):
        return {"kind": "hist", "mats": [[[entry_str(e) for e in row] for row in M] for M in mats]}

    @staticmethod
    def _sweep_history(alph, r, c, rng=None):
        """All r x c matrices over `alph`, once in enumeration (or shuffled) order and once in the reverse
        order: every ORDERED pair (A factorised at some time before B) of distinct matrices occurs."""
        al = [parse_entry(s) for s in alph]
        mats = [decode(al, r, c, k) for k in range(len(al) ** (r * c))]
        if rng is not None:
            rng.shuffle(mats)
        return C13._hist_case(mats + mats[::-1])

    @staticmethod
    def _random_history(rng):
        """A base matrix followed by 2..6 relatives: the same again, single-entry edits, hash twins, scaled or
        permuted lines, the transpose, or an earlier member again."""
        al = [parse_entry(s) for s in HIST]
        base = C13._random_matrix(rng, maxdim=rng.choice([2, 3, 4, 5]), alph=HIST)
        cur = [[parse_entry(s) for s in row] for row in base["rows"]]
        mats = [cur]

        def scale(e, f):
            return (f * e[0], e[1]) if isinstance(e, tuple) else f * e
        fs = [Fraction(2), Fraction(-1), Fraction(1, 2), Fraction(-2), Fraction(3)]
        for _ in range(rng.randrange(2, 7)):
            M = copy.deepcopy(cur)
            r, c = len(M), len(M[0])
            kind = rng.choice(["same", "entry", "entry", "twin", "twin", "scale", "perm", "transpose", "back"])
            if kind == "entry":
                for _ in range(rng.randrange(1, 3)):
                    M[rng.randrange(r)][rng.randrange(c)] = rng.choice(al)
            elif kind == "twin":
                pos = [(i, j) for i in range(r) for j in range(c)]
                nz = [(i, j) for (i, j) in pos if M[i][j] != 0]
                pick = [q for q in pos if rng.random() < (0.5 if M[q[0]][q[1]] != 0 else 0.1)]
                if not pick:
                    pick = [rng.choice(nz or pos)]
                for (i, j) in pick:
                    M[i][j] = hash_twin(M[i][j])
            elif kind == "scale":
                f = rng.choice(fs)
                w = rng.random()
                if w < 0.4:
                    i = rng.randrange(r)
                    M[i] = [scale(e, f) for e in M[i]]
                elif w < 0.8:
                    j = rng.randrange(c)
                    for row in M:
                        row[j] = scale(row[j], f)
                else:
                    M = [[scale(e, f) for e in row] for row in M]
            elif kind == "perm":
                if r > 1 and (c == 1 or rng.random() < 0.5):
                    i, j = rng.sample(range(r), 2)
                    M[i], M[j] = M[j], M[i]
                elif c > 1:
                    i, j = rng.sample(range(c), 2)
                    for row in M:
                        row[i], row[j] = row[j], row[i]
            elif kind == "transpose":
                M = [list(col) for col in zip(*M)]
            elif kind == "back":
                M = copy.deepcopy(rng.choice(mats))
            mats.append(M)
            cur = M
        return C13._hist_case(mats)

    # ------------------------------------------------------------------ histories re-using list objects
    @staticmethod
    def _reuse_history(rng):
        """A start matrix and 1..5 further factorisations of what the caller then holds: the returned reduced matrix
        (= the input object, reduced in place) grown / edited in place, matrices assembled from row lists of earlier
        calls plus new rows, the returned operator matrices extended, an unrelated or a rejected call in between."""
        small = rng.random() < 0.5
        if small:       # small, mostly numeric start (quickly reduced to a few pivots; then the growth matters)
            alph = rng.choice([["0", "1", "2", "3", "-1", "1/2"], ["0", "1", "2", "1*a", "1*b"], H2, FULL])
            base = C13._random_matrix(rng, maxdim=rng.choice([2, 2, 3]), alph=alph)
        else:
            base = C13._random_matrix(rng, maxdim=rng.choice([3, 4, 5, 6]), alph=rng.choice([FULL, HIST]))
        al = [s for s in (HIST if rng.random() < 0.5 else ["0", "1", "2", "3", "4", "-1", "1/2", "1*a", "1*b", "2*a", "1*c"]) if s != "0"]
        pz = rng.choice([0.0, 0.3, 0.6, 0.8])

        def ent():
            return "0" if rng.random() < pz else rng.choice(al)

        def ents(lo=1, hi=7):
            es = [ent() for _ in range(rng.randrange(lo, hi))]
            if all(e == "0" for e in es) and rng.random() < 0.8:
                es[rng.randrange(len(es))] = rng.choice(al)
            return es

        def step():
            w = rng.random()
            if w < 0.30:        # the matrix grows by a column and a row (either order)
                ops = [["appcol", ents()], ["approw", ents()]]
                if rng.random() < 0.3:
                    ops.reverse()
            elif w < 0.42:
                ops = [rng.choice([["appcol", ents()], ["approw", ents()], ["inscol", rng.randrange(8), ents()],
                                   ["insrow", rng.randrange(8), ents()]]) for _ in range(rng.randrange(1, 3))]
            elif w < 0.54:      # in-place edits of entries / rows
                ops = [rng.choice([["set", rng.randrange(8), rng.randrange(8), ent()],
                                   ["set", rng.randrange(8), rng.randrange(8), rng.choice(al)],
                                   ["setrow", rng.randrange(8), ents()]]) for _ in range(rng.randrange(1, 4))]
                if rng.random() < 0.4:
                    ops.append(rng.choice([["approw", ents()], ["appcol", ents()]]))
            elif w < 0.74:      # a matrix assembled from row lists of earlier calls + new rows
                n = rng.randrange(1, 6)
                idxs = list(range(n)) if rng.random() < 0.5 else [rng.randrange(12) for _ in range(n)]
                ops = [["rebuild", idxs, [ents() for _ in range(rng.choice([0, 1, 1, 1, 2]))], ents()]]
                if rng.random() < 0.25:
                    ops.append(["appcol", ents()])
            elif w < 0.80:      # same rows, new outer list, one more row
                ops = [["outer"], ["approw", ents()]]
            elif w < 0.88:      # a returned operator matrix becomes the next input
                ops = [["use", rng.choice(["L", "R"])]]
                ops += [rng.choice([["appcol", ents()], ["approw", ents()], ["set", rng.randrange(8), rng.randrange(8), ent()]])
                        for _ in range(rng.randrange(0, 3))]
            elif w < 0.93:      # lines removed / rows exchanged
                ops = [rng.choice([["delcol", rng.randrange(8)], ["delrow", rng.randrange(8)],
                                   ["swaprows", rng.randrange(8), rng.randrange(8)]]) for _ in range(rng.randrange(1, 3))]
                ops.append(rng.choice([["approw", ents()], ["appcol", ents()]]))
            elif w < 0.97:      # an unrelated matrix in between; the next steps may come back to the old row lists
                fr = C13._random_matrix(rng, maxdim=3, alph=FULL)
                ops = [["fresh", fr["rows"]]]
            else:               # the same object again, unchanged
                ops = []
            if rng.random() < 0.06:
                ops.insert(rng.randrange(len(ops) + 1), ["bad"])
            return ops
        steps = [[]] + [step() for _ in range(rng.choice([1, 1, 2, 2, 3, 4, 5]))]
        return {"kind": "reuse", "start": base["rows"], "steps": steps}

    def _histories(self, ctx, stream, budget_scale):
        rng = ctx.rng(stream + "/hist")
        cases = []
        if stream == "main":
            cases.append(self._sweep_history(H1, 1, 1))
            cases.append(self._sweep_history(H2, 1, 2))
            cases.append(self._sweep_history(H2, 2, 1))
            if ctx.thorough():
                cases.append(self._sweep_history(H4, 2, 2))
                cases.append(self._sweep_history(H4, 1, 3, rng))
                cases.append(self._sweep_history(H4, 3, 1, rng))
        else:
            cases.append(self._sweep_history(H1, 1, 1, rng))
            cases.append(self._sweep_history(H2, 1, 2, rng))
        for _ in range(ctx.scale(150, 3000) * budget_scale):
            cases.append(self._random_history(rng))
        # own random stream: the histories above are the same as before for a given seed
        ru = ctx.rng(stream + "/reuse")
        for _ in range(ctx.scale(1000, 30000) * budget_scale):
            cases.append(self._reuse_history(ru))
        return cases

    def generate(self, ctx, stream, budget_scale=1):
        rng = ctx.rng(stream)
        cases = []
        rot = ctx.seed if stream == "main" else ctx.seed + 1 + rng.randrange(3)
        if stream == "main":
            cases.append({"kind": "malformed", "rows": []})
            cases += [{"kind": "mat", "rows": rows} for rows in FIXED]
            for (r, c) in [(1, 1), (1, 2), (2, 1), (2, 2), (1, 3), (3, 1)]:
                cases += self._blocks(FULL, r, c, 729)
        sub5 = SUB5[rot % len(SUB5)]
        sub4 = SUB4[rot % len(SUB4)]
        if ctx.thorough() and stream == "main":
            for (r, c) in [(1, 4), (4, 1), (2, 3), (3, 2)]:
                cases += self._blocks(FULL, r, c, 729)
            cases += self._blocks(sub4, 3, 3, 512)
        else:
            cases += self._blocks(sub5, 2, 3, 625)
            cases += self._blocks(sub5, 3, 2, 625)
            cases += self._blocks(SUB3[rot % len(SUB3)], 3, 3, 729)
            if stream != "main":
                cases += self._blocks(sub4, 3, 3, 512, lo=0, hi=512 * 8 * budget_scale)
        # random full-alphabet blocks of 9 consecutive codes (first entry runs through the alphabet)
        nb = ctx.scale(150, 4000) * budget_scale
        for _ in range(nb):
            r, c = rng.choice([(3, 3), (3, 3), (2, 4), (4, 2), (3, 4), (4, 3), (2, 3), (3, 2)])
            total = len(FULL) ** (r * c)
            cases.append({"kind": "block", "alph": list(FULL), "r": r, "c": c, "start": 9 * rng.randrange(total // 9), "count": 9})
        nm = ctx.scale(1500, 20000) * budget_scale
        for _ in range(nm):
            cases.append(self._random_matrix(rng))
        # identifier spellings (own random stream): exhaustive small shapes over alphabets with multi-character symbol
        # names that are prefixes / repetitions of each other, and random matrices with planted line relations
        rs = ctx.rng(stream + "/spelling")
        if stream == "main":
            for al in SPELL_BLOCK:
                for (r, c) in [(1, 2), (2, 1), (2, 2)]:
                    cases += self._blocks(al, r, c, 625)
            sb = [SPELL_BLOCK[rot % len(SPELL_BLOCK)]] if not ctx.thorough() else SPELL_BLOCK
            shape = (ctx.seed // len(SPELL_BLOCK) + ctx.seed) % 2     # every (alphabet, shape) pair occurs within 12 seeds
            for al in sb:
                if ctx.thorough() or shape == 0:
                    cases += self._blocks(al, 2, 3, 625)
                if ctx.thorough() or shape == 1:
                    cases += self._blocks(al, 3, 2, 625)
        else:
            al = SPELL_BLOCK[rot % len(SPELL_BLOCK)]
            cases += self._blocks(al, 2, 2, 625)
            cases += self._blocks(al, 2, 3, 625, lo=0, hi=625 * 5 * budget_scale)
        for _ in range(ctx.scale(500, 8000) * budget_scale):
            cases.append(self._spelling_matrix(rs))
        # histories use their own random stream: the cases above are the same as before for a given seed
        hist = self._histories(ctx, stream, budget_scale)
        if stream == "main":
            return cases + hist
        return hist + cases       # failing-input search: the cheap histories first

    def nontrivial(self, case):
        if case["kind"] == "block":
            return case["r"] * case["c"] >= 2
        if case["kind"] == "mat":
            return sum(len(r) for r in case["rows"]) >= 2
        if case["kind"] == "hist":
            return len(case["mats"]) >= 2
        if case["kind"] == "reuse":
            return len(case["steps"]) >= 2
        return False

    def distribution(self, cases):
        from collections import Counter
        c = Counter()
        for x in cases:
            if x["kind"] == "block":
                multi = any("*" in s and len(s.split("*")[1]) > 1 for s in x["alph"])
                c[f"exhaustive/block {x['r']}x{x['c']} over {len(x['alph'])} letters"
                  + (" (multi-character symbol names)" if multi else "")] += x["count"]
                c["matrices"] += x["count"]
            elif x["kind"] == "mat" and x.get("fam", "").startswith("spelling"):
                c["spelling/random matrices (names = strings of length 1..3 over a 1-2 character alphabet)"] += 1
                c[f"spelling/{x['fam'][9:]}"] += 1
                for pl in x.get("plant", []):
                    c["spelling/planted: " + pl] += 1
                syms = {s.split("*")[1] for row in x["rows"] for s in row if "*" in s}
                if any(a != b and (a.startswith(b) or a.endswith(b)) for a in syms for b in syms):
                    c["spelling/a name is a proper prefix or suffix of another name"] += 1
                c["matrices"] += 1
            elif x["kind"] == "mat":
                c[f"random {len(x['rows'])}x{len(x['rows'][0])}"] += 1
                c["matrices"] += 1
            elif x["kind"] == "hist":
                n = len(x["mats"])
                c["history/sweeps (all matrices of a shape, forward then backward)" if n > 12 else "history/random relatives"] += 1
                c["history/calls"] += n
                c["matrices"] += n
                ms = x["mats"]
                for a, b in zip(ms, ms[1:]):
                    if a == b:
                        c["history/step same matrix again"] += 1
                    elif len(a) == len(b) and len(a[0]) == len(b[0]):
                        d = [(p, q) for ra, rb in zip(a, b) for p, q in zip(ra, rb) if p != q]
                        if all(hash(parse_entry(p)) == hash(parse_entry(q)) for p, q in d):
                            c["history/step to a hash twin (distinct matrix, equal Python hash)"] += 1
                        elif len(d) <= 2:
                            c["history/step differing in <= 2 entries"] += 1
                        else:
                            c["history/step other (scaled, permuted, ...)"] += 1
                    else:
                        c["history/step other (scaled, permuted, ...)"] += 1
            elif x["kind"] == "reuse":
                n = n_matrices(x)
                c["reuse/histories (caller re-uses the list objects of earlier calls)"] += 1
                c["reuse/calls"] += n
                c["matrices"] += n
                c[f"reuse/start {len(x['start'])}x{len(x['start'][0])}"] += 1
                for ops in x["steps"][1:]:
                    names = [op[0] for op in ops]
                    if not names:
                        c["reuse/step: same object again, unchanged"] += 1
                    elif "appcol" in names and "approw" in names and len(names) == 2:
                        c["reuse/step: returned matrix grown by a column and a row in place"] += 1
                    for nm in sorted(set(names)):
                        c["reuse/op " + nm] += 1
            else:
                c["malformed"] += 1
        return dict(sorted(c.items()))

    def sample_repr(self, case):
        return case

    # ------------------------------------------------------------------ implementation
    def impl(self, ctx, cases):
        total = sum(n_matrices(c) for c in cases)
        _ge()
        if total > 30000 and len(cases) > 16:
            import multiprocessing as mp
            nproc = min(14, os.cpu_count() or 1)
            with mp.get_context("fork").Pool(nproc) as pool:
                return pool.map(_run_case_safe, cases, chunksize=max(1, len(cases) // (nproc * 8)))
        return [_run_case_safe(c) for c in cases]

    # ------------------------------------------------------------------ model
    def model(self, ctx, cases, obs):
        exprs = []   # (expr, weight)
        slots = []   # per expr: list of (case index, count)
        mats, mat_slot, mat_w = [], [], 0

        def flush():
            nonlocal mats, mat_slot, mat_w
            if mats:
                exprs.append(("ge_list [" + ";\n ".join(mats) + "]", len(mats)))
                slots.append(mat_slot)
                mats, mat_slot, mat_w = [], [], 0
        alph_cache = {}
        out_empty = []
        for i, c in enumerate(cases):
            if c["kind"] == "block":
                key = tuple(c["alph"])
                if key not in alph_cache:
                    alph_cache[key] = "[" + "; ".join(coq_ent(parse_entry(s)) for s in c["alph"]) + "]"
                exprs.append((f"ge_block {alph_cache[key]} {c['r']}%nat {c['c']}%nat {c['start']}%N {c['count']}%nat", c["count"]))
                slots.append([(i, c["count"])])
            elif c["kind"] == "reuse":
                # the inputs of the calls (the caller's deep copies) are in the observation; the model is pure
                Ms = [[[parse_entry(x) for x in row] for row in rows] for rows in (obs[i].get("inputs") or [])]
                if not Ms:
                    out_empty.append(i)
                for lo in range(0, len(Ms), 200):
                    part = Ms[lo:lo + 200]
                    exprs.append(("ge_list [" + ";\n ".join(coq_mat(M) for M in part) + "]", len(part)))
                    slots.append([(i, len(part))])
            elif c["kind"] == "hist":
                # the model is a pure function: a history is the list of the independent results
                Ms = case_matrices(c)
                for lo in range(0, len(Ms), 200):
                    part = Ms[lo:lo + 200]
                    exprs.append(("ge_list [" + ";\n ".join(coq_mat(M) for M in part) + "]", len(part)))
                    slots.append([(i, len(part))])
            else:
                M = [[parse_entry(s) for s in row] for row in c["rows"]]
                mats.append(coq_mat(M))
                mat_slot.append((i, 1))
                if len(mats) >= 200:
                    flush()
        flush()
        total = sum(w for _, w in exprs)
        per_file = max(400, min(6000, total // 28 + 1))
        vals = _coq_eval_ostr(ctx, exprs, per_file)
        out = [None] * len(cases)
        for i in out_empty:
            out[i] = []
        for v, sl in zip(vals, slots):
            if isinstance(v, BaseException):
                for i, _ in sl:
                    out[i] = v
                continue
            if len(v) != sum(k for _, k in sl):
                err = RuntimeError(f"model returned {len(v)} results for {sum(k for _, k in sl)} matrices")
                for i, _ in sl:
                    out[i] = err
                continue
            pos = 0
            for i, k in sl:
                if isinstance(out[i], BaseException):
                    pass
                elif out[i] is None:
                    out[i] = v[pos:pos + k]
                else:                       # a long history is evaluated in several parts, in order
                    out[i] = out[i] + v[pos:pos + k]
                pos += k
        return out

    def extra_obligations(self, ctx):
        """The two decoders of block cases agree (echo of decoded inputs on a sample)."""
        rng = ctx.rng("echo")
        fails = []
        exprs, wants = [], []
        for (alph, r, c) in [(FULL, 2, 3), (FULL, 3, 3), (SUB5[ctx.seed % len(SUB5)], 3, 2), (SUB4[ctx.seed % len(SUB4)], 3, 3)]:
            start = rng.randrange(len(alph) ** (r * c) - 30)
            al = [parse_entry(s) for s in alph]
            exprs.append((f"echo_block [{'; '.join(coq_ent(e) for e in al)}] {r}%nat {c}%nat {start}%N 30%nat", 30))
            wants.append([enc_str(_rows(_e, decode(al, r, c, start + k))) for k in range(30)])
        vals = _coq_eval_ostr(ctx, exprs, 1000)
        ok = 0
        for v, w in zip(vals, wants):
            if isinstance(v, BaseException) or v != w:
                fails.append(f"block decoders disagree: {str(v)[:200]}")
            else:
                ok += 1
        return len(exprs), ok, fails

    # ------------------------------------------------------------------ tie and oracle
    def compare(self, case, ob, mo):
        enc = ob.get("enc", [])
        if case["kind"] == "malformed":
            if mo == ["-1"] and enc and enc[0].startswith("EXC IndexError"):
                return None
            return f"empty matrix: implementation {enc}, model {mo}"
        if case["kind"] == "reuse":
            inputs = ob.get("inputs") or []
            if len(enc) != len(mo) or len(enc) != len(inputs):
                return f"{len(enc)} implementation results, {len(mo)} model results, {len(inputs)} recorded inputs"
            for k, (a, b) in enumerate(zip(enc, mo)):
                if inputs[k] == []:
                    if not (b == "-1" and a.startswith("EXC IndexError")):
                        return f"empty matrix (call {k + 1} of a re-use history): implementation {a}, model {b}"
                elif a != b:
                    return (f"call {k + 1} of a re-use history, input {inputs[k]}: implementation {dec_result(a)} ; "
                            f"model {dec_result(b)}")
            return None
        if enc == mo:
            return None
        mats = case_matrices(case)
        if len(enc) != len(mo):
            return f"{len(enc)} implementation results, {len(mo)} model results"
        for k, (a, b) in enumerate(zip(enc, mo)):
            if a != b:
                Ms = [[entry_str(x) for x in r] for r in mats[k]]
                return f"input {Ms}: implementation {dec_result(a)} ; model {dec_result(b)}"
        return "encodings differ"

    def oracle(self, case, ob):
        if "tb" in ob:
            return ob["viol"][1]
        if case["kind"] == "malformed":
            return None
        if ob.get("viol"):
            return ob["viol"][1]
        return None

    def classify(self, case, what, known):
        return None

    def shrink(self, ctx, case, pred):
        if case["kind"] == "hist":
            return self._shrink_hist(case)
        if case["kind"] == "reuse":
            return self._shrink_reuse(case)
        if case["kind"] != "block":
            return case
        ob = _run_case_safe(case)
        if ob.get("viol"):
            M = case_matrices(case)[ob["viol"][0]]
            small = {"kind": "mat", "rows": [[entry_str(e) for e in row] for row in M]}
            if pred(small):
                return small
        return case

    @staticmethod
    def _shrink_reuse(case):
        """Shorter re-use history that still fails in a NEW process: the steps after the failing call are dropped; then
        the history is started later (start := the content of the input of call j on fresh lists, steps j+1 .. failing
        call), latest start first."""
        v, inputs = fresh_viol(case, want_inputs=True)
        if not v or not inputs:
            return case
        # call index -> step index (a rejected empty-matrix call takes a call index of its own)
        k, step_of_call = 0, {}
        for si, ops in enumerate(case["steps"]):
            k += sum(1 for op in ops if op[0] == "bad")
            step_of_call[k] = si
            k += 1
        si = step_of_call.get(v[0])
        if si is None:
            return case
        best = {"kind": "reuse", "start": case["start"], "steps": case["steps"][:si + 1]}
        call_of_step = {s_: c_ for c_, s_ in step_of_call.items()}
        for j in range(si - 1, 0, -1):
            small = {"kind": "reuse", "start": inputs[call_of_step[j]], "steps": [[]] + case["steps"][j + 1:si + 1]}
            if small["start"] and fresh_viol(small):
                return small
        if len(best["steps"]) < len(case["steps"]) and fresh_viol(best):
            return best
        return case

    @staticmethod
    def _shrink_hist(case):
        """Shortest history that still fails IN A NEW PROCESS (this process may carry state from the calls made so
        far, so candidates are not judged here): the failing call alone, one earlier call + the failing call, the
        prefix up to the failing call."""
        v = fresh_viol(case)
        if not v:
            return case
        idx, ms = v[0], case["mats"]
        cands = [[ms[idx]]] + [[ms[j], ms[idx]] for j in range(idx - 1, -1, -1)][:40] + [ms[:idx + 1]]
        cands += [[ms[idx], ms[j]] for j in range(idx + 1, len(ms))][:40]     # "altered by a later call"
        for mats in cands:
            small = {"kind": "hist", "mats": mats}
            if len(mats) < len(ms) and fresh_viol(small):
                return small
        return case
