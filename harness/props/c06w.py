"""C06 at the store level (Layer W): the STRUCTURE of the state after the constructor and after every one-site TDVP time
step against the Gallina model Evo/TDVPStore.v (`tdvp_init`, `tdvp1_step_t`, `tdvp2_step_t`: the event trace of
Sched/TDVP.v interpreted as store operations).

Nothing is registered here.  harness/props/c06.py calls
  * `real_side(case, sysd, kind, mode)` inside the worker that runs the real code (sampled cases): a PRIVATE copy of the
    initial state (every tensor read once, so that the stored arrays are in node order - this is what an access does and
    does not change the represented state), its AddRoot/AddChild build programme IN NODE-DICT ORDER, the constructor and up
    to two time steps of the real class, with a side-effect-free snapshot (node dict order, parents, children order, leg
    permutations, recorded raw shapes, tensor dict order, raw tensor shapes, root, orthogonality centre) after each stage;
  * `run(ctx, cases, obs)` from `model`: evaluates `tdvp_case` by vm_compute and compares every stage EXACTLY
    (`wmodel.compare_snapshot` + centre); the evolved tensors are opaque fresh atoms, only structure is compared.
    Per-instance obligations: the build programme is accepted, `tree_of` of the model store is the tree read off the live
    state, every model stage is defined (the model step does not fail), `iso_check` holds after every stage (hypothesis /
    conclusion of C06_step_* on this instance).
"""
from __future__ import annotations

import copy

from lib import coq_eval, coq_nat, coq_list
import wmodel
from wmodel import IdMap

IMPORTS = ("From Coq Require Import List Arith NArith. From PTN Require Import TTN.Store TTN.Canon Tree.RTree Evo.TDVPStore. "
           "Import ListNotations.")
TMP = 99                      # identifier of the temporary R node of split_qr_contract_r_to_neighbour (a uuid in the code)
LK = "(fun a b => 100 + 10 * a + b)"     # link_a_with_b
MAX_STEPS = 2
KIND = {"tdvp1": 1, "tdvp2": 2}


def sampled(case, j):
    """which explored cases get the store-level tie (all of them are cheap; the dense parts of C06 dominate)"""
    return case.get("kind") in KIND and len(case["par"]) <= 7 and case.get("sub") in ("run", "reverse")


def ops_in_dict_order(ttn):
    """AddRoot/AddChild programme rebuilding `ttn` with the SAME node dict order, children order and logical leg order.
    Requires parents before children in the dict and siblings in children-list order (true for util.build_ttns);
    returns None otherwise.  `ttn` must be a private copy (reading a tensor applies the pending leg permutation)."""
    ops = []
    seen = {}
    for x in ttn.nodes:
        t = ttn.tensors[x]
        node = ttn.nodes[x]
        shape = [int(d) for d in t.shape]
        if node.is_root():
            if seen:
                return None
            ops.append(["add_root", x, shape])
        else:
            p = node.parent
            if p not in seen:
                return None
            pn = ttn.nodes[p]
            idx = list(pn.children).index(x)
            if idx != seen[p]:
                return None
            seen[p] += 1
            ops.append(["add_child", x, shape, 0, p, (0 if pn.is_root() else 1) + idx])
        seen[x] = 0
    return ops


def _snap(ttn):
    s = wmodel.snapshot(ttn)
    s["centre"] = ttn.orthogonality_center_id
    return s


def real_side(case, sysd, kind, mode, make_algo, rtree_json):
    """runs in the worker; returns a JSON-able record"""
    try:
        st = copy.deepcopy(sysd["ttns"])
        for x in list(st.nodes):
            _ = st.tensors[x]
        ops = ops_in_dict_order(copy.deepcopy(st))
        if ops is None:
            return {"skip": "node dict order is not parents-first"}
        rec = {"ops": ops, "t0": rtree_json(st), "n": len(st.nodes), "kind": kind, "stages": []}
        nsteps = min(MAX_STEPS, case.get("nsteps", 1))
        algo = make_algo(kind, dict(sysd, ttns=st), mode=mode, nsteps=nsteps)
        rec["update_path"] = list(algo.update_path)
        rec["stages"].append(_snap(algo.state))
        for _k in range(nsteps):
            algo.run_one_time_step()
            rec["stages"].append(_snap(algo.state))
        return rec
    except Exception as e:  # noqa
        return {"error": f"{type(e).__name__}: {e}"}


# ---- model side -----------------------------------------------------------------------------------------------------
def _idmap(n):
    idm = IdMap()
    for i in range(n):
        idm(f"n{i}")
    return idm


def _rtree(t):
    return "(RNode " + coq_nat(int(t[0])) + " [" + "; ".join(_rtree(c) for c in t[1]) + "])"


def _expr(r):
    idm = _idmap(r["n"])
    ops = coq_list([("(" + wmodel.coq_op(o, idm) + ")") for o in r["ops"]])
    return f"tdvp_case {LK} {coq_nat(TMP)} {coq_nat(KIND[r['kind']])} {ops} {_rtree(r['t0'])} {coq_nat(len(r['stages']) - 1)}"


def _unsome(v):
    return v[1] if isinstance(v, tuple) and len(v) == 2 and v[0] == "Some" else v


def _stage(v, idm):
    """parsed `Some (cobs cs)` -> (snapshot-like dict, centre, iso) or None"""
    if v is None or v == "None":
        return None
    v = _unsome(v)
    nodes, tensors, root, dims, atab, centre, iso = v
    mo = wmodel.model_obs_to_py((nodes, tensors, root, dims, atab), idm)
    return mo, (idm.r[centre[0]] if centre else None), iso


def check_one(r, val):
    """-> (obligations [(name, ok)], tie message or None)"""
    if isinstance(val, BaseException):
        return [("model evaluation", False)], f"model evaluation failed: {val}"
    idm = _idmap(r["n"])
    tree_ok, built, (init, steps), first = val
    obl = [("tree_of the model store is the tree of the live state", tree_ok is True),
           ("build programme accepted", built is True)]
    first = _unsome(first)
    if first is None or first == "None" or idm.r[first] != r["update_path"][0]:
        return obl, f"first node of the sweep: model {first}, implementation {r['update_path'][0]}"
    stages = [init] + list(steps)
    names = ["constructor"] + [f"step {k}" for k in range(1, len(r["stages"]))]
    if len(stages) != len(r["stages"]):
        obl.append(("model stages defined", False))
        return obl, f"model produced {len(stages)} stages, implementation {len(r['stages'])}"
    for name, mv, snap in zip(names, stages, r["stages"]):
        st = _stage(mv, idm)
        obl.append((f"model {name} defined", st is not None))
        if st is None:
            return obl, f"{name}: the model step fails (None) where the implementation succeeds"
        mo, centre, iso = st
        obl.append((f"iso_check after {name}", iso is True))
        msg = wmodel.compare_snapshot(snap, mo)
        if msg:
            return obl, f"{name}: {msg}"
        if centre != snap["centre"]:
            return obl, f"{name}: orthogonality centre: implementation {snap['centre']}, model {centre}"
    return obl, None


def run(ctx, cases, obs):
    """hook for C06.model: evaluates the records of all observations; stores a tie message in ob['w_tie'];
    returns (n_obligations, n_ok, failures)"""
    recs, owner = [], []
    for ob in obs:
        if isinstance(ob, dict) and isinstance(ob.get("w"), dict):
            r = ob["w"]
            if "error" in r:
                ob["w_tie"] = f"store-level tie: the private run of the implementation raised {r['error']}"
            elif "skip" not in r:
                recs.append(r)
                owner.append(ob)
    n = ok = 0
    fails = []
    if recs:
        vals = coq_eval(ctx, IMPORTS, [_expr(r) for r in recs], shard=max(2, len(recs) // 14 + 1), scope="nat_scope", timeout=600)
        for r, ob, v in zip(recs, owner, vals):
            try:
                obl, tie = check_one(r, v)
            except Exception as e:  # noqa
                obl, tie = [("model output shape", False)], f"cannot interpret the model output: {type(e).__name__}: {e}"
            if tie:
                ob["w_tie"] = "store-level tie: " + tie
            ob["w_checked"] = len(r["stages"])
            for name, good in obl:
                n += 1
                if good:
                    ok += 1
                elif len(fails) < 5:
                    fails.append(f"{name} is not true ({r['kind']}, tree {r['t0']})")
    for ob in obs:
        if isinstance(ob, dict) and "w" in ob:
            del ob["w"]
    return n, ok, fails
