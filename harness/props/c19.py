"""C19 — special-topology constructors, TTNO.from_tensor and the Ising model builders are faithful."""
from __future__ import annotations

import copy
import itertools
import random
from collections import Counter
from fractions import Fraction

import numpy as np

from lib import Prop, coq_eval, coq_z, coq_nat, coq_list, coq_opt, coq_bool
import util
from wmodel import snapshot
from props.c02 import well_formed, dense_by_tokens

IMPORTS = ("From Coq Require Import List Arith ZArith. "
           "From PTN Require Import TTN.Store TTN.Inv Tree.RTree Special.Chain Models.Ising. Import ListNotations.")

# [ext-C19F] store-level model of TTNO.from_tensor (Special/FromTensor*.v), see props/c19f.py
from props import c19f
IMPORTS = IMPORTS + c19f.IMPORTS
# [/ext-C19F]

KNOWN_STAR = "C19-star-dimension"
KNOWN_GRID = "C19-grid-1x1"


# ---------------------------------------------------------------------------------------------------
# small helpers
# ---------------------------------------------------------------------------------------------------
def nat_list(xs):
    return coq_list(xs, coq_nat)


def shapes_coq(shapes):
    return coq_list(shapes, nat_list)


def rint(nprs, shape, cplx=True, lim=2):
    t = nprs.randint(-lim, lim + 1, size=tuple(shape)).astype(float)
    if cplx:
        t = t + 1j * nprs.randint(-lim, lim + 1, size=tuple(shape))
    return t


def snap_full(ttn):
    s = snapshot(ttn)
    s["nodes"] = [list(n) for n in s["nodes"]]
    return s


def render(code, pre):
    """label (code, a, b) printed by the Coq model -> the documented identifier string"""
    k, a, b = code
    if k == 0:
        return f"{pre['site']}{a}"
    if k == 1:
        return pre["center"]
    if k == 2:
        return f"{pre['arm']}{a}_{b}"
    if k == 3:
        return f"{pre['main']}{a}"
    if k == 4:
        return f"{pre['sub']}{a}_{b}"
    if k == 5:
        return f"{pre['virt']}{a}_{b}"
    raise ValueError(code)


def model_store(obs, name):
    """parsed `obs_store` -> layout of wmodel.snapshot with identifiers rendered through `name`"""
    nodes, tkeys, root, tdims = obs
    return {"nodes": [[name(k), name(p[0]) if p else None, [name(c) for c in ch], list(perm), list(shape)]
                      for (k, p, ch, perm, shape) in nodes],
            "tkeys": [name(k) for k in tkeys], "root": name(root[0]) if root else None,
            "tshapes": {name(k): list(d) for k, d in tdims}}


def compare_store(impl, model):
    a = [n[:5] for n in impl["nodes"]]
    if a != model["nodes"]:
        for x, y in zip(a, model["nodes"]):
            if x != y:
                return f"node record (id, parent, children, leg permutation, raw shape) differs: impl {x} model {y}"
        return f"node keys differ: impl {[n[0] for n in a]} model {[n[0] for n in model['nodes']]}"
    for n in impl["nodes"]:
        if n[0] != n[5]:
            return f"node stored under key {n[0]} reports identifier {n[5]}"
    if impl["tkeys"] != model["tkeys"]:
        return f"tensor key order differs: impl {impl['tkeys']} model {model['tkeys']}"
    if impl["root"] != model["root"]:
        return f"root differs: impl {impl['root']} model {model['root']}"
    if impl["tshapes"] != model["tshapes"]:
        return f"raw tensor shapes differ: impl {impl['tshapes']} model {model['tshapes']}"
    return None


def nonzeros(t):
    idx = np.argwhere(t != 0)
    return [[[int(x) for x in i], complex(t[tuple(i)])] for i in idx]


def same_values(d, ref):
    """value comparison of a contraction with its dense reference on INTEGER input tensors: exact as long as every
    entry of the reference is an integer float64 represents exactly together with the rounding-free products leading
    to it (|entry| < 2^50); beyond that (e.g. 30 Gaussian integers multiplied: 13^15 > 2^53) products of floats round,
    so the entries are compared elementwise with a relative tolerance of 1e-12 (zero entries must still be exactly zero)."""
    d, ref = np.asarray(d), np.asarray(ref)
    if d.shape != ref.shape:
        return False
    if ref.size == 0 or float(np.max(np.abs(ref))) < 2.0 ** 50:
        return bool(np.array_equal(d, ref))
    return bool(np.all(np.abs(d - ref) <= 1e-12 * np.abs(ref)))


def einsum_ref(tensors, legs, out):
    """independent dense reference: tensors[k] has leg labels legs[k] (hashable); output order `out`"""
    lab = {}

    def L(x):
        if x not in lab:
            lab[x] = len(lab)
        return lab[x]
    args = []
    for t, lg in zip(tensors, legs):
        args += [t, [L(x) for x in lg]]
    return np.einsum(*args, [L(x) for x in out], optimize=True)


def dense_tree(ttn, rank):
    """pairwise contraction along the tree (used when einsum runs out of index letters)"""
    cp = copy.deepcopy(ttn)

    def rec(nid):
        nd = cp.nodes[nid]
        cur = cp.tensors[nid]
        labels = (["P"] if nd.parent is not None else []) + [("C", c) for c in nd.children] + [(nid, j) for j in range(nd.nopen_legs())]
        for c in nd.children:
            ct, cl = rec(c)
            ax = labels.index(("C", c))
            cur = np.tensordot(cur, ct, axes=(ax, 0))
            labels = labels[:ax] + labels[ax + 1:] + cl
        return cur, [l for l in labels if l != "P"]
    T, labels = rec(cp.root_id)
    perm = sorted(range(len(labels)), key=lambda k: (rank[labels[k][0]], labels[k][1]))
    return T.transpose(perm) if perm else T


def dense_sites(ttn, order):
    """contraction with the open legs ordered by `order` (list of node ids), each node's open legs in node order"""
    rank = {nid: i for i, nid in enumerate(order)}
    tokens = {nid: [(rank[nid], j) for j in range(nd.nopen_legs())] for nid, nd in ttn.nodes.items()}
    if sum(len(v) for v in tokens.values()) > 60:
        return None                      # numpy arrays have at most 64 axes: structure-only check
    d = dense_by_tokens(ttn, tokens)
    return d if d is not None else dense_tree(ttn, rank)


class Budget:
    """keeps the product of the open dimensions (= size of the dense reference) bounded"""

    def __init__(self, limit=300000):
        self.limit = limit
        self.prod = 1

    def pick(self, rng, choices):
        d = rng.choice(list(choices))
        while d > 1 and self.prod * d > self.limit:
            d -= 1
        self.prod *= d
        return d


def exc_str(e):
    return f"{type(e).__name__}: {e}"


def paulis():
    return {"X": np.array([[0, 1], [1, 0]], dtype=complex), "Z": np.array([[1, 0], [0, -1]], dtype=complex)}


def tree_edges_public(ttn):
    return [(nd.parent, nid) for nid, nd in ttn.nodes.items() if nd.parent is not None]


def ising_reference(sites, edges, J, g, flipped):
    """-J sum_<ij> A_i A_j - g sum_i B_i by Kronecker products (sites in the given order)"""
    P = paulis()
    A, B = (P["Z"], P["X"]) if flipped else (P["X"], P["Z"])
    dims = {s: 2 for s in sites}
    D = 2 ** len(sites)
    H = np.zeros((D, D), dtype=complex)
    for (a, b) in edges:
        H = H - J * util.dense_tp({a: A, b: A}, sites, dims)
    for s in sites:
        H = H - g * util.dense_tp({s: B}, sites, dims)
    return H


def nn_two_operator_check(structure, pairs, sites, seed):
    """create_nearest_neighbour_hamiltonian with two DIFFERENT (non-symmetric) local operators: for every pair (i, j)
    of the structure (tree: (parent, child)) the term is A_i (x) B_j. Returns a description of a deviation or None."""
    from fractions import Fraction
    from pytreenet.operators.sim_operators import create_nearest_neighbour_hamiltonian
    if len(sites) > 8 or not pairs:
        return None
    rs = np.random.RandomState(seed % (2 ** 31))
    A = rs.randint(-3, 4, size=(2, 2)) + 1j * rs.randint(-3, 4, size=(2, 2))
    B = rs.randint(-3, 4, size=(2, 2)) + 1j * rs.randint(-3, 4, size=(2, 2))
    A[0, 1] += 5
    try:
        ham = create_nearest_neighbour_hamiltonian(structure, "A", (Fraction(-3, 2), "c"), local_operator2="B",
                                                   conversion_dict={"A": A, "B": B, "I2": np.eye(2)}, coeffs_mapping={"c": 0.5})
    except Exception as e:  # noqa
        return f"create_nearest_neighbour_hamiltonian with two operators raised {exc_str(e)}"
    so = sorted(sites)
    dims = {x: 2 for x in so}
    H = util.dense_ham(ham, so, dims)
    ref = np.zeros_like(H)
    for (a, b) in pairs:
        ref = ref - 0.75 * util.dense_tp({a: A, b: B}, so, dims)
    if not np.allclose(H, ref, atol=1e-9):
        return (f"create_nearest_neighbour_hamiltonian(A, B) is not sum over the pairs (i, j) of A_i B_j "
                f"(pairs {pairs}; max diff {float(np.max(np.abs(H - ref)))})")
    return None


def dyadic(rng):
    return rng.choice([-2.0, -1.0, -0.5, 0.0, 0.25, 0.5, 1.0, 1.5, 3.0, 0.125])


def rtree_coq(parents_children, root):
    """children dict -> Coq rtree literal"""
    def rec(i):
        return f"(RNode {coq_nat(i)} [" + "; ".join(rec(c) for c in parents_children[i]) + "])"
    return rec(root)


# ---------------------------------------------------------------------------------------------------
# [str7] reference trees PRODUCED / EDITED by other library operations (for TTNO.from_tensor)
# ---------------------------------------------------------------------------------------------------
def tree_relations(tree):
    """the tree as its parent / children relations (never the dictionary order): id -> [parent, children]"""
    return {k: [nd.parent, list(nd.children)] for k, nd in tree.nodes.items()}


def order_inversions(tree):
    """(some node is listed in tree.nodes before its parent, some such parent is itself a non-root node with a non-root parent)"""
    pos = {k: i for i, k in enumerate(tree.nodes)}
    inv = deep = False
    for k, nd in tree.nodes.items():
        p = nd.parent
        if p is not None and pos[p] > pos[k]:
            inv = True
            gp = tree.nodes[p].parent
            if gp is not None and tree.nodes[gp].parent is not None:
                deep = True
    return inv, deep


def edit_reference_tree(ref, rng, nedits, bare=False):
    """Applies `nedits` random PUBLIC library operations to the tree: rename (change_node_identifier, fresh identifiers, identifiers that
    are prefixes / extensions of others, identifiers freed earlier), replace_node (same legs or one more open leg), contract_nodes +
    split_node_qr / split_node_svd (either argument order, old or fresh identifiers, default or explicit identifier of the contracted
    node), add_parent_to_root, deepcopy / pickle round trips, and calls the library REJECTS (non-neighbours contracted, replace_node
    with an incompatible tensor, rename of a missing node) after which the sequence goes on. Returns (tree, log, rejected calls that
    were ACCEPTED or changed the tree)."""
    import pickle
    from pytreenet.core.node import Node
    from pytreenet.core.graph_node import GraphNode
    from pytreenet.util.tensor_splitting import SVDParameters
    nprs = np.random.RandomState(rng.randrange(2 ** 31))
    log, bad = [], []
    freed = []
    cnt = [0]

    def fresh(base=None):
        cnt[0] += 1
        x = rng.random()
        ids = list(ref.nodes)
        if freed and x < 0.3:
            c = freed.pop(rng.randrange(len(freed)))
            if c not in ref.nodes:
                return c
        if base is not None and x < 0.55:
            c = base + rng.choice(["0", "_new", "contr", "'", " "])
        elif x < 0.7:
            c = rng.choice(ids)[:-1] or "r"
        else:
            c = rng.choice(["A", "B", "node", "x", "site", "n"]) + str(cnt[0])
        while c in ref.nodes:
            c = c + "_"
        return c

    def rand(shape):
        return nprs.standard_normal(tuple(shape)) + 1j * nprs.standard_normal(tuple(shape))

    for _ in range(nedits):
        ids = list(ref.nodes)
        ops = ["rename", "rename", "copy", "reject"] if bare else ["rename", "rename", "replace", "replace", "resplit", "resplit", "resplit",
                                                                      "newroot", "copy", "reject"]
        op = rng.choice(ops)
        if op == "resplit" and len(ids) < 2:
            op = "rename"
        if op == "rename":
            old = rng.choice(ids)
            new = fresh(old)
            ref.change_node_identifier(new, old)
            freed.append(old)
            log.append(f"change_node_identifier({new!r}, {old!r})")
        elif op == "replace":
            old = rng.choice(ids)
            new = fresh(old)
            shape = list(ref.tensors[old].shape)
            if rng.random() < 0.4:
                shape.append(rng.choice([1, 2]))
            ref.replace_node(new, old, rand(shape))
            freed.append(old)
            log.append(f"replace_node({new!r}, {old!r}, shape {shape})")
        elif op == "resplit":
            c = rng.choice([k for k in ids if ref.nodes[k].parent is not None])
            p = ref.nodes[c].parent
            a, b = (p, c) if rng.random() < 0.6 else (c, p)
            sa, sb = ref.legs_before_combination(a, b)
            tmp = "" if rng.random() < 0.5 else fresh()
            ref.contract_nodes(a, b, new_identifier=tmp)
            tmp = tmp or (a + "contr" + b)
            na, nb = (a, b) if rng.random() < 0.6 else (fresh(a), fresh(b))
            while nb == na:
                nb = nb + "_"
            if rng.random() < 0.5:
                ref.split_node_qr(tmp, sa, sb, q_identifier=na, r_identifier=nb)
                how = "qr"
            else:
                ref.split_node_svd(tmp, sa, sb, u_identifier=na, v_identifier=nb, svd_params=SVDParameters(max_bond_dim=64, rel_tol=0, total_tol=0))
                how = "svd"
            for x in (a, b):
                if x not in (na, nb):
                    freed.append(x)
            log.append(f"contract_nodes({a!r}, {b!r}) + split_node_{how} -> {na!r}, {nb!r}")
        elif op == "newroot":
            root = ref.nodes[ref.root_id]
            if root.nopen_legs() == 0:
                log.append("newroot skipped (root has no open leg)")
                continue
            leg = root.nneighbours() + rng.randrange(root.nopen_legs())
            d = ref.tensors[ref.root_id].shape[leg]
            new = fresh()
            t = rand([2, d]) if rng.random() < 0.5 else rand([d, 2])
            ref.add_parent_to_root(leg, Node(tensor=t, identifier=new), t, list(t.shape).index(d) if t.shape[0] != t.shape[1] else 0)
            log.append(f"add_parent_to_root({new!r})")
        elif op == "copy":
            if rng.random() < 0.5:
                ref = copy.deepcopy(ref)
                log.append("deepcopy")
            else:
                ref = pickle.loads(pickle.dumps(ref))
                log.append("pickle round trip")
        else:
            before = (list(ref.nodes), tree_relations(ref), ref.root_id)
            which = rng.choice(["missing", "missing"] if bare else ["nonneighbours", "badreplace", "missing"])
            try:
                if which == "nonneighbours":
                    pairs = [(x, y) for x in ids for y in ids if x != y and ref.nodes[x].parent != y and ref.nodes[y].parent != x]
                    if not pairs:
                        continue
                    x, y = rng.choice(pairs)
                    what = f"contract_nodes({x!r}, {y!r}) of non-neighbours"
                    ref.contract_nodes(x, y)
                elif which == "badreplace":
                    cands = [k for k in ids if ref.nodes[k].nneighbours() >= 1]
                    if not cands:
                        continue
                    x = rng.choice(cands)
                    shape = [dd + 1 for dd in ref.tensors[x].shape]
                    what = f"replace_node('zz', {x!r}) with shape {shape}"
                    ref.replace_node("zz", x, rand(shape))
                else:
                    what = "change_node_identifier of a missing node"
                    ref.change_node_identifier(fresh(), "no such node")
                bad.append(f"{what} was accepted")
            except Exception as e:  # noqa
                log.append(f"rejected: {what} ({type(e).__name__})")
                if (list(ref.nodes), tree_relations(ref), ref.root_id) != before:
                    bad.append(f"rejected call {what} changed the tree")
    return ref, log, bad


def bare_structure(ref):
    """a bare TreeStructure of GraphNodes with the relations of `ref`, built root first through the public add_* methods"""
    from pytreenet.core.tree_structure import TreeStructure
    from pytreenet.core.graph_node import GraphNode
    ts = TreeStructure()
    ts.add_root(GraphNode(identifier=ref.root_id))
    todo = [ref.root_id]
    while todo:
        k = todo.pop(0)
        for c in ref.nodes[k].children:
            ts.add_child_to_parent(GraphNode(identifier=c), k)
            todo.append(c)
    return ts


# ---------------------------------------------------------------------------------------------------
# identifier spellings
# ---------------------------------------------------------------------------------------------------
_PREFIX_ALPHABET = "abcdefghijklmnopqrstuvwxyzABCDEFXYZ0123456789_-. :/" + "äσ中"


def random_prefix(rng, short=None):
    """a legal identifier prefix: the usual short ones, the empty one, and arbitrary strings of 1..40 characters
    (letters, digits, punctuation, blanks, non-ASCII); the documented identifiers are prefix + index, whatever the prefix"""
    x = rng.random()
    if x < 0.35:
        return rng.choice(short or ["site", "node", "s", "q", "qubit"])
    if x < 0.40:
        return ""
    n = rng.choice([1, 2, 3, 5, 8, 11, 13, 14, 15, 16, 17, 20, 24, 31, 32, 33, 40])
    return "".join(rng.choice(_PREFIX_ALPHABET) for _ in range(n))


# ---------------------------------------------------------------------------------------------------
# histories on ONE object: build a model, grow the object through the library's public methods, build again
# ---------------------------------------------------------------------------------------------------
def _unit(shape):
    t = np.zeros(tuple(shape), dtype=complex)
    t[(0,) * len(shape)] = 1
    return t


class _Grower:
    """Something the model builders accept as `ref_tree` / `structure` / `grid`, grown step by step. The harness keeps its
    OWN record of the sites and bonds it asked for (documented identifiers; `parent`: id -> parent id in creation order)
    and never reads them back from the library. Every tensor is a qubit (last leg, dimension 2) with spare dimension-1
    legs for future neighbours (first-open-leg rule), so that growing is always legal."""
    tree = True
    maxn = 7

    def __init__(self, rng):
        self.rng = rng
        self.parent = {}

    def sites(self):
        return list(self.parent)

    def edges(self):
        return [(p, c) for c, p in self.parent.items() if p is not None]

    def deg(self, x):
        return sum(1 for p in self.parent.values() if p == x) + (self.parent[x] is not None)

    def structure(self):
        return self.obj

    def full(self):
        return len(self.parent) >= self.maxn


class _GrowTTN(_Grower):
    """TreeTensorNetworkState via add_root / add_child_to_parent / add_parent_to_root; arbitrary identifiers"""

    def __init__(self, rng):
        super().__init__(rng)
        from pytreenet.ttns.ttns import TreeTensorNetworkState
        self.pre = random_prefix(rng)
        self.k = 0
        self.obj = TreeTensorNetworkState()
        self.root = self._new()
        self._add_root(self.root)
        self.parent[self.root] = None

    def _new(self):
        self.k += 1
        return f"{self.pre}{self.k - 1}"

    def _add_root(self, nid):
        from pytreenet.core.node import Node
        self.obj.add_root(Node(identifier=nid), _unit([1, 1, 1, 1, 2]))

    def _add_child(self, nid, p):
        from pytreenet.core.node import Node
        self.obj.add_child_to_parent(Node(identifier=nid), _unit([1, 1, 1, 1, 2]), 0, p, self.deg(p))

    def _add_parent(self, nid):
        from pytreenet.core.node import Node
        t = _unit([1, 1, 1, 1, 2])       # add_parent_to_root expects a node already linked to its tensor (as in tests/test_ttn.py)
        self.obj.add_parent_to_root(self.deg(self.root), Node(tensor=t, identifier=nid), t, 0)

    def grow(self):
        rng = self.rng
        if rng.random() < 0.25 and self.deg(self.root) < 4:
            nid = self._new()
            self._add_parent(nid)
            self.parent[self.root] = nid
            self.parent[nid] = None
            self.root = nid
            return f"add_parent_to_root({nid!r})"
        p = rng.choice([x for x in self.parent if self.deg(x) < 4])
        nid = self._new()
        self._add_child(nid, p)
        self.parent[nid] = p
        return f"add_child_to_parent({nid!r}, parent {p!r})"


class _GrowStruct(_GrowTTN):
    """bare TreeStructure of GraphNodes"""

    def __init__(self, rng):
        _Grower.__init__(self, rng)
        from pytreenet.core.tree_structure import TreeStructure
        self.pre = random_prefix(rng)
        self.k = 0
        self.obj = TreeStructure()
        self.root = self._new()
        self._add_root(self.root)
        self.parent[self.root] = None

    def _add_root(self, nid):
        from pytreenet.core.graph_node import GraphNode
        self.obj.add_root(GraphNode(identifier=nid))

    def _add_child(self, nid, p):
        from pytreenet.core.graph_node import GraphNode
        self.obj.add_child_to_parent(GraphNode(identifier=nid), p)

    def _add_parent(self, nid):
        from pytreenet.core.graph_node import GraphNode
        self.obj.add_parent_to_root(GraphNode(identifier=nid))


class _GrowStar(_Grower):
    """StarTreeTensorNetwork / StarTreeTensorState via add_center_node / add_chain_node"""

    def __init__(self, rng):
        super().__init__(rng)
        from pytreenet.special_ttn.star import StarTreeTensorNetwork, StarTreeTensorState
        cls = rng.choice([StarTreeTensorNetwork, StarTreeTensorState])
        if rng.random() < 0.5:
            self.cid = "central" if cls is StarTreeTensorState else "center"
            self.pre = "node"
            self.obj = cls()
        else:
            self.cid, self.pre = random_prefix(rng, ["center", "central", "c"]) + "C", random_prefix(rng)
            self.obj = cls(self.cid, self.pre)
        self.maxch = rng.choice([1, 2, 3, 4])
        self.lens = []
        self.obj.add_center_node(_unit([1] * self.maxch + [2]))
        self.parent[self.cid] = None

    def grow(self):
        cand = list(range(len(self.lens))) + ([len(self.lens)] if len(self.lens) < self.maxch else [])
        c = self.rng.choice(cand)
        self.obj.add_chain_node(_unit([1, 1, 2]), c)
        if c == len(self.lens):
            self.lens.append(0)
        nid = f"{self.pre}{c}_{self.lens[c]}"
        self.parent[nid] = self.cid if self.lens[c] == 0 else f"{self.pre}{c}_{self.lens[c] - 1}"
        self.lens[c] += 1
        return f"add_chain_node(chain {c}) -> {nid!r}"


class _GrowMPS(_Grower):
    """MatrixProductTree / MatrixProductState via add_root / attach_node_right_end / attach_node_left_end"""

    def __init__(self, rng):
        super().__init__(rng)
        from pytreenet.special_ttn.mps import MatrixProductTree, MatrixProductState
        from pytreenet.core.node import Node
        self.pre = random_prefix(rng)
        self.obj = rng.choice([MatrixProductTree, MatrixProductState])()
        self.k = 1
        nid = f"{self.pre}0"
        self.obj.add_root(Node(identifier=nid), _unit([1, 1, 2]))
        self.parent[nid] = None
        self.left = self.right = nid

    def grow(self):
        from pytreenet.core.node import Node
        nid = f"{self.pre}{self.k}"
        self.k += 1
        if self.rng.random() < 0.7:
            self.obj.attach_node_right_end(Node(identifier=nid), _unit([1, 1, 2]))
            self.parent[nid] = self.right
            self.right = nid
            return f"attach_node_right_end({nid!r})"
        self.obj.attach_node_left_end(Node(identifier=nid), _unit([1, 1, 2]))
        self.parent[nid] = self.left
        self.left = nid
        return f"attach_node_left_end({nid!r})"


class _GrowFork(_Grower):
    """ForkTreeTensorNetwork via add_main_chain_node / add_sub_chain_node"""

    def __init__(self, rng):
        super().__init__(rng)
        from pytreenet.special_ttn.fttn import ForkTreeTensorNetwork
        if rng.random() < 0.5:
            self.mp, self.sp = "main", "sub"
            self.obj = ForkTreeTensorNetwork()
        else:
            self.mp, self.sp = random_prefix(rng, ["main", "m"]) + "M", random_prefix(rng, ["sub", "s"]) + "S"
            self.obj = ForkTreeTensorNetwork(self.mp, self.sp)
        self.subl = []
        self._main()

    def _main(self):
        i = len(self.subl)
        self.obj.add_main_chain_node(_unit([1, 1, 1, 2]))
        self.parent[f"{self.mp}{i}"] = None if i == 0 else f"{self.mp}{i - 1}"
        self.subl.append(0)
        return f"add_main_chain_node() -> {self.mp}{i}"

    def grow(self):
        if self.rng.random() < 0.4:
            return self._main()
        i = self.rng.randrange(len(self.subl))
        j = self.subl[i]
        self.obj.add_sub_chain_node(_unit([1, 1, 2]), i)
        self.parent[f"{self.sp}{i}_{j}"] = f"{self.mp}{i}" if j == 0 else f"{self.sp}{i}_{j - 1}"
        self.subl[i] += 1
        return f"add_sub_chain_node(subchain {i}) -> {self.sp}{i}_{j}"


class _GrowPairs(_Grower):
    """a caller-owned list of nearest-neighbour pairs: the SAME list object is extended between the builds"""
    tree = False

    def __init__(self, rng):
        super().__init__(rng)
        self.pre = random_prefix(rng)
        self.obj = []
        self.pairs = []          # the harness's own copy, as site indices
        self.parent[f"{self.pre}0"] = None
        self.grow()

    def grow(self):
        k = len(self.parent)
        p = self.rng.randrange(k)
        a, b = (p, k) if self.rng.random() < 0.5 else (k, p)
        self.parent[f"{self.pre}{k}"] = f"{self.pre}{p}"
        self.pairs.append((a, b))
        self.obj.append((f"{self.pre}{a}", f"{self.pre}{b}"))
        return f"pairs.append(({self.pre}{a}, {self.pre}{b}))"


class _GrowGrid(_Grower):
    """two-dimensional grids of growing size with one prefix, tuple form or identifier array"""
    tree = False
    maxn = 9

    def __init__(self, rng):
        super().__init__(rng)
        self.pre = random_prefix(rng)
        self.r, self.c = rng.choice([(1, 2), (2, 1), (2, 2), (1, 3)])
        self.form = rng.choice(["tuple", "tuple", "array"])

    def full(self):
        return min((self.r + 1) * self.c, self.r * (self.c + 1)) > self.maxn

    def grow(self):
        opts = [(self.r + 1, self.c), (self.r, self.c + 1)]
        self.r, self.c = self.rng.choice([o for o in opts if o[0] * o[1] <= self.maxn])
        return f"grid -> {self.r} x {self.c}"

    def sites(self):
        return [f"{self.pre}{i}_{j}" for i in range(self.r) for j in range(self.c)]

    def edges(self):
        return [(f"{self.pre}{i}_{j}", f"{self.pre}{i2}_{j2}") for i in range(self.r) for j in range(self.c)
                for (i2, j2) in ((i + 1, j), (i, j + 1)) if i2 < self.r and j2 < self.c]

    def structure(self):
        if self.form == "tuple":
            return (self.pre, self.r, self.c)
        g = np.empty((self.r, self.c), dtype=object)
        for i in range(self.r):
            for j in range(self.c):
                g[i, j] = f"{self.pre}{i}_{j}"
        return g


GROWERS = {"ttn": _GrowTTN, "struct": _GrowStruct, "star": _GrowStar, "mps": _GrowMPS, "fork": _GrowFork,
           "pairs": _GrowPairs, "grid": _GrowGrid}



class C19(Prop):
    id = "C19"
    title = "special-topology constructors, from_tensor, Ising builders"
    design_ref = "DESIGN.md section 5 / C19"
    rule = ("exhaustive grid: chains of length 1..8 with every root position (+ out-of-range / negative roots), physical dimension 1..3, "
            "0-2 open legs, random bond dimensions; product-state helpers with every state value, every root and bond padding (None / ones / random / "
            "invalid); stars (0-3 chains of length 0-3, dimension 1..3, every state value; random stars with interleaved call orders); forks "
            "(width, height 1..4, bond 1..3; random call orders); binary trees with 1..16 (thorough 40) physical sites; TTNO.from_tensor on random "
            "trees (1-5 nodes), random leg assignments, site dimensions 1..3, QR/SVD/tSVD, full- and low-rank operators; Ising / flipped Ising on "
            "random trees, pair lists, grids (tuple form, object array, numpy string array) up to 6x6, exact chains up to 8 sites. Identifier spellings: the "
            "prefixes of chains, stars and grids are drawn from the usual short ones, the empty string and arbitrary strings of 1..40 characters (letters, digits, "
            "punctuation, blanks, non-ASCII). Histories (kind ising_history): ONE object (TreeTensorNetworkState, bare TreeStructure, star, MPS, fork, a caller-owned "
            "pair list, a grid prefix) is built, then 2-4 times: grown by 0-3 steps through the public methods (add_child_to_parent, add_parent_to_root, add_chain_node, "
            "attach_node_right/left_end, add_main/sub_chain_node, list.append, larger grid) and handed to ising_model / flipped_ising_model / *_2D / "
            "create_nearest_neighbour_hamiltonian / nearest_neighbours() with fresh couplings; returned lists and Hamiltonians are mutated by the caller in between; "
            "every build is judged against the harness's own record of the sites and bonds it asked for, and tied to the model on the structure the object reports at "
            "that moment. Explicit parent legs (kind legs_build, oracle-only): stars (1-4 chains of length 1-4) and forks (1-4 main nodes, subchains of length 0-3, random call "
            "orders) of the plain / state / operator classes with default or arbitrary prefixes, built through add_chain_node / add_main_chain_node / add_sub_chain_node with the "
            "optional parent_leg argument: the caller's tensors carry the bonds to their future children at ARBITRARY raw axes, every call names the parent's leg (its position "
            "in the documented current order parent, children as attached, open legs) explicitly or, where it is the first open leg, by the default; all bonds of one dimension "
            "(45 %, so a wrong leg fits silently) or random dimensions 1..3; judged by identifiers, parents, chain lists, exact dense contraction against the einsum of the "
            "caller's tensors, and the documented axis order of the public tensors. non-trivial = at least 2 nodes / sites (histories: at least 2 builds; legs_build: at least "
            "one call whose parent leg is not the first open leg). [str7] Reference trees PRODUCED BY the library (from_tensor cases with `edits`): a random TTNS (2-7 nodes, 70 % "
            "chain-like so that depth >= 3 is common; every 6th a bare TreeStructure) goes through 1-6 random public operations - change_node_identifier (fresh identifiers, "
            "prefixes / extensions of other identifiers, identifiers freed earlier), replace_node (same legs or one more open leg), contract_nodes + split_node_qr / split_node_svd "
            "(either argument order, default or explicit identifier of the contracted node, old or fresh identifiers for the halves), add_parent_to_root, deepcopy / pickle round "
            "trips, and calls the library REJECTS (contract_nodes of non-neighbours, replace_node with an incompatible tensor, rename of a missing node: caught, tree must be "
            "unchanged, sequence goes on) - and is then the reference tree of from_tensor with a random leg assignment, all three modes, full- and low-rank operators; the tree is "
            "read ONLY through root_id / parent / children (never the order of the nodes dictionary) for the oracle, the rtree handed to the Coq model and the identifier map of "
            "the tie; counters report how many of these trees list a node before its parent (and below a non-root node). Constructor histories (kind ctor_history): 2-5 constructor "
            "calls (generate_binary_ttns, MatrixProductState / StarTreeTensorState.constant_product_state, constant_ftps; usually sharing bond / physical dimension) in ONE process, "
            "each result used IN PLACE by the caller before the next call (normalise(), canonical_form at a random node, both, root / all tensors scaled through the public "
            "tensors[...] arrays, a tensor zeroed or shifted, deepcopy + normalise); EVERY build is judged by the same dense oracle and tied to the same (stateless) Coq model as "
            "a first call; each history runs in a forked child of the never-mutated harness process, so it reproduces alone (non-trivial = >= 2 builds with a use in between)")
    clauses = [
        ("F", "MPS from_tensor_list (all lengths, all root positions, all tensor lists on which no call raises): node dictionary in closed form: chain site0..site(L-1), "
              "dictionary order, neighbours i-1/i+1, requested root, parents toward the root, tensor axis 0 -> left neighbour, axis 1 -> right neighbour (site 0: axis 0), "
              "left/right node lists (C19_mps_closed_form, C19_mps_dict_order, C19_mps_chain)"),
        ("F", "MPS on the documented input format (any bond dimensions, any open legs, any root) is accepted: no add_child_to_parent is rejected (C19_mps_accepts); "
              "the produced store satisfies the store invariant wfb (C19_mps_store_wf); likewise every star / fork built through add_chain_node / add_*_chain_node "
              "(C19_star_store_wf, C19_fork_store_wf)"),
        ("F", "Ising term list = field block ++ coupling block, factor -1, symbols ext_magn / coupling; tree: nearest_neighbours is a permutation of the edge list for any "
              "dictionary order, 2n-1 terms; r x c grid (all r, c): exactly the grid edges, each once, never reversed, (r-1)c + r(c-1) couplings; r*c >= 2: field block is a "
              "permutation of the sites; 1x1 grid: no term (refutation = finding C19-grid-1x1); denotation -J sum A_i A_j - g sum B_i over any additive structure; exact "
              "builder = same multiset on the chain = 1 x n grid (C19_ising_*, C19_tree_*, C19_grid_*, C19_exact_terms, C19_chain_is_grid_row)"),
        ("F", "_get_qr_decomposition_shape is a permutation of all 2n legs for every tree and bijective leg_dict and puts the first child's subtree legs last (C19_qr_*)"),
        ("F", "star product state as found (bug=true) rejects every dimension != 2 with >= 1 chain node (C19_star_dim_refuted); bounded: the repaired instance, binary trees "
              "(1..16 sites) and constant_ftps (1..5 x 1..5) are accepted, well-formed and have the documented node counts (C19_star_fixed_bounded, C19_binary_bounded, C19_ftps_bounded)"),
        ("I", "per explored instance: the store produced by the model of every constructor (incl. product-state helpers, binary replace_node) passes wfb, evaluated by vm_compute"),
        # [ext-C19F]
        ("F", "TTNO.from_tensor / _from_tensor_rec modelled literally as a program over the store model (Special/FromTensor.v: initial transposition, add_root, per child the "
              "kernel call on the trailing 2 * subtree-size legs, link_tensor + tensors[current] = Q, add_child_to_parent(R, 0, current, Q.ndim - 1) with the leg bookkeeping of "
              "open_leg_to_parent / open_leg_to_child, recursion, next TensorDict access): for ALL reference trees with distinct identifiers, ALL bijective leg assignments, QR / SVD / "
              "truncated SVD with any kept bond dimensions: the program is accepted, the result satisfies wfb, the node dictionary is the reference tree in pre-order with the same root, "
              "parents and children IN THE SAME ORDER, every node ends with exactly two open legs = the operator's axes (leg_dict[node], n + leg_dict[node]) in this order and an identity "
              "leg permutation (C19_from_tensor_structure); one factor-and-attach step on any well-formed store: accepted, wf preserved, local effect (C19_from_tensor_step); the decidable "
              "hypothesis checker is sound (C19_from_tensor_hyp_checker)"),
        ("O", "from_tensor VALUE: over any commutative semiring, under the kernel contract that every factorisation the program records satisfies Q . R = A over the new bond (def_holds "
              "of TTN/InvSem.v: LAPACK QR / SVD; for the truncated SVD up to the singular values below rel_tol = 1e-10 the code discards), the contraction of the resulting network equals "
              "the input operator, with the open legs (leg_dict[node], n + leg_dict[node]) node after node in pre-order (C19_from_tensor_value); one step preserves the network value under "
              "its own contract (C19_from_tensor_step_value); the contract is satisfiable (C19_example_from_tensor_contract, C19_example_from_tensor_value); bond dimension = min(rows, cols) "
              "for QR / SVD tied exactly"),
        ("I", "per from_tensor case, on the tied store model, by vm_compute: ft_hyp (decidable form of the theorem hypotheses), wfb, wfsb, ft_result_ok (the conclusion of "
              "C19_from_tensor_structure)"),
        ("V", "per from_tensor case: every captured kernel call satisfies Q . R = A numerically (1e-9 relative); every raw tensor of the returned TTNO is exactly the kernel factor the "
              "model names, transposed as the model says (array equality); the kernel-call sequence (shapes, leg lists, bond dimensions) equals the model's recorded definitions"),
        # [/ext-C19F]
        ("V", "contraction of the produced networks equals the specified tensor chain / star / fork / product state (dense einsum oracle, exact on integer tensors), independent of root and "
              "padding; from_tensor contracts to the input operator; model builders equal the Kronecker sums; exact dense builders agree with the symbolic ones"),
        ("V", "explicit parent legs: a star / fork built through add_chain_node / add_main_chain_node / add_sub_chain_node with parent_leg given (any open leg of the parent, on the "
              "first node of a chain / subchain as well as on later ones, mixed with default calls) is accepted, well-formed, has the documented identifiers, parents and chain lists, "
              "and contracts to the caller's tensors with every new node's axis 0 bound to the requested axis of its parent (exact on integer tensors); the public tensors have the "
              "documented axis order (parent, children as attached, open legs in their original order)"),
        ("V", "[str7] from_tensor on reference trees that other library operations produced (renamed / replaced / contracted-and-re-split nodes, new roots, copies, rejected "
              "calls in between; dictionary order no longer parent-before-child): accepted, well-formed, same root / parents / children in the same order as the reference tree's "
              "RELATIONS, two open legs per node, contraction = the operator, reference tree left untouched; tied to the store model of C19_from_tensor_structure on the rtree read "
              "off the relations (the theorem quantifies over all trees, not over dictionary orders)"),
        ("V", "[str7] constructor histories: a constructor called after earlier results were normalised / canonicalised / scaled / overwritten in place yields the same network "
              "(structure tie + trivial virtual tensors + exact dense product state) as a first call in a fresh process"),
        ("V", "histories: every model build on an object that was grown (and already used for earlier builds) equals -J sum_<ij> A_i A_j - g sum_i B_i over the sites and bonds "
              "the object has at that moment (term-level: one field term per site, one coupling per bond; dense Kronecker sum up to 9 sites), independent of earlier builds, "
              "earlier nearest_neighbours() calls and caller-side mutation of returned lists / Hamiltonians; documented identifiers hold for arbitrary prefixes up to 40 characters"),
    ]
    trusted_base = ["NumPy reshape/pad/zeros/kron/einsum; LAPACK QR/SVD in from_tensor (validated numerically through the dense oracle)",
                    # [ext-C19F]
                    "kernel contract of C19_from_tensor_value / _step_value: def_holds (Q . R summed over the new bond = the factorised tensor) for every definition the store model of "
                    "from_tensor records; validated numerically on every kernel call captured by a spy on tensor_qr_decomposition / tensor_svd / truncated_tensor_svd in the namespace of "
                    "pytreenet.ttno.ttno_class (R = diag(S) Vh recomputed by the spy with the code's formula); for tSVD the contract holds only up to the discarded singular values (< 1e-10 relative)",
                    # [/ext-C19F]
                    "identifier strings are rendered by the harness from the labels the model prints (format strings 'site{i}', '{prefix}{c}_{j}', ... copied from the docstrings)",
                    "Python set order in _abstract_ising_model: the single-site block is compared as a multiset"]
    assumptions = ["the Coq models of the constructors use parent_leg=None (the default first-open-leg rule); explicit parent legs are not modelled: the kind legs_build is "
                   "judged by the dense oracle only (no model tie), with the harness's own bookkeeping of the documented leg order (parent, children as attached, open legs)",
                   "from_tensor: leg_dict is a bijection nodes -> 0..n-1 and the reference tree has unique identifiers",
                   "[str7] edited reference trees: an edit sequence that raises on a legal call or leaves a tree that is not well-formed (C02's invariant) is not a reference tree; such a "
                   "case is skipped and counted (from_tensor:edited:edit-sequence-raised / tree-not-well-formed: 0 on the unchanged library) - those defects belong to C02 / C03",
                   "histories grow objects only through the public add_* / attach_* methods with qubit tensors carrying spare dimension-1 legs (first-open-leg rule); "
                   "add_parent_to_root is called with a node already linked to its tensor, as the library's own tests do; the Ising term lists of the Coq model are "
                   "stateless functions of the current structure, so the tie of a history is the per-build tie on the structure read off the object",
                   # [ext-C19F]
                   "from_tensor store model: the input tensor is an opaque atom (atom 0, axis a = wire a), the Q / R factors are opaque atoms related to it only through the recorded "
                   "definitions; the bond dimensions the truncated SVD keeps are inputs of the model (read off the code's result); QR is modelled with the default mode REDUCED"]
                   # [/ext-C19F]

    # -----------------------------------------------------------------------------------------------
    # generation
    # -----------------------------------------------------------------------------------------------
    def corpus(self, ctx):
        base = super().corpus(ctx)
        return base

    def generate(self, ctx, stream, budget_scale=1):
        rng = ctx.rng(stream)
        th = ctx.thorough()
        main = stream == "main"
        cases = []
        sd = lambda: rng.randrange(10 ** 9)
        # --- MPS from_tensor_list --------------------------------------------------------------
        Ls = list(range(1, 9))
        for L in Ls:
            for r in range(L):
                reps = (8 if th else 2) * budget_scale
                for rep in range(reps):
                    phys = rng.choice([1, 2, 3])
                    nopen = [rng.choice([1, 1, 1, 2, 0]) if rep else 1 for _ in range(L)]
                    if not main:
                        nopen = [rng.choice([0, 1, 2]) for _ in range(L)]
                    bonds = [rng.choice([1, 2, 3]) for _ in range(L - 1)]
                    bud = Budget()
                    opens = [[bud.pick(rng, [phys]) if k == 0 else bud.pick(rng, [1, 2]) for k in range(nopen[i])] for i in range(L)]
                    cases.append({"kind": "mps_list", "bonds": bonds, "opens": opens, "root": r, "seed": sd(),
                                  "prefix": random_prefix(rng, ["site", "site", "q"]), "mal": None})
        for _ in range((40 if th else 8) * budget_scale):
            L = rng.randrange(2, 7)
            bonds = [rng.choice([1, 2, 3]) for _ in range(L - 1)]
            opens = [[rng.choice([2, 3])] for _ in range(L)]
            mal = rng.choice(["root_high", "root_neg", "bond", "empty"])
            r = rng.randrange(L)
            if mal == "root_high":
                r = L + rng.randrange(3)
            elif mal == "root_neg":
                r = -1 - rng.randrange(2)
            cases.append({"kind": "mps_list", "bonds": bonds, "opens": opens, "root": r, "seed": sd(), "prefix": "site", "mal": mal})
        # --- MPS constant product state ------------------------------------------------------------
        for n in range(0, 9):
            for dim in (1, 2, 3):
                roots = list(range(max(n, 2))) + [max(n, 2)]
                if not th:
                    roots = sorted(set([0, max(n, 2) - 1, rng.randrange(max(n, 2)), max(n, 2)]))
                for r in roots:
                    svs = list(range(dim)) if (th or n <= 4) else [rng.randrange(dim)]
                    for sv in svs:
                        bk = rng.choice(["none", "ones", "rand", "rand"]) if main else rng.choice(["none", "rand", "rand", "zero", "len"])
                        cases.append(self._cps_case(rng, sv, dim, n, r, bk))
        for _ in range((40 if th else 8) * budget_scale):
            n = rng.randrange(2, 6)
            dim = rng.choice([1, 2, 3])
            sv = rng.choice([-1, dim, dim + 1, 0])
            bk = rng.choice(["zero", "len", "rand", "none"])
            cases.append(self._cps_case(rng, sv, rng.choice([dim, 0, -1]) if sv == 0 else dim, n, rng.randrange(-1, n + 1), bk))
        # --- star product state ---------------------------------------------------------------------
        for dim in (1, 2, 3):
            for nch in range(0, 4):
                for cl in range(0, 4):
                    for sv in range(dim):
                        cases.append({"kind": "star_cps", "sv": sv, "dim": dim, "clen": cl, "nch": nch, "prefix": random_prefix(rng, ["site", "arm"])})
        for (sv, dim, cl, nch) in [(-1, 2, 1, 1), (2, 2, 1, 1), (0, 0, 1, 1), (0, 2, -1, 1), (0, 2, 1, -1), (3, 3, 2, 2)]:
            cases.append({"kind": "star_cps", "sv": sv, "dim": dim, "clen": cl, "nch": nch, "prefix": "site"})
        # --- random stars / forks through the add_* methods --------------------------------------------
        for _ in range((200 if th else 30) * budget_scale):
            cases.append({"kind": "star_build", "seed": sd(), "nch": rng.choice([1, 1, 2, 3, 4]), "maxlen": rng.choice([1, 2, 3, 4]),
                          "mal": rng.random() < 0.15, "state": rng.random() < 0.5})
        for _ in range((200 if th else 30) * budget_scale):
            cases.append({"kind": "fork_build", "seed": sd(), "h": rng.choice([1, 2, 2, 3, 4]), "maxw": rng.choice([0, 1, 2, 3]),
                          "mal": rng.random() < 0.15})
        for w in range(1, 5):
            for h in range(1, 5):
                for bd in ((1, 2, 3) if th else (1, rng.choice([2, 3]))):
                    cases.append({"kind": "ftps", "w": w, "h": h, "bd": bd, "phys": rng.choice([1, 2, 3]), "seed": sd()})
        for (w, h, bd) in [(0, 2, 1), (2, 0, 1), (2, 2, 0), (-1, 2, 2)]:
            cases.append({"kind": "ftps", "w": w, "h": h, "bd": bd, "phys": 2, "seed": sd()})
        # --- binary trees -------------------------------------------------------------------------------
        for n in range(1, (41 if th else 17)):
            for bd in ((1, 2, 3) if th else (rng.choice([1, 2, 3]),)):
                cases.append({"kind": "binary", "n": n, "bd": bd, "phys": rng.choice([1, 2, 3]), "seed": sd(), "mal": None})
        for mal in ["n0", "bd0", "shape"]:
            cases.append({"kind": "binary", "n": rng.randrange(2, 6), "bd": 2, "phys": 2, "seed": sd(), "mal": mal})
        # --- from_tensor -----------------------------------------------------------------------------------
        for j in range((600 if th else 90) * budget_scale):
            nn = rng.choice([1, 2, 2, 3, 3, 4, 4, 5])
            cases.append({"kind": "from_tensor", "seed": sd(), "nnodes": nn, "mode": ["QR", "SVD", "tSVD"][j % 3],
                          "lowrank": j % 4 == 3, "mal": (j % 17 == 16)})
        # [ext-C19F] malformed leg assignment (two nodes share a leg): np.transpose rejects the axis list, the store model too
        for j in range(3 * budget_scale):
            cases.append({"kind": "from_tensor", "seed": sd(), "nnodes": rng.choice([2, 3, 4]), "mode": ["QR", "SVD", "tSVD"][j % 3],
                          "lowrank": False, "mal": "dupleg"})
        # [/ext-C19F]
        # [str7] reference trees produced / edited by other library operations (renamed, replaced, contracted and re-split nodes, new
        # roots, copies, rejected calls in between): the node dictionary is no longer in parent-before-child order
        for j in range((360 if th else 60) * budget_scale):
            bare = j % 6 == 5
            cases.append({"kind": "from_tensor", "seed": sd(), "nnodes": rng.choice([2, 3, 4, 4, 5, 5, 6, 7]), "mode": ["QR", "SVD", "tSVD"][j % 3],
                          "lowrank": j % 5 == 4, "mal": False, "edits": rng.choice([1, 2, 2, 3, 4, 6]), "deep": rng.random() < 0.7, "bare": bare})
        # large local dimension: a bond whose exact rank (121) exceeds the default max_bond_dim (100)
        for mode in ["QR", "SVD", "tSVD"]:
            cases.append({"kind": "from_tensor", "seed": sd(), "nnodes": 2, "mode": mode, "lowrank": False, "mal": False, "dims": [11, 11]})
        # --- Ising builders -----------------------------------------------------------------------------------
        for j in range((240 if th else 40) * budget_scale):
            cases.append({"kind": "ising_tree", "seed": sd(), "nnodes": rng.choice([1, 2, 3, 4, 5, 6, 7]), "flipped": j % 2 == 1,
                          "J": dyadic(rng), "g": dyadic(rng)})
        for j in range((160 if th else 30) * budget_scale):
            cases.append({"kind": "ising_pairs", "seed": sd(), "nnodes": rng.choice([2, 3, 4, 5, 6, 7]), "flipped": j % 2 == 1,
                          "J": dyadic(rng), "g": dyadic(rng)})
        grid_sizes = [(r, c) for r in range(1, 7) for c in range(1, 7)]
        if not th and main:
            grid_sizes = [(r, c) for (r, c) in grid_sizes if r * c <= 12 or (r + c + ctx.seed) % 3 == 0]
        for (r, c) in grid_sizes:
            cases.append({"kind": "ising_grid", "rows": r, "cols": c, "flipped": (r + c) % 2 == 1, "J": dyadic(rng), "g": dyadic(rng),
                          "form": rng.choice(["tuple", "tuple", "array", "array_str"]), "prefix": random_prefix(rng, ["s", "node"])})
        for (r, c) in [(0, 2), (2, 0), (-1, 1)]:
            cases.append({"kind": "ising_grid", "rows": r, "cols": c, "flipped": False, "J": 1.0, "g": 0.5, "form": "tuple", "prefix": "s"})
        for n in range(1, 9):
            for fl in (False, True):
                cases.append({"kind": "exact", "n": n, "flipped": fl, "J": dyadic(rng), "g": dyadic(rng)})
        # --- histories: one object / list / prefix, model builds interleaved with growth through the public methods ------
        objs = sorted(GROWERS)
        for j in range((420 if th else 42) * budget_scale):
            cases.append({"kind": "ising_history", "seed": sd(), "obj": objs[j % len(objs)], "builds": rng.choice([2, 2, 3, 4])})
        # [str7] constructor histories: several constructor calls in one process, earlier results used IN PLACE in between
        for j in range((400 if th else 60) * budget_scale):
            nsteps = rng.choice([2, 3, 3, 4, 5])
            shared_bd, shared_dim = rng.choice([1, 2, 2, 3]), rng.choice([2, 2, 3])
            focus = ["binary", "mps_cps", "star_cps", "ftps", None][j % 5]
            steps = []
            for _ in range(nsteps):
                kind = focus if (focus and rng.random() < 0.7) else rng.choice(["binary", "mps_cps", "star_cps", "ftps"])
                bd = shared_bd if rng.random() < 0.75 else rng.choice([1, 2, 3])
                dim = shared_dim if rng.random() < 0.75 else rng.choice([1, 2, 3])
                if kind == "binary":
                    sub = {"kind": "binary", "n": rng.choice([2, 2, 3, 4, 5, 6, 7]), "bd": bd, "phys": dim, "seed": sd(), "mal": None}
                elif kind == "mps_cps":
                    n = rng.choice([2, 3, 4, 5])
                    sub = self._cps_case(rng, rng.randrange(dim), dim, n, rng.randrange(n), rng.choice(["none", "ones", "rand"]))
                elif kind == "star_cps":
                    sub = {"kind": "star_cps", "sv": rng.randrange(dim), "dim": dim, "clen": rng.choice([1, 2, 3]), "nch": rng.choice([1, 2, 3]),
                           "prefix": random_prefix(rng, ["site", "arm"])}
                else:
                    sub = {"kind": "ftps", "w": rng.choice([1, 2, 3]), "h": rng.choice([1, 2, 3]), "bd": bd, "phys": dim, "seed": sd()}
                steps.append({"case": sub, "use": [rng.choice(self.USES) for _ in range(rng.choice([0, 1, 1, 1, 2, 3]))]})
            cases.append({"kind": "ctor_history", "seed": sd(), "steps": steps})
        # stars / forks whose nodes are attached with an explicit parent_leg (oracle-only: the Coq model has the default rule)
        for j in range((400 if th else 48) * budget_scale):
            topo = "fork" if j % 3 else "star"
            pre = None
            if rng.random() < 0.4:
                pre = ([random_prefix(rng, ["main", "m"]) + "M", random_prefix(rng, ["sub", "s"]) + "S"] if topo == "fork"
                       else [random_prefix(rng, ["center", "central", "c"]) + "C", random_prefix(rng)])
            cases.append({"kind": "legs_build", "seed": sd(), "topo": topo, "cls": rng.choice(["net", "net", "state", "op"]),
                          "h": rng.choice([1, 2, 2, 3, 4]), "maxw": rng.choice([0, 1, 2, 3]),
                          "nch": rng.choice([1, 2, 2, 3, 4]), "maxlen": rng.choice([1, 2, 3, 4]), "prefixes": pre})
        return cases

    @staticmethod
    def _cps_case(rng, sv, dim, n, r, bk):
        nb = max(n - 1, 0)
        if bk == "none":
            bonds = None
        elif bk == "ones":
            bonds = [1] * nb
        elif bk == "rand":
            bonds = [rng.choice([1, 2, 3]) for _ in range(nb)]
        elif bk == "zero":
            bonds = [rng.choice([1, 2]) for _ in range(nb)]
            if bonds:
                bonds[rng.randrange(nb)] = 0
        else:
            bonds = [1] * (nb + rng.choice([1, 2]))
        return {"kind": "mps_cps", "sv": sv, "dim": dim, "n": n, "root": r, "bonds": bonds, "prefix": random_prefix(rng, ["site"])}

    def nontrivial(self, case):
        k = case["kind"]
        if k == "mps_list":
            return len(case["opens"]) >= 2 and case["mal"] is None
        if k == "mps_cps":
            return case["n"] >= 2
        if k == "star_cps":
            return case["clen"] >= 1 and case["nch"] >= 1
        if k in ("star_build", "fork_build"):
            return True
        if k == "legs_build":
            return self._legs_nondefault(self._legs_plan(case)) >= 1
        if k == "ftps":
            return case["w"] >= 2 and case["h"] >= 2
        if k == "binary":
            return case["n"] >= 2
        if k == "from_tensor":
            return case["nnodes"] >= 2
        if k in ("ising_tree", "ising_pairs"):
            return case["nnodes"] >= 2
        if k == "ising_grid":
            return case["rows"] * case["cols"] >= 2
        if k == "exact":
            return case["n"] >= 2
        if k == "ising_history":
            return case["builds"] >= 2
        if k == "ctor_history":
            return len(case["steps"]) >= 2 and any(st["use"] for st in case["steps"][:-1])
        return True

    def distribution(self, cases):
        c = Counter()
        for x in cases:
            c[x["kind"]] += 1
            if x["kind"] == "mps_list":
                c[f"mps_list:L={len(x['opens'])}"] += 1
            if x["kind"] == "from_tensor":
                c[f"from_tensor:{x['mode']}"] += 1
                if x.get("edits"):
                    c["from_tensor:edited reference tree (generated)" + (":bare TreeStructure" if x.get("bare") else "")] += 1
            if x.get("mal"):
                c[f"{x['kind']}:malformed"] += 1
            if x["kind"] == "ising_history":
                c[f"ising_history:{x['obj']}"] += 1
            if x["kind"] == "legs_build":
                c[f"legs_build:{x['topo']}:{x['cls']}"] += 1
            if isinstance(x.get("prefix"), str):
                n = len(x["prefix"])
                c["prefix_len:" + ("0" if n == 0 else "1-8" if n <= 8 else "9-16" if n <= 16 else "17-40")] += 1
            if x["kind"] == "ising_grid":
                c[f"ising_grid:{x['form']}"] += 1
        c.update(getattr(self, "_stats", {}))
        return dict(c)

    # -----------------------------------------------------------------------------------------------
    # implementation side
    # -----------------------------------------------------------------------------------------------
    def impl(self, ctx, cases):
        self._stats = Counter()
        out = []
        for c in cases:
            try:
                out.append(getattr(self, "_impl_" + c["kind"])(c))
            except Exception as e:  # noqa
                import traceback
                out.append({"harness_exception": exc_str(e), "tb": traceback.format_exc()[-2500:]})
        return out

    # ---- MPS ----------------------------------------------------------------------------------------
    @staticmethod
    def _mps_shapes(case):
        bonds, opens = case["bonds"], case["opens"]
        L = len(opens)
        shapes = []
        for i in range(L):
            s = []
            if i > 0:
                s.append(bonds[i - 1])
            if i < L - 1:
                s.append(bonds[i])
            shapes.append(s + list(opens[i]))
        if case.get("mal") == "bond" and L >= 2:
            k = case["seed"] % (L - 1)
            shapes[k + 1][0] = shapes[k + 1][0] + 1
        if case.get("mal") == "empty":
            shapes = []
        return shapes

    def _impl_mps_list(self, case):
        from pytreenet.special_ttn.mps import MatrixProductTree, MatrixProductState
        shapes = self._mps_shapes(case)
        nprs = np.random.RandomState(case["seed"] % (2 ** 31))
        tensors = [rint(nprs, s) for s in shapes]
        L = len(shapes)
        cls = MatrixProductState if all(len(o) == 1 for o in case["opens"]) and case["seed"] % 2 == 0 else MatrixProductTree
        ob = {"shapes": shapes}
        try:
            m = cls.from_tensor_list([t.copy() for t in tensors], node_prefix=case["prefix"], root_site=case["root"])
        except Exception as e:  # noqa
            ob["error"] = exc_str(e)
            return ob
        self._last = m
        pre = case["prefix"]
        ob["snap"] = snap_full(m)
        ob["lefts"] = [n.identifier for n in m.left_nodes]
        ob["rights"] = [n.identifier for n in m.right_nodes]
        ob["raw_equal"] = all((pre + str(i)) in m._tensors.data and np.array_equal(m._tensors.data[pre + str(i)], tensors[i]) for i in range(L))
        # ---- oracle part (independent): identifiers, chain structure, contraction ----
        v = well_formed(m)
        ids = [pre + str(i) for i in range(L)]
        if v is None and sorted(m.nodes) != sorted(ids):
            v = f"identifiers {sorted(m.nodes)} are not {pre}0..{pre}{L - 1}"
        if v is None and m.root_id != pre + str(case["root"]):
            v = f"root is {m.root_id}, requested site {case['root']}"
        if v is None:
            for i in range(L):
                nd = m.nodes[ids[i]]
                want = {ids[j] for j in (i - 1, i + 1) if 0 <= j < L}
                if set(nd.neighbouring_nodes()) != want:
                    v = f"{ids[i]} has neighbours {nd.neighbouring_nodes()}, expected {sorted(want)}"
                    break
                wantp = None if i == case["root"] else (ids[i + 1] if i < case["root"] else ids[i - 1])
                if nd.parent != wantp:
                    v = f"{ids[i]} has parent {nd.parent}, expected {wantp} (toward the root)"
                    break
        if v is None:
            legs = []
            for i in range(L):
                lg = []
                if i > 0:
                    lg.append(("b", i - 1))
                if i < L - 1:
                    lg.append(("b", i))
                legs.append(lg + [("o", i, k) for k in range(len(case["opens"][i]))])
            ref = einsum_ref(tensors, legs, [x for lg in legs for x in lg if x[0] == "o"])
            try:
                d = dense_sites(m, ids)
                if d is None:
                    pass
                elif d.shape != ref.shape:
                    v = f"contraction has shape {d.shape}, the tensor chain {ref.shape}"
                elif not np.array_equal(d, ref):
                    v = f"contraction differs from the chain A_0 A_1 ... A_(L-1) (max diff {float(np.max(np.abs(d - ref))):.3g})"
            except Exception as e:  # noqa
                v = f"network not contractible with the documented leg order: {exc_str(e)}"
        ob["viol"] = v
        return ob

    def _impl_mps_cps(self, case):
        from pytreenet.special_ttn.mps import MatrixProductState
        ob = {}
        try:
            m = MatrixProductState.constant_product_state(case["sv"], case["dim"], case["n"], node_prefix=case["prefix"],
                                                          root_site=case["root"], bond_dimensions=copy.deepcopy(case["bonds"]))
        except Exception as e:  # noqa
            ob["error"] = exc_str(e)
            return ob
        self._last = m
        pre = case["prefix"]
        ob["snap"] = snap_full(m)
        ob["lefts"] = [n.identifier for n in m.left_nodes]
        ob["rights"] = [n.identifier for n in m.right_nodes]
        L = len(m.nodes)
        ob["entries"] = {k: nonzeros(np.asarray(v)) for k, v in m._tensors.data.items()}
        v = None
        n, dim, sv = case["n"], case["dim"], case["sv"]
        if n >= 2 and 0 <= case["root"] < n:
            v = well_formed(m)
            ids = [pre + str(i) for i in range(n)]
            if v is None and sorted(m.nodes) != sorted(ids):
                v = f"identifiers {sorted(m.nodes)} are not {pre}0..{pre}{n - 1}"
            if v is None and m.root_id != pre + str(case["root"]):
                v = f"root is {m.root_id}, requested site {case['root']}"
            if v is None:
                d = dense_sites(m, ids)
                ref = np.zeros((dim,) * n)
                ref[(sv,) * n] = 1
                if d is not None and (d.shape != ref.shape or not np.array_equal(d, ref)):
                    v = f"contraction is not the product state |{sv}>^{n} (shape {d.shape})"
            if v is None and case["bonds"] is not None:
                for i in range(n - 1):
                    a, b = m.nodes[ids[i]], m.nodes[ids[i + 1]]
                    dd = a.shape[a.neighbour_index(ids[i + 1])]
                    if dd != case["bonds"][i]:
                        v = f"bond {i} has dimension {dd}, requested {case['bonds'][i]}"
                        break
        ob["viol"] = v
        return ob

    # ---- star ---------------------------------------------------------------------------------------
    def _impl_star_cps(self, case):
        from pytreenet.special_ttn.star import StarTreeTensorState
        ob = {}
        sv, dim, cl, nch = case["sv"], case["dim"], case["clen"], case["nch"]
        valid = dim >= 1 and 0 <= sv < dim and cl >= 0 and nch >= 0
        ob["valid"] = valid
        try:
            m = StarTreeTensorState.constant_product_state(sv, dim, cl, nch, node_prefix=case["prefix"])
        except Exception as e:  # noqa
            ob["error"] = exc_str(e)
            if valid:
                ob["viol"] = f"valid parameters (state {sv}, dimension {dim}, chain_length {cl}, num_chains {nch}) raise {exc_str(e)}"
            return ob
        self._last = m
        ob["snap"] = snap_full(m)
        ob["entries"] = {k: nonzeros(np.asarray(v)) for k, v in m._tensors.data.items()}
        ob["chains"] = [[n.identifier for n in ch] for ch in m.chains]
        v = None
        # chain_length = 0 with num_chains >= 1 leaves dangling dimension-1 legs at the centre: outside the quantifier
        if valid and (nch == 0 or cl >= 1):
            v = well_formed(m)
            ids = ["central"] + [f"{case['prefix']}{c}_{j}" for c in range(nch) for j in range(cl)] if cl > 0 else ["central"]
            if v is None and sorted(m.nodes) != sorted(ids):
                v = f"identifiers {sorted(m.nodes)} expected {sorted(ids)}"
            if v is None:
                for c in range(nch):
                    for j in range(cl):
                        want = "central" if j == 0 else f"{case['prefix']}{c}_{j - 1}"
                        if m.nodes[f"{case['prefix']}{c}_{j}"].parent != want:
                            v = f"{case['prefix']}{c}_{j} hangs on {m.nodes[f'{case['prefix']}{c}_{j}'].parent}, expected {want}"
            if v is None:
                d = dense_sites(m, ids)
                ref = np.zeros((dim,) * len(ids))
                ref[(sv,) * len(ids)] = 1
                if d is not None and (d.shape != ref.shape or not np.array_equal(d, ref)):
                    v = f"contraction is not the product state |{sv}> on {len(ids)} sites (shape {d.shape})"
        ob["viol"] = v
        return ob

    @staticmethod
    def _star_plan(case):
        rng = random.Random(case["seed"])
        nch = case["nch"]
        lens = [rng.randrange(1, case["maxlen"] + 1) for _ in range(nch)]
        cb = [rng.choice([1, 2, 3]) for _ in range(nch)]
        nco = 1 if case["state"] else rng.choice([0, 1, 2])
        bud = Budget()
        center = cb + [bud.pick(rng, [1, 2, 3]) for _ in range(nco)]
        chain_shapes = []
        for c in range(nch):
            b = cb[c]
            shs = []
            for j in range(lens[c]):
                no = 1 if case["state"] else rng.choice([0, 1, 2])
                opens = [bud.pick(rng, [1, 2, 3]) for _ in range(no)]
                if j < lens[c] - 1:
                    nb = rng.choice([1, 2, 3])
                    shs.append([b, nb] + opens)
                    b = nb
                else:
                    shs.append([b] + opens)
            chain_shapes.append(shs)
        # call order: chain by chain or a random interleaving that starts the chains in index order
        pos = [0] * nch
        calls = []
        started = 0
        inter = rng.random() < 0.6
        while any(pos[c] < lens[c] for c in range(nch)):
            if inter:
                cand = [c for c in range(min(started + 1, nch)) if pos[c] < lens[c]]
                if not cand:
                    cand = [started]
                c = rng.choice(cand)
            else:
                c = min(c for c in range(nch) if pos[c] < lens[c])
            if c == started:
                started += 1
            calls.append((chain_shapes[c][pos[c]], c, (c, pos[c])))
            pos[c] += 1
        mal = None
        if case["mal"]:
            mal = rng.choice(["index", "dim", "legs"])
            k = rng.randrange(len(calls))
            sh, c, tag = calls[k]
            if mal == "index":
                calls[k] = (sh, nch + 1 + rng.randrange(2), tag)
            elif mal == "dim":
                calls[k] = ([sh[0] + 1] + sh[1:], c, tag)
            else:
                center = center[:max(0, nch - 1)]
        return center, calls, lens, mal

    def _impl_star_build(self, case):
        from pytreenet.special_ttn.star import StarTreeTensorNetwork, StarTreeTensorState
        center, calls, lens, mal = self._star_plan(case)
        nprs = np.random.RandomState(case["seed"] % (2 ** 31))
        ct = rint(nprs, center)
        tens = [rint(nprs, sh) for sh, _, _ in calls]
        ob = {"center": center, "calls": [[sh, c] for sh, c, _ in calls], "mal": mal}
        cid = "central" if case["state"] else "center"
        try:
            st = StarTreeTensorState() if case["state"] else StarTreeTensorNetwork()
            st.add_center_node(ct.copy())
            for t, (sh, c, _) in zip(tens, calls):
                st.add_chain_node(t.copy(), c)
        except Exception as e:  # noqa
            ob["error"] = exc_str(e)
            if not mal:
                ob["viol"] = f"valid star construction raised {exc_str(e)}"
            return ob
        ob["snap"] = snap_full(st)
        ob["chains"] = [[n.identifier for n in ch] for ch in st.chains]
        v = None
        if not mal:
            v = well_formed(st)
            nch = case["nch"]
            ids = [cid] + [f"node{c}_{j}" for c in range(nch) for j in range(lens[c])]
            if v is None and sorted(st.nodes) != sorted(ids):
                v = f"identifiers {sorted(st.nodes)} expected {sorted(ids)}"
            if v is None:
                legs = [[("b", c, 0) for c in range(nch)] + [("o", cid, k) for k in range(len(center) - nch)]]
                tl = [ct]
                byid = {f"node{tag[0]}_{tag[1]}": (t, sh) for t, (sh, c, tag) in zip(tens, calls)}
                for c in range(nch):
                    for j in range(lens[c]):
                        t, sh = byid[f"node{c}_{j}"]
                        nb = 2 if j < lens[c] - 1 else 1
                        lg = [("b", c, j)] + ([("b", c, j + 1)] if nb == 2 else [])
                        legs.append(lg + [("o", f"node{c}_{j}", k) for k in range(len(sh) - nb)])
                        tl.append(t)
                ref = einsum_ref(tl, legs, [x for lg in legs for x in lg if x[0] == "o"])
                try:
                    d = dense_sites(st, ids)
                    if d is not None and (d.shape != ref.shape or not np.array_equal(d, ref)):
                        v = f"contraction differs from the star of the input tensors (shape {d.shape} vs {ref.shape})"
                except Exception as e:  # noqa
                    v = f"network not contractible with the documented leg order: {exc_str(e)}"
        ob["viol"] = v
        return ob

    # ---- fork ---------------------------------------------------------------------------------------
    @staticmethod
    def _fork_plan(case):
        """nodes ('m', i) / ('s', i, j); every node's legs in raw order: parent bond first, then the
        children in the order they are attached (first-open-leg rule), then open legs"""
        rng = random.Random(case["seed"])
        h = case["h"]
        subl = [rng.randrange(0, case["maxw"] + 1) for _ in range(h)]
        todo_main = list(range(h))
        order = []
        pos = [0] * h
        nmain = 0
        while nmain < h or any(pos[i] < subl[i] for i in range(h)):
            cand = []
            if nmain < h:
                cand.append(("m", nmain))
            cand += [("s", i, pos[i]) for i in range(nmain) if pos[i] < subl[i]]
            x = rng.choice(cand) if rng.random() < 0.7 else cand[0]
            order.append(x)
            if x[0] == "m":
                nmain += 1
            else:
                pos[x[1]] += 1
        legs = {}
        bdim = {}
        for x in order:
            par = None
            if x[0] == "m" and x[1] > 0:
                par = ("m", x[1] - 1)
            elif x[0] == "s":
                par = ("m", x[1]) if x[2] == 0 else ("s", x[1], x[2] - 1)
            legs[x] = []
            if par is not None:
                bdim[(par, x)] = rng.choice([1, 2, 3])
                legs[par].append(("b", par, x))
                legs[x].append(("b", par, x))
        shapes = {}
        bud = Budget()
        for x in order:
            no = rng.choice([0, 1, 1, 2])
            for k in range(no):
                legs[x].append(("o", x, k))
            shapes[x] = [bdim[(l[1], l[2])] if l[0] == "b" else bud.pick(rng, [1, 2, 3]) for l in legs[x]]
        # shapes of open legs must be fixed once: recompute deterministically
        mal = None
        if case["mal"]:
            mal = rng.choice(["index", "dim"])
        return order, legs, shapes, mal, rng

    def _impl_fork_build(self, case):
        from pytreenet.special_ttn.fttn import ForkTreeTensorNetwork
        order, legs, shapes, mal, rng = self._fork_plan(case)
        nprs = np.random.RandomState(case["seed"] % (2 ** 31))
        calls = []
        for x in order:
            calls.append(["m", list(shapes[x])] if x[0] == "m" else ["s", list(shapes[x]), x[1]])
        if mal == "index":
            calls.append(["s", [2, 2], case["h"] + rng.randrange(0, 2)])
        elif mal == "dim":
            k = rng.randrange(len(calls))
            if len(calls[k][1]) > 0 and k > 0:
                calls[k][1][0] += 1
            else:
                calls.append(["s", [2, 2], case["h"]])
        tens = [rint(nprs, c[1]) for c in calls]
        ob = {"calls": calls, "mal": mal}
        try:
            ft = ForkTreeTensorNetwork()
            for t, c in zip(tens, calls):
                if c[0] == "m":
                    ft.add_main_chain_node(t.copy())
                else:
                    ft.add_sub_chain_node(t.copy(), c[2])
        except Exception as e:  # noqa
            ob["error"] = exc_str(e)
            if not mal:
                ob["viol"] = f"valid fork construction raised {exc_str(e)}"
            return ob
        self._last = ft
        ob["snap"] = snap_full(ft)
        ob["main"] = [n.identifier for n in ft.main_chain]
        ob["subs"] = [[n.identifier for n in ch] for ch in ft.sub_chains]
        v = None
        if not mal:
            v = well_formed(ft)
            name = lambda x: f"main{x[1]}" if x[0] == "m" else f"sub{x[1]}_{x[2]}"
            ids = [name(x) for x in sorted(order)]
            if v is None and sorted(ft.nodes) != sorted(ids):
                v = f"identifiers {sorted(ft.nodes)} expected {sorted(ids)}"
            if v is None:
                so = sorted(order)
                tl = [tens[order.index(x)] for x in so]
                lg = [legs[x] for x in so]
                ref = einsum_ref(tl, lg, [l for x in so for l in legs[x] if l[0] == "o"])
                try:
                    d = dense_sites(ft, ids)
                    if d is not None and (d.shape != ref.shape or not np.array_equal(d, ref)):
                        v = f"contraction differs from the fork of the input tensors (shape {d.shape} vs {ref.shape})"
                except Exception as e:  # noqa
                    v = f"network not contractible with the documented leg order: {exc_str(e)}"
        ob["viol"] = v
        return ob

    # ---- stars / forks built with EXPLICIT parent legs ---------------------------------------------------
    @staticmethod
    def _legs_plan(case):
        """A star or fork whose nodes are attached with the optional `parent_leg` argument of add_chain_node /
        add_main_chain_node / add_sub_chain_node. The caller's tensors have the new node's parent bond on axis 0 (the
        constructors attach with child_leg 0) and the bonds to the future children ANYWHERE among the other axes. The harness
        keeps its own record of every node's current leg order under the documented convention (parent, children in the
        order they were attached, remaining open legs in their original order) and passes the position of the wanted axis
        in that order; where this is the first open leg it passes None or the explicit number. Returns
        (order, parent, raw labels per node, shapes, calls [(node, parent_leg)], open-leg count per node)."""
        rng = random.Random(case["seed"])
        topo, cls = case["topo"], case["cls"]
        order, parent = [], {}
        if topo == "fork":
            h = case["h"]
            subl = [rng.randrange(0, case["maxw"] + 1) for _ in range(h)]
            if h >= 2 and rng.random() < 0.7:
                i = rng.randrange(h - 1)                       # a subchain on a main node that also carries the next main node
                subl[i] = max(1, subl[i])
            pos = [0] * h
            nmain = 0
            while nmain < h or any(pos[i] < subl[i] for i in range(h)):
                cand = ([("m", nmain)] if nmain < h else []) + [("s", i, pos[i]) for i in range(nmain) if pos[i] < subl[i]]
                x = rng.choice(cand) if rng.random() < 0.8 else cand[0]
                order.append(x)
                if x[0] == "m":
                    parent[x] = ("m", x[1] - 1) if x[1] > 0 else None
                    nmain += 1
                else:
                    parent[x] = ("m", x[1]) if x[2] == 0 else ("s", x[1], x[2] - 1)
                    pos[x[1]] += 1
        else:
            nch = case["nch"]
            lens = [rng.randrange(1, case["maxlen"] + 1) for _ in range(nch)]
            order.append(("c",))
            parent[("c",)] = None
            pos = [0] * nch
            started = 0
            while any(pos[c] < lens[c] for c in range(nch)):
                cand = [c for c in range(min(started + 1, nch)) if pos[c] < lens[c]]
                c = rng.choice(cand) if rng.random() < 0.7 else cand[0]
                if c == started:
                    started += 1
                x = ("a", c, pos[c])
                order.append(x)
                parent[x] = ("c",) if pos[c] == 0 else ("a", c, pos[c] - 1)
                pos[c] += 1
        children = {x: [y for y in order if parent[y] == x] for x in order}
        uniform = rng.choice([1, 2, 2, 3]) if rng.random() < 0.45 else None
        bud = Budget()
        labels, shapes, nopen = {}, {}, {}
        bdim = {}
        for x in order:
            no = {"net": rng.choice([0, 1, 1, 2]), "state": 1, "op": 2}[cls]
            nopen[x] = no
            rest = [("b", x, y) for y in children[x]] + [("o", x, k) for k in range(no)]
            if rng.random() >= 0.35:
                # any raw position for the child bonds; the open legs keep their relative order (k = original order)
                perm = rest[:]
                rng.shuffle(perm)
                it = iter([l for l in rest if l[0] == "o"])
                rest = [l if l[0] == "b" else next(it) for l in perm]
            labels[x] = ([("b", parent[x], x)] if parent[x] is not None else []) + rest
            for y in children[x]:
                bdim[(x, y)] = uniform or rng.choice([1, 2, 3])
        for x in order:
            shapes[x] = [bdim[(l[1], l[2])] if l[0] == "b" else (bud.pick(rng, [uniform]) if uniform else bud.pick(rng, [1, 2, 3]))
                         for l in labels[x]]
        cur = {x: list(labels[x]) for x in order}
        nvirt = {x: (0 if parent[x] is None else 1) for x in order}
        calls = []
        for x in order:
            p = parent[x]
            if p is None:
                calls.append((x, None))
                continue
            k = cur[p].index(("b", p, x))
            calls.append((x, None if (k == nvirt[p] and rng.random() < 0.5) else k))
            cur[p].insert(nvirt[p], cur[p].pop(k))
            nvirt[p] += 1
        return order, parent, labels, shapes, calls, nopen, cur, nvirt

    @staticmethod
    def _legs_nondefault(plan):
        """number of calls whose explicit parent leg is NOT the first open leg of the parent at that moment"""
        order, parent, labels, shapes, calls, nopen, _, _ = plan
        cur = {x: list(labels[x]) for x in order}
        nv = {x: (0 if parent[x] is None else 1) for x in order}
        n = 0
        for x, k in calls:
            p = parent[x]
            if p is None:
                continue
            kk = cur[p].index(("b", p, x))
            n += (k is not None and kk != nv[p])
            cur[p].insert(nv[p], cur[p].pop(kk))
            nv[p] += 1
        return n

    def _impl_legs_build(self, case):
        from pytreenet.special_ttn.fttn import ForkTreeTensorNetwork, ForkTreeProductState, ForkTreeProductOperator
        from pytreenet.special_ttn.star import StarTreeTensorNetwork, StarTreeTensorState, StarTreeOperator
        plan = self._legs_plan(case)
        order, parent, labels, shapes, calls, nopen, cur, nvirt = plan
        nprs = np.random.RandomState(case["seed"] % (2 ** 31))
        tens = {x: rint(nprs, shapes[x]) for x in order}
        topo, cls = case["topo"], case["cls"]
        pa, pb = case["prefixes"] if case["prefixes"] else (None, None)
        if topo == "fork":
            klass = {"net": ForkTreeTensorNetwork, "state": ForkTreeProductState, "op": ForkTreeProductOperator}[cls]
            obj = klass() if pa is None else klass(pa, pb)
            pa, pb = ("main", "sub") if pa is None else (pa, pb)
            name = lambda x: f"{pa}{x[1]}" if x[0] == "m" else f"{pb}{x[1]}_{x[2]}"
        else:
            klass = {"net": StarTreeTensorNetwork, "state": StarTreeTensorState, "op": StarTreeOperator}[cls]
            obj = klass() if pa is None else klass(pa, pb)
            pa, pb = (("center" if cls == "net" else "central"), "node") if pa is None else (pa, pb)
            name = lambda x: pa if x[0] == "c" else f"{pb}{x[1]}_{x[2]}"
        nd = self._legs_nondefault(plan)
        self._stats["legs_build:calls with an explicit parent leg"] += sum(1 for _, k in calls if k is not None)
        self._stats["legs_build:calls whose parent leg is not the first open leg"] += nd
        self._stats["legs_build:cases with a non-default parent leg"] += (nd > 0)
        log = []
        ob = {"shapes": [[name(x), list(shapes[x])] for x in order], "log": log}
        try:
            for x, k in calls:
                kw = {} if k is None else {"parent_leg": k}
                t = tens[x].copy()
                if x[0] == "m":
                    log.append(f"add_main_chain_node(shape {shapes[x]}{'' if k is None else f', parent_leg={k}'}) -> {name(x)}")
                    obj.add_main_chain_node(t, **kw)
                elif x[0] == "s":
                    log.append(f"add_sub_chain_node(shape {shapes[x]}, {x[1]}{'' if k is None else f', parent_leg={k}'}) -> {name(x)}")
                    obj.add_sub_chain_node(t, x[1], **kw)
                elif x[0] == "c":
                    log.append(f"add_center_node(shape {shapes[x]}) -> {name(x)}")
                    obj.add_center_node(t)
                else:
                    log.append(f"add_chain_node(shape {shapes[x]}, {x[1]}{'' if k is None else f', parent_leg={k}'}) -> {name(x)}")
                    obj.add_chain_node(t, x[1], **kw)
        except Exception as e:  # noqa
            ob["error"] = exc_str(e)
            ob["viol"] = (f"valid {topo} construction raised {exc_str(e)} at call {len(log)}: {log[-1]} (the requested parent leg is an open leg "
                          f"of the parent with the dimension of the new node's axis 0); calls so far {log}")
            return ob
        v = well_formed(obj)
        ids = [name(x) for x in order]
        if v is None and (sorted(obj.nodes) != sorted(ids) or len(set(ids)) != len(ids)):
            v = f"identifiers {sorted(obj.nodes)} expected {sorted(ids)}"
        if v is None:
            for x in order:
                want = None if parent[x] is None else name(parent[x])
                if obj.nodes[name(x)].parent != want:
                    v = f"{name(x)} hangs on {obj.nodes[name(x)].parent}, expected {want}"
                    break
        if v is None:
            if topo == "fork":
                got = ([n.identifier for n in obj.main_chain], [[n.identifier for n in ch] for ch in obj.sub_chains])
                hh = case["h"]
                want = ([name(("m", i)) for i in range(hh)],
                        [[name(x) for x in sorted(order) if x[0] == "s" and x[1] == i] for i in range(hh)])
            else:
                got = [[n.identifier for n in ch] for ch in obj.chains]
                want = [[name(x) for x in sorted(order) if x[0] == "a" and x[1] == c] for c in range(case["nch"])]
            if got != want:
                v = f"chain lists {got}, expected {want}"
        if v is None:
            tl = [tens[x] for x in order]
            lg = [labels[x] for x in order]
            ref = einsum_ref(tl, lg, [l for x in order for l in labels[x] if l[0] == "o"])
            try:
                d = dense_sites(obj, ids)
                if d is not None and (d.shape != ref.shape or not same_values(d, ref)):
                    v = (f"contraction differs from the {topo} of the input tensors with every new node bound to the requested leg of its parent "
                         f"(shape {d.shape} vs {ref.shape}"
                         + (f", max abs deviation {float(np.max(np.abs(d - ref))):.3g}" if d.shape == ref.shape else "") + f"); calls {log}")
            except Exception as e:  # noqa
                v = f"network not contractible with the documented leg order: {exc_str(e)}; calls {log}"
        if v is None:
            # documented leg convention on the public tensors: (parent, children in the order attached, open legs in their original order)
            cp = copy.deepcopy(obj)
            for x in order:
                want = tens[x].transpose([labels[x].index(l) for l in cur[x]])
                got = np.asarray(cp.tensors[name(x)])
                if got.shape != want.shape or not np.array_equal(got, want):
                    v = (f"tensor of {name(x)} is not the input tensor with its axes ordered (parent, children as attached, open legs): "
                         f"expected the input axes {[labels[x].index(l) for l in cur[x]]}; calls {log}")
                    break
        ob["viol"] = v
        return ob

    def _impl_ftps(self, case):
        from pytreenet.special_ttn.fttn import constant_ftps
        nprs = np.random.RandomState(case["seed"] % (2 ** 31))
        loc = rint(nprs, (case["phys"],), lim=3)
        if not np.any(loc):
            loc[0] = 1
        w, h, bd = case["w"], case["h"], case["bd"]
        ob = {}
        try:
            ft = constant_ftps(loc.copy(), w, h, bd)
        except Exception as e:  # noqa
            ob["error"] = exc_str(e)
            if w >= 1 and h >= 1 and bd >= 1:
                ob["viol"] = f"valid parameters raise {exc_str(e)}"
            return ob
        self._last = ft
        ob["snap"] = snap_full(ft)
        ob["main"] = [n.identifier for n in ft.main_chain]
        ob["subs"] = [[n.identifier for n in ch] for ch in ft.sub_chains]
        # every tensor: local_state along the last axis at bond index 0...0, zero elsewhere
        fib = None
        for k, t in ft._tensors.data.items():
            t = np.asarray(t)
            z = np.zeros_like(t)
            z[(0,) * (t.ndim - 1)] = loc
            if not np.array_equal(t, z):
                fib = f"tensor {k} is not local_state at bond index 0..0"
        ob["fibre"] = fib
        v = None
        if w >= 2 and h >= 2:
            v = well_formed(ft)
            ids = [f"main{i}" for i in range(h)] + [f"sub{i}_{j}" for i in range(h) for j in range(w - 1)]
            if v is None and sorted(ft.nodes) != sorted(ids):
                v = f"identifiers {sorted(ft.nodes)}: expected a {w} x {h} fork {sorted(ids)}"
            if v is None:
                for i in range(h):
                    want = None if i == 0 else f"main{i - 1}"
                    if ft.nodes[f"main{i}"].parent != want:
                        v = f"main{i} hangs on {ft.nodes[f'main{i}'].parent}"
                    for j in range(w - 1):
                        want = f"main{i}" if j == 0 else f"sub{i}_{j - 1}"
                        if ft.nodes[f"sub{i}_{j}"].parent != want:
                            v = f"sub{i}_{j} hangs on {ft.nodes[f'sub{i}_{j}'].parent}"
            if v is None:
                for k, nd in ft.nodes.items():
                    if nd.nopen_legs() != 1:
                        v = f"{k} has {nd.nopen_legs()} open legs"
            if v is None and case["phys"] ** len(ids) <= 2000000 and len(ids) <= 60:
                d = dense_sites(ft, ids)
                ref = loc
                for _ in range(len(ids) - 1):
                    ref = np.multiply.outer(ref, loc)
                if d is not None and not same_values(d, ref):
                    v = "contraction is not the product of the local state over all nodes"
        ob["viol"] = v
        return ob

    # ---- binary ---------------------------------------------------------------------------------------
    def _impl_binary(self, case):
        from pytreenet.special_ttn.binary import generate_binary_ttns
        nprs = np.random.RandomState(case["seed"] % (2 ** 31))
        n, bd, phys = case["n"], case["bd"], case["phys"]
        mal = case.get("mal")
        pshape = [bd, phys] if n > 1 else [phys]
        if mal == "n0":
            n = 0
        elif mal == "bd0":
            bd = 0
        elif mal == "shape":
            pshape = [bd + 1, phys]
        pt = rint(nprs, pshape, lim=3)
        if pt.ndim == 2 and not np.any(pt[0]):
            pt[0, 0] = 1
        ob = {"pshape": pshape, "n": n, "bd": bd}
        try:
            t = generate_binary_ttns(n, bd, pt.copy(), phys_prefix="site", virtual_prefix="node")
        except Exception as e:  # noqa
            ob["error"] = exc_str(e)
            if not mal:
                ob["viol"] = f"valid parameters raise {exc_str(e)}"
            return ob
        self._last = t
        ob["snap"] = snap_full(t)
        tv = None
        for k, x in t._tensors.data.items():
            x = np.asarray(x)
            if k.startswith("site"):
                if not np.array_equal(x, pt):
                    tv = f"{k} does not carry the physical tensor"
            else:
                z = np.zeros(x.shape, dtype=complex)
                z[(0,) * x.ndim] = 1
                if not np.array_equal(x, z) or x.shape[-1] != 1:
                    tv = f"{k} is not the trivial virtual tensor"
        ob["tensors_ok"] = tv
        v = None
        if not mal and n >= 2:
            v = well_formed(t)
            sites = [f"site{i}" for i in range(n)]
            if v is None and sorted(k for k in t.nodes if k.startswith("site")) != sorted(sites):
                v = f"physical identifiers {sorted(k for k in t.nodes if k.startswith('site'))}"
            if v is None and len(t.nodes) != 2 * n - 1:
                v = f"{len(t.nodes)} nodes for {n} physical sites (expected {2 * n - 1})"
            if v is None:
                # breadth-first: virtual node at (level, position) has children (level+1, 2p), (level+1, 2p+1); leaves replaced in order
                q = [(t.root_id, 0, 0)]
                leaves = []
                internal = 0
                while q and v is None:
                    nid, lev, p = q.pop(0)
                    nd = t.nodes[nid]
                    if nd.is_leaf():
                        leaves.append((nid, lev, p))
                        continue
                    internal += 1
                    if nid != f"node{lev}_{p}":
                        v = f"virtual node at level {lev} position {p} is called {nid}"
                    if len(nd.children) != 2:
                        v = f"{nid} has {len(nd.children)} children"
                    for j, c in enumerate(nd.children):
                        q.append((c, lev + 1, 2 * p + j))
                if v is None and [x[0] for x in leaves] != sites:
                    v = f"leaves in breadth-first order are {[x[0] for x in leaves]}"
                if v is None and max(x[1] for x in leaves) - min(x[1] for x in leaves) > 1:
                    v = "leaf depths differ by more than one"
            if v is None and phys ** n <= 2000000 and 2 * n - 1 <= 60:
                order = sorted(t.nodes, key=lambda k: (0, int(k[4:])) if k.startswith("site") else (1, k))
                d = dense_sites(t, order)
                ref = pt[0]
                for _ in range(n - 1):
                    ref = np.multiply.outer(ref, pt[0])
                ref = ref.reshape(ref.shape + (1,) * (n - 1))
                if d is not None and not same_values(d, ref):
                    v = (f"contraction is not the product of the physical tensors (shape {d.shape} vs {ref.shape}"
                         + (f"; max relative deviation {float(np.max(np.abs(d - ref) / np.maximum(np.abs(ref), 1e-300))):.3g}" if d.shape == ref.shape else "") + ")")
        ob["viol"] = v
        return ob

    # ---- [str7] constructor calls in ONE process interleaved with in-place use of earlier results ------------------
    _last = None
    USES = ("normalise", "canon", "canon_normalise", "scale_root", "scale_all", "zero", "fill", "deepcopy_only")

    def _use_network(self, net, use, rng):
        """what a caller does with a state it got from a constructor; all of it through public members, all of it IN PLACE"""
        ids = list(net.nodes)
        if use == "normalise":
            net.normalise()
        elif use == "canon":
            net.canonical_form(rng.choice(ids))
        elif use == "canon_normalise":
            net.canonical_form(rng.choice(ids))
            net.normalise()
        elif use == "scale_root":
            x = net.tensors[net.root_id]
            x *= rng.choice([2.0, -0.5, 3.0j, 0.125] if np.iscomplexobj(x) else [2.0, -0.5, 3.0, 0.125])
        elif use == "scale_all":
            for k in ids:
                x = net.tensors[k]
                x *= rng.choice([2.0, -1.0, 0.5j] if np.iscomplexobj(x) else [2.0, -1.0, 0.5])
        elif use == "zero":
            x = net.tensors[rng.choice(ids)]
            x[...] = 0
        elif use == "fill":
            x = net.tensors[rng.choice(ids)]
            x += 1.0
        else:
            copy.deepcopy(net).normalise()

    def _impl_ctor_history(self, case):
        """every history runs in a forked child of the (never mutated) harness process: the in-place use of results cannot leak from one
        case into the next, so a reported history reproduces on its own (replay) exactly as in a fresh interpreter"""
        import os
        import pickle
        try:
            r, w = os.pipe()
            pid = os.fork()
        except OSError:
            return self._ctor_history_body(case)
        if pid == 0:
            code = 0
            try:
                os.close(r)
                self._stats = Counter()
                try:
                    out = (self._ctor_history_body(case), self._stats)
                except Exception as e:  # noqa
                    import traceback
                    out = ({"harness_exception": exc_str(e), "tb": traceback.format_exc()[-2500:]}, Counter())
                with os.fdopen(w, "wb") as f:
                    pickle.dump(out, f)
            except BaseException:  # noqa
                code = 1
            finally:
                os._exit(code)
        os.close(w)
        with os.fdopen(r, "rb") as f:
            data = f.read()
        os.waitpid(pid, 0)
        if not data:
            return {"harness_exception": "history child process died without an observation"}
        ob, stats = pickle.loads(data)
        self._stats.update(stats)
        return ob

    def _ctor_history_body(self, case):
        rng = random.Random(case["seed"])
        ob = {"steps": [], "log": []}
        v = None
        for j, st in enumerate(case["steps"]):
            sub = st["case"]
            self._last = None
            o = getattr(self, "_impl_" + sub["kind"])(sub)
            ob["steps"].append(o)
            self._stats[f"ctor_history:build:{sub['kind']}"] += 1
            if o.get("viol") and v is None:
                v = (f"build {j} ({sub['kind']} {({k: x for k, x in sub.items() if k not in ('kind', 'seed')})}) after {ob['log'] or 'nothing'}: {o['viol']}")
            ob["log"].append(f"build {sub['kind']} " + " ".join(f"{k}={sub[k]}" for k in ("n", "bd", "dim", "w", "h", "clen", "nch", "root") if k in sub))
            net = self._last
            if net is None:
                continue
            for use in st["use"]:
                try:
                    self._use_network(net, use, rng)
                    ob["log"].append(use)
                    self._stats[f"ctor_history:use:{use}"] += 1
                except Exception as e:  # noqa
                    ob["log"].append(f"{use} raised {type(e).__name__}")
                    self._stats["ctor_history:use raised"] += 1
        self._last = None
        ob["viol"] = v
        return ob

    # ---- from_tensor -----------------------------------------------------------------------------------
    def _impl_from_tensor(self, case):
        from pytreenet.ttno.ttno_class import TTNO, Decomposition
        rng = random.Random(case["seed"])
        n = case["nnodes"]
        par = util.random_parents(rng, n)
        edits = case.get("edits")
        edit_info = None
        if edits:
            # [str7] the reference tree is PRODUCED by other library operations; it is read through its parent / children relations
            if case.get("deep"):
                par = [None] + [i - 1 if rng.random() < 0.65 else rng.randrange(0, i) for i in range(1, n)]
            ref = util.build_ttns(rng, par, phys=[2] * n, bond=None)
            if case.get("bare"):
                ref = bare_structure(ref)
            try:
                ref, elog, ebad = edit_reference_tree(ref, rng, edits, bare=bool(case.get("bare")))
            except Exception as e:  # noqa
                self._stats["from_tensor:edited:edit-sequence-raised"] += 1
                return {"skip": f"edit sequence raised {exc_str(e)}"}
            wf = None if case.get("bare") else well_formed(ref)
            if wf is not None or ebad:
                # not this property's business (C02 / C03): no reference tree to decompose onto
                self._stats["from_tensor:edited:tree-not-well-formed"] += 1
                return {"skip": f"edited tree unusable: {wf or ebad}"}
            n = len(ref.nodes)
            ids = list(ref.nodes)
            inv, deep = order_inversions(ref)
            self._stats["from_tensor:edited"] += 1
            self._stats["from_tensor:edited:some-node-listed-before-its-parent"] += int(inv)
            self._stats["from_tensor:edited:...below-a-non-root-node"] += int(deep)
            edit_info = {"log": elog, "order": ids}
        else:
            ref = util.build_ttns(rng, par, phys=[2] * n, bond=1)
            ids = [f"n{i}" for i in range(n)]
        num = {k: i for i, k in enumerate(ids)}
        perm = list(range(n))
        rng.shuffle(perm)
        if case.get("mal") == "dupleg":          # [ext-C19F]
            perm[1] = perm[0]
        leg = {ids[i]: perm[i] for i in range(n)}
        budget = 4 ** 5
        dims = []
        for k in range(n):
            d = rng.choice([1, 2, 2, 3])
            while d > 1 and np.prod([x * x for x in dims] + [d * d]) > budget:
                d -= 1
            dims.append(d)
        if case.get("dims"):
            dims = list(case["dims"])
        shape = dims + dims
        nprs = np.random.RandomState(case["seed"] % (2 ** 31))
        if case["lowrank"]:
            T = np.zeros(shape, dtype=complex)
            for _ in range(rng.choice([1, 2])):
                x = np.ones((), dtype=complex)
                for d in dims:
                    x = np.multiply.outer(x, nprs.standard_normal((d, d)) + 1j * nprs.standard_normal((d, d)))
                # axes (o0,i0,o1,i1,...) -> (o..., i...)
                T = T + x.transpose([2 * k for k in range(n)] + [2 * k + 1 for k in range(n)])
        else:
            T = nprs.standard_normal(shape) + 1j * nprs.standard_normal(shape)
        mal = case.get("mal")
        if mal and mal != "dupleg":
            T = T.reshape(T.shape + (1,))
            shape = list(T.shape)
        children = {i: [num[c] for c in ref.nodes[ids[i]].children] for i in range(n)}
        ob = {"children": children, "leg": [perm[i] for i in range(n)], "shape": [int(x) for x in shape], "root": num[ref.root_id],
              "ref_struct": tree_relations(ref)}
        if edit_info:
            ob["names"], ob["n"], ob["edits"] = ids, n, edit_info["log"]
        ref_before = (list(ref.nodes), tree_relations(ref), ref.root_id)
        try:
            with c19f.KernelSpy() as spy:                      # [ext-C19F] records the kernel calls
                ttno = TTNO.from_tensor(ref, T.copy(), dict(leg), mode=Decomposition[case["mode"]])
        except Exception as e:  # noqa
            ob["error"] = exc_str(e)
            if not mal:
                ob["viol"] = f"from_tensor raised {exc_str(e)}" + (f" on the reference tree {ob['ref_struct']} (dictionary order {ids}) after {edit_info['log']}" if edit_info else "")
            return ob
        ob["snap"] = snap_full(ttno)
        # [ext-C19F] kernel calls, bond dimensions, factor arrays (kept on the instance, not in the observation)
        ob["f"], arrays = c19f.observe(ttno, spy, T)
        self._c19f_arrays[(case["seed"], case["mode"], n)] = arrays
        # [/ext-C19F]
        v = well_formed(ttno)
        if v is None:
            v = ob["f"]["contract"]                            # [ext-C19F] kernel contract Q . R = A, numerically
        if v is None:
            got = {k: [nd.parent, list(nd.children)] for k, nd in ttno.nodes.items()}
            if got != ob["ref_struct"]:
                v = f"structure {got} differs from the reference tree {ob['ref_struct']}"
            elif ttno.root_id != ref.root_id:
                v = f"root {ttno.root_id!r}, reference tree {ref.root_id!r}"
        if v is None and edit_info and (list(ref.nodes), tree_relations(ref), ref.root_id) != ref_before:
            v = "from_tensor changed the reference tree it was given"
        if v is None:
            for k, nd in ttno.nodes.items():
                if nd.nopen_legs() != 2:
                    v = f"{k} has {nd.nopen_legs()} open legs"
        if v is None:
            half = n
            tokens = {k: [leg[k], half + leg[k]] for k in ids}
            try:
                d = dense_by_tokens(ttno, tokens)
                if d.shape != T.shape:
                    v = f"contraction has shape {d.shape}, the operator {T.shape}"
                else:
                    err = float(np.max(np.abs(d - T))) if T.size else 0.0
                    if err > 1e-8 * max(1.0, float(np.max(np.abs(T)))):
                        v = f"contraction differs from the input operator by {err:.3e} (mode {case['mode']})"
            except Exception as e:  # noqa
                v = f"not contractible: {exc_str(e)}"
        if v is not None and edit_info:
            v += f" [reference tree {ob['ref_struct']}, dictionary order {ids}, produced by {edit_info['log']}]"
        ob["viol"] = v
        return ob

    # ---- Ising -------------------------------------------------------------------------------------------
    @staticmethod
    def _ham_obs(ham):
        terms = []
        for fr, g, tp in ham.terms:
            terms.append([[fr.numerator, fr.denominator], g, [[str(k), str(v)] for k, v in tp.items()]])
        P = paulis()
        conv_ok = all((k in ("I1", "I2") and np.array_equal(v, np.eye(int(k[1])))) or (k in P and np.array_equal(v, P[k]))
                      for k, v in ham.conversion_dictionary.items())
        return {"terms": terms, "coeffs": [[k, complex(v)] for k, v in ham.coeffs_mapping.items()],
                "conv": list(ham.conversion_dictionary.keys()), "conv_ok": conv_ok}

    def _ising_oracle(self, ham, sites, edges, case, extra_exact=None):
        J, g, fl = case["J"], case["g"], case["flipped"]
        if len(sites) > 10:
            return None
        dims = {s: 2 for s in sites}
        so = sorted(sites)
        H = util.dense_ham(ham, so, dims) if so else np.zeros((1, 1))
        ref = ising_reference(so, edges, J, g, fl) if so else np.zeros((1, 1))
        if H.shape != ref.shape or not np.allclose(H, ref, atol=1e-12):
            return f"operator differs from -J sum A_i A_j - g sum B_i (J={J}, g={g}, flipped={fl}; max diff {float(np.max(np.abs(H - ref))) if H.shape == ref.shape else 'shape'})"
        return None

    def _impl_ising_tree(self, case):
        from pytreenet.operators.models import ising_model, flipped_ising_model
        from pytreenet.operators.exact_operators import exact_ising_hamiltonian, flipped_exact_ising_hamiltonian
        rng = random.Random(case["seed"])
        n = case["nnodes"]
        par = util.random_parents(rng, n)
        ttn = util.build_ttns(rng, par, phys=[2] * n, bond=rng.choice([1, 2]))
        f = flipped_ising_model if case["flipped"] else ising_model
        ob = {"order": [int(k[1:]) for k in ttn.nodes], "children": {int(k[1:]): [int(c[1:]) for c in nd.children] for k, nd in ttn.nodes.items()},
              "root": int(ttn.root_id[1:])}
        try:
            ham = f(ttn, case["g"], case["J"])
        except Exception as e:  # noqa
            ob["error"] = exc_str(e)
            ob["viol"] = f"builder raised {exc_str(e)}"
            return ob
        ob.update(self._ham_obs(ham))
        sites = list(ttn.nodes)
        ob["viol"] = self._ising_oracle(ham, sites, tree_edges_public(ttn), case)
        if ob["viol"] is None:
            pc = [(k, c) for k, nd in ttn.nodes.items() for c in nd.children]
            ob["viol"] = nn_two_operator_check(ttn, pc, sites, case["seed"])
        return ob

    def _impl_ising_pairs(self, case):
        from pytreenet.operators.models import ising_model, flipped_ising_model
        rng = random.Random(case["seed"])
        n = case["nnodes"]
        par = util.random_parents(rng, n)
        pairs = [(p, i) if rng.random() < 0.5 else (i, p) for i, p in enumerate(par) if p is not None]
        rng.shuffle(pairs)
        f = flipped_ising_model if case["flipped"] else ising_model
        ob = {"pairs": [list(p) for p in pairs]}
        spairs = [(f"n{a}", f"n{b}") for a, b in pairs]
        try:
            ham = f(list(spairs), case["g"], case["J"])
        except Exception as e:  # noqa
            ob["error"] = exc_str(e)
            ob["viol"] = f"builder raised {exc_str(e)}"
            return ob
        ob.update(self._ham_obs(ham))
        sites = [f"n{i}" for i in range(n)]
        ob["viol"] = self._ising_oracle(ham, sites, spairs, case)
        if ob["viol"] is None:
            ob["viol"] = nn_two_operator_check(list(spairs), spairs, sites, case["seed"])
        return ob

    def _impl_ising_grid(self, case):
        from pytreenet.operators.models import ising_model_2D, flipped_ising_model_2D
        r, c, pre = case["rows"], case["cols"], case["prefix"]
        f = flipped_ising_model_2D if case["flipped"] else ising_model_2D
        ob = {}
        if case["form"] in ("array", "array_str") and r >= 1 and c >= 1:
            grid = np.empty((r, c), dtype=object)
            for i in range(r):
                for j in range(c):
                    grid[i, j] = f"{pre}{i}_{j}"
            if case["form"] == "array_str":          # numpy string array, item size chosen by numpy to fit every identifier
                grid = np.array(grid.tolist())
        else:
            grid = (pre, r, c)
        try:
            ham = f(grid, case["g"], case["J"])
        except Exception as e:  # noqa
            ob["error"] = exc_str(e)
            if r >= 1 and c >= 1:
                ob["viol"] = f"builder raised {exc_str(e)}"
            return ob
        ob.update(self._ham_obs(ham))
        v = None
        if r >= 1 and c >= 1:
            sites = [f"{pre}{i}_{j}" for i in range(r) for j in range(c)]
            adj = [(f"{pre}{i}_{j}", f"{pre}{i2}_{j2}") for i in range(r) for j in range(c) for (i2, j2) in ((i + 1, j), (i, j + 1)) if i2 < r and j2 < c]
            # term-level reading of the documented sum (any size): one field term per site, one coupling per grid edge
            singles = Counter(t[2][0][0] for t in ob["terms"] if len(t[2]) == 1)
            doubles = Counter(frozenset(x[0] for x in t[2]) for t in ob["terms"] if len(t[2]) == 2)
            if singles != Counter(sites):
                v = f"single-site terms on {sorted(singles.elements())}, expected one per site of the {r} x {c} grid"
            elif doubles != Counter(frozenset(e) for e in adj):
                v = "coupling terms are not exactly the grid edges, each once"
            elif any(t[0] != [-1, 1] for t in ob["terms"]):
                v = "a term does not carry the factor -1"
            else:
                v = self._ising_oracle(ham, sites, adj, case)
        ob["viol"] = v
        return ob

    def _impl_exact(self, case):
        from pytreenet.operators.exact_operators import exact_ising_hamiltonian, flipped_exact_ising_hamiltonian
        from pytreenet.operators.models import ising_model, flipped_ising_model
        n, J, g, fl = case["n"], case["J"], case["g"], case["flipped"]
        f = flipped_exact_ising_hamiltonian if fl else exact_ising_hamiltonian
        ob = {}
        try:
            H = f(J, g, n)
        except Exception as e:  # noqa
            ob["error"] = exc_str(e)
            ob["viol"] = f"exact builder raised {exc_str(e)}"
            return ob
        ob["H"] = H
        sites = list(range(n))
        edges = [(i, i + 1) for i in range(n - 1)]
        ref = ising_reference(sites, edges, J, g, fl)
        v = None
        if H.shape != ref.shape or not np.allclose(H, ref, atol=1e-12):
            v = f"exact Hamiltonian differs from -J sum A_i A_(i+1) - g sum B_i on {n} sites"
        if v is None:
            # the symbolic builder on the chain must denote the same operator
            m = (flipped_ising_model if fl else ising_model)([(f"s{i}", f"s{i + 1}") for i in range(n - 1)], g, J) if n >= 2 else None
            if m is not None:
                ids = [f"s{i}" for i in range(n)]
                Hs = util.dense_ham(m, ids, {i: 2 for i in ids})
                if not np.allclose(Hs, H, atol=1e-12):
                    v = "symbolic chain model and exact dense Hamiltonian disagree"
        ob["viol"] = v
        return ob

    # ---- histories ----------------------------------------------------------------------------------------
    def _impl_ising_history(self, case):
        from pytreenet.operators.models import ising_model, flipped_ising_model, ising_model_2D, flipped_ising_model_2D
        rng = random.Random(case["seed"])
        kind = case["obj"]
        ob = {"stages": [], "log": []}
        log = ob["log"]
        try:
            G = GROWERS[kind](rng)
        except Exception as e:  # noqa
            ob["error"] = exc_str(e)
            ob["viol"] = f"valid construction of the initial {kind} object raised {exc_str(e)}"
            return ob
        self._stats[f"history:{kind}"] += 1
        nb = case["builds"]
        for b in range(nb):
            ng = rng.choice([0, 1, 1, 2, 3]) if b == 0 else rng.choice([0, 1, 1, 2, 2, 3])
            for _ in range(ng):
                if G.full():
                    break
                try:
                    log.append(G.grow())
                except Exception as e:  # noqa
                    ob["error"] = exc_str(e)
                    ob["viol"] = f"after {log}: a valid growth step of the {kind} object raised {exc_str(e)}"
                    return ob
            what = "ising" if (b == nb - 1 or kind == "grid") else rng.choice(["ising", "ising", "ising", "nn", "nnlist"])
            if what == "nnlist" and not G.tree:
                what = "nn"
            sites, edges = G.sites(), G.edges()
            where = f"build {b + 1} of {nb} on one {kind} object after {list(log)}"
            self._stats[f"history_stage:{what}"] += 1
            if what == "nnlist":
                try:
                    nn = G.obj.nearest_neighbours()
                except Exception as e:  # noqa
                    ob["viol"] = f"{where}: nearest_neighbours() raised {exc_str(e)}"
                    return ob
                if sorted(map(tuple, nn)) != sorted(edges):
                    ob["viol"] = f"{where}: nearest_neighbours() = {nn}, the (parent, child) bonds of the tree are {edges}"
                    return ob
                nn.append(("x", "y"))          # the caller owns the returned list
                del nn[:-1]
                continue
            if what == "nn":
                v = nn_two_operator_check(G.structure(), edges if G.tree else list(G.obj), sites, rng.randrange(10 ** 9))
                if v:
                    ob["viol"] = f"{where}: {v}"
                    return ob
                continue
            fl = rng.random() < 0.5
            st = {"what": "ising", "flipped": fl, "J": dyadic(rng), "g": dyadic(rng), "nlog": len(log), "tie": False}
            if kind == "grid":
                f = flipped_ising_model_2D if fl else ising_model_2D
                st.update({"rows": G.r, "cols": G.c, "prefix": G.pre})
            else:
                f = flipped_ising_model if fl else ising_model
            try:
                ham = f(G.structure(), st["g"], st["J"])
            except Exception as e:  # noqa
                ob["error"] = exc_str(e)
                ob["viol"] = f"{where}: builder raised {exc_str(e)}"
                return ob
            st.update(self._ham_obs(ham))
            ob["stages"].append(st)
            # inputs of the model tie: the structure as the library object reports it at this moment
            if G.tree:
                try:
                    names = list(G.obj.nodes)
                    idx = {k: i for i, k in enumerate(names)}
                    st["children"] = [[idx[c] for c in G.obj.nodes[k].children] for k in names]
                    st["root"] = idx[G.obj.root_id]
                    st["names"] = names
                    st["tie"] = True
                except Exception:  # noqa  (inconsistent object: reported by the oracle below)
                    pass
            elif kind == "pairs":
                st["names"] = list(sites)
                st["pairs"] = [list(p) for p in G.pairs]
                st["tie"] = True
            else:
                st["tie"] = True
            # oracle: the harness's own record of sites and bonds
            v = None
            if G.tree and sorted(G.obj.nodes) != sorted(sites):
                v = f"the object has the identifiers {sorted(G.obj.nodes)}, documented {sorted(sites)}"
            if v is None:
                singles = Counter(t[2][0][0] for t in st["terms"] if len(t[2]) == 1)
                doubles = Counter(frozenset(x[0] for x in t[2]) for t in st["terms"] if len(t[2]) == 2)
                if singles != Counter(sites):
                    v = f"single-site terms on {sorted(singles.elements())}, expected one per site {sorted(sites)}"
                elif doubles != Counter(frozenset(e) for e in edges):
                    v = (f"two-site terms on {sorted(tuple(sorted(d)) for d in doubles.elements())}, the bonds <ij> are "
                         f"{sorted(tuple(sorted(e)) for e in edges)}")
                else:
                    v = self._ising_oracle(ham, sites, edges, st)
            if v:
                ob["viol"] = f"{where}: {v}"
                return ob
            if rng.random() < 0.5:             # the caller owns the returned Hamiltonian
                ham.terms.clear()
                ham.conversion_dictionary.clear()
                ham.coeffs_mapping.clear()
        ob["viol"] = None
        return ob

    # -----------------------------------------------------------------------------------------------
    # model side
    # -----------------------------------------------------------------------------------------------
    def model(self, ctx, cases, obs):
        exprs, idx = [], []
        for i, (c, ob) in enumerate(zip(cases, obs)):
            if "harness_exception" in ob:
                continue
            e = self._model_expr(c, ob)
            if e is not None:
                exprs.append(e)
                idx.append(i)
        self._inst = [0, 0, []]
        vals = coq_eval(ctx, IMPORTS, [f"(true, {e})" for e in exprs], shard=24, scope="nat_scope", timeout=600)
        out = [None] * len(cases)
        for i, v in zip(idx, vals):
            # wrapped so that a model-side rejection (None) is still compared
            out[i] = v if isinstance(v, BaseException) else {"v": v[1]}
        return out

    def _model_expr(self, c, ob):
        k = c["kind"]
        om = "(fun m => Some (obs_store (mst m), lefts m, rights m, wfb (mst m)))"
        if k == "mps_list":
            return f"bind (mps_from_list_z {shapes_coq(ob['shapes'])} ({coq_z(c['root'])})%Z) {om}"
        if k == "mps_cps":
            b = coq_opt(c["bonds"], lambda l: coq_list(l, lambda z: f"({coq_z(z)})%Z"))
            return (f"bind (mps_cps ({coq_z(c['sv'])})%Z ({coq_z(c['dim'])})%Z ({coq_z(c['n'])})%Z {b} ({coq_z(c['root'])})%Z) "
                    f"(fun me => Some (obs_store (mst (fst me)), lefts (fst me), rights (fst me), wfb (mst (fst me)), snd me))")
        if k == "star_cps":
            one = lambda bug: (f"bind (star_cps {bug} ({coq_z(c['sv'])})%Z ({coq_z(c['dim'])})%Z ({coq_z(c['clen'])})%Z ({coq_z(c['nch'])})%Z) "
                               f"(fun me => Some (obs_store (sst (fst me)), obs_labels (slabels (fst me)), chains (fst me), wfb (sst (fst me)), snd me))")
            return f"({one('false')}, {one('true')})"
        if k == "star_build":
            calls = coq_list(ob["calls"], lambda sc: f"({nat_list(sc[0])}, {coq_nat(sc[1])})")
            return (f"bind (star_build {nat_list(ob['center'])} {calls}) "
                    f"(fun m => Some (obs_store (sst m), obs_labels (slabels m), chains m, wfb (sst m)))")
        if k == "fork_build":
            calls = coq_list(ob["calls"], lambda x: f"FMain {nat_list(x[1])}" if x[0] == "m" else f"FSub {nat_list(x[1])} {coq_nat(x[2])}")
            return (f"bind (fork_build {calls}) (fun m => Some (obs_store (fst_ m), obs_labels (flabels m), mainc m, subc m, wfb (fst_ m)))")
        if k == "ftps":
            return (f"bind (constant_ftps {coq_nat(c['phys'])} ({coq_z(c['w'])})%Z ({coq_z(c['h'])})%Z ({coq_z(c['bd'])})%Z) "
                    f"(fun m => Some (obs_store (fst_ m), obs_labels (flabels m), mainc m, subc m, wfb (fst_ m)))")
        if k == "binary":
            return (f"bind (binary_ttns ({coq_z(ob['n'])})%Z ({coq_z(ob['bd'])})%Z {nat_list(ob['pshape'])}) "
                    f"(fun sl => Some (obs_store (fst sl), obs_labels (snd sl), wfb (fst sl)))")
        if k == "from_tensor":
            if "skip" in ob:
                return None
            ch = {int(a): b for a, b in ob["children"].items()}
            old = (f"from_tensor_nodes {rtree_coq(ch, ob['root'])} (fun i => nth i {nat_list(ob['leg'])} 0) {nat_list(ob['shape'])}")
            # [ext-C19F] the store-level program next to the shape-level model
            num = {k: i for i, k in enumerate(ob["names"])} if "names" in ob else None
            tb = {(num[k] if num else int(k[1:])): v for k, v in ob.get("f", {}).get("tb", {}).items()}
            return "(" + old + ", " + c19f.model_expr(rtree_coq(ch, ob['root']), ob.get("n", c["nnodes"]), ob["leg"], ob["shape"], c["mode"], tb) + ")"
            # [/ext-C19F]
        if k == "ising_tree":
            ch = {int(a): b for a, b in ob["children"].items()}
            return f"ising_of_tree {rtree_coq(ch, ob['root'])} {nat_list(ob['order'])}"
        if k == "ising_pairs":
            return "ising_of_pairs Nat.eqb " + coq_list(ob["pairs"], lambda p: f"({coq_nat(p[0])}, {coq_nat(p[1])})")
        if k == "ising_grid":
            return f"ising_of_grid ({coq_z(c['rows'])})%Z ({coq_z(c['cols'])})%Z"
        if k == "exact":
            return f"exact_ising_terms {coq_nat(c['n'])}"
        if k == "ctor_history":
            # stateless constructors: the tie of a history is the tie of every build (the model has no shared state to poison)
            return "(true, " + ", ".join(self._model_expr(st["case"], o) for st, o in zip(c["steps"], ob["steps"])) + ")"
        if k == "ising_history":
            items = []
            for st in self._tied_stages(ob):
                if c["obj"] == "grid":
                    items.append(f"ising_of_grid ({coq_z(st['rows'])})%Z ({coq_z(st['cols'])})%Z")
                elif c["obj"] == "pairs":
                    items.append("ising_of_pairs Nat.eqb " + coq_list(st["pairs"], lambda p: f"({coq_nat(p[0])}, {coq_nat(p[1])})"))
                else:
                    items.append(f"ising_of_tree {rtree_coq(st['children'], st['root'])} {nat_list(range(len(st['names'])))}")
            return "[" + "; ".join(items) + "]" if items else None
        return None

    @staticmethod
    def _tied_stages(ob):
        return [st for st in ob.get("stages", []) if st.get("tie")]

    # -----------------------------------------------------------------------------------------------
    # correspondence
    # -----------------------------------------------------------------------------------------------
    def compare(self, case, ob, mo):
        if "harness_exception" in ob:
            return f"harness exception: {ob['harness_exception']}"
        return getattr(self, "_cmp_" + case["kind"])(case, ob, mo["v"])

    def _reject(self, ob, mo):
        """both reject / both accept; returns (done, message)"""
        if "error" in ob:
            if mo is None:
                return True, None
            return True, f"implementation raised {ob['error']} where the model accepts"
        if mo is None:
            return True, "implementation accepts where the model rejects"
        return False, None

    def _wfb(self, flag, case):
        self._inst[0] += 1
        if flag is True:
            self._inst[1] += 1
        else:
            self._inst[2].append(f"wfb false on the model store of {case}")

    def _cmp_mps_list(self, case, ob, mo):
        done, msg = self._reject(ob, mo)
        if done:
            return msg
        *store, lefts, rights, wf = mo[1]
        pre = case["prefix"]
        name = lambda k: f"{pre}{k}"
        d = compare_store(ob["snap"], model_store(store, name))
        if d:
            return d
        if ob["lefts"] != [name(k) for k in lefts] or ob["rights"] != [name(k) for k in rights]:
            return f"left/right node lists: impl {ob['lefts']} / {ob['rights']} model {lefts} / {rights}"
        if not ob["raw_equal"]:
            return "a stored tensor is not the input tensor of its site"
        self._wfb(wf, case)
        return None

    def _cmp_mps_cps(self, case, ob, mo):
        done, msg = self._reject(ob, mo)
        if done:
            return msg
        *store, lefts, rights, wf, entries = mo[1]
        pre = case["prefix"]
        name = lambda k: f"{pre}{k}"
        d = compare_store(ob["snap"], model_store(store, name))
        if d:
            return d
        if ob["lefts"] != [name(k) for k in lefts] or ob["rights"] != [name(k) for k in rights]:
            return f"left/right node lists: impl {ob['lefts']} / {ob['rights']} model {lefts} / {rights}"
        for i, idx in enumerate(entries):
            got = ob["entries"].get(name(i))
            if got != [[list(idx), complex(1)]]:
                return f"tensor of {name(i)}: non-zero entries {got}, model: a single 1 at {list(idx)}"
        self._wfb(wf, case)
        return None

    def _cmp_star_cps(self, case, ob, mo):
        m_fix, m_bug = mo
        r_fix = self._cmp_star_one(case, ob, m_fix)
        if r_fix is None:
            return None
        r_bug = self._cmp_star_one(case, ob, m_bug)
        if r_bug is None:
            return f"[star-dimension] implementation agrees with the model instance bug=true (reshape to (1,2)/(1,1,2)) and not with the repaired instance: {r_fix}"
        return r_fix

    def _cmp_star_one(self, case, ob, mo):
        done, msg = self._reject(ob, mo)
        if done:
            return msg
        *store, labels, chains, wf, entries = mo[1]
        pre = {"center": "central", "arm": case["prefix"]}
        lab = {x[0]: render(x[1], pre) for x in labels}
        name = lambda k: lab[k]
        d = compare_store(ob["snap"], model_store(store, name))
        if d:
            return d
        if ob["chains"] != [[name(k) for k in ch] for ch in chains]:
            return f"chains: impl {ob['chains']} model {chains}"
        for k, idx in entries:
            got = ob["entries"].get(name(k))
            if got != [[list(idx), complex(1)]]:
                return f"tensor of {name(k)}: non-zero entries {got}, model: a single 1 at {list(idx)}"
        self._wfb(wf, case)
        return None

    def _cmp_star_build(self, case, ob, mo):
        done, msg = self._reject(ob, mo)
        if done:
            return msg
        *store, labels, chains, wf = mo[1]
        pre = {"center": "central" if case["state"] else "center", "arm": "node"}
        lab = {x[0]: render(x[1], pre) for x in labels}
        name = lambda k: lab[k]
        d = compare_store(ob["snap"], model_store(store, name))
        if d:
            return d
        if ob["chains"] != [[name(k) for k in ch] for ch in chains]:
            return f"chains: impl {ob['chains']} model {chains}"
        self._wfb(wf, case)
        return None

    def _cmp_fork(self, case, ob, mo):
        done, msg = self._reject(ob, mo)
        if done:
            return msg
        *store, labels, mainc, subc, wf = mo[1]
        pre = {"main": "main", "sub": "sub"}
        lab = {x[0]: render(x[1], pre) for x in labels}
        name = lambda k: lab[k]
        d = compare_store(ob["snap"], model_store(store, name))
        if d:
            return d
        if ob["main"] != [name(k) for k in mainc] or ob["subs"] != [[name(k) for k in ch] for ch in subc]:
            return f"main/sub chain lists differ: impl {ob['main']} {ob['subs']}"
        if ob.get("fibre"):
            return ob["fibre"]
        self._wfb(wf, case)
        return None

    _cmp_fork_build = _cmp_fork
    _cmp_ftps = _cmp_fork

    def _cmp_binary(self, case, ob, mo):
        done, msg = self._reject(ob, mo)
        if done:
            return msg
        *store, labels, wf = mo[1]
        pre = {"site": "site", "virt": "node"}
        lab = {x[0]: render(x[1], pre) for x in labels}
        name = lambda k: lab[k]
        d = compare_store(ob["snap"], model_store(store, name))
        if d:
            return d
        if ob.get("tensors_ok"):
            return ob["tensors_ok"]
        self._wfb(wf, case)
        return None

    def _cmp_ctor_history(self, case, ob, mo):
        vals = list(mo)[1:]
        if len(vals) != len(case["steps"]):
            return f"model evaluated {len(vals)} builds for {len(case['steps'])} steps"
        for j, (st, o, m) in enumerate(zip(case["steps"], ob["steps"], vals)):
            d = getattr(self, "_cmp_" + st["case"]["kind"])(st["case"], o, m)
            if d:
                return f"build {j} ({st['case']['kind']}) after {ob['log']}: {d}"
        return None

    def _cmp_from_tensor(self, case, ob, mo):
        # [ext-C19F] mo = (shape-level model, store-level model)
        mo, mo_f = mo
        d = c19f.compare(self, case, ob, mo_f, self._c19f_arrays.get((case["seed"], case["mode"], case["nnodes"])), model_store, compare_store)
        if d or case.get("mal") == "dupleg":      # the shape-level model does not look at the axis list
            return d
        # [/ext-C19F]
        done, msg = self._reject(ob, mo)
        if done:
            return msg
        nodes = mo[1]
        impl = ob["snap"]["nodes"]
        name = (lambda k: ob["names"][k]) if "names" in ob else (lambda k: f"n{k}")
        if len(impl) != len(nodes):
            return f"{len(impl)} nodes, model {len(nodes)}"
        for a, (k, par, ch, shape) in zip(impl, nodes):
            want = [name(k), name(par[0]) if par else None, [name(c) for c in ch]]
            if a[:3] != want:
                return f"node record (dictionary order): impl {a[:3]} model {want}"
            if a[3] != list(range(len(a[3]))):
                return f"{a[0]}: leg permutation {a[3]} (model: identity)"
            sh = list(shape)
            if case["mode"] == "tSVD":
                nv = (1 if par else 0) + len(ch)
                if len(a[4]) != len(sh) or a[4][nv:] != sh[nv:] or any(x > y for x, y in zip(a[4][:nv], sh[:nv])):
                    return f"{a[0]}: shape {a[4]} model (bonds <=) {sh}"
            elif a[4] != sh:
                return f"{a[0]}: shape {a[4]} model {sh}"
        if ob["snap"]["root"] != name(nodes[0][0]):
            return "root differs"
        return None

    def _terms_py(self, mo, name, flipped):
        B, A = ("X", "Z") if flipped else ("Z", "X")
        out = []
        for (f, cf, ops) in mo:
            cname = {"C1": "1", "CExtMagn": "ext_magn", "CCoupling": "coupling"}[cf if isinstance(cf, str) else cf[0]]
            out.append([[int(f), 1], cname, [[name(s), {"OpExt": B, "OpNN": A}[o if isinstance(o, str) else o[0]]] for (s, o) in [self._so(x) for x in ops]]])
        return out

    @staticmethod
    def _so(x):
        # (site, op) with site possibly a pair: parsed tuples are flattened left-nested
        if len(x) == 3:
            return ((x[0], x[1]), x[2])
        return (x[0], x[1])

    def _cmp_ham(self, case, ob, terms_model, set_block):
        if "error" in ob:
            return f"implementation raised {ob['error']}"
        it = ob["terms"]
        if set_block:
            ns = sum(1 for t in terms_model if t[1] == "ext_magn")
            key = lambda t: repr(t)
            if len(it) != len(terms_model):
                return f"term count: impl {len(it)} model {len(terms_model)}"
            if sorted(map(key, it[:ns])) != sorted(map(key, terms_model[:ns])):
                return f"single-site block (multiset): impl {it[:ns]} model {terms_model[:ns]}"
            if it[ns:] != terms_model[ns:]:
                return f"coupling block: impl {it[ns:]} model {terms_model[ns:]}"
        elif it != terms_model:
            for a, b in zip(it, terms_model):
                if a != b:
                    return f"term differs: impl {a} model {b}"
            return f"term count: impl {len(it)} model {len(terms_model)}"
        if ob["coeffs"] != [["1", complex(1)], ["ext_magn", complex(case["g"])], ["coupling", complex(case["J"])]]:
            return f"coefficient table {ob['coeffs']}"
        B, A = ("X", "Z") if case["flipped"] else ("Z", "X")
        if ob["conv"] != [B, A, "I1", "I2"] or not ob["conv_ok"]:
            return f"conversion dictionary keys {ob['conv']} / values not the Pauli matrices"
        return None

    def _cmp_ising_tree(self, case, ob, mo):
        return self._cmp_ham(case, ob, self._terms_py(mo, lambda k: f"n{k}", case["flipped"]), False)

    def _cmp_ising_pairs(self, case, ob, mo):
        return self._cmp_ham(case, ob, self._terms_py(mo, lambda k: f"n{k}", case["flipped"]), True)

    def _cmp_ising_grid(self, case, ob, mo):
        done, msg = self._reject(ob, mo)
        if done:
            return msg
        pre = case["prefix"]
        return self._cmp_ham(case, ob, self._terms_py(mo[1], lambda ij: f"{pre}{ij[0]}_{ij[1]}", case["flipped"]), True)

    def _cmp_ising_history(self, case, ob, mo):
        from lib import unsome
        sts = self._tied_stages(ob)
        if len(sts) != len(mo):
            return f"{len(sts)} builds observed, {len(mo)} modelled"
        for st, m in zip(sts, mo):
            if case["obj"] == "grid":
                m = unsome(m)
                if m is None:
                    return f"{st['rows']} x {st['cols']} grid: implementation accepts where the model rejects"
                pre = st["prefix"]
                d = self._cmp_ham(st, st, self._terms_py(m, lambda ij: f"{pre}{ij[0]}_{ij[1]}", st["flipped"]), True)
            else:
                names = st["names"]
                d = self._cmp_ham(st, st, self._terms_py(m, lambda k: names[k], st["flipped"]), case["obj"] == "pairs")
            if d:
                return f"build after {st['nlog']} growth steps ({ob['log'][:st['nlog']]}): {d}"
        if "error" in ob:
            return f"implementation raised {ob['error']}"
        return None

    def _cmp_exact(self, case, ob, mo):
        if "error" in ob:
            return f"implementation raised {ob['error']}"
        n = case["n"]
        P = paulis()
        B, A = ("X", "Z") if case["flipped"] else ("Z", "X")
        cv = {"ext_magn": case["g"], "coupling": case["J"]}
        sites = list(range(n))
        dims = {i: 2 for i in sites}
        H = np.zeros((2 ** n, 2 ** n), dtype=complex)
        for (f, c, ops) in self._terms_py(mo, lambda k: k, case["flipped"]):
            H = H + (f[0] * cv[c]) * util.dense_tp({s: P[o] for s, o in ops}, sites, dims)
        if H.shape != ob["H"].shape or not np.array_equal(H, ob["H"]):
            return "dense matrix differs from the Kronecker evaluation of the model's term list (exact comparison on dyadic couplings)"
        return None

    # -----------------------------------------------------------------------------------------------
    def oracle(self, case, ob):
        if "harness_exception" in ob:
            return f"harness exception {ob['harness_exception']}: {ob.get('tb', '')[-400:]}"
        return ob.get("viol")

    def classify(self, case, what, known):
        k = case.get("kind")
        if k == "star_cps" and KNOWN_STAR in known:
            valid = case["dim"] >= 1 and 0 <= case["sv"] < case["dim"] and case["clen"] >= 1 and case["nch"] >= 1
            if valid and case["dim"] != 2 and (("cannot reshape array" in what and "(1,2)" in what.replace(" ", "")) or
                                               ("cannot reshape array" in what and "(1,1,2)" in what.replace(" ", "")) or "[star-dimension]" in what):
                return KNOWN_STAR
        if k == "ising_grid" and KNOWN_GRID in known and case["rows"] == 1 and case["cols"] == 1 and "single-site terms on []" in what:
            return KNOWN_GRID
        return None

    def extra_obligations(self, ctx):
        n, ok, fails = getattr(self, "_inst", [0, 0, []])
        return n, ok, fails[:5]

    def sample_repr(self, case):
        return case

    # the instance counters are reset when the main batch is modelled
    _inst = [0, 0, []]
    _c19f_arrays = {}      # [ext-C19F]

    def shrink(self, ctx, case, pred):
        if case.get("kind") != "legs_build":
            return case
        # a smaller member of the same family (same topology and class, fewer / shorter chains, other plan seeds) that still fails
        stats = getattr(self, "_stats", None)
        try:
            rng = random.Random(case["seed"])
            a, b = ("h", "maxw") if case["topo"] == "fork" else ("nch", "maxlen")
            lo = (min(2, case["h"]), min(1, case["maxw"])) if a == "h" else (1, 1)      # forks: stay at >= 2 main nodes with subchains
            sizes = sorted(((x, y) for x in range(lo[0], case[a] + 1) for y in range(lo[1], case[b] + 1)),
                           key=lambda p: (p[0] * (1 + p[1]), p))
            for (x, y) in sizes:
                for _ in range(12):
                    c = dict(case, seed=rng.randrange(10 ** 9), prefixes=None)
                    c[a], c[b] = x, y
                    if pred(c):
                        return c
            return case
        finally:
            if stats is not None:
                self._stats = stats
