"""C20 — the local propagator computes exp(-/+ iHt) psi in every evolution mode.

Tie: the numerical kernels the code calls (scipy.integrate.solve_ivp, scipy.linalg.expm,
scipy.sparse.linalg.expm_multiply / eigsh / expm) are replaced, in this process only, by
recording pass-through wrappers.  The record (kernel, method, the scalar c with
matrix-argument = c*H as an exact Gaussian rational, t_span, t_eval, k, number of returned
columns) and the outcome (shape or exception) must equal the Coq model's `observe` exactly.
Oracle: an independent reference exp(-/+iHt) psi (eigendecomposition for Hermitian H,
scaling-and-squaring Taylor series in numpy otherwise; never scipy.linalg.expm)."""
from __future__ import annotations

import math
import traceback
from fractions import Fraction

import numpy as np

from lib import Prop, coq_eval, coq_nat, coq_list, coq_bool, coq_string, setup_repo_import

setup_repo_import()

MODES = ["FASTEST", "EXPM", "EIGSH", "CHEBYSHEV", "SPARSE", "RK45", "RK23", "DOP853", "BDF"]
ODE = ("RK45", "RK23", "DOP853", "BDF")
DIMS = [1, 2, 3, 4, 5, 8, 12]
# relative tolerances of the oracle (relative to max(|reference|, |psi|)), per kernel family
TOL_EXP = 1e-9      # expm / expm_multiply / sparse expm / eigsh below dimension 4 (observed <= 1e-14)
TOL_ODE = 2e-2      # solve_ivp with its defaults rtol=1e-3, atol=1e-6; |H|_2 * t <= 3 (observed <= 4e-3)

# large local problems (the sizes of TDVP site / two-site tensors): dimensions in the hundreds, |H|_2 * |t| up to 30
BIG_MODES = ["FASTEST"] * 8 + ["CHEBYSHEV"] * 3 + ["EXPM"] * 3 + ["SPARSE"] + ["RK45", "RK23", "DOP853", "BDF"]
BIG_HT = [0.5, 3.0, 10.0, 30.0]          # |H|_2 * |t| of the exponential kernels (ODE modes: <= 3, where TOL_ODE is stated)
BIG_HKINDS = ["herm", "nonherm", "herm", "nonherm", "realsym", "tridiag", "blockdiag", "lowertri", "uppertri", "upper", "lower", "cdiag"]


def big_dim(rng):
    """a dimension in the hundreds: any integer in 100..330, or the size of a site tensor bond x bond x physical."""
    if rng.random() < 0.5:
        return rng.randrange(100, 331)
    while True:
        n = rng.randrange(3, 17) * rng.randrange(3, 17) * rng.randrange(2, 6)
        if 100 <= n <= 400:
            return n


# generators given in very small / very large units: H = 10^e * G, duration t0 / 10^e, so that H t stays of order one
UEXPS = [-30, -20, -14, -11, -9, -6, -3, 3, 6, 9, 11, 14, 20, 30]
UEXPS_QUICK = [-20, -11, -6, 3, 9, 14]
# nearly Hermitian generators: Hermitian plus a non-Hermitian part of relative size eps (in the spectral norm)
EPS_NEAR = [1e-2, 1e-3, 1e-4, 1e-5, 1e-6, 1e-7, 1e-9]
EPS_LOSS = [1.0, 0.3, 1e-2, 1e-4, 1e-6]          # `lossy`: H0 - i eps K with K >= 0 (strong and weak loss)
UNIT_HKINDS = ["nonherm", "nonherm", "nonherm", "lossy", "lossy", "nearherm", "herm", "herm", "lowertri", "cdiag", "tridiag", "upper"]


KF_ODE0 = "C20-ode-zero-duration"
KF_EIGSH = "C20-eigsh-dim>=4"
KF_REAL = "C20-ode-real-psi"

IMPORTS = ("From Coq Require Import ZArith QArith List String. From PTN Require Import Evolve.Dispatch. "
           "Import ListNotations. Local Open Scope string_scope.")


# ---------------------------------------------------------------------------------------
# inputs
# ---------------------------------------------------------------------------------------
def shapes_of(n, order, rs):
    """a shape of the given order (1, 2, 3) with n entries."""
    if order == 1:
        return [n]
    divs = [d for d in range(1, n + 1) if n % d == 0]
    if order == 2:
        a = divs[rs.randint(len(divs))]
        if n > 1 and n in (a, n // a) and len(divs) > 2 and rs.rand() < 0.7:
            a = divs[1 + rs.randint(len(divs) - 2)]
        return [a, n // a]
    a = divs[rs.randint(len(divs))]
    rest = n // a
    d2 = [d for d in range(1, rest + 1) if rest % d == 0]
    b = d2[rs.randint(len(d2))]
    return [a, b, rest // b]


STRUCTURED = ["lower", "lowertri", "uppertri", "upper", "tridiag", "cdiag", "diag", "single", "blockdiag", "realsym"]


def _unit_norm(a):
    nrm = np.linalg.norm(a, 2)
    return a / nrm if nrm > 0 else a


def build_h(hkind, n, rs, hnorm, rows=None, cols=None, eps=None):
    rows = n if rows is None else rows
    cols = n if cols is None else cols
    a = rs.standard_normal((rows, cols)) + 1j * rs.standard_normal((rows, cols))
    if rows == cols:
        if hkind == "nearherm":
            # Hermitian plus a generic (non-Hermitian) part of relative size eps
            b = rs.standard_normal((rows, cols)) + 1j * rs.standard_normal((rows, cols))
            a = _unit_norm((a + a.conj().T) / 2) + eps * _unit_norm(b)
        elif hkind == "lossy":
            # Hermitian minus i eps K with K positive semidefinite (loss: the norm decays forward, grows backward)
            b = rs.standard_normal((rows, cols)) + 1j * rs.standard_normal((rows, cols))
            a = _unit_norm((a + a.conj().T) / 2) - 1j * eps * _unit_norm(b @ b.conj().T)
        elif hkind == "herm":
            a = (a + a.conj().T) / 2
        elif hkind == "realsym":
            a = np.real(a + a.conj().T) / 2
        elif hkind == "diag":
            a = np.diag(np.real(np.diag(a))).astype(float)
        elif hkind == "upper":
            a = np.triu(a, 1) if n > 1 else a
        elif hkind == "lower":          # strictly lower triangular (e.g. a lowering operator): nilpotent
            a = np.tril(a, -1) if n > 1 else a
        elif hkind == "lowertri":       # lower triangular with a diagonal
            a = np.tril(a)
        elif hkind == "uppertri":
            a = np.triu(a)
        elif hkind == "tridiag":        # Hermitian banded
            a = (a + a.conj().T) / 2
            a = np.triu(np.tril(a, 1), -1)
        elif hkind == "cdiag":          # complex diagonal
            a = np.diag(np.diag(a))
        elif hkind == "single":         # one off-diagonal entry plus a real diagonal
            b = np.diag(np.real(np.diag(a))).astype(complex)
            if n > 1:
                i, j = (int(x) for x in rs.choice(n, size=2, replace=False))
                b[i, j] = a[i, j]
            a = b
        elif hkind == "blockdiag":      # two uncoupled Hermitian blocks
            a = (a + a.conj().T) / 2
            k = n // 2
            a[:k, k:] = 0
            a[k:, :k] = 0
        # "nonherm": as drawn
    nrm = np.linalg.norm(a, 2)
    if nrm == 0:
        a = a + np.eye(rows, cols)
        nrm = np.linalg.norm(a, 2)
    return a * (hnorm / nrm)


def build_psi(pdtype, shape, rs):
    if pdtype == "int":
        v = rs.randint(-3, 4, size=shape)
        if not v.any():
            v.flat[0] = 1
        return v
    if pdtype == "real":
        return rs.standard_normal(shape)
    return rs.standard_normal(shape) + 1j * rs.standard_normal(shape)


def is_hermitian_kind(hkind):
    return hkind in ("herm", "realsym", "diag", "tridiag", "blockdiag")


def relayout(a, lay):
    """the same values in another memory layout: 0/1 C-contiguous, 2 Fortran-contiguous copy, 3 a transposed view
    (of a C-contiguous transpose), 4 a strided view into a larger buffer."""
    if a.ndim < 2 or lay in (0, 1):
        return a
    if lay == 2:
        return np.asfortranarray(a)
    if lay == 3:
        perm = list(range(a.ndim))[::-1]
        return np.ascontiguousarray(a.transpose(perm)).transpose(perm)
    big = np.zeros(tuple(2 * d for d in a.shape), dtype=a.dtype)
    view = big[tuple(slice(None, None, 2) for _ in a.shape)]
    view[...] = a
    return view


# how the Hamiltonian of one step of a history derives from the caller's matrix `hb` (an object the caller keeps)
H_VARIANTS = ["same", "copy", "T", "F", "Tcopy", "conj", "neg", "negT", "strided", "inplace"]


def variant_of(hb, var):
    """the matrix handed to the propagator in a step of a history; `inplace` changes the caller's own
    array between two calls and hands over the very same object."""
    if var == "same":
        return hb
    if var == "copy":
        return hb.copy()
    if var == "T":
        return hb.T                              # the usual lazy transpose: a Fortran-ordered view
    if var == "F":
        return np.asfortranarray(hb)
    if var == "Tcopy":
        return np.ascontiguousarray(hb.T)
    if var == "conj":
        return hb.conj()
    if var == "neg":
        return -hb
    if var == "negT":
        return (-hb).T
    if var == "strided":
        return relayout(hb, 4)
    if var == "inplace":
        hb *= 0.5
        if hb.shape[0] > 1:
            hb[0, 1], hb[1, 0] = hb[1, 0].copy(), hb[0, 1].copy()
            hb[0, 1] = np.conj(hb[0, 1])
            hb[1, 0] = np.conj(hb[1, 0])         # (swap + conjugate keeps a Hermitian matrix Hermitian)
        return hb
    raise ValueError(var)


# ---------------------------------------------------------------------------------------
# independent reference
# ---------------------------------------------------------------------------------------
def taylor_expm(a):
    """exp(a) by scaling and squaring of the Taylor series (numpy only). With |a/2^s|_1 <= 1/4 and
    30 terms the truncation remainder is below (1/4)^31/31! ~ 1e-53."""
    a = np.asarray(a, dtype=complex)
    n = a.shape[0]
    nrm = np.linalg.norm(a, 1)
    s = 0
    while nrm / 2 ** s > 0.25:
        s += 1
    b = a / 2 ** s
    out = np.eye(n, dtype=complex)
    term = np.eye(n, dtype=complex)
    for k in range(1, 31):
        term = term @ b / k
        out = out + term
    for _ in range(s):
        out = out @ out
    return out


def reference(h, t, forward, vec, hermitian):
    sgn = -1.0 if forward else 1.0
    if hermitian and np.asarray(h).shape[0] >= 64:
        # large Hermitian matrices: the eigendecomposition, certified by its residual and the unitarity of the eigenvectors
        # (|H V - V diag(w)| and |V^dagger V - 1| at rounding level bound the error of V exp(-/+ i w t) V^dagger by about
        # |t| times the residual) instead of the second (Taylor) evaluation
        hc = np.asarray(h, dtype=complex)
        w, v = np.linalg.eigh(hc)
        n = hc.shape[0]
        hn = max(np.linalg.norm(hc), 1e-300)
        res = max(np.linalg.norm(hc - hc.conj().T) / hn, np.linalg.norm(hc @ v - v * w) / hn,
                  np.linalg.norm(v.conj().T @ v - np.eye(n)) / math.sqrt(n))
        if not (res * max(1.0, abs(t) * np.linalg.norm(hc, 2)) <= 1e-11):
            raise RuntimeError(f"the eigendecomposition used as reference has residual {res}")   # a bug of this harness
        return v @ (np.exp(sgn * 1j * w * t) * (v.conj().T @ vec.astype(complex)))
    r1 = taylor_expm(sgn * 1j * t * np.asarray(h, dtype=complex)) @ vec.astype(complex)
    if hermitian:
        w, v = np.linalg.eigh(np.asarray(h, dtype=complex))
        r2 = v @ (np.exp(sgn * 1j * w * t) * (v.conj().T @ vec.astype(complex)))
        dev = np.linalg.norm(r1 - r2) / max(np.linalg.norm(r2), 1e-300)
        if dev > 1e-11:
            raise RuntimeError(f"the two references disagree by {dev}")   # a bug of this harness
        return r2
    if np.asarray(h).shape[0] >= 64:
        # large non-Hermitian matrices: the Taylor reference is cross-checked against SciPy's Pade expm (used as a
        # self-check of this harness only; the verdict is taken with the numpy Taylor value)
        import scipy.linalg
        r3 = _orig_expm()(sgn * 1j * t * np.asarray(h, dtype=complex)) @ vec.astype(complex)
        dev = np.linalg.norm(r1 - r3) / max(np.linalg.norm(r3), np.linalg.norm(vec), 1e-300)
        if dev > 1e-10:
            raise RuntimeError(f"the Taylor and Pade references disagree by {dev}")   # a bug of this harness
    return r1


_ORIG_EXPM = []


def _orig_expm():
    """scipy.linalg.expm itself (not a recording wrapper of it)."""
    import scipy.linalg
    f = scipy.linalg.expm
    return _ORIG_EXPM[0] if _ORIG_EXPM else f


# ---------------------------------------------------------------------------------------
# recording wrappers
# ---------------------------------------------------------------------------------------
class Recorder:
    """Replaces the kernels by recording pass-through wrappers (this process only)."""

    def __init__(self):
        import scipy.integrate
        import scipy.linalg
        import scipy.sparse.linalg
        import importlib
        te = importlib.import_module("pytreenet.time_evolution.time_evolution")
        su = importlib.import_module("pytreenet.util.std_utils")
        self.te, self.su = te, su
        self.orig = {
            "solve_ivp": scipy.integrate.solve_ivp,
            "expm": scipy.linalg.expm,
            "expm_multiply": scipy.sparse.linalg.expm_multiply,
            "eigsh": scipy.sparse.linalg.eigsh,
            "expm_sparse": scipy.sparse.linalg.expm,
        }
        self.homes = [(scipy.integrate, "solve_ivp", "solve_ivp"), (scipy.linalg, "expm", "expm"),
                      (scipy.sparse.linalg, "expm_multiply", "expm_multiply"), (scipy.sparse.linalg, "eigsh", "eigsh"),
                      (scipy.sparse.linalg, "expm", "expm_sparse")]
        if not _ORIG_EXPM and getattr(scipy.linalg.expm, "_c20_wrapper", None) is None:
            _ORIG_EXPM.append(scipy.linalg.expm)
        self.calls = []
        self.depth = 0
        self.on = False
        self.patched = []

    def _wrap(self, name):
        orig = self.orig[name]
        rec = self

        def wrapper(*a, **kw):
            if not rec.on or rec.depth > 0:
                return orig(*a, **kw)
            entry = {"kernel": name, "args": a, "kwargs": dict(kw), "raised": None, "out": None}
            rec.calls.append(entry)
            rec.depth += 1
            try:
                out = orig(*a, **kw)
                entry["out"] = out
                return out
            except BaseException as e:
                entry["raised"] = f"{type(e).__name__}"
                raise
            finally:
                rec.depth -= 1
        wrapper._c20_wrapper = name
        return wrapper

    def install(self):
        wrappers = {n: self._wrap(n) for n in self.orig}
        ids = {id(f): n for n, f in self.orig.items()}
        # every name of the two anchored modules that is bound to one of the kernels
        for mod in (self.te, self.su):
            for attr, val in list(vars(mod).items()):
                n = ids.get(id(val))
                if n is not None:
                    self.patched.append((mod, attr, val))
                    setattr(mod, attr, wrappers[n])
        # and the public homes of the kernels (a call routed through scipy.* is recorded as well)
        for mod, attr, n in self.homes:
            val = getattr(mod, attr)
            if getattr(val, "_c20_wrapper", None) is None:
                self.patched.append((mod, attr, val))
                setattr(mod, attr, wrappers[n])

    def uninstall(self):
        for mod, attr, val in reversed(self.patched):
            setattr(mod, attr, val)
        self.patched = []

    def record(self, fn):
        self.calls = []
        self.on = True
        try:
            return fn()
        finally:
            self.on = False


def unit_times(u, h):
    """u * h for u in {1, -1, i, -i}: exact (a swap / negation of components)."""
    h = np.asarray(h)
    re, im = np.real(h).astype(float), np.imag(h).astype(float)
    if u == (1, 0):
        return re, im
    if u == (-1, 0):
        return -re, -im
    if u == (0, 1):
        return -im, re
    return im, -re


def identify_coef(arg, h, taus):
    """The Gaussian rational c with arg == c*h elementwise in floating point ((u*h)*tau with a unit u
    and a float tau from `taus`), as exact Fractions [re, im]; or ('approx', re, im) if no candidate
    reproduces arg exactly."""
    arg = np.asarray(arg)
    h = np.asarray(h)
    if arg.shape != h.shape:
        return ["shape", list(arg.shape)]
    are, aim = np.real(arg).astype(float), np.imag(arg).astype(float)
    hh = np.vdot(h, h)
    g = complex(np.vdot(h, arg) / hh) if hh != 0 else 0j
    found = []
    for u in ((1, 0), (-1, 0), (0, 1), (0, -1)):
        ure, uim = unit_times(u, h)
        for tau in taus:
            if np.array_equal(are, ure * tau) and np.array_equal(aim, uim * tau):
                c = (Fraction(u[0]) * Fraction(tau), Fraction(u[1]) * Fraction(tau))
                if c not in found:
                    found.append(c)
    if len(found) == 1:
        return [found[0][0], found[0][1]]
    if len(found) > 1:                       # cannot happen for h != 0 (distinct scalars give distinct matrices)
        return ["ambiguous", [[str(a), str(b)] for a, b in found]]
    return ["approx", g.real, g.imag]


def frac_pair(c):
    return [[c[0].numerator, c[0].denominator], [c[1].numerator, c[1].denominator]]


def digest_calls(calls, h, t, flat_in):
    """JSON-able record of the kernel calls."""
    taus = [1.0, float(t), float(t) * float(t), 2 * float(t), -float(t)]
    out = []
    for c in calls:
        k = c["kernel"]
        a, kw = c["args"], c["kwargs"]
        d = {"kernel": k, "raised": c["raised"], "kwargs": sorted(kw)}
        try:
            if k == "solve_ivp":
                fun = a[0] if len(a) > 0 else kw["fun"]
                t_span = a[1] if len(a) > 1 else kw["t_span"]
                y0 = a[2] if len(a) > 2 else kw["y0"]
                d["method"] = str(kw.get("method", a[3] if len(a) > 3 else "RK45"))
                d["t_span"] = [[Fraction(float(x)).numerator, Fraction(float(x)).denominator] for x in t_span]
                te = kw.get("t_eval", a[4] if len(a) > 4 else None)
                d["t_eval"] = None if te is None else [[Fraction(float(x)).numerator, Fraction(float(x)).denominator] for x in te]
                n = len(np.asarray(y0))
                mat = np.zeros((n, n), dtype=complex)
                for j in range(n):
                    e = np.zeros(n, dtype=complex)
                    e[j] = 1.0
                    mat[:, j] = fun(0.0, e)
                cf = identify_coef(mat, h, taus)
                d["coef"] = frac_pair(cf) if isinstance(cf[0], Fraction) else cf
                d["vec_ok"] = bool(np.asarray(y0).ndim == 1 and np.array_equal(np.asarray(y0), flat_in))
                sol = c["out"]
                if sol is not None:
                    y = sol.y
                    ya = np.asarray(y)
                    d["ncols"] = int(ya.shape[1]) if ya.ndim == 2 else 0
                    d["status"] = int(sol.status)
            else:
                mat = a[0] if len(a) > 0 else kw.get("A")
                if hasattr(mat, "toarray"):
                    mat = mat.toarray()
                cf = identify_coef(mat, h, taus)
                d["coef"] = frac_pair(cf) if isinstance(cf[0], Fraction) else cf
                if k == "eigsh":
                    d["k"] = int(kw.get("k", a[1] if len(a) > 1 else 6))
                if k == "expm_multiply":
                    vec = a[1] if len(a) > 1 else kw.get("B")
                    d["vec_ok"] = bool(np.asarray(vec).ndim == 1 and np.array_equal(np.asarray(vec), flat_in))
                    tr = kw.get("traceA", None)
                    d["trace_ok"] = bool(tr is not None and tr == np.trace(np.asarray(mat)))
        except Exception as e:  # noqa
            d["digest_error"] = f"{type(e).__name__}: {e}"
        out.append(d)
    return out


# ---------------------------------------------------------------------------------------
class C20(Prop):
    id = "C20"
    title = "local propagator"
    design_ref = "DESIGN.md section 5 / C20"
    rule = ("time_evolve cases: the full grid 9 modes x 2 directions x dimensions {1,2,3,4,5,8,12} x psi of order 1/2/3 x "
            "t in {0, 0.01, 0.7} (thorough: all dimensions 1..12, t also 1e-4, 0.25, 1.0, 3 draws per cell) with H Hermitian / "
            "non-Hermitian (thorough also real symmetric, diagonal, strictly upper triangular), |H|_2 in {0.5,1.5,3}/max(t,1), "
            "psi complex (about 1 in 8 real or integer dtype), psi of order >= 2 and H in C order, Fortran order or as a transposed view "
            "(same values); history cases (20 per mode, thorough 80): 2..5 time_evolve calls in one process on one matrix object the "
            "caller keeps, from call to call usually one thing changes: H handed over as the same object / copy / `.T` view / Fortran copy / "
            "C-ordered transpose / conjugate / negative / negative transpose / strided view / the same object modified in place by the caller, "
            "or the duration (t, 2t, -t, 0), the direction, the mode, psi (same object / fresh / the previous result); every call is "
            "judged on its own against the reference for the arrays it was given, a chained opposite-direction call must return to the start; "
            "dimension <= 8 (EIGSH histories: <= 3); LARGE local problems (12 time_evolve cases, thorough 90; 2 histories, thorough 12; "
            "4 fast_exp_action cases, thorough 24): dimension any integer in 100..330 or a site-tensor size bond x bond x physical in 100..400, "
            "modes FASTEST (about 40%), CHEBYSHEV, EXPM, SPARSE and the four solve_ivp modes (EIGSH proper is the known finding), "
            "|H|_2 * |t| in {0.5, 3, 10, 30} (solve_ivp: {0.5, 1.5, 3}), t in {0.01, 0.05, 0.5, 0.7, 2, -0.4}, H Hermitian / non-Hermitian / "
            "real symmetric / banded / block diagonal / triangular / nilpotent / complex diagonal, psi complex of order 1/2/3, all layouts; "
            "reference there: for Hermitian H the eigendecomposition certified by its residual and unitarity, for non-Hermitian H the numpy "
            "Taylor value cross-checked against SciPy's Pade expm (self-checks of the harness); "
            "UNITS (9 modes x 2 directions x 6 exponents, thorough 14 exponents x 3): H = 10^e G with e in {-30,-20,-14,-11,-9,-6,-3,3,6,9,11,14,20,30} and "
            "t = t0 / 10^e, t0 in {0.01, 0.7, 1.5, -0.4}, |G|_2 |t0| in {0.5, 1.5, 3}, G generic non-Hermitian (the exact result's norm differs "
            "from |psi| by O(1)), lossy H0 - i eps K (K >= 0, eps in {1, 0.3, 1e-2, 1e-4, 1e-6}), nearly Hermitian, Hermitian, triangular, "
            "nilpotent, complex diagonal, banded; dimension 1..8 (EIGSH <= 3; RK23 in large units: coupled problems of dimension >= 2, see "
            "_gen_units); NEARLY HERMITIAN at the natural scale (9 modes x 2 directions x 3 values of eps, thorough 7 x 3): Hermitian plus a "
            "generic or lossy part of relative size eps in {1e-2,...,1e-7,1e-9}, |H|_2 |t| in {0.5, 3, 30, 300} for the exponential kernels, "
            "<= 3 for RK23 / BDF, <= 10 for RK45 / DOP853; both families are judged like every other case against the Taylor reference of "
            "(sign i t H) with the same tolerances; "
            "fast_exp_action cases: every accepted mode string, "
            "unknown strings; malformed cases: non-square H or size mismatch (both sides must reject). "
            "non-trivial = dimension >= 2 and t > 0; distinct by case content. "
            f"Oracle tolerances (relative to max(|reference|,|psi|)): {TOL_EXP:g} for expm/expm_multiply/sparse/eigsh(dim<4), "
            f"{TOL_ODE:g} for the solve_ivp modes (SciPy defaults rtol=1e-3, atol=1e-6); round trip 2x, norm 1x these")
    clauses = [
        ("F", "finite dispatch: is_scipy terminates and is true exactly on RK45/RK23/DOP853/BDF; every mode in every dimension reaches "
              "exactly one kernel, given by the table (solve_ivp with method = enum value; expm; eigsh -> expm below dimension 4 else "
              "k = min(n-2,8) with 2 <= k < n; chebyshev and FASTEST -> expm_multiply; sparse); fast_exp_action accepts exactly six "
              "mode strings (C20_is_scipy, C20_is_scipy_fuel, C20_dispatch_table, C20_dispatch_unique, C20_ode_iff_is_scipy, "
              "C20_ode_method, C20_eigsh_k, C20_fast_exp_action_modes, C20_fastest_as_chebyshev)"),
        ("F", "sign algebra: sign = -1 forward / +1 backward; sign*1j = -i / +i, negatives of each other, square -1; "
              "exponent = (sign t) i H, forward and backward exponents are negatives, zero at t = 0 (C20_sign, C20_rhs_coeff, C20_exponent_coeff)"),
        ("F", "the symbolic run of the model's time_evolve (what the harness compares) is the table: one call, rhs = sign i H with "
              "t_span=(0,t), t_eval=[t] for solve_ivp, exponent = sign i t H otherwise; result has psi's shape; no column => raises (C20_observe_table)"),
        ("F", "shape: whatever the kernels return, a returned result has psi's shape and size; reshape(flatten psi) = psi (C20_shape_preserved, C20_reshape_flatten)"),
        ("O", "under the contracts `every kernel computes the exponential action, solve_ivp returns one column for t_eval=[t]` and the module / "
              "exponential laws: result = exp(sign i H t) vec(psi) in psi's shape for every mode; one direction then the other (any two modes) "
              "is the identity; t = 0 is the identity; Hermitian H preserves <psi|psi> (C20_evolve_semantics, C20_forward_backward_id, "
              "C20_zero_duration_id, C20_hermitian_norm); the contracts are consistent (C20_contracts_satisfiable)"),
        ("V", "the contracts themselves (accuracy of each SciPy kernel) are validated per case against an independent reference "
              "(eigh for Hermitian H, numpy scaling-and-squaring Taylor otherwise) with the stated tolerances; they FAIL for eigsh in dimension >= 4, "
              "for solve_ivp at t = 0 and for solve_ivp with real y0: the known-finding classes. The model is stateless (a call does not "
              "depend on earlier calls); this is validated by the history cases: every call of a history is tied to its own model run "
              "and judged by the reference on its own"),
    ]
    trusted_base = [
        "kernel contracts of Dispatch.v (Section Contracts): scipy.linalg.expm, scipy.sparse.linalg.expm_multiply / expm / eigsh and "
        "scipy.integrate.solve_ivp compute exp(A) v resp. the solution of y' = A y at t (validated numerically per run, not proved)",
        "matrices and durations enter the model through the scalar c of `argument = c*H`, identified from the recorded float matrices by exact "
        "elementwise comparison with (u*H)*tau, u a unit, tau a float; the float t enters the model as its exact rational value",
        "the recording wrappers are pass-through (the numerical results are those of the real kernels)",
        "numpy matmul / reshape / flatten semantics (row-major) as modelled by list length",
    ]
    assumptions = ["mode is a TimeEvoMode member, H is a 2-d array, psi an ndarray (the documented domain); H != 0 in the tie (the scalar of the zero matrix is not identifiable)"]

    # -----------------------------------------------------------------------------------
    def generate(self, ctx, stream, budget_scale=1):
        rng = ctx.rng(stream)
        cases = []
        thorough = ctx.thorough()
        dims = list(range(1, 13)) if thorough else DIMS
        # negative durations are legitimate: the two-site TDVP scheme integrates its backward site updates with
        # forward=True and a negative time difference
        ts = [0.0, 0.01, 0.7, -0.4] + ([1e-4, 0.25, 1.0, -1.0] if thorough else [])
        hkinds = ["herm", "nonherm"] + (["realsym", "diag", "upper"] if (thorough or stream != "main") else [])
        reps = (3 if thorough else 1) * (budget_scale if stream != "main" else 1)
        if stream != "main":
            ts = [0.0, 0.01, 0.7, -0.4, rng.choice([0.05, 0.3, 0.9])]
        i = 0
        for rep in range(reps):
            for mode in MODES:
                for forward in (True, False):
                    for n in dims:
                        for order in (1, 2, 3):
                            for t in ts:
                                i += 1
                                r = rng.random()
                                pdtype = "complex" if r < 0.86 else ("real" if r < 0.94 else "int")
                                hk = hkinds[(i + rep) % len(hkinds)] if len(hkinds) == 2 and stream == "main" and not thorough else rng.choice(hkinds)
                                if rng.random() < 0.25:
                                    # structured matrices (triangular, nilpotent, banded, diagonal, block diagonal, one coupling)
                                    hk = rng.choice(STRUCTURED)
                                cases.append({"kind": "te", "mode": mode, "forward": forward, "n": n, "order": order, "t": t,
                                              "hkind": hk, "hnorm": rng.choice([0.5, 1.5, 3.0]), "pdtype": pdtype,
                                              "seed": rng.randrange(10 ** 6)})
        # histories: several propagator calls in one process on one matrix object the caller keeps using
        nh = ctx.scale(20, 80) * (budget_scale if stream != "main" else 1)
        for rep in range(nh):
            for mode in MODES:
                cases.append(self._gen_history(rng, mode, dims))
        # LARGE local problems: dimensions in the hundreds (site tensors with bonds around 10), |H|_2 |t| up to 30
        nb = ctx.scale(12, 90) * (budget_scale if stream != "main" else 1)
        for rep in range(nb):
            cases.append(self._gen_big_te(rng, BIG_MODES[rep % len(BIG_MODES)] if rep < len(BIG_MODES) and thorough else rng.choice(BIG_MODES)))
        for rep in range(ctx.scale(2, 12) * (budget_scale if stream != "main" else 1)):
            hist = self._gen_history(rng, rng.choice(["FASTEST", "FASTEST", "CHEBYSHEV", "EXPM", "RK45", "DOP853"]), dims, big=True)
            cases.append(hist)
        for rep in range(ctx.scale(4, 24) * (budget_scale if stream != "main" else 1)):
            t = rng.choice([0.01, 0.7])
            cases.append({"kind": "fea", "md": rng.choice(["fastest", "fastest", "chebyshev", "expm", "sparse", "none"]), "n": big_dim(rng), "t": t,
                          "forward": rng.random() < 0.5, "hkind": rng.choice(BIG_HKINDS), "hnorm": 1.5, "ht": rng.choice(BIG_HT),
                          "seed": rng.randrange(10 ** 6)})
        # generators in very small / very large UNITS (H = 10^e G, t = t0 / 10^e: H t of order one) and NEARLY HERMITIAN
        # generators (Hermitian plus a relatively small non-Hermitian part), in every mode
        bs = budget_scale if stream != "main" else 1
        for rep in range(ctx.scale(1, 3) * bs):
            for mode in MODES:
                for forward in (True, False):
                    for uexp in (UEXPS if thorough else UEXPS_QUICK):
                        cases.append(self._gen_units(rng, mode, forward, uexp))
                    eps_list = EPS_NEAR if thorough else rng.sample(EPS_NEAR, 3)
                    for eps in eps_list:
                        cases.append(self._gen_near(rng, mode, forward, eps))
        # fast_exp_action directly
        mds = ["fastest", "expm", "eigsh", "chebyshev", "sparse", "none", "bogus", "RK45", "EXPM", "", "Fastest"]
        for md in mds:
            for n in ([1, 2, 3, 4, 5, 12] if not thorough else dims):
                cases.append({"kind": "fea", "md": md, "n": n, "t": rng.choice([0.0, 0.01, 0.7]), "forward": rng.random() < 0.5,
                              "hkind": rng.choice(["herm", "nonherm"]), "hnorm": 1.5, "seed": rng.randrange(10 ** 6)})
        # malformed: non-square H or a size mismatch; both sides must reject
        bad = [((3, 3), [4]), ((3, 4), [4]), ((4, 3), [4]), ((3, 4), [3]), ((5, 5), [2, 2]), ((4, 4), [5]),
               ((5, 4), [2, 2]), ((4, 5), [4]), ((1, 2), [1]), ((2, 2), [1]), ((1, 1), [2]), ((6, 6), [2, 2, 2])]
        for hs, ps in bad:
            for mode in MODES:
                cases.append({"kind": "bad", "mode": mode, "forward": rng.random() < 0.5, "hshape": list(hs), "shape": ps,
                              "t": rng.choice([0.05, 0.3]), "seed": rng.randrange(10 ** 6)})   # t > 0: an empty time span makes solve_ivp return before it looks at H
        return cases

    @staticmethod
    def _gen_units(rng, mode, forward, uexp):
        """one time_evolve call with the generator given in other units: H = 10^uexp * G and t = t0 / 10^uexp with
        |G|_2 * |t0| in {0.5, 1.5, 3}; G Hermitian, generic non-Hermitian, lossy (H0 - i eps K), nearly Hermitian or structured.
        The exact result is the one of (G, t0): the norm of it differs from |psi| by O(1) for the non-Hermitian members."""
        n = rng.choice([1, 2, 3]) if mode == "EIGSH" else rng.choice([1, 2, 3, 4, 5, 8])
        hk = rng.choice(UNIT_HKINDS)
        if mode == "RK23" and uexp > 0:
            # SciPy's RK23 at its default tolerances loses accuracy (errors up to 3.5e-2) on DECOUPLED pure-decay components
            # when H is in large units (its first step is then 1/|lambda| and the embedded error estimate nearly vanishes
            # for some real negative h*lambda): coupled problems of dimension >= 2 only, where the stated tolerance holds
            n = max(n, 2)
            hk = rng.choice(["nonherm", "nonherm", "lossy", "nearherm", "herm"])
        t0 = rng.choice([0.01, 0.7, 1.5, -0.4])
        case = {"kind": "te", "mode": mode, "forward": forward, "n": n, "order": rng.choice([1, 2, 3]), "t0": t0, "uexp": uexp,
                "t": t0 / 10.0 ** uexp, "hkind": hk, "hnorm": 1.5, "ht": rng.choice([0.5, 1.5, 1.5, 3.0]), "pdtype": "complex",
                "seed": rng.randrange(10 ** 6)}
        if hk == "lossy":
            case["eps"] = rng.choice(EPS_LOSS)
        if hk == "nearherm":
            case["eps"] = rng.choice(EPS_NEAR)
        return case

    @staticmethod
    def _gen_near(rng, mode, forward, eps):
        """one time_evolve call with a nearly Hermitian generator at the natural scale: Hermitian plus a generic or a lossy
        part of relative size eps; long durations (|H|_2 |t| up to 300, where eps |H| |t| becomes visible) in the exponential
        modes, |H|_2 |t| <= 3 (RK45 / DOP853: <= 10) in the solve_ivp modes, where their tolerance is stated."""
        n = rng.choice([1, 2, 3]) if mode == "EIGSH" else rng.choice([1, 2, 3, 4, 5, 8, 12])
        if mode in ODE:
            ht = rng.choice([0.5, 1.5, 3.0] + ([10.0] if mode in ("RK45", "DOP853") else []))
        else:
            ht = rng.choice([0.5, 3.0, 30.0, 300.0])
        t0 = rng.choice([0.7, 2.0, 25.0, -0.4])
        return {"kind": "te", "mode": mode, "forward": forward, "n": n, "order": rng.choice([1, 2, 3]), "t": t0,
                "hkind": rng.choice(["nearherm", "lossy"]), "eps": eps, "hnorm": 1.5, "ht": ht, "pdtype": "complex",
                "seed": rng.randrange(10 ** 6)}

    @staticmethod
    def _gen_big_te(rng, mode):
        """one time_evolve call on a LARGE local problem: dimension 100..400, |H|_2 * |t| in {0.5, 3, 10, 30} for the
        exponential kernels (<= 3 for the solve_ivp modes, where their tolerance is stated), Hermitian, non-Hermitian and
        structured H, both directions, psi of order 1/2/3, positive and negative durations."""
        t = rng.choice([0.01, 0.05, 0.5, 0.7, 2.0, -0.4])
        ht = rng.choice([0.5, 1.5, 3.0]) if mode in ODE else rng.choice(BIG_HT)
        return {"kind": "te", "mode": mode, "forward": rng.random() < 0.5, "n": big_dim(rng), "order": rng.choice([1, 2, 3, 3]), "t": t,
                "hkind": rng.choice(BIG_HKINDS), "hnorm": 1.5, "ht": ht, "pdtype": "complex", "seed": rng.randrange(10 ** 6)}

    @staticmethod
    def _gen_history(rng, mode, dims, big=False):
        """2..5 calls; from one call to the next usually ONE thing changes (the matrix variant, else the duration, the
        direction, the mode or psi), so that every pair `same arguments but for x` occurs."""
        n = rng.choice([d for d in dims if d <= 8])
        if mode == "EIGSH":
            n = rng.choice([1, 2, 3])                 # eigsh proper (dimension >= 4) is the known finding
        if big:
            n = big_dim(rng)
        t0 = rng.choice([0.01, 0.3, 0.7, -0.4])
        tpool = [t0, 2 * t0, -t0, 0.0]
        step = {"mode": mode, "forward": rng.random() < 0.5, "t": t0, "h": rng.choice(["same", "copy", "Tcopy", "T", "F"]), "psi": "new"}
        steps = [dict(step)]
        for _ in range(rng.randrange(1, 5)):
            step = dict(step)
            r = rng.random()
            if r < 0.55:
                step["h"] = rng.choice(H_VARIANTS)
            elif r < 0.65:
                step["t"] = rng.choice(tpool)
            elif r < 0.75:
                step["forward"] = not step["forward"]
            elif r < 0.85:
                step["mode"] = rng.choice([m for m in MODES if (m != "EIGSH" or n <= 3) and not (big and m == "SPARSE")])
            else:
                step["h"] = rng.choice(H_VARIANTS)
                step["t"] = rng.choice(tpool)
                step["forward"] = rng.random() < 0.5
            step["psi"] = rng.choice(["same", "same", "new", "prev"])
            steps.append(dict(step))
        case = {"kind": "hist", "n": n, "order": rng.choice([1, 2, 3]), "hkind": rng.choice(["herm", "nonherm"]) if rng.random() < 0.6 else rng.choice(STRUCTURED),
                "hnorm": rng.choice([0.5, 1.5, 3.0]), "pdtype": "complex", "steps": steps, "seed": rng.randrange(10 ** 6)}
        if big:
            # |H|_2 * max|t| of the history; solve_ivp steps may occur, so <= 3 unless no step can reach an ODE mode
            ode = any(st["mode"] in ODE for st in steps)
            case["ht"] = rng.choice([0.5, 1.5, 3.0]) if ode else rng.choice(BIG_HT)
        return case

    def nontrivial(self, case):
        if case["kind"] == "hist":
            return case["n"] >= 2 and any(st["t"] != 0 for st in case["steps"])
        if case["kind"] == "te":
            return case["n"] >= 2 and case["t"] > 0
        if case["kind"] == "fea":
            return case["n"] >= 2
        return True

    def distribution(self, cases):
        from collections import Counter
        c = Counter()
        for x in cases:
            c["kind:" + x["kind"]] += 1
            if x["kind"] == "fea" and "ht" in x:
                c["fea:large(n>=100):" + x["md"]] += 1
            if x["kind"] == "hist":
                c["hist:steps=%d" % len(x["steps"])] += 1
                c["hist:H:" + x["hkind"]] += 1
                if "ht" in x:
                    c["hist:large(n>=100)"] += 1
                for st in x["steps"]:
                    c["hist:step-mode:" + st["mode"]] += 1
                    c["hist:step-H:" + st["h"]] += 1
                    c["hist:step-psi:" + st["psi"]] += 1
            if x["kind"] == "te":
                c["Hlayout:" + ["C", "C", "F", "transposed-view"][(x["seed"] // 4) % 4]] += 1
                c["mode:" + x["mode"]] += 1
                c[("n:%d" % x["n"]) if x["n"] <= 12 else "n:100-144" if x["n"] <= 144 else "n:145-191" if x["n"] < 192 else "n:192-400"] += 1
                if "ht" in x:
                    c["large:mode:" + x["mode"]] += 1
                    c["large:|H||t|=%g" % x["ht"]] += 1
                    c["large:H:" + ("hermitian" if is_hermitian_kind(x["hkind"]) else "non-hermitian")] += 1
                if "uexp" in x:
                    c["units:H*1e%d" % x["uexp"]] += 1
                    c["units:mode:" + x["mode"]] += 1
                    c["units:H:" + x["hkind"]] += 1
                elif "eps" in x:
                    c["nearly-hermitian:eps=%g" % x["eps"]] += 1
                    c["nearly-hermitian:|H||t|=%g" % x["ht"]] += 1
                c["order:%d" % x["order"]] += 1
                c["t:%g" % x.get("t0", x["t"])] += 1
                c["H:" + x["hkind"]] += 1
                c["psi:" + x["pdtype"]] += 1
                c["dir:" + ("forward" if x["forward"] else "backward")] += 1
        return dict(c)

    # -----------------------------------------------------------------------------------
    def _inputs(self, case):
        rs = np.random.RandomState(case["seed"])
        if case["kind"] == "bad":
            rows, cols = case["hshape"]
            h = build_h("nonherm", None, rs, 1.0, rows, cols)
            psi = build_psi("complex", case["shape"], rs)
            return h, psi, case["shape"]
        n = case["n"]
        t = max(abs(st["t"]) for st in case["steps"]) if case["kind"] == "hist" else case.get("t0", case["t"])
        kw = {"eps": case["eps"]} if "eps" in case else {}
        if "ht" in case and t != 0:
            h = build_h(case["hkind"], n, rs, case["ht"] / abs(t), **kw)          # |H|_2 * |t| = ht
        else:
            h = build_h(case["hkind"], n, rs, case["hnorm"] / max(abs(t), 1.0), **kw)
        if "uexp" in case:
            h = h * 10.0 ** case["uexp"]          # the same generator in other units; the duration is t0 / 10^uexp
        if case["kind"] == "fea":
            return h, build_psi("complex", [n], rs), [n]
        shape = shapes_of(n, case["order"], rs)
        psi = build_psi(case["pdtype"], shape, rs)
        if case["kind"] == "hist":
            return h, psi, shape
        # memory layout of H (same values): effective Hamiltonians are often `.T` views or Fortran-ordered
        h = relayout(h, (case["seed"] // 4) % 4)
        # memory layout: tensors handed to the propagator are often transposed views (lazy leg
        # permutations), so half of the tensors of order >= 2 are non-C-contiguous (same values)
        if len(shape) >= 2:
            lay = case["seed"] % 4
            if lay == 1:
                psi = np.asfortranarray(psi)
            elif lay == 2:
                perm = list(range(len(shape)))[::-1]
                psi = np.ascontiguousarray(psi.transpose(perm)).transpose(perm)   # a transposed view
        return h, psi, shape

    def _te(self, rec, case):
        from pytreenet.time_evolution.time_evolution import time_evolve, TimeEvoMode
        h, psi, shape = self._inputs(case)
        mode = TimeEvoMode[case["mode"]]
        t = case["t"]
        fw = case["forward"]
        h0, psi0 = h.copy(), psi.copy()
        ob = {"shape_in": list(shape), "hrows": int(h.shape[0]), "hcols": int(h.shape[1]), "exception": None}
        res = None
        try:
            res = rec.record(lambda: time_evolve(psi, h, t, forward=fw, mode=mode))
        except Exception as e:  # noqa
            ob["exception"] = f"{type(e).__name__}: {str(e)[:120]}"
            ob["exc_type"] = type(e).__name__
        ob["calls"] = digest_calls(rec.calls, h0, t, psi0.flatten())
        if case["kind"] == "bad":
            return ob
        hermitian = is_hermitian_kind(case["hkind"]) or case["n"] == 1 and np.all(np.imag(h0) == 0)
        ob["hermitian"] = bool(hermitian)
        ob["inputs_unchanged"] = bool(np.array_equal(h, h0) and np.array_equal(psi, psi0))
        if res is None:
            return ob
        res = np.asarray(res)
        ob["shape"] = list(res.shape)
        ob["dtype"] = str(res.dtype)
        if res.shape != psi0.shape:
            return ob
        ref = reference(h0, t, fw, psi0.flatten(), hermitian).reshape(psi0.shape)
        scale = max(np.linalg.norm(ref), np.linalg.norm(psi0))
        ob["err"] = float(np.linalg.norm(res - ref) / scale)
        ob["norm_dev"] = float(abs(np.linalg.norm(res) - np.linalg.norm(psi0)) / np.linalg.norm(psi0))
        ob["norms"] = [float(np.linalg.norm(ref) / np.linalg.norm(psi0)), float(np.linalg.norm(res) / np.linalg.norm(psi0))]
        try:
            back = np.asarray(time_evolve(res, h, t, forward=not fw, mode=mode))
            if back.shape != psi0.shape:
                ob["rt_exception"] = f"shape {list(back.shape)}"
            else:
                ob["rt_err"] = float(np.linalg.norm(back - psi0) / scale)
        except Exception as e:  # noqa
            ob["rt_exception"] = f"{type(e).__name__}: {str(e)[:120]}"
        return ob

    def _hist(self, rec, case):
        """a history: the calls of case["steps"] one after the other in this process. Every call is judged on its own
        against the reference for the arrays it was actually given (snapshots taken at call time)."""
        from pytreenet.time_evolution.time_evolution import time_evolve, TimeEvoMode
        hb, psi_b, shape = self._inputs(case)
        rs = np.random.RandomState(case["seed"] + 1)
        herm_kind = is_hermitian_kind(case["hkind"])
        ob = {"shape_in": list(shape), "hrows": int(hb.shape[0]), "hcols": int(hb.shape[1]), "exception": None, "steps": [], "calls": []}
        prev_res = None
        prev = None            # (h snapshot, psi snapshot, t, forward) of the previous step
        psi_cur = psi_b
        for k, st in enumerate(case["steps"]):
            h = variant_of(hb, st["h"])
            if st["psi"] == "new":
                psi_cur = build_psi(case["pdtype"], shape, rs)
            elif st["psi"] == "prev" and prev_res is not None:
                psi_cur = prev_res
            psi = psi_cur
            h0, psi0 = np.array(h, copy=True, order="C"), np.array(psi, copy=True, order="C")
            t, fw = st["t"], st["forward"]
            so = {"exception": None, "chained": bool(st["psi"] == "prev" and prev_res is not None)}
            ob["steps"].append(so)
            res = None
            try:
                res = rec.record(lambda: time_evolve(psi, h, t, forward=fw, mode=TimeEvoMode[st["mode"]]))
            except Exception as e:  # noqa
                so["exception"] = f"{type(e).__name__}: {str(e)[:120]}"
                so["exc_type"] = type(e).__name__
            so["calls"] = digest_calls(rec.calls, h0, t, psi0.flatten())
            hermitian = herm_kind or case["n"] == 1 and np.all(np.imag(h0) == 0)
            so["hermitian"] = bool(hermitian)
            so["inputs_unchanged"] = bool(np.array_equal(h, h0) and np.array_equal(psi, psi0))
            prev_res = None
            if res is None:
                prev = None
                continue
            res = np.asarray(res)
            so["shape"] = list(res.shape)
            if res.shape != psi0.shape:
                prev = None
                continue
            ref = reference(h0, t, fw, psi0.flatten(), hermitian).reshape(psi0.shape)
            scale = max(np.linalg.norm(ref), np.linalg.norm(psi0))
            so["err"] = float(np.linalg.norm(res - ref) / scale)
            so["norm_dev"] = float(abs(np.linalg.norm(res) - np.linalg.norm(psi0)) / np.linalg.norm(psi0))
            if so["chained"] and prev is not None and prev[2] == t and prev[3] != fw and np.array_equal(prev[0], h0):
                # the other direction with the same matrix and duration on the previous result: back at the start
                so["rt_err"] = float(np.linalg.norm(res - prev[1]) / max(np.linalg.norm(prev[1]), np.linalg.norm(psi0)))
                so["rt_mode"] = case["steps"][k - 1]["mode"]
            prev = (h0, psi0, t, fw)
            prev_res = res
        return ob

    def _fea(self, rec, case):
        from pytreenet.util.std_utils import fast_exp_action
        h, vec, _ = self._inputs(case)
        t = case["t"]
        u = (0, -1) if case["forward"] else (0, 1)
        re, im = unit_times(u, h)
        exponent = (re + 1j * im) * t
        e0, v0 = exponent.copy(), vec.copy()
        ob = {"exception": None, "coef_in": frac_pair((Fraction(0), Fraction(u[1]) * Fraction(t)))}
        res = None
        try:
            res = rec.record(lambda: fast_exp_action(exponent, vec, mode=case["md"]))
        except Exception as e:  # noqa
            ob["exception"] = f"{type(e).__name__}: {str(e)[:120]}"
            ob["exc_type"] = type(e).__name__
        ob["calls"] = digest_calls(rec.calls, h, t, v0)
        if res is None:
            return ob
        res = np.asarray(res)
        ob["shape"] = list(res.shape)
        ob["same_object"] = bool(res is vec)
        if res.size != v0.size:
            return ob
        ref = taylor_expm(e0) @ v0
        ob["err"] = float(np.linalg.norm(res.reshape(-1) - ref) / max(np.linalg.norm(ref), np.linalg.norm(v0)))
        ob["err_id"] = float(np.linalg.norm(res.reshape(-1) - v0))
        return ob

    def impl(self, ctx, cases):
        rec = Recorder()
        rec.install()
        out = []
        try:
            for c in cases:
                try:
                    out.append(self._fea(rec, c) if c["kind"] == "fea" else self._hist(rec, c) if c["kind"] == "hist" else self._te(rec, c))
                except Exception as e:  # noqa  (a failure of the harness itself, not of the code under test)
                    out.append({"harness_error": f"{type(e).__name__}: {e}", "tb": traceback.format_exc()[-1500:], "calls": [],
                                "exception": None})
        finally:
            rec.uninstall()
        return out

    # -----------------------------------------------------------------------------------
    @staticmethod
    def _q(x):
        fr = Fraction(x)
        return f"(({fr.numerator}) # {fr.denominator})%Q"

    def model(self, ctx, cases, obs):
        exprs = []
        for c, ob in zip(cases, obs):
            if c["kind"] == "fea":
                (rn, rd), (in_, id_) = ob["coef_in"] if "coef_in" in ob else ((0, 1), (0, 1))
                exprs.append(f"(0, observe_fea {coq_string(c['md'])} {coq_nat(c['n'])} ((({rn}) # {rd})%Q, (({in_}) # {id_})%Q))")
                continue
            shape = ob.get("shape_in", c.get("shape", [1]))
            rows, cols = ob.get("hrows", 1), ob.get("hcols", 1)
            if c["kind"] == "hist":
                # one model run per call of the history (the model is stateless: a call does not depend on earlier calls)
                sh = coq_list(shape, coq_nat)
                parts = []
                for st, so in zip(c["steps"], ob.get("steps", [])):
                    ncols = 0
                    for cl in so.get("calls", []):
                        if cl["kernel"] == "solve_ivp":
                            ncols = cl.get("ncols", 0)
                    common = f"{st['mode']} {coq_bool(st['forward'])} {coq_nat(rows)} {sh} {self._q(st['t'])}"
                    # (the number of returned columns matters for solve_ivp only; two runs only if it is not the regular 1)
                    if st["mode"] in ODE and ncols != 1:
                        parts.append(f"[observe {common} {coq_nat(ncols)}; observe {common} 1%nat]")
                    else:
                        parts.append(f"[observe {common} 1%nat]")
                exprs.append(f"(accepted {coq_nat(rows)} {coq_nat(cols)} {sh}, [{'; '.join(parts)}])")
                continue
            ncols = 0
            for cl in ob.get("calls", []):
                if cl["kernel"] == "solve_ivp":
                    ncols = cl.get("ncols", 0)
            sh = coq_list(shape, coq_nat)
            common = f"{c['mode']} {coq_bool(c['forward'])} {coq_nat(rows)} {sh} {self._q(c['t'])}"
            exprs.append(f"(accepted {coq_nat(rows)} {coq_nat(cols)} {sh}, observe {common} {coq_nat(ncols)}, observe {common} 1%nat)")
        return coq_eval(ctx, IMPORTS, exprs, shard=60)

    # ---- the model's call record in the harness' vocabulary ------------------------------
    @staticmethod
    def _model_call(mc):
        """OExpm [a;b;c;d] etc. -> dict comparable with digest_calls."""
        if mc == "OInput":
            return {"kernel": None}
        name = mc[0]
        if name == "OSolveIvp":
            _, method, coef, tspan, teval = mc
            # an empty t_eval in the model stands for `t_eval` not being passed
            return {"kernel": "solve_ivp", "method": method, "coef": [[coef[0], coef[1]], [coef[2], coef[3]]],
                    "t_span": [[tspan[0], tspan[1]], [tspan[2], tspan[3]]],
                    "t_eval": [list(x) for x in teval] if teval else None,
                    "kwargs": ["method", "t_eval"] if teval else ["method"]}
        if name == "OEigsh":
            _, k, coef = mc
            return {"kernel": "eigsh", "k": k, "coef": [[coef[0], coef[1]], [coef[2], coef[3]]], "kwargs": ["k"]}
        kern = {"OExpm": "expm", "OExpmMultiply": "expm_multiply", "OExpmSparse": "expm_sparse"}[name]
        d = {"kernel": kern, "coef": [[mc[1][0], mc[1][1]], [mc[1][2], mc[1][3]]], "kwargs": []}
        if kern == "expm_multiply":
            d["kwargs"] = ["traceA"]
        return d

    def _compare_calls(self, runs, ob_calls, n_expected):
        """runs: the model's run-length encoded per-entry calls [(call, count)]. Returns message or None."""
        if len(runs) != 1:
            return f"model: the entries of the result come from {len(runs)} different calls"
        call0, count = runs[0]
        if n_expected is not None and count != n_expected:
            return f"model result has {count} entries, expected {n_expected}"
        distinct = [call0]
        want = self._model_call(distinct[0])
        if want["kernel"] is None:
            if ob_calls:
                return f"model: no kernel call; implementation called {[c['kernel'] for c in ob_calls]}"
            return None
        if len(ob_calls) != 1:
            return f"model: exactly one call of {want['kernel']}; implementation called {[c['kernel'] for c in ob_calls]}"
        got = ob_calls[0]
        if "digest_error" in got:
            return f"could not digest the recorded call: {got['digest_error']}"
        for key, val in want.items():
            if got.get(key) != val:
                return f"{want['kernel']}: {key} = {got.get(key)!r} in the implementation, {val!r} in the model"
        for flag in ("vec_ok", "trace_ok"):
            if flag in got and not got[flag]:
                return f"{want['kernel']}: {flag} is false (vector argument is not psi.flatten() / traceA is not trace(exponent))"
        return None

    def compare(self, case, ob, mo):
        if "harness_error" in ob:
            return f"harness error: {ob['harness_error']}"
        if case["kind"] == "fea":
            mo = mo[1]
            if mo is None:
                if ob.get("exc_type") != "NotImplementedError":
                    return f"model: NotImplementedError; implementation: {ob['exception'] or 'returned'}"
                if ob["calls"]:
                    return "a kernel was called before NotImplementedError"
                return None
            entries = mo[1] if isinstance(mo, tuple) and mo[0] == "Some" else mo
            d = self._compare_calls(entries, ob["calls"], case["n"])
            if d:
                return d
            if ob["exception"] and not (ob["calls"] and ob["calls"][0]["raised"]):
                return f"model returns; implementation raised {ob['exception']}"
            return None
        if case["kind"] == "hist":
            acc, runs = mo
            if not acc:
                return "model rejects the input of a history (harness error)"
            if len(runs) != len(ob.get("steps", [])):
                return f"{len(ob.get('steps', []))} calls observed, {len(runs)} in the model"
            for k, (run, so) in enumerate(zip(runs, ob["steps"])):
                m_obs, m_one = run[0], run[-1]
                so2 = dict(so, hrows=ob["hrows"])
                d = self._compare_te(so2, m_obs, m_one)
                if d:
                    return f"call {k + 1} of the history: {d}"
            return None
        acc, m_obs, m_one = mo
        if not acc:
            if ob["exception"] is None:
                return "model rejects the input (non-square H or size mismatch); the implementation returned"
            return None
        return self._compare_te(ob, m_obs, m_one)

    def _compare_te(self, ob, m_obs, m_one):
        if m_one is None:
            return "model: no kernel reachable"
        shape1, entries = m_one[1]
        d = self._compare_calls(entries, ob["calls"], ob["hrows"])
        if d:
            return d
        call = ob["calls"][0]
        if call["raised"]:
            if ob.get("exc_type") != call["raised"]:
                return f"the kernel raised {call['raised']} but time_evolve {ob['exception'] or 'returned'}"
            return None
        if m_obs is None:
            if ob["exception"] is None:
                return "model: raises (solve_ivp returned no column); the implementation returned"
            if ob.get("exc_type") not in ("TypeError", "IndexError"):
                return f"model: the column subscript raises; implementation raised {ob['exception']}"
            return None
        if ob["exception"] is not None:
            return f"model returns shape {m_obs[1][0]}; implementation raised {ob['exception']}"
        if ob.get("shape") != list(m_obs[1][0]):
            return f"result shape {ob.get('shape')} in the implementation, {list(m_obs[1][0])} in the model"
        return None

    # -----------------------------------------------------------------------------------
    def oracle(self, case, ob):
        if "harness_error" in ob:
            return None
        if case["kind"] == "bad":
            return None                                  # outside the quantifier (square H of psi's size)
        if case["kind"] == "fea":
            md = case["md"]
            valid = md in ("fastest", "expm", "eigsh", "chebyshev", "sparse", "none")
            if not valid:
                if ob.get("exc_type") != "NotImplementedError":
                    return f"fast_exp_action(mode={md!r}) did not raise NotImplementedError: {ob['exception'] or 'returned'}"
                return None
            if ob["exception"]:
                return f"fast_exp_action(mode={md!r}) raised {ob['exception']}"
            if "err" not in ob:
                return f"fast_exp_action(mode={md!r}) returned {ob.get('shape')} for a vector of length {case['n']}"
            if md == "none":
                return None if ob["err_id"] == 0 else "mode 'none' changed the vector"
            if ob["err"] > TOL_EXP:
                return f"fast_exp_action(mode={md!r}) deviates from exp(exponent) vector: relative error {ob['err']:.3g} > {TOL_EXP:g}"
            return None
        if case["kind"] == "hist":
            for k, (st, so) in enumerate(zip(case["steps"], ob["steps"])):
                mode = st["mode"]
                tol = TOL_ODE if mode in ODE else TOL_EXP
                arrow = "exp(-iHt)" if st["forward"] else "exp(+iHt)"
                where = (f"call {k + 1} of {len(case['steps'])} in one process (mode {mode}, t={st['t']:g}, H given as `{st['h']}` of the caller's "
                         f"matrix, psi `{st['psi']}`)")
                if so["exception"]:
                    return f"{where} raised {so['exception']}"
                if so.get("shape") != ob["shape_in"]:
                    return f"{where}: result shape {so.get('shape')} is not psi's shape {ob['shape_in']}"
                if not (so["err"] <= tol):
                    return f"{where}: result deviates from {arrow} psi: relative error {so['err']:.3g} > {tol:g}"
                if so["hermitian"] and not (so["norm_dev"] <= tol):
                    return f"{where}: norm not preserved for Hermitian H: relative change {so['norm_dev']:.3g} > {tol:g}"
                if "rt_err" in so:
                    tol2 = tol + (TOL_ODE if so["rt_mode"] in ODE else TOL_EXP)
                    if not (so["rt_err"] <= tol2):
                        return f"{where}: one direction then the other is not the identity: relative error {so['rt_err']:.3g} > {tol2:g}"
            return None
        mode = case["mode"]
        tol = TOL_ODE if mode in ODE else TOL_EXP
        arrow = "exp(-iHt)" if case["forward"] else "exp(+iHt)"
        if ob["exception"]:
            return f"raised {ob['exception']}"
        if ob.get("shape") != ob["shape_in"]:
            return f"result shape {ob.get('shape')} is not psi's shape {ob['shape_in']}"
        if not (ob["err"] <= tol):
            units = f", H given in units of 1e{case['uexp']} with t = {case['t']:g}" if "uexp" in case else ""
            nrm = ob.get("norms", [float("nan")] * 2)
            return (f"result deviates from {arrow} psi: relative error {ob['err']:.3g} > {tol:g} (mode {mode}{units}; |exact result| = "
                    f"{nrm[0]:.4g} |psi|, |returned| = {nrm[1]:.4g} |psi|)")
        if "rt_exception" in ob:
            return f"round trip: the opposite direction raised / misshaped: {ob['rt_exception']}"
        if not (ob["rt_err"] <= 2 * tol):
            return f"round trip: one direction then the other is not the identity: relative error {ob['rt_err']:.3g} > {2 * tol:g} (mode {mode})"
        if ob["hermitian"] and not (ob["norm_dev"] <= tol):
            return f"norm not preserved for Hermitian H: relative change {ob['norm_dev']:.3g} > {tol:g} (mode {mode})"
        return None

    def classify(self, case, what, known):
        """Known-finding classes; an id is returned only if the lead lists it in known_findings.json."""
        if what.startswith("tie:") or case["kind"] in ("bad", "hist"):
            return None                                  # histories stay clear of the known-finding classes (EIGSH only below dimension 4)
        numeric = what.startswith(("result deviates", "round trip: one direction", "norm not preserved", "fast_exp_action(mode='eigsh') deviates"))
        kid = None
        if case["kind"] == "fea":
            if case["md"] == "eigsh" and case["n"] >= 4 and (numeric or "raised Arpack" in what):
                kid = KF_EIGSH
        else:
            mode, t = case["mode"], case["t"]
            if mode in ODE and t == 0 and what.startswith("raised TypeError: list indices must be integers"):
                kid = KF_ODE0
            elif mode == "EIGSH" and case["n"] >= 4 and (numeric or what.startswith("raised Arpack")):
                kid = KF_EIGSH
            elif mode in ODE and t > 0 and case["pdtype"] in ("real", "int") and numeric:
                kid = KF_REAL
        return kid if (kid is not None and kid in known) else None

    @staticmethod
    def _fails_in_fresh_process(case):
        """the oracle's verdict on a history run in a NEW interpreter (what a replay does): state left in this process by
        earlier cases must not take part in the decision."""
        import json
        import os
        import subprocess
        import sys
        here = os.path.dirname(os.path.dirname(os.path.abspath(__file__)))
        code = ("import sys, json, warnings; warnings.filterwarnings('ignore'); sys.path.insert(0, %r); import lib; lib.setup_repo_import(); "
                "from props.c20 import C20; p = C20(); case = json.loads(sys.stdin.read()); ob = p.impl(None, [case])[0]; "
                "print('WHAT:' + json.dumps(p.oracle(case, ob)))" % here)
        r = subprocess.run([sys.executable, "-c", code], input=json.dumps(case), capture_output=True, text=True, timeout=600,
                           env=dict(os.environ, PYTHONHASHSEED="0", PYTHONDONTWRITEBYTECODE="1"))
        for line in r.stdout.splitlines():
            if line.startswith("WHAT:"):
                return json.loads(line[5:]) is not None
        return False

    def shrink(self, ctx, case, pred):
        """histories: drop calls while the history still fails (each candidate is judged in a fresh interpreter)."""
        if case.get("kind") != "hist":
            return case
        pred = self._fails_in_fresh_process
        if not pred(case):
            return case
        cur = case
        changed = True
        while changed and len(cur["steps"]) > 1:
            changed = False
            for k in range(len(cur["steps"])):
                cand = dict(cur, steps=cur["steps"][:k] + cur["steps"][k + 1:])
                try:
                    if pred(cand):
                        cur, changed = cand, True
                        break
                except Exception:  # noqa
                    pass
        return cur

    def sample_repr(self, case):
        return case
