"""C09 at the store level (Layer W): the STRUCTURE of the state returned by one BUG / fixed-rank BUG update against the
Gallina model Evo/BUGStore.v (`root_update` over the frozen store model TTN/Store.v + TTN/Canon.v).

Nothing is registered here.  harness/props/c09.py calls (between "C09W hook" markers)
  * `snap(state)` from `_run_case`: a side-effect free snapshot (node dict order, parents, children order, lazy leg
    permutations, recorded raw shapes, tensor dict order, raw tensor shapes, root, recorded centre) of the state BEFORE the
    step and of the state AFTER the un-truncated update (FixedBUG: the returned state; BUG: the state handed to
    `recursive_truncation`);
  * `run(ctx, cases, obs)` from `C09.model`: for a sample of the explored (case, copy strategy, step) triples
      - the snapshot before the step is printed as a literal `store` (one wire per edge and per open leg, one atom per
        node) and must satisfy the executable store invariant `wfb` (instance obligation),
      - the order in which the recursion visited the children of every node (hash order of a frozenset; read off the
        Enter events of c09.py's Tracer) is handed to the model as an `rtree`,
      - `bug_case` is evaluated by vm_compute: the model must accept the step (every assertion / shape check / wire
        equality of the store operations holds) and its observation of the returned store must equal the snapshot after
        the update EXACTLY (tie): node dict order, parents, children order, leg permutations, recorded shapes, tensor
        dict order, raw tensor shapes, root, centre,
      - instance obligations: `iso_check` of the model's final store (every non-root node is one Q atom of a QR kernel
        call whose bond wire is its parent leg) and `wfb` of the model's final store.
"""
from __future__ import annotations

from lib import coq_eval, coq_nat, coq_list, coq_opt, coq_bool
import util

BCOFF = 30          # identifier of "<n>_basis_change_tensor" in the model: n + BCOFF
RID = 70            # temporary identifier of the R factor of a centre move (a uuid in the code)
BCS = "_basis_change_tensor"

IMPORTS = ("From Coq Require Import List Arith Bool. "
           "From PTN Require Import TTN.Store TTN.Canon TTN.Inv Tree.RTree Evo.BUGStore. Import ListNotations.")


# ---- snapshots (run inside the worker that executes the real code) -------------------------------------------------
def snap(ttn):
    """everything observable about the structure, without side effects (no TensorDict.__getitem__)"""
    nodes = []
    for nid, nd in ttn.nodes.items():
        nodes.append([nid, nd.parent, list(nd.children), [int(x) for x in nd.leg_permutation], [int(x) for x in nd._shape],
                      nd.identifier])
    return {"nodes": nodes, "tkeys": list(ttn._tensors.data.keys()), "root": ttn.root_id,
            "centre": ttn.orthogonality_center_id,
            "tshapes": {k: [int(x) for x in v.shape] for k, v in ttn._tensors.data.items()}}


def idnum(s):
    if s.endswith(BCS):
        return int(s[1:-len(BCS)]) + BCOFF
    return int(s[1:])


# ---- the literal store -------------------------------------------------------------------------------------------------
def store_literal(sn):
    """snapshot -> (Coq `store` literal, number of wires).  Wires: one per tree edge (named after the child), one per open
    leg; raw axis perm[j] of a node carries the wire of its logical leg j (parent, children in order, open legs)."""
    nd = {n[0]: n for n in sn["nodes"]}
    wire = {}
    dims = []

    def fresh(d):
        dims.append(d)
        return len(dims) - 1
    raw_axes = {}
    # edge wires first (dimension read from the child's raw shape), then open legs in node dict order
    for nid, par, ch, perm, shape, _ in sn["nodes"]:
        if par is not None:
            wire[("edge", nid)] = fresh(shape[perm[0]])
    for nid, par, ch, perm, shape, _ in sn["nodes"]:
        logical = []
        if par is not None:
            logical.append(wire[("edge", nid)])
        for c in ch:
            logical.append(wire[("edge", c)])
        nv = len(logical)
        for j in range(nv, len(perm)):
            logical.append(fresh(shape[perm[j]]))
        raw = [None] * len(perm)
        for j, w in enumerate(logical):
            raw[perm[j]] = w
        if any(w is None for w in raw):
            raise ValueError(f"leg permutation of {nid} is not a permutation: {perm}")
        raw_axes[nid] = raw
    atom = {k: j for j, k in enumerate(sn["tkeys"])}
    nodes_c = coq_list(
        [f"({coq_nat(idnum(nid))}, {{| parent := {coq_opt(None if par is None else idnum(par), coq_nat)}; "
         f"children := {coq_list([idnum(c) for c in ch], coq_nat)}; perm := {coq_list(perm, coq_nat)}; "
         f"shape := {coq_list(shape, coq_nat)} |}})" for nid, par, ch, perm, shape, _ in sn["nodes"]], str)
    tens_c = coq_list(
        [f"({coq_nat(idnum(k))}, {{| axes := {coq_list(raw_axes[k], coq_nat)}; atoms := [{coq_nat(atom[k])}]; bnd := [] |}})"
         for k in sn["tkeys"]], str)
    dims_c = coq_list([f"({coq_nat(w)}, {coq_nat(d)})" for w, d in enumerate(dims)], str)
    atab_c = coq_list([f"({coq_nat(atom[k])}, {coq_list(raw_axes[k], coq_nat)})" for k in sn["tkeys"]], str)
    root_c = coq_opt(None if sn["root"] is None else idnum(sn["root"]), coq_nat)
    lit = (f"{{| nodes := {nodes_c}; tensors := {tens_c}; root := {root_c}; dims := {dims_c}; "
           f"next_wire := {coq_nat(len(dims))}; next_atom := {coq_nat(len(atom))}; defs := []; atab := {atab_c} |}}")
    return lit


def visit_tree(events, root):
    """the order in which the recursion visited the children of every node, from the Enter / Leave events"""
    top = (root, [])
    stack = [top]
    for e in events:
        if not isinstance(e, (tuple, list)) or not e:
            continue
        if e[0] == "Enter":
            node = (int(e[1]), [])
            stack[-1][1].append(node)
            stack.append(node)
        elif e[0] == "Leave":
            stack.pop()
    return top


def expr(fixed, sn0, events):
    t = visit_tree(events, idnum(sn0["root"]))
    centre = coq_opt(None if sn0["centre"] is None else idnum(sn0["centre"]), coq_nat)
    return (f"bug_case {coq_bool(fixed)} {coq_nat(BCOFF)} {coq_nat(RID)} {util.coq_rtree(t)} "
            f"({store_literal(sn0)}, {centre})")


# ---- comparison -------------------------------------------------------------------------------------------------------
def _unsome(v):
    return v[1] if isinstance(v, tuple) and v and v[0] == "Some" else v


def check_one(what, sn1, val):
    """-> (obligations [(name, ok)], tie message or None)"""
    if isinstance(val, BaseException):
        return [("model evaluation", False)], f"{what}: model evaluation failed: {val}"
    wf0, res = val
    obl = [("wfb of the literal of the caller's state", wf0 is True)]
    if res is None or res == "None":
        return obl, f"{what}: the store model rejects the step (an assertion, shape check or wire equality fails) but the implementation completed"
    (mnodes, mtens, mroot, mcentre, iso, wf1) = _unsome(res)       # nested pairs print left-flattened
    obl += [("iso_check of the model's returned store", iso is True), ("wfb of the model's returned store", wf1 is True)]
    inodes = [[idnum(n[0]), [idnum(n[1])] if n[1] is not None else [], [idnum(c) for c in n[2]], list(n[3]), list(n[4])]
              for n in sn1["nodes"]]
    for n in sn1["nodes"]:
        if n[0] != n[5]:
            return obl, f"{what}: node stored under key {n[0]} reports identifier {n[5]}"
    mn = [[int(k), [int(x) for x in par], [int(x) for x in ch], [int(x) for x in perm], [int(x) for x in shape]]
          for (k, par, ch, perm, shape) in mnodes]
    if inodes != mn:
        for x, y in zip(inodes, mn):
            if x != y:
                return obl, f"{what}: node record (id, parent, children, leg permutation, raw shape) differs: implementation {x} model {y}"
        return obl, f"{what}: node dictionary order/length differs: implementation {[n[0] for n in inodes]} model {[n[0] for n in mn]}"
    it = [[idnum(k), list(sn1["tshapes"][k])] for k in sn1["tkeys"]]
    mt = [[int(k), [int(x) for x in sh]] for (k, sh) in mtens]
    if it != mt:
        return obl, f"{what}: tensor dictionary (order, raw shapes) differs: implementation {it} model {mt}"
    ir = [idnum(sn1["root"])] if sn1["root"] is not None else []
    if ir != [int(x) for x in mroot]:
        return obl, f"{what}: root differs: implementation {ir} model {list(mroot)}"
    ic = [idnum(sn1["centre"])] if sn1["centre"] is not None else []
    if ic != [int(x) for x in mcentre]:
        return obl, f"{what}: recorded orthogonality centre differs: implementation {ic} model {list(mcentre)}"
    return obl, None


def run(ctx, cases, obs, limit=None):
    """hook for C09.model: evaluates the sampled steps, stores the first tie message of a case in ob['w_tie'].
    Returns (n_obligations, n_ok, failures)."""
    if limit is None:
        limit = ctx.scale(160, 1500)
    recs = []
    for c, ob in zip(cases, obs):
        if not isinstance(ob, dict) or "runs" not in ob:
            continue
        fixed = c["method"] == "fbug"
        for deep in (False, True):
            run_ = ob["runs"].get(deep)
            if not run_:
                continue
            for s, st in enumerate(run_["steps"]):
                sn0 = st.get("w0")
                sn1 = (st.get("aug") or {}).get("w1")
                if sn0 is None or sn1 is None or "exception" in st:
                    continue
                recs.append((ob, f"deep={deep} step {s}", fixed, sn0, sn1, st["events"]))
    # sample: every record up to the limit, spread over the cases (deterministic)
    if len(recs) > limit:
        stride = len(recs) / float(limit)
        recs = [recs[int(k * stride)] for k in range(limit)]
    exprs = []
    for (ob, what, fixed, sn0, sn1, events) in recs:
        try:
            exprs.append(expr(fixed, sn0, events))
        except Exception as e:  # noqa
            exprs.append(None)
            ob.setdefault("w_tie", f"store-level tie: {what}: cannot print the snapshot: {type(e).__name__}: {e}")
    good = [(r, e) for r, e in zip(recs, exprs) if e is not None]
    uniq = sorted(set(e for _, e in good))
    vals = dict(zip(uniq, coq_eval(ctx, IMPORTS, uniq, shard=max(4, len(uniq) // 14 + 1), scope="nat_scope", timeout=600)))
    n = ok = 0
    fails = []
    for (r, e) in good:
        (ob, what, fixed, sn0, sn1, events) = r
        try:
            obl, tie = check_one(what, sn1, vals[e])
        except Exception as ex:  # noqa
            obl, tie = [("model output shape", False)], f"{what}: cannot interpret the model output: {type(ex).__name__}: {ex}"
        if tie and not ob.get("w_tie"):
            ob["w_tie"] = "store-level tie: " + tie
        for name, g in obl:
            n += 1
            if g:
                ok += 1
            elif len(fails) < 5:
                fails.append(f"{name} is not true ({what})")
        ob["w_checked"] = ob.get("w_checked", 0) + 1
    return n, ok, fails
