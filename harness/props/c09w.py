"""C09 at the store level (Layer W): the STRUCTURE of the state returned by one BUG / fixed-rank BUG update against the
Gallina model Evo/BUGStore.v (`root_update` over the frozen store model TTN/Store.v + TTN/Canon.v).

Nothing is registered here.  harness/props/c09.py calls (between "C09W hook" markers)
  * `snap(state)` from `_run_case`: a side-effect free snapshot (node dict order, parents, children order, lazy leg
    permutations, recorded raw shapes, tensor dict order, raw tensor shapes, root, recorded centre) of the state BEFORE the
    step and of the state AFTER the un-truncated update (FixedBUG: the returned state; BUG: the state handed to
    `recursive_truncation`);
  * `run(ctx, cases, obs)` from `C09.model`: for a sample of the explored (case, copy strategy, step) triples
      - the snapshot before the step is printed as a literal `store` (one wire per edge and per open leg, one atom per
        node) and must satisfy the executable store invariant `wfb` (instance obligation),
      - the order in which the recursion visited the children of every node (hash order of a frozenset; read off the
        Enter events of c09.py's Tracer) is handed to the model as an `rtree`,
      - `bug_case` is evaluated by vm_compute: the model must accept the step (every assertion / shape check / wire
        equality of the store operations holds) and its observation of the returned store must equal the snapshot after
        the update EXACTLY (tie): node dict order, parents, children order, leg permutations, recorded shapes, tensor
        dict order, raw tensor shapes, root, centre,
      - `bug_hypb` (Evo/BUGStoreTotal.v) is evaluated on the same literal and visiting tree: the hypotheses of the universal
        acceptance theorem C09_store_step_accepts (wfb, tree structure, root = centre, fresh temporaries, one open leg on
        every leaf below the root) hold for the caller's state (instance obligation),
      - instance obligations: `iso_check` of the model's final store (every non-root node is one Q atom of a QR kernel
        call whose bond wire is its parent leg), `wfb` of the model's final store, and `shapes_agree`: the rank
        arithmetic of Sched/BUG.v (`shape_root` on the shapes read off the initial store) gives exactly the shapes of the
        store model's result (the two Gallina models agree on the instance).
"""
from __future__ import annotations

import numpy as np

from lib import coq_eval, coq_nat, coq_list, coq_opt, coq_bool
import util

BCOFF = 30          # identifier of "<n>_basis_change_tensor" in the model: n + BCOFF
RID = 70            # temporary identifier of the R factor of a centre move (a uuid in the code)
BCS = "_basis_change_tensor"
WOFF = 400          # wire offset of the conjugated copy of the new bases in the basis-change diagrams
AOFF = 200          # atom offset of the conjugated copy
TOL = 1e-9

IMPORTS = ("From Coq Require Import List Arith Bool. "
           "From PTN Require Import TTN.Store TTN.Canon TTN.Inv Tree.RTree Evo.BUGStore. Import ListNotations.")


# ---- snapshots (run inside the worker that executes the real code) -------------------------------------------------
def snap(ttn):
    """everything observable about the structure, without side effects (no TensorDict.__getitem__); the raw arrays are
    copied for the value-level tie of the basis-change diagrams"""
    nodes = []
    for nid, nd in ttn.nodes.items():
        nodes.append([nid, nd.parent, list(nd.children), [int(x) for x in nd.leg_permutation], [int(x) for x in nd._shape],
                      nd.identifier])
    return {"nodes": nodes, "tkeys": list(ttn._tensors.data.keys()), "root": ttn.root_id,
            "centre": ttn.orthogonality_center_id,
            "tshapes": {k: [int(x) for x in v.shape] for k, v in ttn._tensors.data.items()},
            "raw": {k: np.array(v) for k, v in ttn._tensors.data.items()}}


def idnum(s):
    if s.endswith(BCS):
        return int(s[1:-len(BCS)]) + BCOFF
    return int(s[1:])


# ---- the literal store -------------------------------------------------------------------------------------------------
def literal_axes(sn):
    return _wires(sn)[0]


def store_literal(sn):
    """snapshot -> Coq `store` literal.  Wires: one per tree edge (named after the child), one per open
    leg; raw axis perm[j] of a node carries the wire of its logical leg j (parent, children in order, open legs)."""
    raw_axes, dims = _wires(sn)
    atom = {k: j for j, k in enumerate(sn["tkeys"])}
    nodes_c = coq_list(
        [f"({coq_nat(idnum(nid))}, {{| parent := {coq_opt(None if par is None else idnum(par), coq_nat)}; "
         f"children := {coq_list([idnum(c) for c in ch], coq_nat)}; perm := {coq_list(perm, coq_nat)}; "
         f"shape := {coq_list(shape, coq_nat)} |}})" for nid, par, ch, perm, shape, _ in sn["nodes"]], str)
    tens_c = coq_list(
        [f"({coq_nat(idnum(k))}, {{| axes := {coq_list(raw_axes[k], coq_nat)}; atoms := [{coq_nat(atom[k])}]; bnd := [] |}})"
         for k in sn["tkeys"]], str)
    dims_c = coq_list([f"({coq_nat(w)}, {coq_nat(d)})" for w, d in enumerate(dims)], str)
    atab_c = coq_list([f"({coq_nat(atom[k])}, {coq_list(raw_axes[k], coq_nat)})" for k in sn["tkeys"]], str)
    root_c = coq_opt(None if sn["root"] is None else idnum(sn["root"]), coq_nat)
    lit = (f"{{| nodes := {nodes_c}; tensors := {tens_c}; root := {root_c}; dims := {dims_c}; "
           f"next_wire := {coq_nat(len(dims))}; next_atom := {coq_nat(len(atom))}; defs := []; atab := {atab_c} |}}")
    return lit


def _wires(sn):
    wire = {}
    dims = []

    def fresh(d):
        dims.append(d)
        return len(dims) - 1
    raw_axes = {}
    # edge wires first (dimension read from the child's raw shape), then open legs in node dict order
    for nid, par, ch, perm, shape, _ in sn["nodes"]:
        if par is not None:
            wire[("edge", nid)] = fresh(shape[perm[0]])
    for nid, par, ch, perm, shape, _ in sn["nodes"]:
        logical = []
        if par is not None:
            logical.append(wire[("edge", nid)])
        for c in ch:
            logical.append(wire[("edge", c)])
        nv = len(logical)
        for j in range(nv, len(perm)):
            logical.append(fresh(shape[perm[j]]))
        raw = [None] * len(perm)
        for j, w in enumerate(logical):
            raw[perm[j]] = w
        if any(w is None for w in raw):
            raise ValueError(f"leg permutation of {nid} is not a permutation: {perm}")
        raw_axes[nid] = raw
    return raw_axes, dims


def visit_tree(events, root):
    """the order in which the recursion visited the children of every node, from the Enter / Leave events"""
    top = (root, [])
    stack = [top]
    for e in events:
        if not isinstance(e, (tuple, list)) or not e:
            continue
        if e[0] == "Enter":
            node = (int(e[1]), [])
            stack[-1][1].append(node)
            stack.append(node)
        elif e[0] == "Leave":
            stack.pop()
    return top


HIMPORTS = IMPORTS + " From PTN Require Evo.BUGStoreTotal."


def hyp_expr(sn0, events):
    """the executable checker of the hypotheses of the acceptance theorem (C09_store_step_accepts) on the caller's state"""
    t = visit_tree(events, idnum(sn0["root"]))
    centre = coq_opt(None if sn0["centre"] is None else idnum(sn0["centre"]), coq_nat)
    return (f"BUGStoreTotal.bug_hypb {coq_nat(BCOFF)} {coq_nat(RID)} {util.coq_rtree(t)} ({store_literal(sn0)}, {centre})")


def expr(fixed, sn0, events, fn="bug_case"):
    t = visit_tree(events, idnum(sn0["root"]))
    centre = coq_opt(None if sn0["centre"] is None else idnum(sn0["centre"]), coq_nat)
    return (f"{fn} {coq_bool(fixed)} {coq_nat(BCOFF)} {coq_nat(RID)} {coq_nat(WOFF)} {coq_nat(AOFF)} {util.coq_rtree(t)} "
            f"({store_literal(sn0)}, {centre})")


# ---- value-level tie of the basis-change diagrams --------------------------------------------------------------------------
def eval_open(summary, tables):
    """numeric value of a diagram with open axes: atoms with their wire tables, glued wires identified, bound wires summed;
    result axes in the order of `axes`"""
    axes, atoms, bnd, glue = summary
    parent = {}

    def find(w):
        parent.setdefault(w, w)
        while parent[w] != w:
            parent[w] = parent[parent[w]]
            w = parent[w]
        return w
    for a, b in glue:
        parent[find(a)] = find(b)
    lab = {}

    def L(w):
        r = find(w)
        if r not in lab:
            lab[r] = len(lab)
        return lab[r]
    args = []
    for a in atoms:
        val, ws = tables[a]
        if val.ndim != len(ws):
            raise ValueError(f"atom {a}: {val.ndim} axes, wire table has {len(ws)}")
        args += [val, [L(w) for w in ws]]
    out = [L(w) for w in axes]
    if len(lab) > 52 or len(set(out)) != len(out):
        return None
    return np.einsum(*args, out, optimize="greedy")


def check_bc(what, sn0, sn1, bcs, val):
    """compare every basis-change matrix the implementation computed with the value of the model's diagram evaluated on
    the caller's tensors (old bases) and the returned tensors (new bases).  -> (n checked, message or None)"""
    if isinstance(val, BaseException):
        return 0, f"{what}: model evaluation of the basis-change diagrams failed: {val}"
    if val is None or val == "None":
        return 0, f"{what}: the store model rejects the step"
    mtens, mvals = _unsome(val)
    # wire tables: caller's store (literal: atom j = raw tensor of tkeys[j]) and returned store (one atom per node)
    tables = {}
    lit_axes = literal_axes(sn0)
    for j, k in enumerate(sn0["tkeys"]):
        tables[j] = (sn0["raw"][k], lit_axes[k])
    names = {idnum(k): k for k in sn1["tkeys"]}
    for (k, axes, atoms, bnd) in mtens:
        if len(atoms) != 1 or bnd:
            return 0, f"{what}: tensor of node {k} in the model's returned store is not a single atom"
        tables[int(atoms[0]) + AOFF] = (np.conj(sn1["raw"][names[int(k)]]), [int(w) + WOFF for w in axes])
    seen = {}
    for (n, m) in bcs:
        seen[int(n)] = m
    count = 0
    for (k, summ) in mvals:
        k = int(k)
        if summ is None or summ == "None":
            if k in seen:
                return count, f"{what}: no model diagram for the basis-change matrix of node {k}"
            continue
        axes, atoms, bnd, glue = _unsome(summ)
        if k not in seen:
            return count, f"{what}: the implementation computed no basis-change matrix for node {k}"
        try:
            t = eval_open((list(axes), list(atoms), list(bnd), [tuple(p) for p in glue]), tables)
        except Exception as e:  # noqa
            return count, f"{what}: diagram of M_{k} cannot be evaluated on the captured tensors: {type(e).__name__}: {e}"
        if t is None:
            continue
        m = seen[k]
        if tuple(t.shape) != tuple(m.shape):
            return count, f"{what}: M_{k} has shape {m.shape}, the model diagram {t.shape}"
        err = float(np.max(np.abs(t - m))) / max(1.0, float(np.max(np.abs(m)))) if m.size else 0.0
        if not err <= TOL:
            return count, (f"{what}: basis-change matrix M_{k} differs from the value of the model diagram "
                           f"(old bases of the subtree contracted with the conjugated new bases) by {err:.3e}")
        count += 1
    return count, None


# ---- comparison -------------------------------------------------------------------------------------------------------
def _unsome(v):
    return v[1] if isinstance(v, tuple) and v and v[0] == "Some" else v


def check_one(what, sn1, val):
    """-> (obligations [(name, ok)], tie message or None)"""
    if isinstance(val, BaseException):
        return [("model evaluation", False)], f"{what}: model evaluation failed: {val}"
    wf0, res = val
    obl = [("wfb of the literal of the caller's state", wf0 is True)]
    if res is None or res == "None":
        return obl, f"{what}: the store model rejects the step (an assertion, shape check or wire equality fails) but the implementation completed"
    (mnodes, mtens, mroot, mcentre, iso, wf1, shp, bcok) = _unsome(res)       # nested pairs print left-flattened
    obl += [("iso_check of the model's returned store", iso is True), ("wfb of the model's returned store", wf1 is True),
            ("shape_root of Sched/BUG.v predicts the shapes of the store model's result (shapes_agree)", shp is True),
            ("hypothesis checker of the basis-change diagram theorem for every non-root node (bc_all_okb)", bcok is True)]
    inodes = [[idnum(n[0]), [idnum(n[1])] if n[1] is not None else [], [idnum(c) for c in n[2]], list(n[3]), list(n[4])]
              for n in sn1["nodes"]]
    for n in sn1["nodes"]:
        if n[0] != n[5]:
            return obl, f"{what}: node stored under key {n[0]} reports identifier {n[5]}"
    mn = [[int(k), [int(x) for x in par], [int(x) for x in ch], [int(x) for x in perm], [int(x) for x in shape]]
          for (k, par, ch, perm, shape) in mnodes]
    if inodes != mn:
        for x, y in zip(inodes, mn):
            if x != y:
                return obl, f"{what}: node record (id, parent, children, leg permutation, raw shape) differs: implementation {x} model {y}"
        return obl, f"{what}: node dictionary order/length differs: implementation {[n[0] for n in inodes]} model {[n[0] for n in mn]}"
    it = [[idnum(k), list(sn1["tshapes"][k])] for k in sn1["tkeys"]]
    mt = [[int(k), [int(x) for x in sh]] for (k, sh) in mtens]
    if it != mt:
        return obl, f"{what}: tensor dictionary (order, raw shapes) differs: implementation {it} model {mt}"
    ir = [idnum(sn1["root"])] if sn1["root"] is not None else []
    if ir != [int(x) for x in mroot]:
        return obl, f"{what}: root differs: implementation {ir} model {list(mroot)}"
    ic = [idnum(sn1["centre"])] if sn1["centre"] is not None else []
    if ic != [int(x) for x in mcentre]:
        return obl, f"{what}: recorded orthogonality centre differs: implementation {ic} model {list(mcentre)}"
    return obl, None


stats = {}


def run(ctx, cases, obs, limit=None):
    """hook for C09.model: evaluates the sampled steps, stores the first tie message of a case in ob['w_tie'].
    Returns (n_obligations, n_ok, failures)."""
    stats.clear()
    if limit is None:
        limit = ctx.scale(160, 1500)
    recs = []
    for c, ob in zip(cases, obs):
        if not isinstance(ob, dict) or "runs" not in ob:
            continue
        fixed = c["method"] == "fbug"
        for deep in (False, True):
            run_ = ob["runs"].get(deep)
            if not run_:
                continue
            for s, st in enumerate(run_["steps"]):
                sn0 = st.get("w0")
                sn1 = (st.get("aug") or {}).get("w1")
                if sn0 is None or sn1 is None or "exception" in st:
                    continue
                recs.append((ob, f"deep={deep} step {s}", fixed, sn0, sn1, st["events"], st.get("bcs") or []))
    # sample: every record up to the limit, spread over the cases (deterministic)
    if len(recs) > limit:
        stride = len(recs) / float(limit)
        recs = [recs[int(k * stride)] for k in range(limit)]
    exprs = []
    for (ob, what, fixed, sn0, sn1, events, bcs) in recs:
        try:
            exprs.append(expr(fixed, sn0, events))
        except Exception as e:  # noqa
            exprs.append(None)
            ob.setdefault("w_tie", f"store-level tie: {what}: cannot print the snapshot: {type(e).__name__}: {e}")
    good = [(r, e) for r, e in zip(recs, exprs) if e is not None]
    uniq = sorted(set(e for _, e in good))
    vals = dict(zip(uniq, coq_eval(ctx, IMPORTS, uniq, shard=max(4, len(uniq) // 14 + 1), scope="nat_scope", timeout=600)))
    # the hypotheses of the universal acceptance theorem (Evo/BUGStoreTotal.v) on the same states
    hexprs = [hyp_expr(r[3], r[5]) for r, _ in good]
    huniq = sorted(set(hexprs))
    hvals = dict(zip(huniq, coq_eval(ctx, HIMPORTS, huniq, shard=max(4, len(huniq) // 14 + 1), scope="nat_scope", timeout=600)))
    n = ok = 0
    fails = []
    for (r, e), he in zip(good, hexprs):
        (ob, what, fixed, sn0, sn1, events, bcs) = r
        try:
            obl, tie = check_one(what, sn1, vals[e])
        except Exception as ex:  # noqa
            obl, tie = [("model output shape", False)], f"{what}: cannot interpret the model output: {type(ex).__name__}: {ex}"
        obl = obl + [("hypotheses of the acceptance theorem C09_store_step_accepts hold for the caller's state (bug_hypb)",
                      hvals.get(he) is True)]
        if tie and not ob.get("w_tie"):
            ob["w_tie"] = "store-level tie: " + tie
        for name, g in obl:
            n += 1
            if g:
                ok += 1
            elif len(fails) < 5:
                fails.append(f"{name} is not true ({what})")
        ob["w_checked"] = ob.get("w_checked", 0) + 1
    # value-level tie of the basis-change diagrams on a subsample
    blimit = ctx.scale(48, 400)
    sub = [r for r, e in good]
    if len(sub) > blimit:
        stride = len(sub) / float(blimit)
        sub = [sub[int(k * stride)] for k in range(blimit)]
    bexprs = [expr(r[2], r[3], r[5], fn="bc_case") for r in sub]
    buniq = sorted(set(bexprs))
    bvals = dict(zip(buniq, coq_eval(ctx, IMPORTS, buniq, shard=max(4, len(buniq) // 14 + 1), scope="nat_scope", timeout=600)))
    nbc = 0
    for r, e in zip(sub, bexprs):
        (ob, what, fixed, sn0, sn1, events, bcs) = r
        try:
            cnt, msg = check_bc(what, sn0, sn1, bcs, bvals[e])
        except Exception as ex:  # noqa
            cnt, msg = 0, f"{what}: cannot interpret the basis-change diagrams: {type(ex).__name__}: {ex}"
        nbc += cnt
        if msg and not ob.get("w_tie"):
            ob["w_tie"] = "store-level tie: " + msg
    stats["bc matrices compared with their diagram"] = nbc
    # drop the bulky arrays
    for (ob, what, fixed, sn0, sn1, events, bcs) in recs:
        sn0.pop("raw", None)
        sn1.pop("raw", None)
    return n, ok, fails
